/-
C07 — thickness series are consistent with truncated simulations.

Statements are about `Multislice.multisliceAndDetect` (hand model of the loops of `multislice_and_detect`, kernels
`step`/`detect` uninterpreted) whose branch tests are the *generated* definitions of `Gen/ExitPlanes.lean`
(`mNoTable`, `mEntrance`, `aEntrance`, `aFlag`, `iSinglePlane`, `sPlaneAxis`, regenerated from abtem/multislice.py and
abtem/potentials/iam.py on every run).  Quantifiers: every `step`, `detect`, incident wave, slice sequence, ensemble-axis
flag and every exit-plane tuple of the documented form.
-/
import AbtemVerif.Lib.Multislice
import Mathlib.Tactic.Ring
namespace AbtemVerif.Props.C07
open AbtemVerif.Multislice AbtemVerif.ExitPlanes AbtemVerif.Gen.ExitPlanes
variable {W S M : Type}

/-- **C07 main theorem.**  For every step and detect kernel, every incident wave, every slice sequence and every exit-plane
tuple of the documented form (optional entrance plane, then strictly increasing slice indices inside the potential), with
or without an ensemble axis: the entry recorded for an exit plane after slice `q` is `detect` of the wave propagated through
exactly the slices `0..q`, and the entrance-plane entry is `detect` of the incident wave. -/
theorem exit_plane_result (step : W → S → W) (detect : W → M) (w0 : W) (p : Pot S) (ent : Bool) (ps : List Nat)
    (slices : List S) (hp : p.planes = natPlanes ent ps) (hc : p.configs = [slices]) (hn : p.nslices = slices.length)
    (hs : ps.Pairwise (· < ·)) (hb : ∀ q ∈ ps, q < slices.length) (hne : ent = true ∨ ps ≠ []) :
    ∃ out, multisliceAndDetect step detect w0 p = .ok out ∧
      (ent = true → out.get (measurementIndex p 0 0) = some (detect w0)) ∧
      ∀ (j : Nat) (hj : j < ps.length),
        out.get (measurementIndex p 0 (startIndex ent + j)) = some (detect (waveAt step w0 slices (ps[j] + 1))) := by
  obtain ⟨first, tl, hf⟩ : ∃ first tl, natPlanes ent ps = first :: tl := by
    cases ent
    · cases ps with
      | nil => simp at hne
      | cons q qs => exact ⟨_, _, rfl⟩
    · exact ⟨_, _, rfl⟩
  have hlen : p.planes.length = startIndex ent + ps.length := by rw [hp]; exact length_natPlanes ent ps
  have hpos : 1 ≤ startIndex ent + ps.length := by
    rcases hne with h | h
    · subst h; simp [startIndex]
    · have := List.length_pos_of_ne_nil h; omega
  have hrun := runConfig_spec step detect p ent ps first tl 0 w0 slices hp hf hs hb
  have hcfg : configLoop step detect p first w0 w0 0 p.configs
      = (slices.foldl step w0, configWrites step detect (measurementIndex p 0) ent ps w0 slices) := by
    rw [hc]; simp [configLoop, hrun]
  rw [msd_eq step detect w0 p first tl (hp.trans hf), hcfg]
  by_cases hfin : mNoTable (((extraShape p).foldl (· + ·) 0 : Nat) : Int) ((first :: tl).getLastD 0) (p.nslices : Int) = true
  · rw [if_pos hfin]
    refine ⟨_, rfl, ?_, ?_⟩
    all_goals
      obtain ⟨htot, hlast⟩ := (mNoTable_iff _ _ _).mp hfin
      rw [total_extraShape, hc, hlen] at htot
      simp only [sPlaneAxis, decide_eq_true_eq, List.length_cons, List.length_nil, Nat.zero_add] at htot
      have hens : p.ensAxis = true := by
        cases h : p.ensAxis with
        | true => rfl
        | false => rw [h] at htot; simp only [Bool.false_eq_true, if_false] at htot; split at htot <;> omega
      have hone : startIndex ent + ps.length = 1 := by
        rw [hens] at htot; simp only [if_true] at htot; split at htot <;> omega
      have hsingle : iSinglePlane (p.planes.length : Int) = true := by
        simp only [iSinglePlane, decide_eq_true_eq, hlen]; omega
      rw [← hf] at hlast
    · intro he
      rcases getLastD_natPlanes_single ent ps hone with ⟨_, hps, hl⟩ | ⟨he', _⟩
      · have hzero : slices.length = 0 := by rw [hl, hn] at hlast; omega
        have : slices = [] := List.eq_nil_of_length_eq_zero hzero
        simp [Out.get, measurementIndex, hens, hsingle, this]
      · rw [he] at he'; cases he'
    · intro j hj
      rcases getLastD_natPlanes_single ent ps hone with ⟨_, hps, _⟩ | ⟨_, q, hps, hl⟩
      · subst hps; simp at hj
      · subst hps
        have hj0 : j = 0 := by simpa using hj
        subst hj0
        have hq : q + 1 = slices.length := by rw [hl, hn] at hlast; omega
        simp [Out.get, measurementIndex, hens, hsingle, waveAt, hq]
  · rw [if_neg hfin]
    refine ⟨_, rfl, ?_, ?_⟩
    · intro he
      apply get_table
      · rw [keys_configWrites]; exact nodup_keys p 0 _ hlen
      · subst he; simp [configWrites]
    · intro j hj
      apply get_table
      · rw [keys_configWrites]; exact nodup_keys p 0 _ hlen
      · exact List.mem_append_right _ (mem_planeWrites step detect _ w0 slices ps _ j hj)


/-- The last exit plane, when it is the last slice, holds the full simulation. -/
theorem last_plane_is_full (step : W → S → W) (detect : W → M) (w0 : W) (p : Pot S) (ent : Bool) (ps : List Nat)
    (slices : List S) (hp : p.planes = natPlanes ent ps) (hc : p.configs = [slices]) (hn : p.nslices = slices.length)
    (hs : ps.Pairwise (· < ·)) (hb : ∀ q ∈ ps, q < slices.length) (hpos : 0 < ps.length)
    (hlast : ps[ps.length - 1] + 1 = slices.length) :
    ∃ out, multisliceAndDetect step detect w0 p = .ok out ∧
      out.get (measurementIndex p 0 (startIndex ent + (ps.length - 1))) = some (detect (slices.foldl step w0)) := by
  obtain ⟨out, h1, _, h3⟩ := exit_plane_result step detect w0 p ent ps slices hp hc hn hs hb
    (Or.inr (List.ne_nil_of_length_pos hpos))
  refine ⟨out, h1, ?_⟩
  rw [h3 (ps.length - 1) (by omega), hlast, waveAt, List.take_length]

/-- An entrance plane holds the detected incident wave. -/
theorem entrance_is_incident (step : W → S → W) (detect : W → M) (w0 : W) (p : Pot S) (ps : List Nat)
    (slices : List S) (hp : p.planes = natPlanes true ps) (hc : p.configs = [slices]) (hn : p.nslices = slices.length)
    (hs : ps.Pairwise (· < ·)) (hb : ∀ q ∈ ps, q < slices.length) :
    ∃ out, multisliceAndDetect step detect w0 p = .ok out ∧ out.get (measurementIndex p 0 0) = some (detect w0) := by
  obtain ⟨out, h1, h2, _⟩ := exit_plane_result step detect w0 p true ps slices hp hc hn hs hb (Or.inl rfl)
  exact ⟨out, h1, h2 rfl⟩

/-- `exit_planes=None`: one exit plane after the last slice. -/
theorem validate_none (n : Nat) (hn : 0 < n) :
    validateExitPlanes .none (n : Int) = .ok (natPlanes false [n - 1]) := by
  simp only [validateExitPlanes, vNonePlane, natPlanes, castList, Bool.false_eq_true, if_false, List.nil_append,
    List.map_cons, List.map_nil]
  congr 2
  simp only [Int.ofNat_eq_natCast]; omega

/-- an integer `exit_planes` not smaller than the number of slices: one exit plane after the last slice -/
theorem validate_int_large (k n : Nat) (hn : 0 < n) (hk : n ≤ k) :
    validateExitPlanes (.int (k : Int)) (n : Int) = .ok (natPlanes false [n - 1]) := by
  have : vTooLarge (k : Int) (n : Int) = true := by simp [vTooLarge]; omega
  simp only [validateExitPlanes, this, if_true, vTooLargePlane, natPlanes, castList, Bool.false_eq_true, if_false,
    List.nil_append, List.map_cons, List.map_nil]
  congr 2
  simp only [Int.ofNat_eq_natCast]; omega

/-! ### non-vacuity: the hypotheses of `exit_plane_result` are satisfiable, and the conclusion is the expected one on the
free (history) instance: `exit_planes=2` on 5 slices gives planes `(-1, 1, 3, 4)` -/
example : validateExitPlanes (.int 2) 5 = .ok (natPlanes true [1, 3, 4]) := by decide
example : (multisliceAndDetect hstep hdetect [] ⟨false, natPlanes true [1, 3, 4], 5, [[10, 11, 12, 13, 14]]⟩).toOption.bind
    (fun o => o.get [2]) = some [10, 11, 12, 13] := by decide
example : [1, 3, 4].Pairwise (· < ·) ∧ (∀ q ∈ [1, 3, 4], q < [10, 11, 12, 13, 14].length) := by decide

end AbtemVerif.Props.C07
