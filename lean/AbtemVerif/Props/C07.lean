/-
C07 — thickness series are consistent with truncated simulations.

Statements are about `Multislice.multisliceAndDetect` (hand model of the loops of `multislice_and_detect`, kernels
`step`/`detect` uninterpreted) whose branch tests are the *generated* definitions of `Gen/ExitPlanes.lean`
(`mNoTable`, `mEntrance`, `aEntrance`, `aFlag`, `iSinglePlane`, `sPlaneAxis`, regenerated from abtem/multislice.py and
abtem/potentials/iam.py on every run).  Quantifiers: every `step`, `detect`, incident wave, slice sequence, ensemble-axis
flag and every exit-plane tuple of the documented form.
-/
import AbtemVerif.Lib.Multislice
import Mathlib.Tactic.Ring
import Mathlib.Tactic.Linarith
namespace AbtemVerif.Props.C07
open AbtemVerif.Multislice AbtemVerif.ExitPlanes AbtemVerif.Gen.ExitPlanes
variable {W S M : Type}

/-- **C07 main theorem.**  For every step and detect kernel, every incident wave, every slice sequence and every exit-plane
tuple of the documented form (optional entrance plane, then strictly increasing slice indices inside the potential), with
or without an ensemble axis: the entry recorded for an exit plane after slice `q` is `detect` of the wave propagated through
exactly the slices `0..q`, and the entrance-plane entry is `detect` of the incident wave. -/
theorem exit_plane_result (step : W → S → W) (detect : W → M) (w0 : W) (p : Pot S) (ent : Bool) (ps : List Nat)
    (slices : List S) (hp : p.planes = natPlanes ent ps) (hc : p.configs = [slices]) (hn : p.nslices = slices.length)
    (hs : ps.Pairwise (· < ·)) (hb : ∀ q ∈ ps, q < slices.length) (hne : ent = true ∨ ps ≠ []) :
    ∃ out, multisliceAndDetect step detect w0 p = .ok out ∧
      (ent = true → out.get (measurementIndex p 0 0) = some (detect w0)) ∧
      ∀ (j : Nat) (hj : j < ps.length),
        out.get (measurementIndex p 0 (startIndex ent + j)) = some (detect (waveAt step w0 slices (ps[j] + 1))) := by
  obtain ⟨first, tl, hf⟩ : ∃ first tl, natPlanes ent ps = first :: tl := by
    cases ent
    · cases ps with
      | nil => simp at hne
      | cons q qs => exact ⟨_, _, rfl⟩
    · exact ⟨_, _, rfl⟩
  have hlen : p.planes.length = startIndex ent + ps.length := by rw [hp]; exact length_natPlanes ent ps
  have hpos : 1 ≤ startIndex ent + ps.length := by
    rcases hne with h | h
    · subst h; simp [startIndex]
    · have := List.length_pos_of_ne_nil h; omega
  have hrun := runConfig_spec step detect p ent ps first tl 0 w0 slices hp hf hs hb
  have hcfg : configLoop step detect p first w0 w0 0 p.configs
      = (slices.foldl step w0, configWrites step detect (measurementIndex p 0) ent ps w0 slices) := by
    rw [hc]; simp [configLoop, hrun, mReset]
  rw [msd_eq step detect w0 p first tl (hp.trans hf), hcfg]
  by_cases hfin : mNoTable (((extraShape p).foldl (· + ·) 0 : Nat) : Int) ((first :: tl).getLastD 0) (p.nslices : Int) = true
  · rw [if_pos hfin]
    refine ⟨_, rfl, ?_, ?_⟩
    all_goals
      obtain ⟨htot, hlast⟩ := (mNoTable_iff _ _ _).mp hfin
      rw [total_extraShape, hc, hlen] at htot
      simp only [sPlaneAxis, decide_eq_true_eq, List.length_cons, List.length_nil, Nat.zero_add] at htot
      have hens : p.ensAxis = true := by
        cases h : p.ensAxis with
        | true => rfl
        | false => rw [h] at htot; simp only [Bool.false_eq_true, if_false] at htot; split at htot <;> omega
      have hone : startIndex ent + ps.length = 1 := by
        rw [hens] at htot; simp only [if_true] at htot; split at htot <;> omega
      have hsingle : iSinglePlane (p.planes.length : Int) = true := by
        simp only [iSinglePlane, decide_eq_true_eq, hlen]; omega
      rw [← hf] at hlast
    · intro he
      rcases getLastD_natPlanes_single ent ps hone with ⟨_, hps, hl⟩ | ⟨he', _⟩
      · have hzero : slices.length = 0 := by rw [hl, hn] at hlast; omega
        have : slices = [] := List.eq_nil_of_length_eq_zero hzero
        simp [Out.get, measurementIndex, iNoEns, hens, hsingle, this]
      · rw [he] at he'; cases he'
    · intro j hj
      rcases getLastD_natPlanes_single ent ps hone with ⟨_, hps, _⟩ | ⟨_, q, hps, hl⟩
      · subst hps; simp at hj
      · subst hps
        have hj0 : j = 0 := by simpa using hj
        subst hj0
        have hq : q + 1 = slices.length := by rw [hl, hn] at hlast; omega
        simp [Out.get, measurementIndex, iNoEns, hens, hsingle, waveAt, hq]
  · rw [if_neg hfin]
    refine ⟨_, rfl, ?_, ?_⟩
    · intro he
      apply get_table
      · rw [keys_configWrites]; exact nodup_keys p 0 _ hlen
      · subst he; simp [configWrites]
    · intro j hj
      apply get_table
      · rw [keys_configWrites]; exact nodup_keys p 0 _ hlen
      · exact List.mem_append_right _ (mem_planeWrites step detect _ w0 slices ps _ j hj)


/-- The last exit plane, when it is the last slice, holds the full simulation. -/
theorem last_plane_is_full (step : W → S → W) (detect : W → M) (w0 : W) (p : Pot S) (ent : Bool) (ps : List Nat)
    (slices : List S) (hp : p.planes = natPlanes ent ps) (hc : p.configs = [slices]) (hn : p.nslices = slices.length)
    (hs : ps.Pairwise (· < ·)) (hb : ∀ q ∈ ps, q < slices.length) (hpos : 0 < ps.length)
    (hlast : ps[ps.length - 1] + 1 = slices.length) :
    ∃ out, multisliceAndDetect step detect w0 p = .ok out ∧
      out.get (measurementIndex p 0 (startIndex ent + (ps.length - 1))) = some (detect (slices.foldl step w0)) := by
  obtain ⟨out, h1, _, h3⟩ := exit_plane_result step detect w0 p ent ps slices hp hc hn hs hb
    (Or.inr (List.ne_nil_of_length_pos hpos))
  refine ⟨out, h1, ?_⟩
  rw [h3 (ps.length - 1) (by omega), hlast, waveAt, List.take_length]

/-- An entrance plane holds the detected incident wave. -/
theorem entrance_is_incident (step : W → S → W) (detect : W → M) (w0 : W) (p : Pot S) (ps : List Nat)
    (slices : List S) (hp : p.planes = natPlanes true ps) (hc : p.configs = [slices]) (hn : p.nslices = slices.length)
    (hs : ps.Pairwise (· < ·)) (hb : ∀ q ∈ ps, q < slices.length) :
    ∃ out, multisliceAndDetect step detect w0 p = .ok out ∧ out.get (measurementIndex p 0 0) = some (detect w0) := by
  obtain ⟨out, h1, h2, _⟩ := exit_plane_result step detect w0 p true ps slices hp hc hn hs hb (Or.inl rfl)
  exact ⟨out, h1, h2 rfl⟩

/-- `exit_planes=None`: one exit plane after the last slice. -/
theorem validate_none (n : Nat) (hn : 0 < n) :
    validateExitPlanes .none (n : Int) = .ok (natPlanes false [n - 1]) := by
  simp only [validateExitPlanes, vNonePlane, natPlanes, castList, Bool.false_eq_true, if_false, List.nil_append,
    List.map_cons, List.map_nil]
  congr 2
  simp only [Int.ofNat_eq_natCast]; omega

/-- an integer `exit_planes` not smaller than the number of slices: one exit plane after the last slice -/
theorem validate_int_large (k n : Nat) (hn : 0 < n) (hk : n ≤ k) :
    validateExitPlanes (.int (k : Int)) (n : Int) = .ok (natPlanes false [n - 1]) := by
  have : vTooLarge (k : Int) (n : Int) = true := by simp [vTooLarge]; omega
  simp only [validateExitPlanes, this, if_true, vTooLargePlane, natPlanes, castList, Bool.false_eq_true, if_false,
    List.nil_append, List.map_cons, List.map_nil]
  congr 2
  simp only [Int.ofNat_eq_natCast]; omega

/-- **The loop never indexes outside the allocated table**: for every configuration index and exit index in range the
measurement index has as many components as the allocated ensemble shape, each below its dimension (the index order —
configuration, then exit plane — is the order of the allocated axes). -/
theorem exit_index_in_range (p : Pot S) (c e : Nat) (hc : c < p.configs.length) (he : e < p.planes.length) :
    List.Forall₂ (· < ·) (measurementIndex p c e) (extraShape p) := by
  unfold measurementIndex extraShape iSinglePlane sPlaneAxis iNoEns
  have hpos : 0 < p.planes.length := by omega
  by_cases h1 : p.planes.length = 1
  · have hnot : ¬ ((p.planes.length : Int) > 1) := by omega
    have hone : ((p.planes.length : Int) = 1) := by omega
    cases p.ensAxis <;> simp [hone, hnot, hc]
  · have hgt : ((p.planes.length : Int) > 1) := by omega
    have hne : ¬ ((p.planes.length : Int) = 1) := by omega
    cases p.ensAxis <;> simp [hne, hgt, hc, he]

/-! ### explicit exit-plane tuples: accepted ⇒ documented form -/

theorem notIncreasing_false_iff (l : List Int) : notIncreasing l = false ↔ l.Pairwise (· < ·) := by
  induction l with
  | nil => simp [notIncreasing]
  | cons a rest ih =>
    cases rest with
    | nil => simp [notIncreasing]
    | cons b rest' =>
      simp only [notIncreasing, Bool.or_eq_false_iff, decide_eq_false_iff_not, not_le, ih]
      constructor
      · rintro ⟨hab, hp⟩
        rw [List.pairwise_cons]
        refine ⟨?_, hp⟩
        intro c hc
        rcases List.mem_cons.mp hc with rfl | hc'
        · exact hab
        · exact lt_trans hab ((List.pairwise_cons.mp hp).1 c hc')
      · intro h
        exact ⟨(List.pairwise_cons.mp h).1 b (by simp), (List.pairwise_cons.mp h).2⟩

/-- a strictly increasing integer list with first element ≥ −1 is an optional −1 followed by natural numbers -/
theorem documented_form_of_sorted (l : List Int) (hs : l.Pairwise (· < ·)) (hlo : ∀ x ∈ l, -1 ≤ x) :
    ∃ ent ps, l = natPlanes ent ps ∧ ps.Pairwise (· < ·) := by
  have key : ∀ m : List Int, m.Pairwise (· < ·) → (∀ x ∈ m, 0 ≤ x) → ∃ ps : List Nat, m = castList ps ∧ ps.Pairwise (· < ·) := by
    intro m
    induction m with
    | nil => intro _ _; exact ⟨[], rfl, List.Pairwise.nil⟩
    | cons a m ih =>
      intro hp hnn
      obtain ⟨ps, rfl, hps⟩ := ih (List.pairwise_cons.mp hp).2 (fun x hx => hnn x (by simp [hx]))
      have ha : 0 ≤ a := hnn a (by simp)
      refine ⟨a.toNat :: ps, ?_, ?_⟩
      · simp only [castList, List.map_cons]; congr 1
        simp only [Int.ofNat_eq_natCast]; omega
      · rw [List.pairwise_cons]
        refine ⟨?_, hps⟩
        intro q hq
        have := (List.pairwise_cons.mp hp).1 (Int.ofNat q) (List.mem_map.mpr ⟨q, hq, rfl⟩)
        simp only [Int.ofNat_eq_natCast] at this; omega
  cases l with
  | nil => exact ⟨false, [], rfl, List.Pairwise.nil⟩
  | cons a rest =>
    by_cases ha : a = -1
    · subst ha
      have hrest : ∀ x ∈ rest, 0 ≤ x := fun x hx => by
        have := (List.pairwise_cons.mp hs).1 x hx; omega
      obtain ⟨ps, rfl, hps⟩ := key rest (List.pairwise_cons.mp hs).2 hrest
      exact ⟨true, ps, rfl, hps⟩
    · have hall : ∀ x ∈ a :: rest, 0 ≤ x := by
        intro x hx
        rcases List.mem_cons.mp hx with rfl | hx'
        · have := hlo x (by simp); omega
        · have h1 := (List.pairwise_cons.mp hs).1 x hx'
          have := hlo a (by simp); omega
      obtain ⟨ps, hps, hsorted⟩ := key (a :: rest) hs hall
      exact ⟨false, ps, by simpa [natPlanes] using hps, hsorted⟩


theorem headD_le_of_sorted (l : List Int) (hs : l.Pairwise (· < ·)) : ∀ x ∈ l, l.headD 0 ≤ x := by
  cases l with
  | nil => simp
  | cons a rest =>
    intro x hx
    rcases List.mem_cons.mp hx with rfl | hx'
    · simp
    · exact le_of_lt ((List.pairwise_cons.mp hs).1 x hx')

theorem le_getLastD_of_sorted (l : List Int) (hs : l.Pairwise (· < ·)) : ∀ x ∈ l, x ≤ l.getLastD 0 := by
  induction l with
  | nil => simp
  | cons a rest ih =>
    intro x hx
    cases rest with
    | nil => simp at hx; subst hx; simp
    | cons b rest' =>
      have hrest := ih (List.pairwise_cons.mp hs).2
      have hlast : (a :: b :: rest').getLastD 0 = (b :: rest').getLastD 0 := by simp [List.getLastD]
      rw [hlast]
      rcases List.mem_cons.mp hx with rfl | hx'
      · exact le_trans (le_of_lt ((List.pairwise_cons.mp hs).1 b (by simp))) (hrest b (by simp))
      · exact hrest x hx'

/-- **Every explicit exit-plane tuple that `_validate_exit_planes` accepts has the documented form** (optional entrance
plane −1, then strictly increasing slice indices inside the potential) — so `exit_plane_result`, `last_plane_is_full`,
`thickness_axis_eq_prefix_sums` … cover every accepted explicit tuple; every other tuple is rejected with a ValueError. -/
theorem accepted_tuple_documented_form (l : List Int) (n : Nat) (hne : l ≠ []) :
    (validateExitPlanes (.tuple l) (n : Int) = .error "value_error") ∨
    (validateExitPlanes (.tuple l) (n : Int) = .ok l ∧
      ∃ ent ps, l = natPlanes ent ps ∧ ps.Pairwise (· < ·) ∧ (∀ q ∈ ps, q < n) ∧ (ent = true ∨ ps ≠ [])) := by
  unfold validateExitPlanes
  by_cases hrej : tupleRejected l (n : Int) = true
  · left; simp [hrej]
  · right
    have hrej' : tupleRejected l (n : Int) = false := by simpa using hrej
    refine ⟨by simp [hrej'], ?_⟩
    have hlen : 0 < l.length := List.length_pos_of_ne_nil hne
    simp only [tupleRejected, Bool.or_eq_false_iff, Bool.and_eq_false_iff, decide_eq_false_iff_not, not_lt, not_le,
      hlen, not_true_eq_false, false_or] at hrej'
    obtain ⟨hinc, hhead, hlast⟩ := hrej'
    have hs := (notIncreasing_false_iff l).mp hinc
    have hlo : ∀ x ∈ l, -1 ≤ x := fun x hx => le_trans hhead (headD_le_of_sorted l hs x hx)
    have hhi : ∀ x ∈ l, x < (n : Int) := fun x hx => lt_of_le_of_lt (le_getLastD_of_sorted l hs x hx) hlast
    obtain ⟨ent, ps, rfl, hps⟩ := documented_form_of_sorted l hs hlo
    refine ⟨ent, ps, rfl, hps, ?_, ?_⟩
    · intro q hq
      have : (Int.ofNat q) ∈ natPlanes ent ps := by
        unfold natPlanes castList; exact List.mem_append_right _ (List.mem_map.mpr ⟨q, hq, rfl⟩)
      have := hhi _ this
      simp only [Int.ofNat_eq_natCast] at this; omega
    · cases ent
      · right; intro h; subst h; simp [natPlanes, castList] at hne
      · left; rfl

/-! ### slice windows (`_exit_planes_of_selection`, /repo a0fdb9e2) -/

/-- a window `[0, b)` of a potential whose single exit plane is its last slice gets no inherited plane (hence the default: the
last slice of the window) — before a0fdb9e2 it kept the parent's plane, which never fired (former known finding
`window-of-potential-array-records-nothing`) -/
theorem window_of_default_planes (n b : Nat) (hb : b < n) : windowPlanes [((n : Int) - 1)] 0 b = none := by
  have h1 : ¬ ((n : Int) - 1 < (b : Int)) := by omega
  have h2 : ¬ ((n : Int) - 1 = -1) := by omega
  simp [windowPlanes, h1, h2]

/-- the multislice through such a window records the run through exactly the slices of the window -/
theorem window_records_truncated_run (step : W → S → W) (detect : W → M) (w0 : W) (slices : List S) (hpos : 0 < slices.length) :
    ∃ out, multisliceAndDetect step detect w0 ⟨false, natPlanes false [slices.length - 1], slices.length, [slices]⟩ = .ok out ∧
      out.get [] = some (detect (slices.foldl step w0)) := by
  obtain ⟨out, h1, h2⟩ := last_plane_is_full step detect w0
    ⟨false, natPlanes false [slices.length - 1], slices.length, [slices]⟩ false [slices.length - 1] slices rfl rfl rfl
    (by simp) (by intro q hq; simp at hq; omega) (by simp) (by simp; omega)
  refine ⟨out, h1, ?_⟩
  simpa [measurementIndex, iNoEns, iSinglePlane, natPlanes, castList, startIndex] using h2

/-! ### integer exit planes (`_validate_exit_planes` with an int) -/

/-- the slice indices selected by an integer `exit_planes = k` on `n` slices: every `k`-th slice, then the last one -/
def everyKth (k n : Nat) : List Nat :=
  ((List.range (n / k)).map fun j => (j + 1) * k - 1) ++ (if n % k = 0 then [] else [n - 1])

theorem rangeCount_every (k n : Nat) : rangeCount ((k : Int) - 1) (n : Int) (k : Int) = n / k := by
  unfold rangeCount
  have : (n : Int) - ((k : Int) - 1) + (k : Int) - 1 = (n : Int) := by ring
  rw [this]
  have : ((n : Int) / (k : Int)) = ((n / k : Nat) : Int) := by norm_cast
  rw [this, Int.toNat_natCast]

theorem range_every_cast (k m : Nat) (hk : 0 < k) :
    ((List.range m).map fun (j : Nat) => ((k : Int) - 1) + (j : Int) * (k : Int))
      = castList ((List.range m).map fun j => (j + 1) * k - 1) := by
  unfold castList
  rw [List.map_map]
  apply List.map_congr_left
  intro j _
  simp only [Function.comp]
  have h1 : (j + 1) * k = j * k + k := by ring
  rw [h1]
  have : (Int.ofNat (j * k + k - 1)) = ((j * k : Nat) : Int) + (k : Int) - 1 := by
    generalize j * k = m
    simp only [Int.ofNat_eq_natCast]; omega
  rw [this]; push_cast; ring

theorem getLast?_range_map {β : Type} (f : Nat → β) (m : Nat) (hm : 0 < m) :
    ((List.range m).map f).getLast? = some (f (m - 1)) := by
  obtain ⟨m', rfl⟩ : ∃ m', m = m' + 1 := ⟨m - 1, by omega⟩
  rw [List.range_succ, List.map_append]
  simp

/-- **closed form of integer exit planes**: `exit_planes = k` with `0 < k < n` gives the entrance plane, every `k`-th
slice, and the last slice. -/
theorem validate_int_shape (k n : Nat) (hk : 0 < k) (hkn : k < n) :
    validateExitPlanes (.int (k : Int)) (n : Int) = .ok (natPlanes true (everyKth k n)) := by
  have hcnt : 0 < n / k := Nat.div_pos (le_of_lt hkn) hk
  have hlarge : vTooLarge (k : Int) (n : Int) = false := by simp [vTooLarge]; omega
  have hstep0 : ¬ ((k : Int) = 0) := by omega
  have hstep : (k : Int) > 0 := by omega
  simp only [validateExitPlanes, hlarge, Bool.false_eq_true, if_false, vRangeStart, vRangeStop, vRangeStep, pyRange,
    hstep0, hstep, if_true, rangeCount_every k n]
  rw [getLast?_range_map _ _ hcnt]
  simp only [vLastMissing, vAppended]
  have hdm : n = k * (n / k) + n % k := (Nat.div_add_mod n k).symm
  have hlast : ((k : Int) - 1 + ((n / k - 1 : Nat) : Int) * (k : Int)) = ((k * (n / k) : Nat) : Int) - 1 := by
    have : ((n / k - 1 : Nat) : Int) = ((n / k : Nat) : Int) - 1 := by omega
    rw [this]; push_cast; ring
  rw [hlast, range_every_cast k (n / k) hk]
  by_cases hmod : n % k = 0
  · have heq : k * (n / k) = n := by omega
    have : ¬ (((k * (n / k) : Nat) : Int) - 1 ≠ (n : Int) - 1) := by rw [heq]; simp
    simp only [this, decide_false, Bool.false_eq_true, if_false, everyKth, hmod, if_true, List.append_nil, natPlanes,
      List.cons_append, List.nil_append]
  · have hne : k * (n / k) ≠ n := by omega
    have : (((k * (n / k) : Nat) : Int) - 1 ≠ (n : Int) - 1) := by
      intro h; apply hne; omega
    have hdec : decide (((k * (n / k) : Nat) : Int) - 1 ≠ (n : Int) - 1) = true := decide_eq_true this
    simp only [hdec, if_true, everyKth, hmod, if_false, natPlanes, List.cons_append, List.nil_append,
      castList, List.map_append, List.map_cons, List.map_nil]
    have hn1 : Int.ofNat (n - 1) = (n : Int) - 1 := by simp only [Int.ofNat_eq_natCast]; omega
    rw [hn1]


theorem everyKth_mem_le (k n : Nat) (q : Nat) (hq : q ∈ (List.range (n / k)).map fun j => (j + 1) * k - 1) :
    q + 1 ≤ (n / k) * k ∧ 0 < (n / k) * k := by
  obtain ⟨j, hj, rfl⟩ := List.mem_map.mp hq
  have hj' : j + 1 ≤ n / k := List.mem_range.mp hj
  have h1 : (j + 1) * k ≤ (n / k) * k := Nat.mul_le_mul_right k hj'
  by_cases hk : k = 0
  · subst hk; simp at hj
  · have : 0 < (j + 1) * k := Nat.mul_pos (by omega) (by omega)
    omega

theorem everyKth_lt (k n : Nat) : ∀ q ∈ everyKth k n, q < n := by
  intro q hq
  have hle : (n / k) * k ≤ n := Nat.div_mul_le_self n k
  rcases List.mem_append.mp hq with h | h
  · have := everyKth_mem_le k n q h; omega
  · by_cases hmod : n % k = 0
    · simp [hmod] at h
    · simp only [hmod, if_false, List.mem_singleton] at h
      have : 0 < n := by
        by_contra h0; have : n = 0 := by omega
        subst this; simp at hmod
      omega

theorem everyKth_sorted (k n : Nat) (hk : 0 < k) : (everyKth k n).Pairwise (· < ·) := by
  unfold everyKth
  rw [List.pairwise_append]
  refine ⟨?_, ?_, ?_⟩
  · rw [List.pairwise_map]
    apply List.Pairwise.imp _ (List.pairwise_lt_range (n := n / k))
    intro a b hab
    have : (a + 1) * k < (b + 1) * k := Nat.mul_lt_mul_of_pos_right (by omega) hk
    have : 0 < (a + 1) * k := Nat.mul_pos (by omega) hk
    omega
  · by_cases hmod : n % k = 0 <;> simp [hmod]
  · intro a ha b hb
    by_cases hmod : n % k = 0
    · simp [hmod] at hb
    · simp only [hmod, if_false, List.mem_singleton] at hb
      subst hb
      have h1 := everyKth_mem_le k n a ha
      have h2 : n = k * (n / k) + n % k := (Nat.div_add_mod n k).symm
      have h3 : (n / k) * k = k * (n / k) := Nat.mul_comm _ _
      omega

theorem everyKth_last (k n : Nat) (hk : 0 < k) (hkn : k ≤ n) : (everyKth k n).getLast? = some (n - 1) := by
  unfold everyKth
  by_cases hmod : n % k = 0
  · have hcnt : 0 < n / k := Nat.div_pos hkn hk
    simp only [hmod, if_true, List.append_nil]
    rw [getLast?_range_map _ _ hcnt]
    have h2 : n = k * (n / k) + n % k := (Nat.div_add_mod n k).symm
    have h3 : (n / k - 1 + 1) * k = k * (n / k) := by
      rw [Nat.sub_add_cancel hcnt, Nat.mul_comm]
    rw [h3]; congr 1; omega
  · simp [hmod]

/-- Integer exit planes satisfy the hypotheses of `exit_plane_result`, and their last plane is the last slice: a thickness
series requested with `exit_planes = k` records the incident wave, the truncated runs after every `k`-th slice, and the
full run. -/
theorem int_exit_planes_valid (k n : Nat) (hk : 0 < k) (hkn : k < n) :
    validateExitPlanes (.int (k : Int)) (n : Int) = .ok (natPlanes true (everyKth k n)) ∧
      (everyKth k n).Pairwise (· < ·) ∧ (∀ q ∈ everyKth k n, q < n) ∧ (everyKth k n).getLast? = some (n - 1) :=
  ⟨validate_int_shape k n hk hkn, everyKth_sorted k n hk, everyKth_lt k n, everyKth_last k n hk (le_of_lt hkn)⟩

/-! ### the thickness axis (`BaseField.exit_thicknesses`) -/

theorem cumsumFrom_getElem? (acc : Rat) (ts : List Rat) (i : Nat) (hi : i < ts.length) :
    (cumsumFrom acc ts)[i]? = some (acc + (ts.take (i + 1)).sum) := by
  induction ts generalizing acc i with
  | nil => simp at hi
  | cons t ts ih =>
    cases i with
    | zero => simp [cumsumFrom]
    | succ i =>
      simp only [cumsumFrom, List.getElem?_cons_succ, List.take_succ_cons, List.sum_cons]
      rw [ih (acc + t) i (by simpa using hi)]
      congr 1; ring

theorem length_cumsumFrom (acc : Rat) (ts : List Rat) : (cumsumFrom acc ts).length = ts.length := by
  induction ts generalizing acc with
  | nil => rfl
  | cons t ts ih => simp [cumsumFrom, ih]

/-- cumulative thickness after slice `q` -/
def depthAfter (thickness : List Rat) (q : Nat) : Rat := (thickness.take (q + 1)).sum

theorem pyIndex_cumsum_nat (thickness : List Rat) (q : Nat) (hq : q < thickness.length) :
    pyIndex (cumsum thickness) (q : Int) = .ok (depthAfter thickness q) := by
  unfold pyIndex cumsum
  have h0 : ¬ ((q : Int) < 0) := by omega
  simp only [h0, if_false, Int.toNat_natCast]
  rw [cumsumFrom_getElem? 0 thickness q hq]
  simp [depthAfter]

theorem mapM_ok_of {α β : Type} (f : α → Except String β) (g : α → β) (l : List α) (h : ∀ x ∈ l, f x = .ok (g x)) :
    l.mapM f = .ok (l.map g) := by
  induction l with
  | nil => rfl
  | cons x xs ih =>
    rw [List.mapM_cons, h x (by simp), ih (fun y hy => h y (by simp [hy]))]
    rfl

theorem mapM_pyIndex (thickness : List Rat) (ps : List Nat) (hb : ∀ q ∈ ps, q < thickness.length) :
    (castList ps).mapM (pyIndex (cumsum thickness)) = .ok ((castList ps).map fun q => depthAfter thickness q.toNat) := by
  apply mapM_ok_of
  intro x hx
  obtain ⟨q, hq, rfl⟩ := List.mem_map.mp hx
  exact pyIndex_cumsum_nat thickness q (hb q hq)

/-- **The thickness axis lists the cumulative thickness of each exit plane** (0 for the entrance plane), for every slice
thickness sequence and every exit-plane tuple of the documented form. -/
theorem thickness_axis_eq_prefix_sums (thickness : List Rat) (ent : Bool) (ps : List Nat)
    (hb : ∀ q ∈ ps, q < thickness.length) (hpos : 0 < thickness.length) (hne : ent = true ∨ ps ≠ []) :
    exitThicknesses (natPlanes ent ps) thickness
      = .ok ((if ent then [0] else []) ++ ps.map (depthAfter thickness)) := by
  have hmap : (castList ps).map (fun q => depthAfter thickness q.toNat) = ps.map (depthAfter thickness) := by
    simp [castList, List.map_map, Function.comp_def]
  cases ent
  · cases ps with
    | nil => simp at hne
    | cons q qs =>
      have hm := mapM_pyIndex thickness (q :: qs) hb
      have hq : ¬ ((Int.ofNat q) = -1) := by simp
      simp only [exitThicknesses, natPlanes, Bool.false_eq_true, if_false, List.nil_append, hm]
      simp only [castList, List.map_cons, tEntrance, hq, decide_false, Bool.false_eq_true, if_false]
      simp [depthAfter, Function.comp_def]
  · have hm := mapM_pyIndex thickness ps hb
    have hlast : pyIndex (cumsum thickness) (-1) = .ok ((cumsum thickness).getLastD 0) := by
      unfold pyIndex cumsum
      have hl : (cumsumFrom 0 thickness).length = thickness.length := length_cumsumFrom 0 thickness
      simp only [show ((-1 : Int) < 0) from by omega, if_true, hl]
      have h2 : ¬ ((-1 : Int) + (thickness.length : Int) < 0) := by omega
      simp only [h2, if_false]
      have h3 : ((-1 : Int) + (thickness.length : Int)).toNat = thickness.length - 1 := by omega
      rw [h3]
      have h4 : thickness.length - 1 < (cumsumFrom 0 thickness).length := by omega
      rw [List.getElem?_eq_getElem h4]
      simp only
      congr 1
      rw [List.getLastD_eq_getLast?, List.getLast?_eq_getElem?, hl, List.getElem?_eq_getElem h4]; rfl
    simp only [exitThicknesses, natPlanes, if_true, List.cons_append, List.nil_append, List.mapM_cons, hlast, hm]
    simp [tEntrance, hmap, bind, Except.bind, pure, Except.pure]

/-- the thickness axis has one value per exit plane -/
theorem thickness_axis_length (thickness : List Rat) (ent : Bool) (ps : List Nat)
    (hb : ∀ q ∈ ps, q < thickness.length) (hpos : 0 < thickness.length) (hne : ent = true ∨ ps ≠ []) :
    ∃ vals, exitThicknesses (natPlanes ent ps) thickness = .ok vals ∧ vals.length = (natPlanes ent ps).length := by
  refine ⟨_, thickness_axis_eq_prefix_sums thickness ent ps hb hpos hne, ?_⟩
  rw [length_natPlanes]; cases ent <;> simp [startIndex, Nat.add_comm]

/-! ### non-vacuity: the hypotheses of `exit_plane_result` are satisfiable, and the conclusion is the expected one on the
free (history) instance: `exit_planes=2` on 5 slices gives planes `(-1, 1, 3, 4)` -/
example : validateExitPlanes (.int 2) 5 = .ok (natPlanes true [1, 3, 4]) := by decide
example : validateExitPlanes (.tuple [2, 0]) 3 = .error "value_error" := by decide
example : validateExitPlanes (.tuple [0, 0, 2]) 3 = .error "value_error" := by decide
example : validateExitPlanes (.tuple [-1, 0, 2]) 3 = .ok [-1, 0, 2] := by decide
example : validateExitPlanes (.tuple [1, 50]) 3 = .error "value_error" := by decide
example : windowPlanes [-1, 1, 3, 4] 1 4 = some [0, 2] := by decide
example : windowPlanes [-1, 1, 3, 4] 0 2 = some [-1, 1] := by decide
example : (multisliceAndDetect hstep hdetect [] ⟨false, natPlanes true [1, 3, 4], 5, [[10, 11, 12, 13, 14]]⟩).toOption.bind
    (fun o => o.get [2]) = some [10, 11, 12, 13] := by decide
example : [1, 3, 4].Pairwise (· < ·) ∧ (∀ q ∈ [1, 3, 4], q < [10, 11, 12, 13, 14].length) := by decide

example : exitThicknesses (natPlanes true [1, 3]) [1, 1/2, 1/2, 2] = .ok [0, 3/2, 4] := by decide +kernel

end AbtemVerif.Props.C07
