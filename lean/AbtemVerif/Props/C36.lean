/-
C36 — Distributions have the values and weights they advertise.

Statements are about `AbtemVerif.Distributions.*` (Model/Distributions.lean).  The arguments `uniform` and `gaussian`
hand to `numpy.linspace` and the Gaussian weight profile are generated from abtem/distributions.py on every run
(`Gen/Distributions.lean` exact, `Gen/DistributionsR.lean` over ℝ, `Gen/DistributionsF.lean` executed and compared with
numpy); `numpy.linspace` is `Np.linspace` (Lib/Linspace.lean); block slicing is `Partition.splitBy` (Lib/Partition.lean).
The two normalisation lines (`weights /= sqrt((weights**2).sum())`, `weights /= weights.sum()`) are modelled by
`normIntensity` / `normAmplitude` below (ℝ) and by `gaussianWeightsF` (Float, executed).
-/
import AbtemVerif.Model.Distributions
import AbtemVerif.Gen.DistributionsR
import AbtemVerif.Lib.Linspace
import AbtemVerif.Lib.Partition
import Mathlib.Analysis.SpecialFunctions.Exp
import Mathlib.Analysis.SpecialFunctions.Sqrt

namespace AbtemVerif.Props.C36
open AbtemVerif.Distributions AbtemVerif.Np AbtemVerif.Partition AbtemVerif.Gen.Distributions

/-! ### uniform -/

/-- **`uniform(low, high, n, endpoint)`**: exactly `n` values `low + i·step` with `step = (high − low)/(n − 1)`
(`/n` without endpoint; `numpy.linspace` semantics incl. `n = 0, 1`), all weights `1`. -/
theorem uniform_spec (low high : Rat) (n : Nat) (e em : Bool) :
    uniform low high (n : Int) e em = .ok
      { values := (List.range n).map fun (i : Nat) => low + (i : Rat) * linspaceStep low high n e,
        weights := List.replicate n 1, ensembleMean := em } := by
  unfold uniform uniformStart uniformStop uniformNum uniformEndpoint
  rw [linspaceI_nonneg, linspace_eq_map]
  simp [Except.map]

/-- a negative number of samples is rejected (ValueError from numpy) -/
theorem uniform_negative (low high : Rat) (n : Int) (e em : Bool) (h : n < 0) :
    (uniform low high n e em).toOption.isNone = true := by
  unfold uniform uniformNum
  rw [linspaceI_neg _ _ _ _ h]; rfl

/-- with endpoint and at least two samples the last value is `high`; the first is always `low` -/
theorem uniform_ends (low high : Rat) (n : Nat) (hn : 2 ≤ n) :
    low + ((0 : Nat) : Rat) * linspaceStep low high n true = low ∧
    low + ((n - 1 : Nat) : Rat) * linspaceStep low high n true = high := by
  constructor
  · simp
  · have h := linspace_last_endpoint low high n hn
    rw [linspace_getElem] at h
    exact h

/-! ### gaussian: values -/

/-- the sample values of a Gaussian factor (model of the list `gaussian` builds) -/
def gaussValuesList (sigma limit center : Rat) (n : Nat) : List Rat :=
  if n = 1 then [center] else linspace (center - sigma * limit) (center + sigma * limit) n true

/-- the values of a Gaussian factor are `numpy.linspace(c − σ·L, c + σ·L, n)` (endpoint included), except that a single
sample sits at the centre (repaired in /repo 64524996: `linspace` with one sample returned the lower limit `c − σ·L`) -/
theorem gaussian_values_spec (sigma limit center : Rat) (n : Nat) :
    gaussianValues sigma limit center (n : Int) = .ok (gaussValuesList sigma limit center n) := by
  unfold gaussianValues gaussSingle gaussLow gaussHigh gaussNum gaussValuesList
  by_cases h1 : n = 1
  · subst h1; simp
  · have : ¬ ((n : Int) = 1) := by omega
    simp only [this, decide_false, Bool.false_eq_true, if_false, h1]
    rw [linspaceI_nonneg]
    congr 2 <;> ring

@[simp] theorem gaussValuesList_length (sigma limit center : Rat) (n : Nat) : (gaussValuesList sigma limit center n).length = n := by
  unfold gaussValuesList; split
  · rename_i h; subst h; rfl
  · simp

/-- **Symmetry about the centre, for every sample count `n ≥ 1`**: `v_i + v_{n−1−i} = 2c` (in particular the single sample of
`n = 1` is the centre itself) -/
theorem gaussian_values_symmetric (sigma limit center : Rat) (n : Nat) (i : Nat) (hi : i < n) :
    (gaussValuesList sigma limit center n)[i]'(by simpa using hi)
      + (gaussValuesList sigma limit center n)[n - 1 - i]'(by simp; omega) = 2 * center := by
  unfold gaussValuesList
  by_cases h1 : n = 1
  · subst h1
    have : i = 0 := by omega
    subst this; simp; ring
  · simp only [h1, if_false]
    rw [linspace_reflect _ _ n i hi]
    simp only [h1, if_false]; ring

/-- **Symmetry about the centre**: value `i` and value `n−1−i` are mirror images, `v_i + v_{n−1−i} = 2c` -/
theorem gaussian_symmetric (sigma limit center : Rat) (n : Nat) (hn : 2 ≤ n) (i : Nat) (hi : i < n) :
    (linspace (center - sigma * limit) (center + sigma * limit) n true)[i]'(by simpa using hi)
      + (linspace (center - sigma * limit) (center + sigma * limit) n true)[n - 1 - i]'(by simp; omega) = 2 * center := by
  rw [linspace_reflect _ _ n i hi]
  have : n ≠ 1 := by omega
  simp only [this, if_false]; ring

/-- **Within the sampling limit**: every value lies in `[c − σL, c + σL]`, the first and the last on the boundary -/
theorem gaussian_within_limit (sigma limit center : Rat) (n : Nat) (hn : 2 ≤ n) (hs : 0 ≤ sigma * limit) (i : Nat) (hi : i < n) :
    center - sigma * limit ≤ (linspace (center - sigma * limit) (center + sigma * limit) n true)[i]'(by simpa using hi) ∧
    (linspace (center - sigma * limit) (center + sigma * limit) n true)[i]'(by simpa using hi) ≤ center + sigma * limit := by
  rw [linspace_getElem, linspace_step_endpoint _ _ n (by omega)]
  have hn1 : (0 : Rat) < (n : Rat) - 1 := by
    have : (2 : Rat) ≤ (n : Rat) := by exact_mod_cast hn
    linarith
  have hi0 : (0 : Rat) ≤ (i : Rat) := by exact_mod_cast Nat.zero_le i
  have hi1 : (i : Rat) ≤ (n : Rat) - 1 := by
    have : (i : Rat) + 1 ≤ (n : Rat) := by exact_mod_cast hi
    linarith
  have hd : 0 ≤ (center + sigma * limit - (center - sigma * limit)) / ((n : Rat) - 1) := by
    apply div_nonneg _ (le_of_lt hn1); linarith
  constructor
  · nlinarith
  · have h1 : (i : Rat) * ((center + sigma * limit - (center - sigma * limit)) / ((n : Rat) - 1))
        ≤ ((n : Rat) - 1) * ((center + sigma * limit - (center - sigma * limit)) / ((n : Rat) - 1)) :=
      mul_le_mul_of_nonneg_right hi1 hd
    have h2 : ((n : Rat) - 1) * ((center + sigma * limit - (center - sigma * limit)) / ((n : Rat) - 1))
        = center + sigma * limit - (center - sigma * limit) := by field_simp
    linarith

theorem gaussian_first_last (sigma limit center : Rat) (n : Nat) (hn : 2 ≤ n) :
    (linspace (center - sigma * limit) (center + sigma * limit) n true)[0]'(by simp; omega) = center - sigma * limit ∧
    (linspace (center - sigma * limit) (center + sigma * limit) n true)[n - 1]'(by simp; omega) = center + sigma * limit :=
  ⟨linspace_head _ _ n true (by omega), linspace_last_endpoint _ _ n hn⟩

/-! ### gaussian: weights -/

open AbtemVerif.Gen.DistributionsR in
/-- **Gaussian profile**: the generated weight expression is `exp(−(v − c)² / (2σ²))` -/
theorem gaussian_profile (v c s : ℝ) : gaussWeight v c s = Real.exp (-((v - c) ^ 2) / (2 * s ^ 2)) := by
  unfold gaussWeight
  congr 1
  by_cases hs : s = 0
  · subst hs; simp
  · field_simp

open AbtemVerif.Gen.DistributionsR in
/-- weights are positive, and symmetric about the centre (so mirror-image values carry equal weights) -/
theorem gaussian_weight_pos_symm (v c s : ℝ) : 0 < gaussWeight v c s ∧ gaussWeight (2 * c - v) c s = gaussWeight v c s := by
  constructor
  · unfold gaussWeight; exact Real.exp_pos _
  · unfold gaussWeight
    congr 2
    ring

/-- `weights /= np.sqrt((weights**2).sum())` -/
noncomputable def normIntensity (w : List ℝ) : List ℝ := w.map fun x => x / Real.sqrt ((w.map fun y => y ^ 2).sum)
/-- `weights /= weights.sum()` -/
noncomputable def normAmplitude (w : List ℝ) : List ℝ := w.map fun x => x / w.sum

lemma sum_map_div (l : List ℝ) (f : ℝ → ℝ) (c : ℝ) : (l.map fun x => f x / c).sum = (l.map f).sum / c := by
  induction l with
  | nil => simp
  | cons a t ih => simp only [List.map_cons, List.sum_cons, ih]; ring

lemma sum_sq_pos (w : List ℝ) (hne : w ≠ []) (hp : ∀ x ∈ w, 0 < x) : 0 < (w.map fun y => y ^ 2).sum := by
  cases w with
  | nil => exact absurd rfl hne
  | cons a t =>
    simp only [List.map_cons, List.sum_cons]
    have ha : 0 < a ^ 2 := by have := hp a (by simp); positivity
    have ht : 0 ≤ (t.map fun y => y ^ 2).sum := by
      apply List.sum_nonneg
      intro x hx
      obtain ⟨y, _, rfl⟩ := List.mem_map.mp hx
      positivity
    linarith

/-- **Unit norm ('intensity')**: after `weights /= sqrt(Σ w²)` the squares of the weights sum to one — for every
non-empty list of positive weights (Gaussian weights are positive) -/
theorem norm_intensity (w : List ℝ) (hne : w ≠ []) (hp : ∀ x ∈ w, 0 < x) :
    ((normIntensity w).map fun x => x ^ 2).sum = 1 := by
  unfold normIntensity
  have hS := sum_sq_pos w hne hp
  rw [List.map_map]
  have : ((fun x => x ^ 2) ∘ fun x => x / Real.sqrt ((w.map fun y => y ^ 2).sum))
      = fun x => x ^ 2 / (w.map fun y => y ^ 2).sum := by
    funext x
    simp only [Function.comp, div_pow, Real.sq_sqrt (le_of_lt hS)]
  rw [this, sum_map_div w (fun x => x ^ 2)]
  exact div_self (ne_of_gt hS)

/-- **Unit sum ('amplitude')**: after `weights /= Σ w` the weights sum to one -/
theorem norm_amplitude (w : List ℝ) (hs : w.sum ≠ 0) : (normAmplitude w).sum = 1 := by
  unfold normAmplitude
  have := sum_map_div w (fun x => x) w.sum
  simp only [List.map_id'] at this
  rw [this]; exact div_self hs

/-- normalisation rescales all weights by one common positive factor, so the profile (all ratios) is kept -/
theorem norm_keeps_profile (w : List ℝ) (i j : Nat) (hi : i < w.length) (hj : j < w.length) :
    (normIntensity w)[i]'(by simpa [normIntensity] using hi) * w[j] = (normIntensity w)[j]'(by simpa [normIntensity] using hj) * w[i] := by
  simp only [normIntensity, List.getElem_map]; ring


open AbtemVerif.Gen.DistributionsR in
/-- **The weights of a Gaussian factor, composed**: whatever the (non-empty) list of sample values, the generated profile
followed by the 'intensity' normalisation has unit norm, and followed by the 'amplitude' normalisation sums to one. -/
theorem gaussian_weights_normalised (vs : List ℝ) (hne : vs ≠ []) (c s : ℝ) :
    ((normIntensity (vs.map fun v => gaussWeight v c s)).map fun x => x ^ 2).sum = 1 ∧
    (normAmplitude (vs.map fun v => gaussWeight v c s)).sum = 1 := by
  have hpos : ∀ x ∈ vs.map (fun v => gaussWeight v c s), 0 < x := by
    intro x hx
    obtain ⟨v, _, rfl⟩ := List.mem_map.mp hx
    exact (gaussian_weight_pos_symm v c s).1
  have hne' : vs.map (fun v => gaussWeight v c s) ≠ [] := by simpa using hne
  refine ⟨norm_intensity _ hne' hpos, norm_amplitude _ ?_⟩
  have : 0 < (vs.map fun v => gaussWeight v c s).sum := by
    cases vs with
    | nil => exact absurd rfl hne
    | cons a t =>
      simp only [List.map_cons, List.sum_cons]
      have ha := (gaussian_weight_pos_symm a c s).1
      have ht : 0 ≤ (t.map fun v => gaussWeight v c s).sum := by
        apply List.sum_nonneg
        intro x hx
        obtain ⟨v, _, rfl⟩ := List.mem_map.mp hx
        exact le_of_lt (gaussian_weight_pos_symm v c s).1
      linarith
  exact ne_of_gt this

/-! ### negation, division, products -/

/-- what the model's `neg` is (definitional restatement; that `DistributionFromValues.__neg__` behaves like this model — incl. not
mutating the receiver — rests on the differential correspondence and the conformance oracle, not on this theorem) -/
theorem neg_values_only {ω} (d : Distributions.Dist ω) :
    (neg d).values = d.values.map (fun v => -v) ∧ (neg d).weights = d.weights ∧ (neg d).ensembleMean = d.ensembleMean :=
  ⟨rfl, rfl, rfl⟩

theorem neg_neg {ω} (d : Distributions.Dist ω) : neg (neg d) = d := by
  cases d; simp [neg, Function.comp]

lemma map_fst_zip {α β} : ∀ (l1 : List α) (l2 : List β), l1.length = l2.length → (List.zip l1 l2).map Prod.fst = l1
  | [], _, _ => by simp
  | a :: t, [], h => by simp at h
  | a :: t, b :: u, h => by simp [map_fst_zip t u (by simpa using h)]

lemma map_snd_zip {α β} : ∀ (l1 : List α) (l2 : List β), l1.length = l2.length → (List.zip l1 l2).map Prod.snd = l2
  | [], [], _ => by simp
  | [], b :: u, h => by simp at h
  | a :: t, [], h => by simp at h
  | a :: t, b :: u, h => by simp [map_snd_zip t u (by simpa using h)]

/-- **Dividing a distribution into chunks partitions its values and its weights**: for every chunk tuple summing to
the length, the blocks' values concatenate to the values, their weights to the weights, block `k` has `chunks[k]`
entries, and every block keeps the `ensemble_mean` flag. -/
theorem divide_partitions {ω} (d : Distributions.Dist ω) (cs : List Nat) (hs : cs.sum = d.values.length) (hw : d.weights.length = d.values.length) :
    ∃ bs, divide d cs = .ok bs ∧ (bs.map fun b => b.values).flatten = d.values ∧ (bs.map fun b => b.weights).flatten = d.weights ∧
      (bs.map fun b => b.values.length) = cs ∧ ∀ b ∈ bs, b.ensembleMean = d.ensembleMean := by
  refine ⟨(List.zip (splitBy cs d.values) (splitBy cs d.weights)).map fun x =>
      ({ values := x.1, weights := x.2, ensembleMean := d.ensembleMean } : Distributions.Dist ω), by simp [divide, hs], ?_, ?_, ?_, ?_⟩
  · rw [List.map_map]
    have : ((fun b : Distributions.Dist ω => b.values) ∘ fun x : List Rat × List ω => ({ values := x.1, weights := x.2, ensembleMean := d.ensembleMean } : Distributions.Dist ω))
        = Prod.fst := by funext x; rfl
    rw [this, map_fst_zip _ _ (by simp), flatten_splitBy cs d.values (by omega)]
  · rw [List.map_map]
    have : ((fun b : Distributions.Dist ω => b.weights) ∘ fun x : List Rat × List ω => ({ values := x.1, weights := x.2, ensembleMean := d.ensembleMean } : Distributions.Dist ω))
        = Prod.snd := by funext x; rfl
    rw [this, map_snd_zip _ _ (by simp), flatten_splitBy cs d.weights (by omega)]
  · rw [List.map_map]
    have : ((fun b : Distributions.Dist ω => b.values.length) ∘ fun x : List Rat × List ω => ({ values := x.1, weights := x.2, ensembleMean := d.ensembleMean } : Distributions.Dist ω))
        = List.length ∘ Prod.fst := by funext x; rfl
    rw [this, ← List.map_map, map_fst_zip _ _ (by simp), map_length_splitBy cs d.values (by omega)]
  · intro b hb
    obtain ⟨x, _, rfl⟩ := List.mem_map.mp hb
    rfl

/-- chunks that do not sum to the length are rejected (the `assert`) -/
theorem divide_rejects {ω} (d : Distributions.Dist ω) (cs : List Nat) (hs : cs.sum ≠ d.values.length) : divide d cs = .error "assertion_error" := by
  simp [divide, hs]

lemma sum_outer_row (x : ℝ) (b : List ℝ) (f : ℝ → ℝ) (hf : ∀ u v, f (u * v) = f u * f v) :
    ((b.map fun y => x * y).map f).sum = f x * (b.map f).sum := by
  induction b with
  | nil => simp
  | cons y t ih => simp only [List.map_cons, List.sum_cons, ih, hf]; ring

/-- **Product distributions**: the weights of a two-factor distribution are the outer product, whose squares sum to
the product of the factors' sums of squares and whose entries sum to the product of the sums — so a product of
'intensity' (resp. 'amplitude') normalised factors is normalised the same way. -/
theorem outer_norms (a b : List ℝ) :
    ((outer a b).map fun row => (row.map fun x => x ^ 2).sum).sum = (a.map fun x => x ^ 2).sum * (b.map fun x => x ^ 2).sum ∧
    ((outer a b).map fun row => row.sum).sum = a.sum * b.sum := by
  unfold outer
  constructor
  · induction a with
    | nil => simp
    | cons x t ih =>
      simp only [List.map_cons, List.sum_cons, ih, sum_outer_row x b (fun u => u ^ 2) (fun u v => mul_pow u v 2)]
      ring
  · induction a with
    | nil => simp
    | cons x t ih =>
      have := sum_outer_row x b (fun u => u) (fun u v => rfl)
      simp only [List.map_id'] at this
      simp only [List.map_cons, List.sum_cons, ih, this]
      ring


lemma sum_flatMap_mul (w r : List ℝ) (f : ℝ → ℝ) (hf : ∀ u v, f (u * v) = f u * f v) :
    ((w.flatMap fun x => r.map fun y => x * y).map f).sum = (w.map f).sum * (r.map f).sum := by
  induction w with
  | nil => simp
  | cons x t ih =>
    simp only [List.flatMap_cons, List.map_append, List.sum_append, ih, List.map_cons, List.sum_cons,
      sum_outer_row x r f hf]
    ring

/-- **Product distributions with any number of factors** (after the repair of `MultidimensionalDistribution.weights`,
whose array now has one axis per factor): the row-major weights have `∏ nₖ` entries, sum to the product of the factors'
sums and their squares sum to the product of the factors' sums of squares — products of normalised factors are normalised. -/
theorem outerFlat_norms (ws : List (List ℝ)) :
    (outerFlat ws).length = (ws.map List.length).prod ∧
    (outerFlat ws).sum = (ws.map List.sum).prod ∧
    ((outerFlat ws).map fun x => x ^ 2).sum = (ws.map fun w => (w.map fun x => x ^ 2).sum).prod := by
  induction ws with
  | nil => simp [outerFlat]
  | cons w rest ih =>
    obtain ⟨h1, h2, h3⟩ := ih
    refine ⟨?_, ?_, ?_⟩
    · simp only [outerFlat, List.map_cons, List.prod_cons, ← h1]
      induction w with
      | nil => simp
      | cons x t iht => simp only [List.flatMap_cons, List.length_append, List.length_map, iht, List.length_cons]; ring
    · have := sum_flatMap_mul w (outerFlat rest) (fun u => u) (fun u v => rfl)
      simp only [List.map_id'] at this
      simp only [outerFlat, List.map_cons, List.prod_cons, this, h2]
    · simp only [outerFlat, List.map_cons, List.prod_cons,
        sum_flatMap_mul w (outerFlat rest) (fun u => u ^ 2) (fun u v => mul_pow u v 2), h3]

/-- the two-factor case is the outer product of `outer_norms` flattened row-major -/
theorem outerFlat_two (a b : List ℝ) : outerFlat [a, b] = (outer a b).flatten := by
  have hb : outerFlat [b] = b := by
    simp only [outerFlat, List.map_cons, List.map_nil, mul_one]
    induction b with
    | nil => rfl
    | cons y t ih => simp [List.flatMap_cons, ih]
  have : outerFlat [a, b] = a.flatMap fun x => (outerFlat [b]).map fun y => x * y := rfl
  rw [this, hb, outer, List.flatMap_def]

/-! ### non-vacuity -/
example : (match uniform 0 1 5 true false with | .ok d => d.values == [0, 1/4, 1/2, 3/4, 1] && d.weights == [1, 1, 1, 1, 1] | _ => false) = true := by
  decide +kernel
example : (match gaussianValues 1 3 0 5 with | .ok v => v == [-3, -3/2, 0, 3/2, 3] | _ => false) = true := by decide +kernel
example : (match gaussianValues 2 3 1 1 with | .ok v => v == [1] | _ => false) = true := by decide +kernel
example : ∃ w : List ℝ, w ≠ [] ∧ ∀ x ∈ w, 0 < x := ⟨[1, 2], by simp, by intro x hx; simp at hx; rcases hx with rfl | rfl <;> norm_num⟩
example : (match divide ({ values := [1, 2, 3], weights := [1, 1, 1], ensembleMean := true } : Distributions.Dist Rat) [2, 1] with
    | .ok bs => bs.map (fun b => b.values) == [[1, 2], [3]] | _ => false) = true := by decide +kernel

end AbtemVerif.Props.C36
