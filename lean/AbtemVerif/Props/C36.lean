import AbtemVerif.Model.Distributions
namespace AbtemVerif.Props.C36
theorem stub : True := trivial
end AbtemVerif.Props.C36
