/-
C27 — Structure factors respect crystal symmetry.

The structure factor of `calculate_structure_factors` (abtem/bloch/dynamical.py)

    F(h) = Σ_j f_j(h) · exp(-2πi p_j·h) / V

is stated over ℂ with the *generated* summand `Gen.StructFactorTermC.sfTerm` (regenerated from
the source expression `f_e * xp.exp(-2.0j * np.pi * positions @ hkl)` on every run); the
lattice-centering reflection condition is the *generated* `Gen.Reflection.reflectionCondition`
(whole function `get_reflection_condition`) and the centering translations are the *generated*
table `Gen.Reflection.centeringTranslations` (`relative_positions_for_centering`).

Quantifiers: every finite set of atoms `ι`, every real scattering-factor table `w j h`
(parametrization × Debye–Waller × occupancy × cutoff, any function of the atom and the reflection),
all real scaled positions, all integer reflections.

Numerical kernels are not part of the statements: `np.linalg.solve` (scaled positions), the float32
evaluation of `exp`, `np.fft.ifftn` (FFT; the potential theorems are about the plane-wave sum itself).
-/
import AbtemVerif.Model.StructFactor
import AbtemVerif.Gen.StructFactorTermC
import Mathlib.Analysis.SpecialFunctions.Complex.Log
import Mathlib.Analysis.SpecialFunctions.Trigonometric.Basic
import Mathlib.Algebra.BigOperators.Group.Finset.Basic
import Mathlib.Tactic.Ring
import Mathlib.Data.List.Basic
import Mathlib.Data.Rat.Floor
import Mathlib.Tactic.Linarith
import Mathlib.Tactic.FieldSimp
import Mathlib.Tactic.LinearCombination

namespace AbtemVerif.Props.C27
open AbtemVerif.StructFactor AbtemVerif.Py AbtemVerif.Gen.Reflection AbtemVerif.Gen.StructFactorTermC
open Complex

/-! ### the generated summand -/

/-- normal form of the generated summand `f_e * exp(-2.0j * π * (positions @ hkl))` -/
lemma sfTerm_eq (fe ph : ℂ) : sfTerm fe ph = fe * Complex.exp (-(2 * Real.pi * ph) * I) := by
  unfold sfTerm; congr 2; ring

lemma exp_int (n : ℤ) : Complex.exp (-(2 * Real.pi * (n : ℂ)) * I) = 1 := by
  have : -(2 * Real.pi * (n : ℂ)) * I = ((-n : ℤ) : ℂ) * (2 * Real.pi * I) := by push_cast; ring
  rw [this, Complex.exp_int_mul_two_pi_mul_I]

lemma exp_eq_one_iff_int (x : ℝ) : Complex.exp (-(2 * Real.pi * (x : ℂ)) * I) = 1 ↔ ∃ n : ℤ, x = n := by
  rw [Complex.exp_eq_one_iff]
  constructor
  · rintro ⟨n, hn⟩
    refine ⟨-n, ?_⟩
    have hpi : (2 * Real.pi * I : ℂ) ≠ 0 := by simp [Real.pi_ne_zero]
    have : (x : ℂ) = ((-n : ℤ) : ℂ) := by
      have h2 : (2 * Real.pi * I : ℂ) * (x : ℂ) = (2 * Real.pi * I) * ((-n : ℤ) : ℂ) := by
        push_cast; linear_combination (-1 : ℂ) * hn
      exact mul_left_cancel₀ hpi h2
    exact_mod_cast this
  · rintro ⟨n, rfl⟩
    exact ⟨-n, by push_cast; ring⟩

lemma sfTerm_add (fe x y : ℂ) : sfTerm fe (x + y) = sfTerm fe x * Complex.exp (-(2 * Real.pi * y) * I) := by
  rw [sfTerm_eq, sfTerm_eq,
    show -(2 * (Real.pi : ℂ) * (x + y)) * I = -(2 * Real.pi * x) * I + -(2 * Real.pi * y) * I by ring, Complex.exp_add]
  ring

lemma sfTerm_add_int (fe x : ℂ) (m : ℤ) : sfTerm fe (x + m) = sfTerm fe x := by
  rw [sfTerm_add, exp_int, mul_one]

lemma sfTerm_conj (fe x : ℝ) : (starRingEnd ℂ) (sfTerm (fe : ℂ) (x : ℂ)) = sfTerm (fe : ℂ) ((-x : ℝ) : ℂ) := by
  rw [sfTerm_eq, sfTerm_eq, map_mul, Complex.conj_ofReal, ← Complex.exp_conj]
  congr 2
  simp only [map_mul, map_neg, Complex.conj_ofReal, Complex.conj_I, map_ofNat]
  push_cast; ring

/-! ### the structure factor -/

/-- Miller indices -/
abbrev Idx := Fin 3 → ℤ

/-- `(positions @ hkl)[j, g]` for one atom and one reflection -/
def dotp (p : Fin 3 → ℝ) (h : Idx) : ℝ := ∑ a, p a * (h a : ℝ)

/-- `calculate_structure_factors`: `Σ_j f_e[j,g] · exp(-2πi (positions @ hkl)[j,g]) / volume` -/
noncomputable def SF {ι : Type*} [Fintype ι] (w : ι → Idx → ℝ) (p : ι → Fin 3 → ℝ) (V : ℝ) (h : Idx) : ℂ :=
  (∑ j, sfTerm ((w j h : ℝ) : ℂ) ((dotp (p j) h : ℝ) : ℂ)) / (V : ℂ)

lemma dotp_neg (p : Fin 3 → ℝ) (h : Idx) : dotp p (-h) = -dotp p h := by
  simp [dotp, Finset.sum_neg_distrib]

lemma dotp_add (p q : Fin 3 → ℝ) (h : Idx) : dotp (fun a => p a + q a) h = dotp p h + dotp q h := by
  simp [dotp, add_mul, Finset.sum_add_distrib]

lemma dotp_int (n : Fin 3 → ℤ) (h : Idx) : dotp (fun a => (n a : ℝ)) h = ((∑ a, n a * h a : ℤ) : ℝ) := by
  simp [dotp]

/-- **Friedel symmetry.** For real scattering factors that are even in the reflection
(they depend on `|g|` only), `F(-h) = conj F(h)`. -/
theorem friedel {ι : Type*} [Fintype ι] (w : ι → Idx → ℝ) (p : ι → Fin 3 → ℝ) (V : ℝ) (h : Idx)
    (hw : ∀ j, w j (-h) = w j h) :
    SF w p V (-h) = (starRingEnd ℂ) (SF w p V h) := by
  unfold SF
  rw [map_div₀, Complex.conj_ofReal, map_sum]
  congr 1
  refine Finset.sum_congr rfl fun j _ => ?_
  rw [sfTerm_conj, hw j, dotp_neg]

/-- **Lattice-translation invariance.** Moving every atom by its own lattice vector (integer
scaled coordinates) leaves every structure factor unchanged. -/
theorem lattice_translation_invariant {ι : Type*} [Fintype ι] (w : ι → Idx → ℝ) (p : ι → Fin 3 → ℝ)
    (n : ι → Fin 3 → ℤ) (V : ℝ) (h : Idx) :
    SF w (fun j a => p j a + (n j a : ℝ)) V h = SF w p V h := by
  unfold SF
  congr 1
  refine Finset.sum_congr rfl fun j _ => ?_
  rw [dotp_add, dotp_int]
  push_cast
  have := sfTerm_add_int ((w j h : ℝ) : ℂ) ((dotp (p j) h : ℝ) : ℂ) (∑ a, n j a * h a)
  simpa using this

/-- **Centering extinction (sum re-indexing).** If the atom set is invariant under the translation `t`
(a permutation `σ` of the atoms maps atom `j` to an atom of the same scattering factor sitting at
`p j + t` modulo a lattice vector) then `F(h) = 0` for every reflection with `t·h ∉ ℤ`. -/
theorem centering_extinction {ι : Type*} [Fintype ι] (w : ι → Idx → ℝ) (p : ι → Fin 3 → ℝ) (V : ℝ) (h : Idx)
    (σ : Equiv.Perm ι) (t : Fin 3 → ℝ)
    (hp : ∀ j, ∃ m : Fin 3 → ℤ, ∀ a, p (σ j) a = p j a + t a + (m a : ℝ))
    (hw : ∀ j, w (σ j) h = w j h)
    (hth : ¬ ∃ z : ℤ, dotp t h = z) :
    SF w p V h = 0 := by
  unfold SF
  set S : ℂ := ∑ j, sfTerm ((w j h : ℝ) : ℂ) ((dotp (p j) h : ℝ) : ℂ) with hS
  have key : S = S * Complex.exp (-(2 * Real.pi * ((dotp t h : ℝ) : ℂ)) * I) := by
    calc S = ∑ j, sfTerm ((w (σ j) h : ℝ) : ℂ) ((dotp (p (σ j)) h : ℝ) : ℂ) := by
            rw [hS]; exact (Equiv.sum_comp σ _).symm
      _ = ∑ j, sfTerm ((w j h : ℝ) : ℂ) ((dotp (p j) h : ℝ) : ℂ)
            * Complex.exp (-(2 * Real.pi * ((dotp t h : ℝ) : ℂ)) * I) := by
            refine Finset.sum_congr rfl fun j _ => ?_
            obtain ⟨m, hm⟩ := hp j
            have hpj : p (σ j) = fun a => (fun a => p j a + t a) a + ((m a : ℤ) : ℝ) := by
              funext a; exact hm a
            rw [hw j, hpj, dotp_add, dotp_add, dotp_int]
            have := sfTerm_add_int ((w j h : ℝ) : ℂ) (((dotp (p j) h + dotp t h : ℝ)) : ℂ) (∑ a, m a * h a)
            push_cast at this ⊢
            rw [this, sfTerm_add]
      _ = S * _ := by rw [hS, Finset.sum_mul]
  have hne : Complex.exp (-(2 * Real.pi * ((dotp t h : ℝ) : ℂ)) * I) ≠ 1 := by
    rw [Ne, exp_eq_one_iff_int]; exact hth
  have hS0 : S = 0 := by
    have h1 : S * (1 - Complex.exp (-(2 * Real.pi * ((dotp t h : ℝ) : ℂ)) * I)) = 0 := by
      rw [mul_sub, mul_one, ← key, sub_self]
    rcases mul_eq_zero.mp h1 with h0 | h0
    · exact h0
    · exact absurd (sub_eq_zero.mp h0).symm hne
  rw [hS0, zero_div]

/-! ### the generated reflection condition against the generated centering translations -/

/-- `t·h` for a translation of the generated table (scaled coordinates, exact) -/
def tdot (t : List ℚ) (h k l : ℤ) : ℚ := t.getD 0 0 * h + t.getD 1 0 * k + t.getD 2 0 * l

def IsIntQ (q : ℚ) : Prop := ∃ z : ℤ, q = z

/-- `centering.lower()` of the six keys of the table -/
def lowerName (c : String) : String :=
  if c = "F" then "f" else if c = "I" then "i" else if c = "A" then "a" else if c = "B" then "b"
  else if c = "C" then "c" else if c = "P" then "p" else c

lemma pyMod_two (x : ℤ) : pyMod x 2 = x % 2 := by
  unfold pyMod; exact Int.fmod_eq_emod_of_nonneg x (by norm_num)

lemma isInt_div2 (n : ℤ) : IsIntQ ((n : ℚ) / 2) ↔ n % 2 = 0 := by
  unfold IsIntQ
  constructor
  · rintro ⟨z, hz⟩
    have : (n : ℚ) = ((2 * z : ℤ) : ℚ) := by push_cast; linarith
    have : n = 2 * z := by exact_mod_cast this
    omega
  · intro hn
    obtain ⟨m, rfl⟩ : ∃ m, n = 2 * m := ⟨n / 2, by omega⟩
    exact ⟨m, by push_cast; ring⟩

lemma isInt_zero : IsIntQ 0 := ⟨0, by simp⟩

/-! evaluation of each branch of the generated function (these break when the source function changes) -/
lemma rc_f (h k l : ℤ) : reflectionCondition "f" h k l = .ok
    ((decide (h % 2 = 0) && decide (k % 2 = 0) && decide (l % 2 = 0))
      || (decide (h % 2 = 1) && decide (k % 2 = 1) && decide (l % 2 = 1))) := by
  simp [reflectionCondition, pyMod_two]
lemma rc_i (h k l : ℤ) : reflectionCondition "i" h k l = .ok (decide ((h + k + l) % 2 = 0)) := by
  simp [reflectionCondition, pyMod_two]
lemma rc_a (h k l : ℤ) : reflectionCondition "a" h k l = .ok (decide ((k + l) % 2 = 0)) := by
  simp [reflectionCondition, pyMod_two]
lemma rc_b (h k l : ℤ) : reflectionCondition "b" h k l = .ok (decide ((h + l) % 2 = 0)) := by
  simp [reflectionCondition, pyMod_two]
lemma rc_c (h k l : ℤ) : reflectionCondition "c" h k l = .ok (decide ((h + k) % 2 = 0)) := by
  simp [reflectionCondition, pyMod_two]
lemma rc_p (h k l : ℤ) : reflectionCondition "p" h k l = .ok true := by
  simp [reflectionCondition]

/-- **The reflection condition is exactly the lattice condition of the centering translations**:
for each of the six centerings of the generated table, `get_reflection_condition` keeps the reflection
`(h,k,l)` if and only if `t·(h,k,l)` is an integer for every translation `t` listed for that centering
(so forbidden reflections are exactly those killed by `centering_extinction`, and no allowed one is dropped). -/
theorem condition_iff_table (c : String) (ts : List (List ℚ)) (hc : (c, ts) ∈ centeringTranslations) (h k l : ℤ) :
    ∃ b, reflectionCondition (lowerName c) h k l = .ok b ∧ (b = true ↔ ∀ t ∈ ts, IsIntQ (tdot t h k l)) := by
  have e0 : tdot [(0 : ℚ), 0, 0] h k l = 0 := by simp [tdot]
  have e1 : tdot [(0 : ℚ), (1 : ℚ) / 2, (1 : ℚ) / 2] h k l = ((k + l : ℤ) : ℚ) / 2 := by
    simp [tdot]; ring
  have e2 : tdot [(1 : ℚ) / 2, (0 : ℚ), (1 : ℚ) / 2] h k l = ((h + l : ℤ) : ℚ) / 2 := by
    simp [tdot]; ring
  have e3 : tdot [(1 : ℚ) / 2, (1 : ℚ) / 2, (0 : ℚ)] h k l = ((h + k : ℤ) : ℚ) / 2 := by
    simp [tdot]; ring
  have e4 : tdot [(1 : ℚ) / 2, (1 : ℚ) / 2, (1 : ℚ) / 2] h k l = ((h + k + l : ℤ) : ℚ) / 2 := by
    simp [tdot]; ring
  simp only [centeringTranslations, List.mem_cons, Prod.mk.injEq, List.mem_nil_iff, or_false] at hc
  rcases hc with ⟨rfl, rfl⟩ | ⟨rfl, rfl⟩ | ⟨rfl, rfl⟩ | ⟨rfl, rfl⟩ | ⟨rfl, rfl⟩ | ⟨rfl, rfl⟩
  · -- F
    refine ⟨_, (show lowerName "F" = "f" by simp [lowerName]) ▸ rc_f h k l, ?_⟩
    simp only [List.forall_mem_cons, List.not_mem_nil, false_imp_iff, implies_true, and_true, e0, e1, e2, e3, isInt_div2,
      Bool.or_eq_true, Bool.and_eq_true, decide_eq_true_eq]
    constructor
    · intro _; exact ⟨isInt_zero, by omega, by omega, by omega⟩
    · rintro ⟨_, h1, h2, h3⟩; omega
  · -- I
    refine ⟨_, (show lowerName "I" = "i" by simp [lowerName]) ▸ rc_i h k l, ?_⟩
    simp only [List.forall_mem_cons, List.not_mem_nil, false_imp_iff, implies_true, and_true, e0, e4, isInt_div2,
      decide_eq_true_eq]
    exact ⟨fun hh => ⟨isInt_zero, hh⟩, fun hh => hh.2⟩
  · -- A
    refine ⟨_, (show lowerName "A" = "a" by simp [lowerName]) ▸ rc_a h k l, ?_⟩
    simp only [List.forall_mem_cons, List.not_mem_nil, false_imp_iff, implies_true, and_true, e0, e1, isInt_div2,
      decide_eq_true_eq]
    exact ⟨fun hh => ⟨isInt_zero, hh⟩, fun hh => hh.2⟩
  · -- B
    refine ⟨_, (show lowerName "B" = "b" by simp [lowerName]) ▸ rc_b h k l, ?_⟩
    simp only [List.forall_mem_cons, List.not_mem_nil, false_imp_iff, implies_true, and_true, e0, e2, isInt_div2,
      decide_eq_true_eq]
    exact ⟨fun hh => ⟨isInt_zero, hh⟩, fun hh => hh.2⟩
  · -- C
    refine ⟨_, (show lowerName "C" = "c" by simp [lowerName]) ▸ rc_c h k l, ?_⟩
    simp only [List.forall_mem_cons, List.not_mem_nil, false_imp_iff, implies_true, and_true, e0, e3, isInt_div2,
      decide_eq_true_eq]
    exact ⟨fun hh => ⟨isInt_zero, hh⟩, fun hh => hh.2⟩
  · -- P
    refine ⟨true, (show lowerName "P" = "p" by simp [lowerName]) ▸ rc_p h k l, ?_⟩
    simp only [List.forall_mem_cons, List.not_mem_nil, false_imp_iff, implies_true, and_true, e0, true_iff]
    exact isInt_zero

/-- every centering of the table is accepted by `get_reflection_condition` (no branch raises) -/
theorem condition_total (c : String) (ts : List (List ℚ)) (hc : (c, ts) ∈ centeringTranslations) (hkls : List HKL) :
    ∃ m, reflectionMask (lowerName c) hkls = .ok m ∧ m.length = hkls.length := by
  have hrow : ∀ h k l, ∃ b, reflectionCondition (lowerName c) h k l = .ok b := fun h k l =>
    let ⟨b, hb, _⟩ := condition_iff_table c ts hc h k l; ⟨b, hb⟩
  unfold reflectionMask
  obtain ⟨b0, hb0⟩ := hrow 0 0 0
  rw [hb0]
  simp only []
  induction hkls with
  | nil => exact ⟨[], rfl, rfl⟩
  | cons x xs ih =>
    obtain ⟨m, hm, hl⟩ := ih
    obtain ⟨h, k, l⟩ := x
    obtain ⟨b, hb⟩ := hrow h k l
    refine ⟨b :: m, ?_, by simp [hl]⟩
    rw [List.mapM_cons, hb, hm]; rfl

/-- an unknown centering symbol is rejected with `ValueError` -/
theorem unknown_centering_rejected (s : String) (hs : s ≠ "f" ∧ s ≠ "i" ∧ s ≠ "a" ∧ s ≠ "b" ∧ s ≠ "c" ∧ s ≠ "p")
    (h k l : ℤ) : reflectionCondition s h k l = .error "value_error" := by
  obtain ⟨h1, h2, h3, h4, h5, h6⟩ := hs
  simp [reflectionCondition, h1, h2, h3, h4, h5, h6]

/-! ### forbidden reflections have zero structure factor -/

/-- real vector of a table translation -/
def tvec (t : List ℚ) : Fin 3 → ℝ := fun a => ((t.getD a.val 0 : ℚ) : ℝ)

lemma dotp_tvec (t : List ℚ) (h : Idx) : dotp (tvec t) h = ((tdot t (h 0) (h 1) (h 2) : ℚ) : ℝ) := by
  simp [dotp, tvec, tdot, Fin.sum_univ_three]

/-- **Reflections removed by the centering condition have zero structure factor.**  For a centering `c`
of the table: if the atom set is invariant under every translation listed for `c` (each through a
permutation of the atoms preserving the scattering factors) and `get_reflection_condition` returns
`False` for the reflection, then `F(h) = 0`. -/
theorem forbidden_reflection_vanishes {ι : Type*} [Fintype ι] (w : ι → Idx → ℝ) (p : ι → Fin 3 → ℝ) (V : ℝ) (h : Idx)
    (c : String) (ts : List (List ℚ)) (hc : (c, ts) ∈ centeringTranslations)
    (hinv : ∀ t ∈ ts, ∃ σ : Equiv.Perm ι, (∀ j, ∃ m : Fin 3 → ℤ, ∀ a, p (σ j) a = p j a + tvec t a + (m a : ℝ))
        ∧ ∀ j, w (σ j) h = w j h)
    (hforb : reflectionCondition (lowerName c) (h 0) (h 1) (h 2) = .ok false) :
    SF w p V h = 0 := by
  obtain ⟨b, hb, hiff⟩ := condition_iff_table c ts hc (h 0) (h 1) (h 2)
  rw [hb] at hforb
  have hbf : b = false := by injection hforb
  have : ¬ ∀ t ∈ ts, IsIntQ (tdot t (h 0) (h 1) (h 2)) := by
    intro hall; rw [← hiff, hbf] at hall; exact Bool.false_ne_true hall
  simp only [not_forall] at this
  obtain ⟨t, ht, hnot⟩ := this
  obtain ⟨σ, hp, hw⟩ := hinv t ht
  refine centering_extinction w p V h σ (tvec t) hp hw ?_
  rintro ⟨z, hz⟩
  apply hnot
  refine ⟨z, ?_⟩
  rw [dotp_tvec] at hz
  exact_mod_cast hz

/-! ### the potential reconstructed from the structure factors -/

/-- plane-wave sum `Σ_{h∈S} F(h) · exp(2πi h·r)` — what `ifftn` of the 3-D structure-factor array samples -/
noncomputable def planeWaveSum (S : Finset Idx) (F : Idx → ℂ) (r : Fin 3 → ℝ) : ℂ :=
  ∑ h ∈ S, F h * Complex.exp ((2 * Real.pi * ((dotp r h : ℝ) : ℂ)) * I)

/-- **The potential is real**: on a reflection set closed under `h ↦ -h` (the hkl grid of
`make_hkl_grid` is) Friedel-symmetric coefficients give a real plane-wave sum. -/
theorem potential_real (S : Finset Idx) (F : Idx → ℂ) (r : Fin 3 → ℝ)
    (hS : ∀ h ∈ S, -h ∈ S) (hF : ∀ h ∈ S, F (-h) = (starRingEnd ℂ) (F h)) :
    (planeWaveSum S F r).im = 0 := by
  have hconj : (starRingEnd ℂ) (planeWaveSum S F r) = planeWaveSum S F r := by
    unfold planeWaveSum
    rw [map_sum]
    refine Finset.sum_nbij' (fun h => -h) (fun h => -h) hS hS (by simp) (by simp) ?_
    intro h hh
    rw [map_mul, ← hF h hh, ← Complex.exp_conj, dotp_neg]
    congr 2
    simp only [map_mul, Complex.conj_ofReal, Complex.conj_I, map_ofNat]
    push_cast; ring
  exact Complex.conj_eq_iff_im.mp hconj

/-- **The potential is periodic in the cell**: translating the evaluation point by a lattice vector
(integer scaled coordinates) does not change the plane-wave sum. -/
theorem potential_periodic (S : Finset Idx) (F : Idx → ℂ) (r : Fin 3 → ℝ) (n : Fin 3 → ℤ) :
    planeWaveSum S F (fun a => r a + (n a : ℝ)) = planeWaveSum S F r := by
  unfold planeWaveSum
  refine Finset.sum_congr rfl fun h _ => ?_
  rw [dotp_add, dotp_int]
  congr 1
  have : (2 * Real.pi * (((dotp r h + ((∑ a, n a * h a : ℤ) : ℝ) : ℝ)) : ℂ)) * I
      = (2 * Real.pi * ((dotp r h : ℝ) : ℂ)) * I + ((∑ a, n a * h a : ℤ) : ℂ) * (2 * Real.pi * I) := by
    push_cast; ring
  rw [this, Complex.exp_add, Complex.exp_int_mul_two_pi_mul_I, mul_one]

/-- structure factors of a real crystal give a real potential (Friedel + closure under negation) -/
theorem structure_factor_potential_real {ι : Type*} [Fintype ι] (w : ι → Idx → ℝ) (p : ι → Fin 3 → ℝ) (V : ℝ)
    (S : Finset Idx) (r : Fin 3 → ℝ) (hS : ∀ h ∈ S, -h ∈ S) (hw : ∀ j h, w j (-h) = w j h) :
    (planeWaveSum S (SF w p V) r).im = 0 :=
  potential_real S _ r hS fun h _ => friedel w p V h fun j => hw j h

/-! ### index placement of `structure_factor_1d_to_3d` / `make_hkl_grid` -/

/-- On the odd grid `n = 2m+1` of `reciprocal_space_gpts`, writing the coefficient of `h` (`|h| ≤ m`) at the
Python index `h` (negative indices wrap) puts it at the position whose integer `fftfreq` is `h`. -/
theorem wrap_is_fftfreq_position (m : ℕ) (h : ℤ) (hlo : -(m : ℤ) ≤ h) (hhi : h ≤ m) :
    0 ≤ wrapIndex h (2 * m + 1) ∧ wrapIndex h (2 * m + 1) < (2 * m + 1 : ℕ) ∧
      freqOfIndex (wrapIndex h (2 * m + 1)).toNat (2 * m + 1) = h := by
  unfold wrapIndex freqOfIndex
  split
  · refine ⟨by omega, by omega, ?_⟩
    have h1 : ¬ (h + ((2 * m + 1 : ℕ) : ℤ)).toNat < (2 * m + 1 + 1) / 2 := by omega
    rw [if_neg h1]; omega
  · refine ⟨by omega, by omega, ?_⟩
    have h1 : h.toNat < (2 * m + 1 + 1) / 2 := by omega
    rw [if_pos h1]; omega

/-- distinct reflections in range never collide in the 3-D array -/
theorem wrap_injective (m : ℕ) (h h' : ℤ) (hlo : -(m : ℤ) ≤ h) (hhi : h ≤ m) (hlo' : -(m : ℤ) ≤ h') (hhi' : h' ≤ m)
    (heq : wrapIndex h (2 * m + 1) = wrapIndex h' (2 * m + 1)) : h = h' := by
  unfold wrapIndex at heq
  split at heq <;> split at heq <;> omega

/-! ### the executable Gaussian-rational model is the structure factor -/

/-- Gaussian rational as a complex number -/
def toC (z : GQ) : ℂ := ⟨(z.re : ℝ), (z.im : ℝ)⟩

lemma toC_add (a b : GQ) : toC (GQ.add a b) = toC a + toC b := by
  apply Complex.ext <;> simp [toC, GQ.add]

lemma toC_smul (r : ℚ) (a : GQ) : toC (GQ.smul r a) = (r : ℂ) * toC a := by
  apply Complex.ext <;> simp [toC, GQ.smul]

lemma exp_quarter : Complex.exp (-(2 * Real.pi * ((1 : ℂ) / 4)) * I) = -I := by
  have : -(2 * Real.pi * ((1 : ℂ) / 4)) * I = -((Real.pi / 2 : ℝ) : ℂ) * I := by push_cast; ring
  rw [this, neg_mul, Complex.exp_neg, Complex.exp_mul_I, ← Complex.ofReal_cos, ← Complex.ofReal_sin, Real.cos_pi_div_two,
    Real.sin_pi_div_two]
  simp

/-- the exact phase table of the executable model: `phaseQ m = exp(-2πi m/4)` -/
theorem phaseQ_correct (m : ℤ) : toC (phaseQ m) = Complex.exp (-(2 * Real.pi * ((m : ℂ) / 4)) * I) := by
  obtain ⟨k, r, hr0, hr4, rfl⟩ : ∃ k r : ℤ, 0 ≤ r ∧ r < 4 ∧ m = 4 * k + r := ⟨m / 4, m % 4, by omega, by omega, by omega⟩
  have hsplit : -(2 * Real.pi * (((4 * k + r : ℤ) : ℂ) / 4)) * I = -(2 * Real.pi * (k : ℂ)) * I + -(2 * Real.pi * ((r : ℂ) / 4)) * I := by
    push_cast; ring
  rw [hsplit, Complex.exp_add, exp_int, one_mul]
  have hmod : (4 * k + r) % 4 = r := by omega
  have hpow : ∀ n : ℕ, Complex.exp (-(2 * Real.pi * ((n : ℂ) / 4)) * I) = (-I) ^ n := by
    intro n
    rw [← exp_quarter, ← Complex.exp_nat_mul]; congr 1; ring
  unfold phaseQ
  rw [hmod]
  have hcases : r = 0 ∨ r = 1 ∨ r = 2 ∨ r = 3 := by omega
  rcases hcases with rfl | rfl | rfl | rfl
  · apply Complex.ext <;> simp [toC]
  · have := hpow 1; simp at this; apply Complex.ext <;> simp [toC, this]
  · have := hpow 2; simp at this
    have h2 : Complex.exp (-(2 * Real.pi * ((2 : ℂ) / 4)) * I) = -1 := by simpa using this
    rw [show ((2 : ℤ) : ℂ) = 2 by norm_num, h2]; apply Complex.ext <;> simp [toC]
  · have := hpow 3
    have h3 : Complex.exp (-(2 * Real.pi * ((3 : ℂ) / 4)) * I) = I := by
      rw [show ((3 : ℕ) : ℂ) = 3 by norm_num] at this; rw [this]; ring_nf; simp
    rw [show ((3 : ℤ) : ℂ) = 3 by norm_num, h3]; apply Complex.ext <;> simp [toC]

lemma foldl_sum (h : HKL) (atoms : List (HKL × ℚ)) (z : GQ) :
    toC (atoms.foldl (fun acc a => GQ.add acc (GQ.smul a.2 (phaseQ (qdot a.1 h)))) z)
      = toC z + (atoms.map fun a => sfTerm ((a.2 : ℝ) : ℂ) (((qdot a.1 h : ℤ) : ℂ) / 4)).sum := by
  induction atoms generalizing z with
  | nil => simp
  | cons a as ih =>
    rw [List.foldl_cons, ih, toC_add, toC_smul, phaseQ_correct, List.map_cons, List.sum_cons, sfTerm_eq]
    push_cast; ring

/-- **The executable model is the structure factor**: for atoms on quarter positions `p_j = q_j/4` the exact
Gaussian-rational value computed by the driver (`sfQ`, compared with `calculate_structure_factors` in the
correspondence) is `Σ_j sfTerm(f_j, p_j·h) / volume` with the generated summand -/
theorem sfQ_correct (vol : ℚ) (atoms : List (HKL × ℚ)) (h : HKL) :
    toC (sfQ vol atoms h)
      = (1 / (vol : ℂ)) * (atoms.map fun a => sfTerm ((a.2 : ℝ) : ℂ) (((qdot a.1 h : ℤ) : ℂ) / 4)).sum := by
  unfold sfQ
  rw [toC_smul, foldl_sum]
  have : toC GQ.zero = 0 := by apply Complex.ext <;> simp [toC, GQ.zero]
  rw [this, zero_add]; push_cast; ring

/-! ### the centering test of `auto_detect_centering` -/

lemma sum_le_mul {α} (l : List α) (f : α → ℕ) (c : ℕ) (hle : ∀ x ∈ l, f x ≤ c) : (l.map f).sum ≤ c * l.length := by
  induction l with
  | nil => simp
  | cons a l ih =>
    have ha := hle a (List.mem_cons_self ..)
    have := ih fun y hy => hle y (List.mem_cons_of_mem _ hy)
    simp only [List.map_cons, List.sum_cons, List.length_cons]; nlinarith

lemma sum_ge_all_eq {α} (l : List α) (f : α → ℕ) (c : ℕ) (hle : ∀ x ∈ l, f x ≤ c) (hsum : c * l.length ≤ (l.map f).sum) :
    ∀ x ∈ l, f x = c := by
  induction l with
  | nil => intro x hx; simp at hx
  | cons a l ih =>
    have ha : f a ≤ c := hle a (List.mem_cons_self ..)
    have hl : (l.map f).sum ≤ c * l.length := sum_le_mul l f c fun y hy => hle y (List.mem_cons_of_mem _ hy)
    simp only [List.map_cons, List.sum_cons, List.length_cons] at hsum
    have hfa : f a = c := by nlinarith
    have hrest : c * l.length ≤ (l.map f).sum := by nlinarith
    intro x hx
    rcases List.mem_cons.mp hx with h | h
    · exact h ▸ hfa
    · exact ih (fun y hy => hle y (List.mem_cons_of_mem _ hy)) hrest x h

/-- **Soundness of the centering test** (`all_positions_have_relative_periodic_pair`): with at most one atom of the species
per site, a positive answer means that every atom has a partner of the same species at every listed translation — the
invariance hypothesis of `centering_extinction`. -/
theorem hasAllPairs_sound (ps : List Pos) (rel : List (List ℚ))
    (hdist : ∀ p ∈ ps, ∀ t ∈ rel, (ps.filter fun q => sameSite q (shift p t)).length ≤ 1)
    (h : hasAllPairs ps rel = true) :
    ∀ p ∈ ps, ∀ t ∈ rel, ∃ q ∈ ps, sameSite q (shift p t) = true := by
  unfold hasAllPairs at h
  split at h
  · simp at h
  · split at h
    · simp at h
    · simp only [decide_eq_true_eq, ge_iff_le] at h
      have inner_le : ∀ p ∈ ps, (rel.map fun t => (ps.filter fun q => sameSite q (shift p t)).length).sum ≤ rel.length := by
        intro p hp
        have : ∀ (l : List (List ℚ)), (∀ t ∈ l, t ∈ rel) →
            (l.map fun t => (ps.filter fun q => sameSite q (shift p t)).length).sum ≤ l.length := by
          intro l
          induction l with
          | nil => intro _; simp
          | cons t l ih =>
            intro hl
            have h1 := hdist p hp t (hl t (List.mem_cons_self ..))
            have h2 := ih fun s hs => hl s (List.mem_cons_of_mem _ hs)
            simp only [List.map_cons, List.sum_cons, List.length_cons]; omega
        exact this rel fun t ht => ht
      have outer := sum_ge_all_eq ps (fun p => (rel.map fun t => (ps.filter fun q => sameSite q (shift p t)).length).sum)
        rel.length inner_le h
      intro p hp t ht
      have hin := sum_ge_all_eq rel (fun t => (ps.filter fun q => sameSite q (shift p t)).length) 1
        (fun t ht => hdist p hp t ht) (by simpa using (outer p hp).ge) t ht
      have hpos : 0 < (ps.filter fun q => sameSite q (shift p t)).length := by omega
      obtain ⟨q, hq⟩ := List.exists_mem_of_length_pos hpos
      obtain ⟨hq1, hq2⟩ := List.mem_filter.mp hq
      exact ⟨q, hq1, hq2⟩

lemma frac_zero (x : ℚ) (h : (frac x == 0) = true) : ∃ m : ℤ, x = m := by
  refine ⟨x.floor, ?_⟩
  have h0 : frac x = 0 := by simpa using h
  unfold frac at h0
  linarith

/-- `sameSite` means: equal modulo a lattice vector (the `m` of `centering_extinction`) -/
theorem sameSite_spec (a b : Pos) (h : sameSite a b = true) :
    ∃ m0 m1 m2 : ℤ, a.1 - b.1 = m0 ∧ a.2.1 - b.2.1 = m1 ∧ a.2.2 - b.2.2 = m2 := by
  simp only [sameSite, Bool.and_eq_true] at h
  obtain ⟨⟨h0, h1⟩, h2⟩ := h
  obtain ⟨m0, e0⟩ := frac_zero _ h0
  obtain ⟨m1, e1⟩ := frac_zero _ h1
  obtain ⟨m2, e2⟩ := frac_zero _ h2
  exact ⟨m0, m1, m2, e0, e1, e2⟩

/-- **Extinction from the partner relation** (what `hasAllPairs_sound` delivers): if every atom has a partner with the same
scattering factor at `p + t` modulo a lattice vector, and no two atoms *of equal scattering factor* share a site (a site may be shared by different species, e.g. partial
occupancies), the partner map is a permutation and
`F(h) = 0` whenever `t·h ∉ ℤ`. -/
theorem extinction_of_partners {ι : Type*} [Fintype ι] (w : ι → Idx → ℝ) (p : ι → Fin 3 → ℝ) (V : ℝ) (h : Idx) (t : Fin 3 → ℝ)
    (hpart : ∀ j, ∃ j', w j' h = w j h ∧ ∃ m : Fin 3 → ℤ, ∀ a, p j' a = p j a + t a + (m a : ℝ))
    (hdist : ∀ j j', w j h = w j' h → (∃ m : Fin 3 → ℤ, ∀ a, p j a = p j' a + (m a : ℝ)) → j = j')
    (hth : ¬ ∃ z : ℤ, dotp t h = z) :
    SF w p V h = 0 := by
  classical
  choose σ hσw hσp using hpart
  have hinj : Function.Injective σ := by
    intro j j' hjj
    obtain ⟨m, hm⟩ := hσp j
    obtain ⟨m', hm'⟩ := hσp j'
    apply hdist j j' (by rw [← hσw j, ← hσw j', hjj])
    refine ⟨fun a => m' a - m a, fun a => ?_⟩
    have h1 := hm a
    have h2 := hm' a
    rw [hjj] at h1
    push_cast
    linarith
  let e : Equiv.Perm ι := Equiv.ofBijective σ (Finite.injective_iff_bijective.mp hinj)
  exact centering_extinction w p V h e t (fun j => hσp j) (fun j => hσw j) hth

/-! ### non-vacuity -/
example : (("A", [[(0 : ℚ), 0, 0], [0, (1 : ℚ) / 2, (1 : ℚ) / 2]]) : String × List (List ℚ)) ∈ centeringTranslations := by
  simp [centeringTranslations]
example : reflectionCondition "a" 1 1 0 = .ok false := by simp [reflectionCondition, pyMod_two]
example : reflectionCondition "f" 1 1 3 = .ok true := by simp [reflectionCondition, pyMod_two]
example : reflectionCondition "x" 1 1 3 = .error "value_error" := by simp [reflectionCondition]
/-- hypotheses of `centering_extinction` are satisfiable: two equal atoms at `0` and `t = (1/2,0,0)`, `h = (1,0,0)` -/
example : ¬ ∃ z : ℤ, dotp (fun a => if a = 0 then (1 / 2 : ℝ) else 0) (fun a => if a = 0 then 1 else 0) = z := by
  rintro ⟨z, hz⟩
  simp [dotp] at hz
  have : (1 : ℝ) = 2 * z := by linarith
  have : (1 : ℤ) = 2 * z := by exact_mod_cast this
  omega

end AbtemVerif.Props.C27
