/-
C40 — Center of mass and integrated gradients are exact on analytic inputs.

Statements are about `AbtemVerif.Com` (Model/Com.lean) whose summands are the generated `Gen/Com.lean`
(`array * x[:, None]`, `array * y[None]` of `DiffractionPatterns._com`) and about the generated complex quotient
`Gen/ComC.lean: igThat, igK2` of `_integrate_gradient_2d`.  Quantifiers: all pattern sizes, intensities, coordinate
lists, samplings, pixel positions; every `FourierPair`, every frequency assignment with a single zero mode, every
field whose gradient is spectral.
-/
import AbtemVerif.Model.Com
import AbtemVerif.Props.C14
import AbtemVerif.Gen.ComC
import AbtemVerif.Lib.DFT
import AbtemVerif.Lib.DFT2
import Mathlib.Tactic.Ring
import Mathlib.Tactic.Linarith
import Mathlib.Tactic.FieldSimp

namespace AbtemVerif.Props.C40
open AbtemVerif.Com AbtemVerif.Py AbtemVerif.Np AbtemVerif.Gen.Com AbtemVerif.FftGeom

/-! ### helper lemmas on finite sums -/

lemma sumRange_congr (n : Nat) (f g : Nat → Rat) (h : ∀ i, i < n → f i = g i) : sumRange n f = sumRange n g := by
  unfold sumRange
  congr 1
  exact List.map_congr_left fun i hi => h i (List.mem_range.1 hi)

lemma sumRange_zero (n : Nat) : sumRange n (fun _ => 0) = 0 := by
  unfold sumRange; simp

lemma sumRange_succ (n : Nat) (f : Nat → Rat) : sumRange (n + 1) f = sumRange n f + f n := by
  unfold sumRange
  rw [List.range_succ, List.map_append, List.sum_append]
  simp

lemma sumRange_single (n a : Nat) (ha : a < n) (c : Rat) : sumRange n (fun i => if i = a then c else 0) = c := by
  induction n with
  | zero => omega
  | succ n ih =>
    rw [sumRange_succ]
    by_cases h : a = n
    · subst h
      rw [sumRange_congr _ _ (fun _ => 0) (fun i hi => by rw [if_neg (by omega)]), sumRange_zero]
      simp
    · rw [ih (by omega), if_neg (by omega)]; simp

lemma sumRange_add (n : Nat) (f g : Nat → Rat) : sumRange n (fun i => f i + g i) = sumRange n f + sumRange n g := by
  unfold sumRange
  exact List.sum_map_add

lemma sumRange_mul_left (n : Nat) (c : Rat) (f : Nat → Rat) : sumRange n (fun i => c * f i) = c * sumRange n f := by
  unfold sumRange
  rw [List.sum_map_mul_left]

lemma sumRange_nonneg (n : Nat) (f : Nat → Rat) (h : ∀ i, i < n → 0 ≤ f i) : 0 ≤ sumRange n f := by
  unfold sumRange
  apply List.sum_nonneg
  intro x hx
  obtain ⟨i, hi, rfl⟩ := List.mem_map.1 hx
  exact h i (List.mem_range.1 hi)

/-! ### centre of mass -/

lemma moment_single_pixel (nx ny a b : Nat) (ha : a < nx) (hb : b < ny) (w : Rat) (x y : Nat → Rat) :
    momentX nx ny (fun i j => if i = a ∧ j = b then w else 0) x = w * x a ∧
    momentY nx ny (fun i j => if i = a ∧ j = b then w else 0) y = w * y b := by
  unfold momentX momentY comXTerm comYTerm
  constructor
  · have inner : ∀ i, i < nx → sumRange ny (fun j => (if i = a ∧ j = b then w else 0) * x i) = if i = a then w * x a else 0 := by
      intro i _
      by_cases hi : i = a
      · subst hi
        rw [if_pos rfl, sumRange_congr _ _ (fun j => if j = b then w * x i else 0)
          (fun j _ => by by_cases hj : j = b <;> simp [hj]), sumRange_single ny b hb]
      · rw [if_neg hi, sumRange_congr _ _ (fun _ => 0) (fun j _ => by simp [hi]), sumRange_zero]
    rw [sumRange_congr _ _ _ inner, sumRange_single nx a ha]
  · have inner : ∀ i, i < nx → sumRange ny (fun j => (if i = a ∧ j = b then w else 0) * y j) = if i = a then w * y b else 0 := by
      intro i _
      by_cases hi : i = a
      · subst hi
        rw [if_pos rfl, sumRange_congr _ _ (fun j => if j = b then w * y b else 0)
          (fun j _ => by by_cases hj : j = b <;> simp [hj]), sumRange_single ny b hb]
      · rw [if_neg hi, sumRange_congr _ _ (fun _ => 0) (fun j _ => by simp [hi]), sumRange_zero]
    rw [sumRange_congr _ _ _ inner, sumRange_single nx a ha]

lemma total_single_pixel (nx ny a b : Nat) (ha : a < nx) (hb : b < ny) (w : Rat) :
    total nx ny (fun i j => if i = a ∧ j = b then w else 0) = w := by
  have h := (moment_single_pixel nx ny a b ha hb w (fun _ => 1) (fun _ => 1)).1
  unfold momentX comXTerm at h
  unfold total
  simpa using h

lemma moment_scale (nx ny : Nat) (I : Nat → Nat → Rat) (x : Nat → Rat) (c : Rat) :
    momentX nx ny (fun i j => c * I i j) x = c * momentX nx ny I x := by
  unfold momentX comXTerm
  rw [← sumRange_mul_left]
  apply sumRange_congr; intro i _
  rw [← sumRange_mul_left]
  apply sumRange_congr; intro j _
  ring

lemma total_scale (nx ny : Nat) (I : Nat → Nat → Rat) (c : Rat) :
    total nx ny (fun i j => c * I i j) = c * total nx ny I := by
  unfold total
  rw [← sumRange_mul_left]
  apply sumRange_congr; intro i _
  rw [← sumRange_mul_left]

lemma moment_translate (nx ny : Nat) (I : Nat → Nat → Rat) (x : Nat → Rat) (d : Rat) :
    momentX nx ny I (fun i => x i + d) = momentX nx ny I x + d * total nx ny I := by
  unfold momentX comXTerm total
  rw [← sumRange_mul_left, ← sumRange_add]
  apply sumRange_congr; intro i _
  rw [← sumRange_mul_left, ← sumRange_add]
  apply sumRange_congr; intro j _
  ring

lemma moment_neg (nx ny : Nat) (I : Nat → Nat → Rat) (x : Nat → Rat) :
    momentX nx ny I (fun i => -x i) = -momentX nx ny I x := by
  unfold momentX comXTerm
  rw [neg_eq_neg_one_mul, ← sumRange_mul_left]
  apply sumRange_congr; intro i _
  rw [← sumRange_mul_left]
  apply sumRange_congr; intro j _
  ring

/-- **Weighted mean**: whenever the pattern has intensity (`total ≠ 0`) the value returned is the first moment divided
by the total — the intensity-weighted mean coordinate — with no assumption on the normalisation of the pattern. -/
theorem com_weighted_mean (nx ny : Nat) (I : Nat → Nat → Rat) (x : Nat → Rat) (h : total nx ny I ≠ 0) :
    comX nx ny I x = momentX nx ny I x / total nx ny I := by
  unfold comX comXDiv comTotalGuard
  simp [h]

theorem comY_weighted_mean (nx ny : Nat) (I : Nat → Nat → Rat) (y : Nat → Rat) (h : total nx ny I ≠ 0) :
    comY nx ny I y = momentY nx ny I y / total nx ny I := by
  unfold comY comYDiv comTotalGuard
  simp [h]

/-- A pattern without intensity has centre of mass 0 (no `0/0`). -/
theorem com_empty_pattern (nx ny : Nat) (x : Nat → Rat) : comX nx ny (fun _ _ => 0) x = 0 := by
  have ht : total nx ny (fun _ _ => (0 : Rat)) = 0 := by
    unfold total
    rw [sumRange_congr _ _ (fun _ => 0) (fun i _ => sumRange_zero ny), sumRange_zero]
  have hm : momentX nx ny (fun _ _ => (0 : Rat)) x = 0 := by
    unfold momentX comXTerm
    rw [sumRange_congr _ _ (fun _ => 0) (fun i _ => by
      rw [sumRange_congr _ _ (fun _ => 0) (fun j _ => by ring), sumRange_zero]), sumRange_zero]
  unfold comX comXDiv comTotalGuard
  rw [ht, hm]; simp

/-- **Single bright pixel**: whatever its brightness `w ≠ 0`, the centre of mass is that pixel's coordinates. -/
theorem com_single_pixel (nx ny a b : Nat) (ha : a < nx) (hb : b < ny) (w : Rat) (hw : w ≠ 0) (x y : Nat → Rat) :
    comX nx ny (fun i j => if i = a ∧ j = b then w else 0) x = x a ∧
    comY nx ny (fun i j => if i = a ∧ j = b then w else 0) y = y b := by
  have ht := total_single_pixel nx ny a b ha hb w
  have hm := moment_single_pixel nx ny a b ha hb w x y
  constructor
  · rw [com_weighted_mean _ _ _ _ (by rw [ht]; exact hw), hm.1, ht]; field_simp
  · rw [comY_weighted_mean _ _ _ _ (by rw [ht]; exact hw), hm.2, ht]; field_simp

/-- The centre of mass does **not** depend on the brightness scale of the pattern (dose, normalisation) … -/
theorem com_invariant_under_scaling (nx ny : Nat) (I : Nat → Nat → Rat) (x : Nat → Rat) (c : Rat) (hc : c ≠ 0)
    (ht : total nx ny I ≠ 0) : comX nx ny (fun i j => c * I i j) x = comX nx ny I x := by
  rw [com_weighted_mean _ _ _ _ (by rw [total_scale]; exact mul_ne_zero hc ht), com_weighted_mean _ _ _ _ ht,
    moment_scale, total_scale]
  field_simp

/-- … and shifting all coordinates by `d` shifts it by exactly `d`. -/
theorem com_translate (nx ny : Nat) (I : Nat → Nat → Rat) (x : Nat → Rat) (d : Rat) (ht : total nx ny I ≠ 0) :
    comX nx ny I (fun i => x i + d) = comX nx ny I x + d := by
  rw [com_weighted_mean _ _ _ _ ht, com_weighted_mean _ _ _ _ ht, moment_translate]
  field_simp

/-- For a non-negative pattern with intensity the centre of mass lies between the smallest and the largest coordinate. -/
theorem com_between (nx ny : Nat) (I : Nat → Nat → Rat) (x : Nat → Rat) (lo hi : Rat)
    (hI : ∀ i j, i < nx → j < ny → 0 ≤ I i j) (ht : total nx ny I ≠ 0) (hx : ∀ i, i < nx → lo ≤ x i ∧ x i ≤ hi) :
    lo ≤ comX nx ny I x ∧ comX nx ny I x ≤ hi := by
  have htn : 0 ≤ total nx ny I := by
    unfold total
    apply sumRange_nonneg; intro i hi'
    apply sumRange_nonneg; intro j hj
    exact hI i j hi' hj
  have htp : 0 < total nx ny I := lt_of_le_of_ne htn (Ne.symm ht)
  have h1 : 0 ≤ momentX nx ny I (fun i => x i - lo) := by
    unfold momentX comXTerm
    apply sumRange_nonneg; intro i hi'
    apply sumRange_nonneg; intro j hj
    exact mul_nonneg (hI i j hi' hj) (by linarith [(hx i hi').1])
  have h2 : 0 ≤ momentX nx ny I (fun i => hi - x i) := by
    unfold momentX comXTerm
    apply sumRange_nonneg; intro i hi'
    apply sumRange_nonneg; intro j hj
    exact mul_nonneg (hI i j hi' hj) (by linarith [(hx i hi').2])
  have e1 : momentX nx ny I (fun i => x i - lo) = momentX nx ny I x - lo * total nx ny I := by
    have := moment_translate nx ny I (fun i => x i - lo) lo
    simp only [sub_add_cancel] at this
    linarith
  have e2 : momentX nx ny I (fun i => hi - x i) = hi * total nx ny I - momentX nx ny I x := by
    have hf : (fun i => hi - x i) = (fun i => -x i + hi) := by funext i; ring
    rw [hf, moment_translate, moment_neg]; ring
  rw [com_weighted_mean _ _ _ _ ht]
  constructor
  · rw [le_div_iff₀ htp]; linarith
  · rw [div_le_iff₀ htp]; linarith

/-- `com = com_x + 1j * com_y` packs the two real moments into one complex number: real part `x`, imaginary part `y`. -/
theorem comPack_re_im (cx cy : ℝ) :
    (AbtemVerif.Gen.ComC.comPack (cx : ℂ) (cy : ℂ)).re = cx ∧ (AbtemVerif.Gen.ComC.comPack (cx : ℂ) (cy : ℂ)).im = cy := by
  unfold AbtemVerif.Gen.ComC.comPack
  constructor <;> simp

/-! ### coordinates [1/Å] -/

lemma coords_shifted (n : Nat) (s : Rat) :
    coords n s true = (List.range n).map fun (i : Nat) => (((i : Int) - (n : Int) / 2 : Int) : Rat) * s := by
  unfold coords
  simp only [if_true]
  rw [AbtemVerif.Props.C14.limits_eq n s]
  simp only
  rw [mul_comm s (n : Rat), linspace_open_of_step]
  apply List.map_congr_left
  intro i _
  push_cast; ring

/-- Centred patterns: frequency `(i − ⌊n/2⌋)·s`; un-shifted patterns: the FFT frequency of the storage position. -/
theorem coords_unshifted (n : Nat) (s : Rat) (hn : 1 ≤ n) :
    coords n s false = (List.range n).map fun (j : Nat) => (fftfreqIndex n j : Rat) * s := by
  have h1 : coords n s false = ifftshift (coords n s true) := by unfold coords; simp
  have h2 : angularCoords n s false = ifftshift (angularCoords n s true) := by
    unfold angularCoords AbtemVerif.Gen.FftMasks.unshiftedCoords; simp
  rw [h1, coords_shifted, ← AbtemVerif.Props.C14.angularCoords_shifted n s hn, ← h2,
    AbtemVerif.Props.C14.angularCoords_unshifted n s hn]

/-- **A single bright unit pixel at storage position `(a, b)` has centre of mass equal to its spatial frequency**,
centred or not, odd or even size, in `1/Å`. -/
theorem com_single_pixel_is_its_frequency (nx ny a b : Nat) (ha : a < nx) (hb : b < ny) (sx sy : Rat) :
    centerOfMass nx ny (fun i j => if i = a ∧ j = b then 1 else 0) sx sy false "1/Å"
      = .ok ((fftfreqIndex nx a : Rat) * sx, (fftfreqIndex ny b : Rat) * sy) ∧
    centerOfMass nx ny (fun i j => if i = a ∧ j = b then 1 else 0) sx sy true "1/Å"
      = .ok ((((a : Int) - (nx : Int) / 2 : Int) : Rat) * sx, (((b : Int) - (ny : Int) / 2 : Int) : Rat) * sy) := by
  unfold centerOfMass
  have hu : ¬ ("1/Å" = "mrad") := by decide
  simp only [hu, if_false, if_true]
  constructor
  · have h := com_single_pixel nx ny a b ha hb 1 one_ne_zero (fun i => (coords nx sx false).getD i 0) (fun j => (coords ny sy false).getD j 0)
    rw [h.1, h.2, coords_unshifted nx sx (by omega), coords_unshifted ny sy (by omega)]
    simp [List.getD_eq_getElem?_getD, ha, hb]
  · have h := com_single_pixel nx ny a b ha hb 1 one_ne_zero (fun i => (coords nx sx true).getD i 0) (fun j => (coords ny sy true).getD j 0)
    rw [h.1, h.2, coords_shifted, coords_shifted]
    simp [List.getD_eq_getElem?_getD, ha, hb]

/-- **In mrad too, and for every brightness**: with the angular coordinates of `angular_coordinates` (C14) a single pixel
of brightness `w ≠ 0` at storage position `(a, b)` has centre of mass equal to its scattering angle — FFT frequency index
times the angular sampling for un-shifted patterns, `(a − ⌊nx/2⌋)·sx` for centred ones. -/
theorem com_single_pixel_is_its_angle (nx ny a b : Nat) (ha : a < nx) (hb : b < ny) (sx sy w : Rat) (hw : w ≠ 0) :
    centerOfMass nx ny (fun i j => if i = a ∧ j = b then w else 0) sx sy false "mrad"
      = .ok ((fftfreqIndex nx a : Rat) * sx, (fftfreqIndex ny b : Rat) * sy) ∧
    centerOfMass nx ny (fun i j => if i = a ∧ j = b then w else 0) sx sy true "mrad"
      = .ok ((((a : Int) - (nx : Int) / 2 : Int) : Rat) * sx, (((b : Int) - (ny : Int) / 2 : Int) : Rat) * sy) := by
  unfold centerOfMass
  simp only [if_true]
  constructor
  · have h := com_single_pixel nx ny a b ha hb w hw (fun i => (angularCoords nx sx false).getD i 0) (fun j => (angularCoords ny sy false).getD j 0)
    rw [h.1, h.2, AbtemVerif.Props.C14.angularCoords_unshifted nx sx (by omega), AbtemVerif.Props.C14.angularCoords_unshifted ny sy (by omega)]
    simp [List.getD_eq_getElem?_getD, ha, hb]
  · have h := com_single_pixel nx ny a b ha hb w hw (fun i => (angularCoords nx sx true).getD i 0) (fun j => (angularCoords ny sy true).getD j 0)
    rw [h.1, h.2, AbtemVerif.Props.C14.angularCoords_shifted nx sx (by omega), AbtemVerif.Props.C14.angularCoords_shifted ny sy (by omega)]
    simp [List.getD_eq_getElem?_getD, ha, hb]

theorem centerOfMass_rejects_unknown_units (nx ny : Nat) (I : Nat → Nat → Rat) (sx sy : Rat) (sh : Bool) (u : String)
    (h1 : u ≠ "mrad") (h2 : u ≠ "1/Å") : centerOfMass nx ny I sx sy sh u = .error "value_error" := by
  simp [centerOfMass, h1, h2]

/-! ### integrated gradient -/
open AbtemVerif.Gen.ComC AbtemVerif.DFT

lemma igK2_eq_zero_iff (kx ky : ℝ) : igK2 (kx : ℂ) (ky : ℂ) = 0 ↔ kx = 0 ∧ ky = 0 := by
  unfold igK2
  have : ((kx : ℂ) ^ 2 + (ky : ℂ) ^ 2) = ((kx ^ 2 + ky ^ 2 : ℝ) : ℂ) := by push_cast; ring
  rw [this, Complex.ofReal_eq_zero]
  constructor
  · intro h
    have h1 : kx ^ 2 = 0 := by nlinarith [sq_nonneg kx, sq_nonneg ky]
    have h2 : ky ^ 2 = 0 := by nlinarith [sq_nonneg kx, sq_nonneg ky]
    exact ⟨by simpa using h1, by simpa using h2⟩
  · rintro ⟨rfl, rfl⟩; simp

/-- **One Fourier mode**: if the gradient components are the spectral derivatives `2πi·kx·φ̂`, `2πi·ky·φ̂` of a
coefficient `φ̂` at a non-zero frequency, the quotient computed by `_integrate_gradient_2d` is `φ̂` again. -/
theorem integrate_gradient_mode (kx ky : ℝ) (φ : ℂ) (h : kx ≠ 0 ∨ ky ≠ 0) :
    igThat (2 * Real.pi * Complex.I * kx * φ) (2 * Real.pi * Complex.I * ky * φ) kx ky (igK2 kx ky) = φ := by
  have hk : igK2 (kx : ℂ) (ky : ℂ) ≠ 0 := by
    rw [Ne, igK2_eq_zero_iff]; tauto
  have hpi : (Real.pi : ℂ) ≠ 0 := Complex.ofReal_ne_zero.2 Real.pi_ne_zero
  unfold igThat
  unfold igK2 at hk ⊢
  have hI := Complex.I_ne_zero
  field_simp

/-- The zero-frequency coefficient of the result is `0` whatever value replaces `|k|² = 0` in the denominator. -/
theorem integrate_gradient_dc (Fgx Fgy k : ℂ) : igThat Fgx Fgy 0 0 k = 0 := by
  unfold igThat; simp

/-- **The integrated gradient reproduces the generating field up to a constant** — for every Fourier pair, every
frequency assignment whose only zero is `k₀`, and every field `φ` whose gradient `(gx, gy)` is spectral
(`F gx = 2πi·kx·F φ`, `F gy = 2πi·ky·F φ`, i.e. band-limited periodic `φ`): the inverse transform of the quotient is
`φ` minus the inverse transform of its zero-frequency component (for the DFT: minus the mean of `φ`). -/
theorem integrate_gradient_recovers_field {ι : Type*} [Fintype ι] [DecidableEq ι] (P : FourierPair ι)
    (kx ky : ι → ℝ) (k0 : ι) (hk0 : ∀ k, (kx k = 0 ∧ ky k = 0) ↔ k = k0) (φ gx gy : ι → ℂ)
    (hgx : ∀ k, P.F gx k = 2 * Real.pi * Complex.I * kx k * P.F φ k)
    (hgy : ∀ k, P.F gy k = 2 * Real.pi * Complex.I * ky k * P.F φ k) :
    P.Finv (fun k => igThat (P.F gx k) (P.F gy k) (kx k) (ky k)
        (if igK2 (kx k) (ky k) = 0 then (1e-12 : ℂ) else igK2 (kx k) (ky k)))
      = φ - P.F φ k0 • P.Finv (Pi.single k0 1) := by
  have hThat : (fun k => igThat (P.F gx k) (P.F gy k) (kx k) (ky k)
        (if igK2 (kx k) (ky k) = 0 then (1e-12 : ℂ) else igK2 (kx k) (ky k)))
      = P.F φ - P.F φ k0 • (Pi.single k0 1 : ι → ℂ) := by
    funext k
    by_cases hk : k = k0
    · subst hk
      obtain ⟨hx, hy⟩ := (hk0 k).2 rfl
      simp only [hx, hy, Complex.ofReal_zero, Pi.sub_apply, Pi.smul_apply, Pi.single_eq_same, smul_eq_mul, mul_one, sub_self]
      exact integrate_gradient_dc _ _ _
    · have hne : ¬ (kx k = 0 ∧ ky k = 0) := fun h => hk ((hk0 k).1 h)
      have hz : igK2 (kx k : ℂ) (ky k : ℂ) ≠ 0 := by rw [Ne, igK2_eq_zero_iff]; exact hne
      simp only [hz, if_false, Pi.sub_apply, Pi.smul_apply, Pi.single_eq_of_ne hk, smul_eq_mul, mul_zero, sub_zero]
      rw [hgx k, hgy k]
      exact integrate_gradient_mode (kx k) (ky k) (P.F φ k) (by tauto)
  rw [hThat, map_sub, map_smul, P.inv_left]

/-- For the concrete DFT (Mathlib's `ZMod.dft`) the inverse transform of the zero-mode delta is the constant `1/N` … -/
theorem zmod_inv_delta (N : ℕ) [NeZero N] : (zmodPair N).Finv (Pi.single 0 1) = fun _ => (1 : ℂ) / N := by
  funext k
  show (ZMod.dft (N := N) (E := ℂ)).symm (Pi.single 0 1) k = _
  rw [ZMod.invDFT_apply]
  simp [Pi.single_apply, Finset.sum_ite_eq']

/-- … so there the integrated gradient is **the generating field minus its mean** (the additive constant is explicit). -/
theorem integrate_gradient_recovers_field_up_to_mean (N : ℕ) [NeZero N] (kx ky : ZMod N → ℝ)
    (hk0 : ∀ k, (kx k = 0 ∧ ky k = 0) ↔ k = 0) (φ gx gy : ZMod N → ℂ)
    (hgx : ∀ k, (zmodPair N).F gx k = 2 * Real.pi * Complex.I * kx k * (zmodPair N).F φ k)
    (hgy : ∀ k, (zmodPair N).F gy k = 2 * Real.pi * Complex.I * ky k * (zmodPair N).F φ k) :
    (zmodPair N).Finv (fun k => igThat ((zmodPair N).F gx k) ((zmodPair N).F gy k) (kx k) (ky k)
        (if igK2 (kx k) (ky k) = 0 then (1e-12 : ℂ) else igK2 (kx k) (ky k)))
      = fun j => φ j - (∑ i, φ i) / N := by
  rw [integrate_gradient_recovers_field (zmodPair N) kx ky 0 hk0 φ gx gy hgx hgy, zmod_inv_delta]
  funext j
  have hdc : (zmodPair N).F φ 0 = ∑ i, φ i := by
    show ZMod.dft φ 0 = _
    rw [ZMod.dft_apply_zero]
  simp only [Pi.sub_apply, Pi.smul_apply, smul_eq_mul, hdc]
  ring

/-- The hypothesis of the field theorems is not vacuous: for every field `φ` and every frequency assignment the
spectral derivative `F⁻¹(2πi·k·F φ)` is a gradient component that satisfies it. -/
theorem spectral_gradient_satisfies_hypothesis {ι : Type*} [Fintype ι] (P : FourierPair ι) (kx : ι → ℝ) (φ : ι → ℂ) (k : ι) :
    P.F (P.Finv (fun q => 2 * Real.pi * Complex.I * kx q * P.F φ q)) k = 2 * Real.pi * Complex.I * kx k * P.F φ k := by
  rw [P.inv_right]

/-- For every Fourier pair with a zero-frequency index (`HasDC`: `F x z = Σ x`, constants have no other component — the
1-D and 2-D DFT, `zmodPair_hasDC`, `zmodPair2_hasDC`) the inverse transform of the zero-mode delta is the constant `1/N`. -/
theorem hasDC_inv_delta {ι : Type*} [Fintype ι] [DecidableEq ι] [Nonempty ι] (P : FourierPair ι) (z : ι) (h : P.HasDC z) :
    P.Finv (Pi.single z 1) = fun _ => (1 : ℂ) / (Fintype.card ι : ℂ) := by
  have hN : (Fintype.card ι : ℂ) ≠ 0 := by
    have : 0 < Fintype.card ι := Fintype.card_pos
    exact_mod_cast (ne_of_gt this)
  have hF : P.F (fun _ => (1 : ℂ) / (Fintype.card ι : ℂ)) = Pi.single z 1 := by
    funext k
    by_cases hk : k = z
    · subst hk
      rw [h.dc, Pi.single_eq_same, Finset.sum_const, Finset.card_univ, nsmul_eq_mul]
      field_simp
    · rw [h.const _ k hk, Pi.single_eq_of_ne hk]
  rw [← hF, P.inv_left]

/-- **Integrated gradient = generating field minus its mean**, for every Fourier pair with a zero-frequency index — in
particular for the 2-D DFT on an `n × m` image (`zmodPair2 n m`, see the example below). -/
theorem integrate_gradient_recovers_field_minus_mean {ι : Type*} [Fintype ι] [DecidableEq ι] [Nonempty ι] (P : FourierPair ι)
    (kx ky : ι → ℝ) (k0 : ι) (hdc : P.HasDC k0) (hk0 : ∀ k, (kx k = 0 ∧ ky k = 0) ↔ k = k0) (φ gx gy : ι → ℂ)
    (hgx : ∀ k, P.F gx k = 2 * Real.pi * Complex.I * kx k * P.F φ k)
    (hgy : ∀ k, P.F gy k = 2 * Real.pi * Complex.I * ky k * P.F φ k) :
    P.Finv (fun k => igThat (P.F gx k) (P.F gy k) (kx k) (ky k)
        (if igK2 (kx k) (ky k) = 0 then (1e-12 : ℂ) else igK2 (kx k) (ky k)))
      = fun j => φ j - (∑ i, φ i) / (Fintype.card ι : ℂ) := by
  rw [integrate_gradient_recovers_field P kx ky k0 hk0 φ gx gy hgx hgy, hasDC_inv_delta P k0 hdc]
  funext j
  simp only [Pi.sub_apply, Pi.smul_apply, smul_eq_mul, hdc.dc]
  ring

/-- the 2-D instance: an `n × m` image under the 2-D DFT -/
example (n m : ℕ) [NeZero n] [NeZero m] (kx ky : ZMod n × ZMod m → ℝ)
    (hk0 : ∀ k, (kx k = 0 ∧ ky k = 0) ↔ k = (0, 0)) (φ gx gy : ZMod n × ZMod m → ℂ)
    (hgx : ∀ k, (zmodPair2 n m).F gx k = 2 * Real.pi * Complex.I * kx k * (zmodPair2 n m).F φ k)
    (hgy : ∀ k, (zmodPair2 n m).F gy k = 2 * Real.pi * Complex.I * ky k * (zmodPair2 n m).F φ k) :
    (zmodPair2 n m).Finv (fun k => igThat ((zmodPair2 n m).F gx k) ((zmodPair2 n m).F gy k) (kx k) (ky k)
        (if igK2 (kx k) (ky k) = 0 then (1e-12 : ℂ) else igK2 (kx k) (ky k)))
      = fun j => φ j - (∑ i, φ i) / (Fintype.card (ZMod n × ZMod m) : ℂ) :=
  integrate_gradient_recovers_field_minus_mean (zmodPair2 n m) kx ky (0, 0) (zmodPair2_hasDC n m) hk0 φ gx gy hgx hgy

/-! ### non-vacuity -/
example : comX 2 2 (fun i j => ((2 * i + j + 1 : Nat) : Rat)) (fun i => if i = 0 then -1 else 1) = 2 / 5 := by decide +kernel
example : comX 2 2 (fun _ _ => 0) (fun _ => 1) = 0 := by decide +kernel
example : centerOfMass 3 3 (fun i j => if i = 1 ∧ j = 0 then 1 else 0) (1/2) (1/2) false "1/Å" = .ok (1/2, 0) := by
  decide +kernel
example : total 1 1 (fun _ _ => 1) = 1 := by decide +kernel

end AbtemVerif.Props.C40
