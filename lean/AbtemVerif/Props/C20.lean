/-
C20 — Scan positions have the geometry their parameters describe.

Statements are about `AbtemVerif.Scan.*` (Model/Scan.lean).  The arguments handed to `numpy.linspace`, LineScan's
gpts / sampling arithmetic and the `ScanAxis` arguments are the generated definitions of `Gen/Scan.lean`
(regenerated from abtem/scan.py and abtem/core/axes.py on every run); `numpy.linspace` is `Np.linspace`
(Lib/Linspace.lean); a GridScan's grid is the C17 model, whose invariant (`extent = gpts × sampling`, resp.
`(gpts − 1) × sampling`) is what makes the linspace step equal to the reported sampling.

The probe part ("a probe at r is the origin probe shifted periodically by r") is proved for the 1-D DFT on `ZMod N`
(`probe_shift_partial`) and lifted to the separable 2-D DFT (`probe_shift_2d`, `probe_position_is_shift_partial`) for
whole-pixel shifts; fractional (band-limited) shifts are observed on the real code by the conformance oracle.
-/
import AbtemVerif.Model.Scan
import AbtemVerif.Lib.Linspace
import AbtemVerif.Lib.GridInv
import Mathlib.Analysis.Fourier.ZMod
import AbtemVerif.Lib.DFT2
import AbtemVerif.Props.C15

namespace AbtemVerif.Props.C20
open AbtemVerif.Scan AbtemVerif.Np AbtemVerif.Gen.Scan AbtemVerif.Gen.Grid AbtemVerif.Props.C17

/-! ### LinearAxis.coordinates -/

/-- `LinearAxis(offset, sampling).coordinates(n)` is `offset + k·sampling`, `k = 0 … n−1`. -/
theorem axis_coordinates_spec (offset sampling : Rat) (n : Nat) :
    axisCoordinates offset sampling (n : Int) = .ok ((List.range n).map fun (k : Nat) => offset + (k : Rat) * sampling) := by
  unfold axisCoordinates coordStart coordStop coordNum coordEndpoint
  rw [linspaceI_nonneg]
  have : offset + sampling * ((n : Int) : Rat) = offset + (n : Rat) * sampling := by push_cast; ring
  rw [this, linspace_open_of_step]

/-- a negative count is rejected (numpy raises ValueError) -/
theorem axis_coordinates_negative (offset sampling : Rat) (n : Int) (h : n < 0) :
    axisCoordinates offset sampling n = .error "value_error" := by
  unfold axisCoordinates coordNum; exact linspaceI_neg _ _ _ _ h

/-! ### GridScan -/

/-- one axis of `GridScan.get_positions` is `numpy.linspace(start, end, gpts, endpoint)` of *that* axis -/
theorem gridscan_axis_is_linspace (a b : Rat) (n : Nat) (e : Bool) :
    gridAxisPositions a b (n : Int) e = .ok (linspace a b n e) := by
  unfold gridAxisPositions gridLinStart gridLinStop gridLinNum gridLinEndpoint
  exact linspaceI_nonneg _ _ _ _

/-- the step of `linspace(start, end, n, endpoint)` is the grid sampling when `end − start` is the (C17-consistent)
extent of a grid with `n` points and sampling `d` -/
lemma step_eq_sampling (a b d : Rat) (n : Nat) (e : Bool) (hc : b - a = adjustExtentElt (n : Int) d e)
    (hn : minG e ≤ (n : Int)) : linspaceStep a b n e = d := by
  rw [adjustExtentElt_spec] at hc
  cases e with
  | true =>
    have h2 : 2 ≤ n := by simpa [minG] using hn
    have hne : ((n : Rat) - 1) ≠ 0 := by
      have : (2 : Rat) ≤ (n : Rat) := by exact_mod_cast h2
      intro h; linarith
    rw [linspace_step_endpoint a b n (by omega), hc]
    simp only [if_true]; push_cast; field_simp
  | false =>
    have h1 : 1 ≤ n := by simpa [minG] using hn
    have hne : (n : Rat) ≠ 0 := by
      have : (1 : Rat) ≤ (n : Rat) := by exact_mod_cast h1
      intro h; linarith
    rw [linspace_step_open, hc]
    simp only [Bool.false_eq_true, if_false]; push_cast; field_simp

/-- **GridScan positions**: along an axis with `n` points, reported sampling `d` and
`end − start = n·d` (`(n−1)·d` with endpoint), the scan yields exactly `n` positions `start + k·d`. -/
theorem gridscan_positions (a b d : Rat) (n : Nat) (e : Bool) (hc : b - a = adjustExtentElt (n : Int) d e)
    (hn : minG e ≤ (n : Int)) :
    gridAxisPositions a b (n : Int) e = .ok ((List.range n).map fun (k : Nat) => a + (k : Rat) * d) := by
  rw [gridscan_axis_is_linspace, linspace_eq_map, step_eq_sampling a b d n e hc hn]

/-- … the last of which is the end point when endpoint is set, and one step short of it otherwise. -/
theorem gridscan_last_position (a b d : Rat) (n : Nat) (e : Bool) (hc : b - a = adjustExtentElt (n : Int) d e)
    (hn : minG e ≤ (n : Int)) :
    a + ((n - 1 : Nat) : Rat) * d = if e then b else b - d := by
  rw [adjustExtentElt_spec] at hc
  have h1 : 1 ≤ n := by
    have := minG_pos e
    have : (1 : Int) ≤ (n : Int) := le_trans this hn
    exact_mod_cast this
  rw [Nat.cast_sub h1]
  cases e with
  | true => simp only [if_true] at hc ⊢; push_cast at hc ⊢; linarith
  | false => simp only [Bool.false_eq_true, if_false] at hc ⊢; push_cast at hc ⊢; linarith

/-- **The ScanAxis of a GridScan lists the same coordinates**: the `LinearAxis.coordinates` of the axis that
`ensemble_axes_metadata` builds (`sampling = d`, `offset = start`) are the positions along that axis. -/
theorem gridscan_axis_coordinates_eq_positions (a b d : Rat) (n : Nat) (e : Bool)
    (hc : b - a = adjustExtentElt (n : Int) d e) (hn : minG e ≤ (n : Int)) :
    axisCoordinates (gridAxisOffset d a) (gridAxisSampling d a) (n : Int) = gridAxisPositions a b (n : Int) e := by
  rw [gridscan_positions a b d n e hc hn]
  unfold gridAxisOffset gridAxisSampling
  exact axis_coordinates_spec a d n

/-- the extent GridScan hands to its grid is `end − start` per axis -/
theorem gridscan_extent_spec (s0 s1 e0 e1 : Rat) : gridExtent s0 s1 e0 e1 = (e0 - s0, e1 - s1) := rfl

/-- the flattened position array has one entry per pair of axis positions, in `ij` (row-major) order -/
theorem meshgrid_length (xs ys : List Rat) : (meshgridIJ xs ys).length = xs.length * ys.length := by
  unfold meshgridIJ
  induction xs with
  | nil => simp
  | cons x xs ih => simp [List.flatMap_cons, ih, Nat.succ_mul, Nat.add_comm]


/-! ### the whole GridScan: constructor → positions and axes (composition with the C17 grid theorems) -/

lemma list_len2 {α} (l : List α) (h : l.length = 2) : ∃ x y, l = [x, y] := by
  match l, h with
  | [x, y], _ => exact ⟨x, y, rfl⟩

open AbtemVerif.Grid in
/-- what `GridScan(start, end, gpts=…, sampling=…, endpoint=…)` stores, for admissible arguments with `end > start`
on both axes and at least one of gpts / sampling given: admissible gpts `n₀, n₁`, the extent `end − start`, and the
sampling `_adjust_sampling` computes from them -/
lemma gridInit_shape (a b : Rat × Rat) (gpts sampling : Val) (ep : List Bool) (s : GridScan)
    (hinit : gridInit (some a) (some b) gpts sampling ep = .ok s)
    (hx : 0 < b.1 - a.1) (hy : 0 < b.2 - a.2) (hep : ep.length = 2) (hG : GoodVal ep gpts) (hS : PosVal sampling)
    (hdef : gpts ≠ Val.none ∨ sampling ≠ Val.none) :
    ∃ n0 n1 e0 e1, ep = [e0, e1] ∧ minG e0 ≤ n0 ∧ minG e1 ≤ n1 ∧ s.start = some a ∧ s.stop = some b ∧
      s.grid.endpoint = [e0, e1] ∧ s.grid.gpts = some [n0, n1] ∧
      s.grid.sampling = some [adjustSamplingElt (b.1 - a.1) n0 e0, adjustSamplingElt (b.2 - a.2) n1 e1] ∧
      s.grid.extent = some [b.1 - a.1, b.2 - a.2] := by
  obtain ⟨e0, e1, rfl⟩ := list_len2 ep hep
  have hnle : ¬ (b.1 - a.1 ≤ 0) := not_le.mpr hx
  simp only [gridInit, gridExtent, hnle, decide_false, Bool.false_and, Bool.false_eq_true, if_false] at hinit
  rcases hg : Grid.init 2 [e0, e1] (Val.seq [b.1 - a.1, b.2 - a.2]) gpts sampling false false false with err | g
  · simp [hg] at hinit
  simp only [hg, Except.ok.injEq] at hinit
  subst hinit
  have hve : validate 2 (Val.seq [b.1 - a.1, b.2 - a.2]) = .ok (some [b.1 - a.1, b.2 - a.2]) := by simp [validate]
  have hrp : PosL [b.1 - a.1, b.2 - a.2] := by
    intro z hz; simp only [List.mem_cons, List.mem_nil_iff, or_false] at hz; rcases hz with rfl | rfl <;> assumption
  have hne : Val.seq [b.1 - a.1, b.2 - a.2] ≠ Val.none := by intro h; cases h
  have hj : (validate 2 (Val.seq [b.1 - a.1, b.2 - a.2])).toOption.join = some [b.1 - a.1, b.2 - a.2] := by rw [hve]; rfl
  unfold Grid.init at hg
  rw [hj] at hg
  rcases hvg : validateGpts 2 gpts (some [b.1 - a.1, b.2 - a.2]) with e1' | go
  · simp [hve, hvg] at hg
  rcases hvs : validate 2 sampling with e1' | so
  · simp [hve, hvg, hvs] at hg
  rcases go with _ | nl <;> rcases so with _ | ds
  · -- neither gpts nor sampling: excluded
    have h1 := validateGpts_none hvg; have h2 := validate_none hvs
    rcases hdef with h | h <;> contradiction
  · -- sampling only
    have h2 := validateGpts_none hvg
    subst h2
    obtain ⟨hdl, hdp⟩ := validate_pos hvs hS
    obtain ⟨d0, d1, rfl⟩ := list_len2 ds hdl
    have hd0 : d0 ≠ 0 := ne_of_gt (hdp d0 (by simp))
    have hd1 : d1 ≠ 0 := ne_of_gt (hdp d1 (by simp))
    simp only [hve, hvg, hvs] at hg
    simp [hne, adjustGpts, hd0, hd1, adjustSampling, zipWith3, Res.bind] at hg
    subst hg
    refine ⟨adjustGptsElt (b.1 - a.1) d0 e0, adjustGptsElt (b.2 - a.2) d1 e1, e0, e1, rfl, ?_, ?_, rfl, rfl, rfl, rfl, rfl, rfl⟩
    · exact adjustGpts_good _ _ _ hx (hdp d0 (by simp))
    · exact adjustGpts_good _ _ _ hy (hdp d1 (by simp))
  · -- gpts only
    have h3 := validate_none hvs
    subst h3
    obtain ⟨hnl0, hg'⟩ := validateGpts_good hvg hG
    obtain ⟨m0, m1, rfl⟩ := list_len2 nl hnl0
    simp only [hve, hvg, hvs] at hg
    simp [adjustSampling, zipWith3, Res.bind] at hg
    subst hg
    refine ⟨m0, m1, e0, e1, rfl, ?_, ?_, rfl, rfl, rfl, rfl, rfl, rfl⟩
    · exact hg' 0 _ e0 (by simp) (by simp)
    · exact hg' 1 _ e1 (by simp) (by simp)
  · -- both: the given sampling is overwritten
    obtain ⟨hnl0, hg'⟩ := validateGpts_good hvg hG
    obtain ⟨m0, m1, rfl⟩ := list_len2 nl hnl0
    simp only [hve, hvg, hvs] at hg
    simp [hne, adjustSampling, zipWith3, Res.bind] at hg
    subst hg
    refine ⟨m0, m1, e0, e1, rfl, ?_, ?_, rfl, rfl, rfl, rfl, rfl, rfl⟩
    · exact hg' 0 _ e0 (by simp) (by simp)
    · exact hg' 1 _ e1 (by simp) (by simp)

lemma toNat_cast_of_minG {n : Int} {e : Bool} (h : minG e ≤ n) : ((n.toNat : Nat) : Int) = n := by
  have := minG_pos e
  omega

open AbtemVerif.Grid in
/-- **GridScan geometry, end to end.** For every GridScan the constructor builds from admissible arguments
(`end > start` on both axes, gpts and/or sampling given as scalars or pairs, any endpoint pair):
`get_positions()` is the `ij` mesh of `start + k·sampling` along each axis with `gpts` positions per axis — where
`sampling` is the scan's *reported* sampling — and the two `ScanAxis` objects of `ensemble_axes_metadata` have exactly
those coordinates. -/
theorem gridscan_geometry (a b : Rat × Rat) (gpts sampling : Val) (ep : List Bool) (s : GridScan)
    (hinit : gridInit (some a) (some b) gpts sampling ep = .ok s)
    (hx : 0 < b.1 - a.1) (hy : 0 < b.2 - a.2) (hep : ep.length = 2) (hG : GoodVal ep gpts) (hS : PosVal sampling)
    (hdef : gpts ≠ Val.none ∨ sampling ≠ Val.none) :
    ∃ (n0 n1 : Nat) (d0 d1 : Rat) (e0 e1 : Bool),
      s.grid.gpts = some [(n0 : Int), (n1 : Int)] ∧ s.grid.sampling = some [d0, d1] ∧ s.grid.endpoint = [e0, e1] ∧
      gridPositions s = .ok ((List.range n0).map (fun (k : Nat) => a.1 + (k : Rat) * d0),
                             (List.range n1).map (fun (k : Nat) => a.2 + (k : Rat) * d1)) ∧
      gridAxes s = .ok [(d0, a.1, e0), (d1, a.2, e1)] ∧
      axisCoordinates a.1 d0 (n0 : Int) = .ok ((List.range n0).map fun (k : Nat) => a.1 + (k : Rat) * d0) ∧
      axisCoordinates a.2 d1 (n1 : Int) = .ok ((List.range n1).map fun (k : Nat) => a.2 + (k : Rat) * d1) ∧
      a.1 + ((n0 - 1 : Nat) : Rat) * d0 = (if e0 then b.1 else b.1 - d0) ∧
      a.2 + ((n1 - 1 : Nat) : Rat) * d1 = (if e1 then b.2 else b.2 - d1) := by
  obtain ⟨n0, n1, e0, e1, _, hn0, hn1, hst, hsp, hepg, hgp, hsa, _⟩ := gridInit_shape a b gpts sampling ep s hinit hx hy hep hG hS hdef
  have c0 := (adjustSampling_cons (b.1 - a.1) n0 e0 hx hn0).2
  have c1 := (adjustSampling_cons (b.2 - a.2) n1 e1 hy hn1).2
  have t0 := toNat_cast_of_minG hn0
  have t1 := toNat_cast_of_minG hn1
  refine ⟨n0.toNat, n1.toNat, adjustSamplingElt (b.1 - a.1) n0 e0, adjustSamplingElt (b.2 - a.2) n1 e1, e0, e1,
    by rw [t0, t1]; exact hgp, hsa, hepg, ?_, ?_, axis_coordinates_spec _ _ _, axis_coordinates_spec _ _ _, ?_, ?_⟩
  · have p0 := gridscan_positions a.1 b.1 _ n0.toNat e0 (by rw [t0]; exact c0) (by rw [t0]; exact hn0)
    have p1 := gridscan_positions a.2 b.2 _ n1.toNat e1 (by rw [t1]; exact c1) (by rw [t1]; exact hn1)
    rw [t0] at p0; rw [t1] at p1
    simp only [gridPositions, hst, hsp, hgp, hepg, p0, p1]
  · simp only [gridAxes, hsa, hst, hepg, gridAxisSampling, gridAxisOffset]
  · exact gridscan_last_position a.1 b.1 _ n0.toNat e0 (by rw [t0]; exact c0) (by rw [t0]; exact hn0)
  · exact gridscan_last_position a.2 b.2 _ n1.toNat e1 (by rw [t1]; exact c1) (by rw [t1]; exact hn1)

/-! ### LineScan -/

/-- `LineScan._adjust_sampling`: the reported sampling is `extent / (gpts − 1)` with endpoint and more than one
point, `extent / gpts` otherwise -/
theorem linescan_sampling_spec (l : LineScan) (a b : Rat × Rat) (n : Int) (ha : l.start = some a) (hb : l.stop = some b)
    (hn : l.gpts = some n) :
    (lineAdjustSampling l).sampling
      = some (if l.endpoint = true ∧ n > 1 then l.norm / ((n : Rat) - 1) else l.norm / (n : Rat)) := by
  simp only [lineAdjustSampling, LineScan.extent, ha, hb, hn, lineArgs, lineUseEndpoint, lineSamplingEndpoint, lineSamplingOpen,
    Option.getD_some]
  by_cases h : l.endpoint = true ∧ n > 1
  · simp [h]
  · simp only [h, if_false]
    rcases Bool.eq_false_or_eq_true l.endpoint with he | he
    · have hn1 : ¬ (n > 1) := fun h1 => h ⟨he, h1⟩
      simp [he, hn1]
    · simp [he]

/-- `LineScan._adjust_gpts`: `gpts = ⌈extent / sampling⌉` (no extra point for `endpoint`, unlike `Grid`) -/
theorem linescan_gpts_spec (l : LineScan) (a b : Rat × Rat) (s : Rat) (ha : l.start = some a) (hb : l.stop = some b)
    (hs : l.sampling = some s) : (lineAdjustGpts l).gpts = some (l.norm / s).ceil := by
  simp only [lineAdjustGpts, lineAdjustSampling, LineScan.extent, ha, hb, hs, lineArgs, lineGpts, Option.getD_some]
  simp [AbtemVerif.Py.pyInt, AbtemVerif.Py.pyCeil, Rat.ceil_intCast, Rat.floor_intCast]

/-- what `_adjust_sampling` leaves: the sampling is the one determined by extent, gpts and endpoint -/
def LineConsistent (l : LineScan) (n : Nat) (s : Rat) : Prop :=
  l.gpts = some (n : Int) ∧ l.sampling = some s ∧
    s = (if l.endpoint = true ∧ (n : Int) > 1 then l.norm / (((n : Int) : Rat) - 1) else l.norm / ((n : Int) : Rat))

/-- every LineScan the API produces with two points and a number of positions is consistent:
`_adjust_sampling` is the last thing the constructor and every setter run -/
theorem linescan_adjust_consistent (l : LineScan) (a b : Rat × Rat) (n : Nat) (ha : l.start = some a) (hb : l.stop = some b)
    (hn : l.gpts = some (n : Int)) :
    ∃ s, LineConsistent (lineAdjustSampling l) n s := by
  have h := linescan_sampling_spec l a b n ha hb hn
  refine ⟨_, ?_, h, ?_⟩
  · simp [lineAdjustSampling, LineScan.extent, ha, hb, hn]
  · simp [lineAdjustSampling, LineScan.extent, ha, hb, hn]

lemma line_step (p q L s : Rat) (n : Nat) (e : Bool) (hL : L ≠ 0)
    (hs : s = (if e = true ∧ (n : Int) > 1 then L / (((n : Int) : Rat) - 1) else L / ((n : Int) : Rat)))
    (k : Nat) (hk : k < n) :
    p + (k : Rat) * linspaceStep p q n e = p + (k : Rat) * s * ((q - p) / L) := by
  by_cases h1 : n = 1
  · subst h1
    have : k = 0 := by omega
    subst this; simp
  · have hn2 : 2 ≤ n := by omega
    have hnR : (2 : Rat) ≤ (n : Rat) := by exact_mod_cast hn2
    have hgt : ((n : Int) > 1) := by omega
    cases e with
    | true =>
      have hne : ((n : Rat) - 1) ≠ 0 := by intro h; linarith
      simp only [hgt, and_self, if_true] at hs
      rw [linspace_step_endpoint p q n (by omega), hs]
      push_cast; field_simp
    | false =>
      have hne : (n : Rat) ≠ 0 := by intro h; linarith
      simp only [Bool.false_eq_true, false_and, if_false] at hs
      rw [linspace_step_open, hs]
      push_cast; field_simp

/-- **LineScan positions**: a consistent LineScan from `a` to `b` (`‖b − a‖ = L ≠ 0` supplied by numpy) with `n`
positions yields exactly the points `a + k·s·u`, `u = (b − a)/L` the unit direction, `s` the reported sampling. -/
theorem linescan_positions (l : LineScan) (a b : Rat × Rat) (n : Nat) (s : Rat) (ha : l.start = some a) (hb : l.stop = some b)
    (hc : LineConsistent l n s) (hL : l.norm ≠ 0) :
    linePositions l = .ok ((List.range n).map fun (k : Nat) =>
      (a.1 + (k : Rat) * s * ((b.1 - a.1) / l.norm), a.2 + (k : Rat) * s * ((b.2 - a.2) / l.norm))) := by
  obtain ⟨hn, hs, hs'⟩ := hc
  simp only [linePositions, hn, ha, hb, lineArgs, lineXStart, lineXStop, lineXNum, lineXEndpoint, lineYStart, lineYStop,
    lineYNum, lineYEndpoint, Option.getD_some, linspaceI_nonneg]
  congr 1
  apply List.ext_getElem
  · simp
  · intro k h1 h2
    have hk : k < n := by simpa using h2
    simp only [List.getElem_zip, List.getElem_map, List.getElem_range]
    rw [linspace_getElem, linspace_getElem, line_step a.1 b.1 l.norm s n l.endpoint hL hs' k hk,
      line_step a.2 b.2 l.norm s n l.endpoint hL hs' k hk]

/-- the last LineScan position is the end point exactly when endpoint is set (and there is more than one
position), otherwise it is one step `s·u` short of it -/
theorem linescan_last_position (l : LineScan) (n : Nat) (s p q : Rat) (hc : LineConsistent l n s) (hL : l.norm ≠ 0) (hn : 1 ≤ n) :
    p + ((n - 1 : Nat) : Rat) * s * ((q - p) / l.norm)
      = if l.endpoint = true ∧ 2 ≤ n then q else q - s * ((q - p) / l.norm) := by
  obtain ⟨_, _, hs⟩ := hc
  have hnR : (1 : Rat) ≤ (n : Rat) := by exact_mod_cast hn
  rw [Nat.cast_sub hn]
  by_cases h : l.endpoint = true ∧ 2 ≤ n
  · have hgt : ((n : Int) > 1) := by omega
    have h2 : (2 : Rat) ≤ (n : Rat) := by exact_mod_cast h.2
    have hne : ((n : Rat) - 1) ≠ 0 := by intro h'; linarith
    simp only [h.1, hgt, and_self, if_true] at hs
    simp only [h, and_self, if_true]
    rw [hs]; push_cast; field_simp; ring
  · simp only [h, if_false]
    have hne : (n : Rat) ≠ 0 := by intro h'; linarith
    have hsn : s = l.norm / (n : Rat) := by
      by_cases he : l.endpoint = true
      · have hn1 : n = 1 := by
          by_contra hne1; exact h ⟨he, by omega⟩
        subst hn1
        simp only [he, true_and] at hs
        simpa using hs
      · have : ¬ (l.endpoint = true ∧ (n : Int) > 1) := fun hh => he hh.1
        simp only [this, if_false] at hs
        simpa using hs
    rw [hsn]; field_simp; ring

/-- **The ScanAxis of a LineScan** (`offset 0`, the reported sampling) lists the distances `k·s` of the
positions from the start point along the line. -/
theorem linescan_axis_coordinates (l : LineScan) (n : Nat) (s : Rat) (hs : l.sampling = some s) :
    (lineAxis l).map (fun t => axisCoordinates t.2.1 t.1 (n : Int))
      = .ok (.ok ((List.range n).map fun (k : Nat) => (k : Rat) * s)) := by
  simp only [lineAxis, hs, lineArgs, lineAxisSampling, lineAxisOffset, Option.getD_some, Except.map]
  rw [axis_coordinates_spec]
  simp

/-! ### CustomScan -/

/-- a CustomScan yields exactly the positions it was given, and its `PositionsAxis` lists the same coordinates -/
theorem customscan_spec (c : CustomScan) :
    customPositions c = c.positions ∧ (c.positions ≠ [] → customAxisValues c = some (customPositions c) ∧
      customShape c = [(customPositions c).length]) := by
  refine ⟨rfl, fun h => ?_⟩
  have : c.positions.isEmpty = false := by cases hc : c.positions <;> simp_all
  simp [customAxisValues, customShape, customPositions, this]

/-! ### an observation about the setters (documented in design/C20.md) -/

/-- **Assigning `start` or `end` keeps the number of positions** (repaired in /repo e321e729: the setters re-derived gpts as
`⌈extent / sampling⌉` from the reported sampling, which lost one position per assignment with endpoint and could gain one by
rounding without) — for every scan with defined gpts, every new point and every norm. -/
theorem linescan_setters_keep_gpts (l : LineScan) (n : Int) (p : Rat × Rat) (norm : Rat) (hn : l.gpts = some n) :
    (lineSetStop l p norm).gpts = some n ∧ (lineSetStart l p norm).gpts = some n := by
  constructor
  · simp only [lineSetStop, lineReadjust, hn, Option.isSome_some, if_true, lineAdjustSampling]
    split <;> simp [hn]
  · simp only [lineSetStart, lineReadjust, hn, Option.isSome_some, if_true, lineAdjustSampling]
    split <;> simp [hn]

/-- known finding: a GridScan with one reversed axis (`end < start` on it) and a `sampling` is accepted by the constructor
(only an extent that is non-positive on BOTH axes is rejected), its grid computes a negative number of positions
(`⌈−2 / 0.5⌉ = −4`), and `get_positions()` raises ValueError; with `gpts=` the same scan works -/
theorem gridscan_reversed_axis_with_sampling_counterexample :
    ¬ (∀ (a b : Rat × Rat) (sampling : AbtemVerif.Grid.Val) (s : GridScan), gridInit (some a) (some b) AbtemVerif.Grid.Val.none sampling [false, false] = .ok s →
        ∃ xs ys, gridPositions s = .ok (xs, ys)) := by
  intro h
  obtain ⟨xs, ys, hxy⟩ := h (0, 0) (-2, 1) (AbtemVerif.Grid.Val.scalar (1/2))
    ⟨some (0, 0), some (-2, 1), ⟨2, [false, false], some [-2, 1], some [-4, 2], some [1/2, 1/2], false, false, false⟩⟩ (by decide +kernel)
  revert hxy
  simp [gridPositions, gridAxisPositions, AbtemVerif.Np.linspaceI, gridLinNum]

/-- known finding, second form: when the reversed extent is shorter than the sampling the computed count is `⌈−0.5/1⌉ = 0` and the
scan silently has no positions at all -/
theorem gridscan_reversed_axis_empty_counterexample :
    ¬ (∀ (a b : Rat × Rat) (sampling : AbtemVerif.Grid.Val) (s : GridScan) (xs ys : List Rat),
        gridInit (some a) (some b) AbtemVerif.Grid.Val.none sampling [false, false] = .ok s →
        gridPositions s = .ok (xs, ys) → xs ≠ []) := by
  intro h
  exact h (0, 0) (-1/2, 1) (AbtemVerif.Grid.Val.scalar 1)
    ⟨some (0, 0), some (-1/2, 1), ⟨2, [false, false], some [-1/2, 1], some [0, 1], some [0, 1], false, false, false⟩⟩ [] [0]
    (by decide +kernel) (by decide +kernel) rfl

/-! ### probe position = periodic shift (1-D DFT, whole-pixel shifts) -/

open ZMod in
/-- Shift rule of the DFT on `ZMod N`: the spectrum of the array shifted periodically by `p` pixels is the spectrum
multiplied by the phase ramp `exp(−2πi·k·p/N)` — the factor `fft_shift_kernel` builds.  Hence multiplying the
spectrum of the origin probe by the ramp and transforming back gives the periodically shifted probe.
(Full statement: 2-D arrays and arbitrary real `p` — the 2-D kernel is the product of two such ramps; fractional `p`
is the band-limited interpolation, observed by the conformance oracle.) -/
theorem probe_shift_partial (N : ℕ) [NeZero N] (Φ : ZMod N → ℂ) (p : ZMod N) :
    (ZMod.dft (fun j => Φ (j - p))) = fun k => (stdAddChar (-(p * k)) : ℂ) * ZMod.dft Φ k := by
  funext k
  simp only [ZMod.dft_apply, smul_eq_mul, Finset.mul_sum]
  apply Fintype.sum_equiv (Equiv.subRight p)
  intro j
  simp only [Equiv.subRight_apply]
  rw [← mul_assoc, ← AddChar.map_add_eq_mul]
  congr 2
  ring


open AbtemVerif.DFT ZMod in
/-- **2-D shift rule** for the separable DFT on an `n × m` grid (`Lib/DFT2.zmodPair2`): the spectrum of the array shifted
periodically by `(p, q)` pixels is the spectrum times the product of the two phase ramps — exactly the array
`fft_shift_kernel` builds (`k[0] * k[1]`). -/
theorem probe_shift_2d (n m : ℕ) [NeZero n] [NeZero m] (Φ : ZMod n × ZMod m → ℂ) (p : ZMod n) (q : ZMod m)
    (k : ZMod n) (l : ZMod m) :
    (zmodPair2 n m).F (fun r => Φ (r.1 - p, r.2 - q)) (k, l)
      = (stdAddChar (-(p * k)) : ℂ) * (stdAddChar (-(q * l)) : ℂ) * (zmodPair2 n m).F Φ (k, l) := by
  show ZMod.dft (fun i => ZMod.dft (fun j => Φ (i - p, j - q)) l) k
      = _ * _ * ZMod.dft (fun i => ZMod.dft (fun j => Φ (i, j)) l) k
  have h1 : ∀ i, ZMod.dft (fun j => Φ (i - p, j - q)) l
      = (stdAddChar (-(q * l)) : ℂ) * ZMod.dft (fun j => Φ (i - p, j)) l :=
    fun i => congrFun (probe_shift_partial m (fun j => Φ (i - p, j)) q) l
  simp only [h1]
  rw [ZMod.dft_const_mul]
  have h2 := congrFun (probe_shift_partial n (fun i => ZMod.dft (fun j => Φ (i, j)) l) p) k
  simp only [h2]
  ring

open AbtemVerif.DFT ZMod in
/-- **A probe built at a whole-pixel position is the origin probe shifted periodically**: multiplying the 2-D spectrum of
the origin probe by the kernel of position `(p, q)` and transforming back (`BaseScan._evaluate_kernel` +
`ReciprocalSpaceMultiplication`) gives `Φ(i − p, j − q)`, for every probe `Φ` and every grid size.
(Full statement incl. fractional positions — band-limited interpolation — is observed by the conformance oracle.) -/
theorem probe_position_is_shift_partial (n m : ℕ) [NeZero n] [NeZero m] (Φ : ZMod n × ZMod m → ℂ) (p : ZMod n) (q : ZMod m) :
    (zmodPair2 n m).Finv (fun kl => (stdAddChar (-(p * kl.1)) : ℂ) * (stdAddChar (-(q * kl.2)) : ℂ) * (zmodPair2 n m).F Φ kl)
      = fun r => Φ (r.1 - p, r.2 - q) := by
  have : (fun kl : ZMod n × ZMod m => (stdAddChar (-(p * kl.1)) : ℂ) * (stdAddChar (-(q * kl.2)) : ℂ) * (zmodPair2 n m).F Φ kl)
      = (zmodPair2 n m).F (fun r => Φ (r.1 - p, r.2 - q)) := by
    funext kl
    obtain ⟨k, l⟩ := kl
    exact (probe_shift_2d n m Φ p q k l).symm
  rw [this, (zmodPair2 n m).inv_left]

open AbtemVerif.DFT ZMod in
/-- **Tied to the code's kernel** (`BaseScan._evaluate_kernel` → `fft_shift_kernel`): with the *generated* phase
`shiftPhase` of abtem/core/fft.py evaluated at the `fftfreq` frequencies of an `n × m` grid (C15:
`cexp_shiftPhase_eq_stdAddChar`) and a scan position of `(a, b)` whole pixels, multiplying the 2-D spectrum of the origin
probe by the kernel and transforming back gives the origin probe shifted periodically by `(a, b)`. -/
theorem probe_at_scan_position_is_shifted_probe_partial (n m : ℕ) [NeZero n] [NeZero m] (Φ : ZMod n × ZMod m → ℂ) (a b : ℤ) :
    (zmodPair2 n m).Finv (fun kl => AbtemVerif.Props.C15.shiftKernel (AbtemVerif.Props.C15.unitFreq n kl.1)
        (AbtemVerif.Props.C15.unitFreq m kl.2) (a : ℝ) (b : ℝ) * (zmodPair2 n m).F Φ kl)
      = fun r => Φ (r.1 - (a : ZMod n), r.2 - (b : ZMod m)) := by
  rw [← probe_position_is_shift_partial n m Φ (a : ZMod n) (b : ZMod m)]
  congr 1
  funext kl
  unfold AbtemVerif.Props.C15.shiftKernel
  rw [AbtemVerif.Props.C15.cexp_shiftPhase_eq_stdAddChar n a kl.1, AbtemVerif.Props.C15.cexp_shiftPhase_eq_stdAddChar m b kl.2]

/-- the ramp has modulus one, so the probe's norm does not depend on the position -/
theorem shift_kernel_unit_modulus (N : ℕ) [NeZero N] (x : ZMod N) : ‖(ZMod.stdAddChar x : ℂ)‖ = 1 :=
  AddChar.norm_apply _ _

/-! ### non-vacuity -/
example : gridAxisPositions 1 3 (4 : Nat) false = .ok [1, 3/2, 2, 5/2] := by decide +kernel
example : (3 : Rat) - 1 = adjustExtentElt ((4 : Nat) : Int) (1/2) false ∧ minG false ≤ ((4 : Nat) : Int) := by
  constructor <;> decide +kernel
example : LineConsistent (lineInit (some (0, 0)) (some (3, 4)) 5 (some 6) none true) 6 1 := by
  refine ⟨by decide +kernel, by decide +kernel, by decide +kernel⟩
example : linePositions (lineInit (some (0, 0)) (some (3, 4)) 5 (some 6) none true)
    = .ok [(0, 0), (3/5, 4/5), (6/5, 8/5), (9/5, 12/5), (12/5, 16/5), (3, 4)] := by decide +kernel

end AbtemVerif.Props.C20
