/-
C06 — PRISM reduction reproduces conventional multislice probes.

Part A (every transform pair, every slice list, every coefficient set): one multislice step
(`conventional_multislice_step`: transmit then propagate, or transposed) is ℂ-linear, hence so is the slice loop;
the PRISM reduction `Σ_k c_k · S_k` of the scattering matrix `S_k = multislice (pw_k)` equals the multislice of the
superposition `Σ_k c_k · pw_k`; and with plane waves `pw_k = amp · F⁻¹ δ_k` that superposition is `amp · F⁻¹ c`,
i.e. the probe whose reciprocal-space array is the coefficient vector.
Part B (generated formulas of `Gen/PrismR.lean`, regenerated from abtem/prism/s_matrix.py and utils.py on every
run): the CTF coefficients are divided by their ℓ² norm `√Σ|a_k|²` (unit reciprocal-space intensity, as the probe
of C05), the position coefficients are `exp(−2πi k·r₀)` (grid and custom scans agree) and translate every plane
wave by `r₀`, the plane-wave amplitude for interpolation 1 is `1/N`, and the CTF is evaluated at the polar
coordinates of the wave vector.
Part C (index arithmetic, `Gen/Prism.lean` + `Model/Prism.lean`): `wrapped_slices` selects the periodic window for
every start (any number of periods outside the array).  Interpolation > 1 is `_partial`: see the end of the file.
-/
import AbtemVerif.Model.Prism
import AbtemVerif.Gen.PrismR
import AbtemVerif.Lib.DFT
import Mathlib.Analysis.SpecialFunctions.Complex.Circle
import Mathlib.Tactic.Ring
import Mathlib.Tactic.Linarith
import Mathlib.Tactic.FieldSimp

open Finset BigOperators

namespace AbtemVerif.Props.C06
open AbtemVerif.DFT AbtemVerif.Gen.PrismR AbtemVerif.Py

/-! ## Part A — linearity of the multislice fold and the reduction identity -/
section Linear
variable {ι : Type*} [Fintype ι]

/-- one slice: transmission function `t` (real space) and propagator symbol `p` (reciprocal space, including the
antialias aperture) -/
structure Slice (ι : Type*) where
  t : ι → ℂ
  p : ι → ℂ

/-- `conventional_multislice_step` (abtem/multislice.py): transmit then propagate; `transpose` swaps the order -/
def step (P : FourierPair ι) (transpose : Bool) (s : Slice ι) (ψ : ι → ℂ) : ι → ℂ :=
  if transpose then fun j => s.t j * P.mult s.p ψ j else P.mult s.p (fun j => s.t j * ψ j)

/-- the slice loop -/
def multislice (P : FourierPair ι) (transpose : Bool) (slices : List (Slice ι)) (ψ : ι → ℂ) : ι → ℂ :=
  slices.foldl (fun ψ s => step P transpose s ψ) ψ

lemma step_add (P : FourierPair ι) (tr : Bool) (s : Slice ι) (x y : ι → ℂ) :
    step P tr s (x + y) = step P tr s x + step P tr s y := by
  unfold step
  cases tr
  · simp only [Bool.false_eq_true, if_false]
    rw [← P.mult_add]; congr 1; funext j; simp [mul_add]
  · simp only [if_true]
    rw [P.mult_add]; funext j; simp [mul_add]

lemma step_smul (P : FourierPair ι) (tr : Bool) (s : Slice ι) (c : ℂ) (x : ι → ℂ) :
    step P tr s (c • x) = c • step P tr s x := by
  unfold step
  cases tr
  · simp only [Bool.false_eq_true, if_false]
    rw [← P.mult_smul]; congr 1; funext j; simp [mul_left_comm]
  · simp only [if_true]
    rw [P.mult_smul]; funext j; simp [mul_left_comm]

/-- The multislice fold is additive … -/
theorem multislice_add (P : FourierPair ι) (tr : Bool) (slices : List (Slice ι)) (x y : ι → ℂ) :
    multislice P tr slices (x + y) = multislice P tr slices x + multislice P tr slices y := by
  unfold multislice
  induction slices generalizing x y with
  | nil => rfl
  | cons s rest ih => simp only [List.foldl_cons]; rw [step_add, ih]

/-- … and homogeneous: `multislice_linear`. -/
theorem multislice_smul (P : FourierPair ι) (tr : Bool) (slices : List (Slice ι)) (c : ℂ) (x : ι → ℂ) :
    multislice P tr slices (c • x) = c • multislice P tr slices x := by
  unfold multislice
  induction slices generalizing x with
  | nil => rfl
  | cons s rest ih => simp only [List.foldl_cons]; rw [step_smul, ih]

lemma multislice_zero (P : FourierPair ι) (tr : Bool) (slices : List (Slice ι)) :
    multislice P tr slices 0 = 0 := by
  have h := multislice_smul P tr slices 0 0
  simpa using h

/-- `reduce_eq_multislice`: for every finite set `K` of wave vectors, coefficients `c` and incident waves `pw`,
the reduction `Σ_k c_k • S_k` of the scattering matrix `S_k = multislice (pw_k)` is the multislice of `Σ_k c_k • pw_k`. -/
theorem reduce_eq_multislice {κ : Type*} (P : FourierPair ι) (tr : Bool) (slices : List (Slice ι))
    (K : Finset κ) (c : κ → ℂ) (pw : κ → ι → ℂ) :
    ∑ k ∈ K, c k • multislice P tr slices (pw k) = multislice P tr slices (∑ k ∈ K, c k • pw k) := by
  classical
  induction K using Finset.induction_on with
  | empty => simp [multislice_zero]
  | insert a s ha ih => rw [Finset.sum_insert ha, Finset.sum_insert ha, multislice_add, multislice_smul, ih]

/-- the plane wave of reciprocal index `k`: `amp · F⁻¹ δ_k` (numpy: `exp(2πi k·r) · amp`, see `planewave_is_invDFT_delta`) -/
noncomputable def planeWave [DecidableEq ι] (P : FourierPair ι) (amp : ℂ) (k : ι) : ι → ℂ :=
  amp • P.Finv (Pi.single k 1)

/-- `planewave_expansion`: the superposition of all plane waves with coefficients `c` is `amp · F⁻¹ c`. -/
theorem planewave_expansion [DecidableEq ι] (P : FourierPair ι) (amp : ℂ) (c : ι → ℂ) :
    ∑ k, c k • planeWave P amp k = amp • P.Finv c := by
  have hc : c = ∑ k, c k • (Pi.single k (1 : ℂ) : ι → ℂ) := by
    funext j
    simp [Finset.sum_apply, Pi.single_apply]
  conv_rhs => rw [hc, map_sum]
  rw [Finset.smul_sum]
  apply Finset.sum_congr rfl
  intro k _
  unfold planeWave
  rw [map_smul, smul_comm]

/-- `probe_expansion`: reducing the scattering matrix built from *all* plane waves with coefficient vector `c`
gives exactly the multislice of the probe `amp · F⁻¹ c` (coefficients outside the aperture are zero entries of `c`). -/
theorem reduce_eq_multislice_probe [DecidableEq ι] (P : FourierPair ι) (tr : Bool) (slices : List (Slice ι))
    (amp : ℂ) (c : ι → ℂ) :
    ∑ k, c k • multislice P tr slices (planeWave P amp k) = multislice P tr slices (amp • P.Finv c) := by
  rw [reduce_eq_multislice, planewave_expansion]

/-- Only the wave vectors inside the support of the coefficients are needed (PRISM keeps `|k| < cutoff`). -/
theorem reduce_support [DecidableEq ι] (P : FourierPair ι) (tr : Bool) (slices : List (Slice ι))
    (amp : ℂ) (c : ι → ℂ) (K : Finset ι) (hK : ∀ k, k ∉ K → c k = 0) :
    ∑ k ∈ K, c k • multislice P tr slices (planeWave P amp k) = multislice P tr slices (amp • P.Finv c) := by
  rw [← reduce_eq_multislice_probe]
  apply Finset.sum_subset (Finset.subset_univ K)
  intro k _ hk
  rw [hK k hk, zero_smul]

/-- The reduced probe with unit-norm coefficients has the real-space intensity `|amp|²/N` of the normalised probe
(C05: reciprocal-space intensity one). -/
theorem reduced_probe_energy [Nonempty ι] (P : FourierPair ι) (c : ι → ℂ) (hc : energy c = 1) :
    energy (P.Finv c) = 1 / (Fintype.card ι : ℝ) := by
  rw [P.parseval_inv, hc]

end Linear

/-! ## Part B — the coefficient formulas of the source -/

/-- `complex_exponential(x) = cos x + i sin x = exp(i x)` (abtem/core/complex.py; the generated body is proved equal
to this in Lib/WaveOptics.lean, property C04) -/
noncomputable def cexp (x : ℝ) : ℂ := Complex.exp (x * Complex.I)

lemma cexp_add (x y : ℝ) : cexp (x + y) = cexp x * cexp y := by
  unfold cexp; rw [← Complex.exp_add]; congr 1; push_cast; ring

lemma normSq_cexp (x : ℝ) : Complex.normSq (cexp x) = 1 := by
  unfold cexp
  rw [Complex.normSq_eq_norm_sq, Complex.norm_exp_ofReal_mul_I]; norm_num

/-- `coeff_norm_uses_abs_sq`: the summand of the normalisation is `|a|²` -/
theorem ctf_norm_summand (a : ℂ) : ctfNormSummand a = Complex.normSq a := by
  unfold ctfNormSummand
  rw [Complex.normSq_eq_norm_sq]

/-- The CTF coefficients `a_k / √(Σ_j |a_j|²)` have unit ℓ² norm, for every CTF (aperture, aberrations, envelopes)
that is not identically zero on the wave-vector set. -/
theorem ctf_coefficients_unit_norm {κ : Type*} [Fintype κ] (a : κ → ℂ) (ha : ∃ k, a k ≠ 0) :
    ∑ k, Complex.normSq (ctfNormalise (a k) (∑ j, ctfNormSummand (a j))) = 1 := by
  simp only [ctf_norm_summand]
  set s : ℝ := ∑ j, Complex.normSq (a j) with hs
  have hpos : 0 < s := by
    obtain ⟨k, hk⟩ := ha
    have h1 : 0 < Complex.normSq (a k) := Complex.normSq_pos.mpr hk
    have h2 : Complex.normSq (a k) ≤ s :=
      Finset.single_le_sum (f := fun j => Complex.normSq (a j)) (fun j _ => Complex.normSq_nonneg _) (Finset.mem_univ k)
    linarith
  unfold ctfNormalise
  have h : ∀ k, Complex.normSq (a k / (Real.sqrt s : ℂ)) = Complex.normSq (a k) / s := by
    intro k
    rw [Complex.normSq_div, Complex.normSq_ofReal, Real.mul_self_sqrt hpos.le]
  simp only [h]
  rw [← Finset.sum_div, ← hs]
  exact div_self hpos.ne'

/-- The legacy normalisation `a / √(Σ a²)` (complex square, defect F4 of the pinned tree, repaired by /repo
88dad271) does not give unit norm: for `a = (1, 1, i)` the divisor is `√1 = 1` and the norm² stays 3. -/
lemma legacy_complex_square_not_normalised :
    let a : Fin 3 → ℂ := ![1, 1, Complex.I]
    (∑ k, (a k) ^ 2 = 1) ∧ ∑ k, Complex.normSq (a k / 1) = 3 := by
  constructor
  · simp [Fin.sum_univ_three]
  · simp [Fin.sum_univ_three]; norm_num

/-- Grid scans multiply an `x` factor and a `y` factor; custom scans use one exponential: the same coefficient
`exp(−2πi (kx·x + ky·y))`. -/
theorem position_coefficient_grid_eq_custom (x y kx ky : ℝ) :
    cexp (posPhaseGridX x kx) * cexp (posPhaseGridY y ky) = cexp (posPhaseCustom x y kx ky) := by
  rw [← cexp_add]; congr 1
  unfold posPhaseGridX posPhaseGridY posPhaseCustom; ring

theorem position_coefficient_value (x y kx ky : ℝ) :
    cexp (posPhaseCustom x y kx ky) = Complex.exp (-(2 * Real.pi * (kx * x + ky * y) : ℝ) * Complex.I) := by
  unfold cexp posPhaseCustom; congr 1; push_cast; ring

/-- `position_shift`: multiplying plane wave `k` by its position coefficient translates it by the probe position:
`c_k(r₀) · pw_k(r) = pw_k(r − r₀)`. -/
theorem position_shift (x₀ y₀ x y kx ky : ℝ) :
    cexp (posPhaseCustom x₀ y₀ kx ky) * (cexp (planeWavePhaseX kx x false) * cexp (planeWavePhaseY ky y false))
      = cexp (planeWavePhaseX kx (x - x₀) false) * cexp (planeWavePhaseY ky (y - y₀) false) := by
  rw [← cexp_add, ← cexp_add, ← cexp_add]; congr 1
  unfold posPhaseCustom planeWavePhaseX planeWavePhaseY
  simp only [Bool.false_eq_true, if_false]; ring

/-- every plane wave and every position coefficient has modulus one -/
theorem coefficient_modulus_one (x y kx ky : ℝ) : Complex.normSq (cexp (posPhaseCustom x y kx ky)) = 1 :=
  normSq_cexp _

/-- The S-matrix plane waves are scaled by `∏ interpolation / N`; without interpolation this is the `1/N` of the
inverse DFT of a delta. -/
theorem smatrix_amplitude_no_interpolation (N : ℝ) : smatrixAmplitude 1 N = 1 / N := rfl

/-- The CTF is evaluated at the polar coordinates of the wave vector: `α = λ|k|`, and `(kx, ky) = |k| (cos φ, sin φ)`. -/
theorem ctf_polar_coordinates (kx ky wl : ℝ) (hk : (kx, ky) ≠ (0, 0)) :
    ctfAlpha kx ky wl = Real.sqrt (kx ^ 2 + ky ^ 2) * wl ∧
    Real.sqrt (kx ^ 2 + ky ^ 2) * Real.cos (ctfPhi kx ky) = kx ∧
    Real.sqrt (kx ^ 2 + ky ^ 2) * Real.sin (ctfPhi kx ky) = ky := by
  have hz : (⟨kx, ky⟩ : ℂ) ≠ 0 := by
    intro h
    apply hk
    have h1 := congrArg Complex.re h
    have h2 := congrArg Complex.im h
    simp at h1 h2
    simp [h1, h2]
  have habs : ‖(⟨kx, ky⟩ : ℂ)‖ = Real.sqrt (kx ^ 2 + ky ^ 2) := by
    rw [Complex.norm_def, Complex.normSq_mk]; congr 1; ring
  refine ⟨rfl, ?_, ?_⟩
  · unfold ctfPhi pyArctan2
    rw [Complex.cos_arg hz, habs]
    have : Real.sqrt (kx ^ 2 + ky ^ 2) ≠ 0 := by rw [← habs]; exact norm_ne_zero_iff.mpr hz
    field_simp
  · unfold ctfPhi pyArctan2
    rw [Complex.sin_arg, habs]
    have : Real.sqrt (kx ^ 2 + ky ^ 2) ≠ 0 := by rw [← habs]; exact norm_ne_zero_iff.mpr hz
    field_simp

/-! ### the concrete DFT: numpy's plane wave is the inverse transform of a delta -/
section Concrete
open ZMod
variable {N : ℕ} [NeZero N]

/-- For the concrete pair `zmodPair N` (Mathlib's `ZMod.dft`), `F⁻¹ δ_k (j) = (1/N) · e(k·j/N)`: the array
`exp(2πi k x_j) / N` that `plane_waves` and `_build_s_matrix` write (1-D instance). -/
theorem planewave_is_invDFT_delta (k j : ZMod N) :
    (zmodPair N).Finv (Pi.single k 1) j = (N : ℂ)⁻¹ * stdAddChar (j * k) := by
  show (ZMod.dft (N := N) (E := ℂ)).symm (Pi.single k 1) j = _
  rw [ZMod.invDFT_apply]
  simp [Pi.single_apply, Finset.sum_ite_eq', mul_comm]

end Concrete

/-! ## Part C — crop index arithmetic (interpolation > 1) -/
section Crop
open AbtemVerif.Prism AbtemVerif.Gen.Prism

lemma range_map_split {β} (k m : Nat) (h : Nat → β) :
    (List.range (k + m)).map h = (List.range k).map h ++ (List.range m).map (fun i => h (k + i)) := by
  rw [List.range_add, List.map_append, List.map_map]; rfl

/-- a slice with both ends inside the axis selects `lo, …, hi-1` -/
lemma indices_some (lo hi n : Nat) (hlo : lo ≤ hi) (hhi : hi ≤ n) :
    (PySlice.mk (some (lo : Int)) (some (hi : Int))).indices n = (List.range (hi - lo)).map (· + lo) := by
  unfold PySlice.indices
  have h1 : ¬ ((lo : Int) < 0) := by omega
  have h2 : ¬ ((hi : Int) < 0) := by omega
  simp only [h1, h2, if_false, Int.toNat_natCast]
  have : min lo n = lo := by omega
  have : min hi n = hi := by omega
  simp [*]

lemma indices_open (lo n : Nat) (hlo : lo ≤ n) :
    (PySlice.mk (some (lo : Int)) none).indices n = (List.range (n - lo)).map (· + lo) := by
  unfold PySlice.indices
  have h1 : ¬ ((lo : Int) < 0) := by omega
  simp only [h1, if_false, Int.toNat_natCast]
  have : min lo n = lo := by omega
  simp [*]

lemma pyMod_pos (a : Int) (n : Nat) (hn : 0 < n) : pyMod a n = a % (n : Int) := by
  unfold pyMod
  exact Int.fmod_eq_emod_of_nonneg a (by omega)

/-- `wrapped_slices` (regenerated whole from abtem/prism/utils.py): for every start — any number of periods outside the
axis — and every window that wraps at most once, the two slices select exactly the periodic window
`(start + i) mod n`, `i < size`, in order. -/
theorem wrapped_slices_index (start : Int) (size n : Nat) (hn : 0 < n)
    (h2 : start % (n : Int) + size ≤ 2 * n) :
    ∃ a b, wrappedSlices start (start + size) n = .ok (a, b) ∧
      a.indices n ++ b.indices n = (List.range size).map fun i => ((start + (i : Nat)) % (n : Int)).toNat := by
  obtain ⟨s, hs⟩ : ∃ s : Nat, start % (n : Int) = s := ⟨(start % (n : Int)).toNat, by
    have := Int.emod_nonneg start (by omega : (n : Int) ≠ 0); omega⟩
  have hsn : s < n := by
    have := Int.emod_lt_of_pos start (by omega : (0 : Int) < n); omega
  have hmod : ∀ i : Nat, (start + i) % (n : Int) = ((s + i : Nat) : Int) % (n : Int) := by
    intro i
    rw [← Int.emod_add_emod, hs]; push_cast; rfl
  rw [hs] at h2
  have hstop : start + (size : Int) - start + (s : Int) = ((s + size : Nat) : Int) := by
    push_cast; ring
  unfold wrappedSlices
  dsimp only
  simp only [pyMod_pos _ _ hn, hs, hstop]
  have hno : ¬ (((s + size : Nat) : Int) > 2 * (n : Int)) := by push_cast; omega
  simp only [hno, decide_false, Bool.false_eq_true, if_false]
  by_cases hw : ((s + size : Nat) : Int) > (n : Int)
  · simp only [hw, decide_true, if_true]
    refine ⟨_, _, rfl, ?_⟩
    have e1 : ((s + size : Nat) : Int) - (n : Int) = ((s + size - n : Nat) : Int) := by omega
    rw [e1, indices_open s n hsn.le]
    have := indices_some 0 (s + size - n) n (by omega) (by omega)
    simp only [Nat.cast_zero] at this
    rw [this]
    have hsz : size = (n - s) + (s + size - n) := by omega
    conv_rhs => rw [hsz, range_map_split]
    congr 1
    · apply List.map_congr_left; intro i hi
      rw [List.mem_range] at hi
      rw [hmod, Int.emod_eq_of_lt (by omega) (by omega)]; omega
    · apply List.map_congr_left; intro i hi
      rw [List.mem_range] at hi
      rw [hmod]
      have : ((s + (n - s + i) : Nat) : Int) = (i : Int) + (n : Int) := by omega
      rw [this, Int.add_emod_right, Int.emod_eq_of_lt (by omega) (by omega)]; omega
  · simp only [hw, decide_false, Bool.false_eq_true, if_false]
    refine ⟨_, _, rfl, ?_⟩
    rw [indices_some s (s + size) n (by omega) (by omega)]
    have := indices_some 0 0 n (by omega) (by omega)
    simp only [Nat.cast_zero] at this
    rw [this]
    simp only [Nat.sub_self, List.range_zero, List.map_nil, List.append_nil]
    have : s + size - s = size := by omega
    rw [this]
    apply List.map_congr_left; intro i hi
    rw [List.mem_range] at hi
    rw [hmod, Int.emod_eq_of_lt (by omega) (by omega)]; omega

/-- … and it raises (sending `wrapped_crop_2d` to its padding fallback) exactly when the window wraps more than once. -/
theorem wrapped_slices_raises_iff (start : Int) (size n : Nat) (hn : 0 < n) :
    wrappedSlices start (start + size) n = .error "runtime_error" ↔ 2 * (n : Int) < start % (n : Int) + size := by
  have hstop : start + (size : Int) - start + start % (n : Int) = start % (n : Int) + size := by
    ring
  unfold wrappedSlices
  dsimp only
  simp only [pyMod_pos _ _ hn, hstop]
  by_cases h : start % (n : Int) + size > 2 * (n : Int)
  · simp [h]
  · simp only [h, decide_false, Bool.false_eq_true, if_false]
    constructor
    · intro hc; split at hc <;> simp at hc
    · intro hc; exact hc.elim

/- Full statement for interpolation > 1 (not proved as a whole): for every scattering matrix, batch of positions and
   CTF, `SMatrixArray.reduce` returns, for position `p`, the window `w₀ × w₁` of the full superposition
   `Σ_k c_k(p) S_k` whose corner is `rint(p / sampling − w // 2)` taken periodically
   (`Model/Prism.lean: expectedWindow`), independently of the other positions of the batch; in vacuum this window
   is the probe of the window-sized cell.
   Proved below: along each axis the two slices of `wrapped_slices` select that periodic window for every corner.
   Missing: the 2-D block assembly of `wrapped_crop_2d` (A/B/C/D concatenation and its padding fallback),
   `minimum_crop` and `batch_crop_2d` are executable hand models (`Model/Prism.lean: wrappedCrop2d, minimumCrop,
   batchCrop, reduceWindows`) tied to the real `_reduce_to_waves` and to `expectedWindow` by correspondence only;
   the physical statement is checked by the conformance oracle. -/
theorem reduce_window_partial (c₀ c₁ : Int) (s₀ s₁ n₀ n₁ : Nat) (h₀ : 0 < n₀) (h₁ : 0 < n₁)
    (w₀ : c₀ % (n₀ : Int) + s₀ ≤ 2 * n₀) (w₁ : c₁ % (n₁ : Int) + s₁ ≤ 2 * n₁) :
    (∃ a c, wrappedSlices c₀ (upperCorner c₀ s₀ c₁ s₁).1 n₀ = .ok (a, c) ∧
      a.indices n₀ ++ c.indices n₀ = (List.range s₀).map fun i => ((c₀ + (i : Nat)) % (n₀ : Int)).toNat) ∧
    (∃ b d, wrappedSlices c₁ (upperCorner c₀ s₀ c₁ s₁).2 n₁ = .ok (b, d) ∧
      b.indices n₁ ++ d.indices n₁ = (List.range s₁).map fun j => ((c₁ + (j : Nat)) % (n₁ : Int)).toNat) :=
  ⟨wrapped_slices_index c₀ s₀ n₀ h₀ w₀, wrapped_slices_index c₁ s₁ n₁ h₁ w₁⟩

end Crop

/-! ### non-vacuity -/
example : ∃ k, (![1, Complex.I] : Fin 2 → ℂ) k ≠ 0 := ⟨0, by simp⟩
example : ((1 : ℝ), (0 : ℝ)) ≠ (0, 0) := by simp
-- a window two periods to the left of the axis: start −19, size 5, n = 8 (the pinned tree raised IndexError here)
example : (AbtemVerif.Gen.Prism.wrappedSlices (-19) (-14) 8).toOption.map
    (fun p => AbtemVerif.Prism.PySlice.indices p.1 8 ++ AbtemVerif.Prism.PySlice.indices p.2 8) = some [5, 6, 7, 0, 1] := by
  decide +kernel
example : ((-19 : Int) % ((8 : Nat) : Int) + ((5 : Nat) : Int) ≤ 2 * ((8 : Nat) : Int)) := by decide

end AbtemVerif.Props.C06
