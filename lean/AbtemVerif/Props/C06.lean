/-
C06 — PRISM reduction reproduces conventional multislice probes.

Part A (every transform pair, every slice list, every coefficient set): one multislice step
(`conventional_multislice_step`: transmit then propagate, or transposed) is ℂ-linear, hence so is the slice loop;
the PRISM reduction `Σ_k c_k · S_k` of the scattering matrix `S_k = multislice (pw_k)` equals the multislice of the
superposition `Σ_k c_k · pw_k`; and with plane waves `pw_k = amp · F⁻¹ δ_k` that superposition is `amp · F⁻¹ c`,
i.e. the probe whose reciprocal-space array is the coefficient vector.
Part B (generated formulas of `Gen/PrismR.lean`, regenerated from abtem/prism/s_matrix.py and utils.py on every
run): the CTF coefficients are divided by their ℓ² norm `√Σ|a_k|²` (unit reciprocal-space intensity, as the probe
of C05), the position coefficients are `exp(−2πi k·r₀)` (grid and custom scans agree) and translate every plane
wave by `r₀`, the plane-wave amplitude for interpolation 1 is `1/N`, and the CTF is evaluated at the polar
coordinates of the wave vector.
Part C (index arithmetic, `Gen/Prism.lean` + `Model/Prism.lean`): `wrapped_slices` selects the periodic window for
every start (any number of periods outside the array); `wrapped_crop_2d` returns the periodic 2-D window through either
of its paths; the pipeline `minimum_crop → wrapped_crop_2d → batch_crop_2d` gives every position its own periodic window
independently of the batch.  Interpolation > 1 stays `_partial` (physical statement): see the end of the file.
Part D (Pattern A, `Model/PrismEnsemble.lean`): the per-configuration loop of the eager S-matrix path returns what the lazy
path returns — mean over configurations for measurements, every configuration's exit wave for waves.
-/
import AbtemVerif.Model.Prism
import AbtemVerif.Model.PrismEnsemble
import AbtemVerif.Gen.PrismR
import AbtemVerif.Lib.DFT
import AbtemVerif.Lib.DFT2
import AbtemVerif.Props.C05
import Mathlib.Analysis.SpecialFunctions.Complex.Circle
import Mathlib.Tactic.Ring
import Mathlib.Tactic.Linarith
import Mathlib.Tactic.FieldSimp

open Finset BigOperators

namespace AbtemVerif.Props.C06
open AbtemVerif.DFT AbtemVerif.Gen.PrismR AbtemVerif.Py

/-! ## Part A — linearity of the multislice fold and the reduction identity -/
section Linear
variable {ι : Type*} [Fintype ι]

/-- one slice: transmission function `t` (real space) and propagator symbol `p` (reciprocal space, including the
antialias aperture) -/
structure Slice (ι : Type*) where
  t : ι → ℂ
  p : ι → ℂ

/-- `conventional_multislice_step` (abtem/multislice.py): transmit then propagate; `transpose` swaps the order -/
def step (P : FourierPair ι) (transpose : Bool) (s : Slice ι) (ψ : ι → ℂ) : ι → ℂ :=
  if transpose then fun j => s.t j * P.mult s.p ψ j else P.mult s.p (fun j => s.t j * ψ j)

/-- the slice loop -/
def multislice (P : FourierPair ι) (transpose : Bool) (slices : List (Slice ι)) (ψ : ι → ℂ) : ι → ℂ :=
  slices.foldl (fun ψ s => step P transpose s ψ) ψ

lemma step_add (P : FourierPair ι) (tr : Bool) (s : Slice ι) (x y : ι → ℂ) :
    step P tr s (x + y) = step P tr s x + step P tr s y := by
  unfold step
  cases tr
  · simp only [Bool.false_eq_true, if_false]
    rw [← P.mult_add]; congr 1; funext j; simp [mul_add]
  · simp only [if_true]
    rw [P.mult_add]; funext j; simp [mul_add]

lemma step_smul (P : FourierPair ι) (tr : Bool) (s : Slice ι) (c : ℂ) (x : ι → ℂ) :
    step P tr s (c • x) = c • step P tr s x := by
  unfold step
  cases tr
  · simp only [Bool.false_eq_true, if_false]
    rw [← P.mult_smul]; congr 1; funext j; simp [mul_left_comm]
  · simp only [if_true]
    rw [P.mult_smul]; funext j; simp [mul_left_comm]

/-- The multislice fold is additive … -/
theorem multislice_add (P : FourierPair ι) (tr : Bool) (slices : List (Slice ι)) (x y : ι → ℂ) :
    multislice P tr slices (x + y) = multislice P tr slices x + multislice P tr slices y := by
  unfold multislice
  induction slices generalizing x y with
  | nil => rfl
  | cons s rest ih => simp only [List.foldl_cons]; rw [step_add, ih]

/-- … and homogeneous: `multislice_linear`. -/
theorem multislice_smul (P : FourierPair ι) (tr : Bool) (slices : List (Slice ι)) (c : ℂ) (x : ι → ℂ) :
    multislice P tr slices (c • x) = c • multislice P tr slices x := by
  unfold multislice
  induction slices generalizing x with
  | nil => rfl
  | cons s rest ih => simp only [List.foldl_cons]; rw [step_smul, ih]

lemma multislice_zero (P : FourierPair ι) (tr : Bool) (slices : List (Slice ι)) :
    multislice P tr slices 0 = 0 := by
  have h := multislice_smul P tr slices 0 0
  simpa using h

/-- `reduce_eq_multislice`: for every finite set `K` of wave vectors, coefficients `c` and incident waves `pw`,
the reduction `Σ_k c_k • S_k` of the scattering matrix `S_k = multislice (pw_k)` is the multislice of `Σ_k c_k • pw_k`. -/
theorem reduce_eq_multislice {κ : Type*} (P : FourierPair ι) (tr : Bool) (slices : List (Slice ι))
    (K : Finset κ) (c : κ → ℂ) (pw : κ → ι → ℂ) :
    ∑ k ∈ K, c k • multislice P tr slices (pw k) = multislice P tr slices (∑ k ∈ K, c k • pw k) := by
  classical
  induction K using Finset.induction_on with
  | empty => simp [multislice_zero]
  | insert a s ha ih => rw [Finset.sum_insert ha, Finset.sum_insert ha, multislice_add, multislice_smul, ih]

/-- the plane wave of reciprocal index `k`: `amp · F⁻¹ δ_k` (numpy: `exp(2πi k·r) · amp`, see `planewave_is_invDFT_delta`) -/
noncomputable def planeWave [DecidableEq ι] (P : FourierPair ι) (amp : ℂ) (k : ι) : ι → ℂ :=
  amp • P.Finv (Pi.single k 1)

/-- `planewave_expansion`: the superposition of all plane waves with coefficients `c` is `amp · F⁻¹ c`. -/
theorem planewave_expansion [DecidableEq ι] (P : FourierPair ι) (amp : ℂ) (c : ι → ℂ) :
    ∑ k, c k • planeWave P amp k = amp • P.Finv c := by
  have hc : c = ∑ k, c k • (Pi.single k (1 : ℂ) : ι → ℂ) := by
    funext j
    simp [Finset.sum_apply, Pi.single_apply]
  conv_rhs => rw [hc, map_sum]
  rw [Finset.smul_sum]
  apply Finset.sum_congr rfl
  intro k _
  unfold planeWave
  rw [map_smul, smul_comm]

/-- `probe_expansion`: reducing the scattering matrix built from *all* plane waves with coefficient vector `c`
gives exactly the multislice of the probe `amp · F⁻¹ c` (coefficients outside the aperture are zero entries of `c`). -/
theorem reduce_eq_multislice_probe [DecidableEq ι] (P : FourierPair ι) (tr : Bool) (slices : List (Slice ι))
    (amp : ℂ) (c : ι → ℂ) :
    ∑ k, c k • multislice P tr slices (planeWave P amp k) = multislice P tr slices (amp • P.Finv c) := by
  rw [reduce_eq_multislice, planewave_expansion]

/-- Only the wave vectors inside the support of the coefficients are needed (PRISM keeps `|k| < cutoff`). -/
theorem reduce_support [DecidableEq ι] (P : FourierPair ι) (tr : Bool) (slices : List (Slice ι))
    (amp : ℂ) (c : ι → ℂ) (K : Finset ι) (hK : ∀ k, k ∉ K → c k = 0) :
    ∑ k ∈ K, c k • multislice P tr slices (planeWave P amp k) = multislice P tr slices (amp • P.Finv c) := by
  rw [← reduce_eq_multislice_probe]
  apply Finset.sum_subset (Finset.subset_univ K)
  intro k _ hk
  rw [hK k hk, zero_smul]

/-- The reduced probe with unit-norm coefficients has the real-space intensity `|amp|²/N` of the normalised probe
(C05: reciprocal-space intensity one). -/
theorem reduced_probe_energy [Nonempty ι] (P : FourierPair ι) (c : ι → ℂ) (hc : energy c = 1) :
    energy (P.Finv c) = 1 / (Fintype.card ι : ℝ) := by
  rw [P.parseval_inv, hc]

end Linear

/-! ## Part B — the coefficient formulas of the source -/

/-- `complex_exponential(x) = cos x + i sin x = exp(i x)` (abtem/core/complex.py; the generated body is proved equal
to this in Lib/WaveOptics.lean, property C04) -/
noncomputable def cexp (x : ℝ) : ℂ := Complex.exp (x * Complex.I)

lemma cexp_add (x y : ℝ) : cexp (x + y) = cexp x * cexp y := by
  unfold cexp; rw [← Complex.exp_add]; congr 1; push_cast; ring

lemma normSq_cexp (x : ℝ) : Complex.normSq (cexp x) = 1 := by
  unfold cexp
  rw [Complex.normSq_eq_norm_sq, Complex.norm_exp_ofReal_mul_I]; norm_num

/-- `coeff_norm_uses_abs_sq`: the summand of the normalisation is `|a|²` -/
theorem ctf_norm_summand (a : ℂ) : ctfNormSummand a = Complex.normSq a := by
  unfold ctfNormSummand
  rw [Complex.normSq_eq_norm_sq]

/-- The CTF coefficients `a_k / √(Σ_j |a_j|²)` have unit ℓ² norm, for every CTF (aperture, aberrations, envelopes)
that is not identically zero on the wave-vector set. -/
theorem ctf_coefficients_unit_norm {κ : Type*} [Fintype κ] (a : κ → ℂ) (ha : ∃ k, a k ≠ 0) :
    ∑ k, Complex.normSq (ctfNormalise (a k) (∑ j, ctfNormSummand (a j))) = 1 := by
  simp only [ctf_norm_summand]
  set s : ℝ := ∑ j, Complex.normSq (a j) with hs
  have hpos : 0 < s := by
    obtain ⟨k, hk⟩ := ha
    have h1 : 0 < Complex.normSq (a k) := Complex.normSq_pos.mpr hk
    have h2 : Complex.normSq (a k) ≤ s :=
      Finset.single_le_sum (f := fun j => Complex.normSq (a j)) (fun j _ => Complex.normSq_nonneg _) (Finset.mem_univ k)
    linarith
  unfold ctfNormalise
  have h : ∀ k, Complex.normSq (a k / (Real.sqrt s : ℂ)) = Complex.normSq (a k) / s := by
    intro k
    rw [Complex.normSq_div, Complex.normSq_ofReal, Real.mul_self_sqrt hpos.le]
  simp only [h]
  rw [← Finset.sum_div, ← hs]
  exact div_self hpos.ne'

/-- The legacy normalisation `a / √(Σ a²)` (complex square, defect F4 of the pinned tree, repaired by /repo
88dad271) does not give unit norm: for `a = (1, 1, i)` the divisor is `√1 = 1` and the norm² stays 3. -/
lemma legacy_complex_square_not_normalised :
    let a : Fin 3 → ℂ := ![1, 1, Complex.I]
    (∑ k, (a k) ^ 2 = 1) ∧ ∑ k, Complex.normSq (a k / 1) = 3 := by
  constructor
  · simp [Fin.sum_univ_three]
  · simp [Fin.sum_univ_three]; norm_num

/-- Grid scans multiply an `x` factor and a `y` factor; custom scans use one exponential: the same coefficient
`exp(−2πi (kx·x + ky·y))`. -/
theorem position_coefficient_grid_eq_custom (x y kx ky : ℝ) :
    cexp (posPhaseGridX x kx) * cexp (posPhaseGridY y ky) = cexp (posPhaseCustom x y kx ky) := by
  rw [← cexp_add]; congr 1
  unfold posPhaseGridX posPhaseGridY posPhaseCustom; ring

theorem position_coefficient_value (x y kx ky : ℝ) :
    cexp (posPhaseCustom x y kx ky) = Complex.exp (-(2 * Real.pi * (kx * x + ky * y) : ℝ) * Complex.I) := by
  unfold cexp posPhaseCustom; congr 1; push_cast; ring

/-- `position_shift`: multiplying plane wave `k` by its position coefficient translates it by the probe position:
`c_k(r₀) · pw_k(r) = pw_k(r − r₀)`. -/
theorem position_shift (x₀ y₀ x y kx ky : ℝ) :
    cexp (posPhaseCustom x₀ y₀ kx ky) * (cexp (planeWavePhaseX kx x false) * cexp (planeWavePhaseY ky y false))
      = cexp (planeWavePhaseX kx (x - x₀) false) * cexp (planeWavePhaseY ky (y - y₀) false) := by
  rw [← cexp_add, ← cexp_add, ← cexp_add]; congr 1
  unfold posPhaseCustom planeWavePhaseX planeWavePhaseY
  simp only [Bool.false_eq_true, if_false]; ring

/-- every plane wave and every position coefficient has modulus one -/
theorem coefficient_modulus_one (x y kx ky : ℝ) : Complex.normSq (cexp (posPhaseCustom x y kx ky)) = 1 :=
  normSq_cexp _

/-- The S-matrix plane waves are scaled by `∏ interpolation / N`; without interpolation this is the `1/N` of the
inverse DFT of a delta. -/
theorem smatrix_amplitude_no_interpolation (N : ℝ) : smatrixAmplitude 1 N = 1 / N := rfl

/-- The CTF is evaluated at the polar coordinates of the wave vector: `α = λ|k|`, and `(kx, ky) = |k| (cos φ, sin φ)`. -/
theorem ctf_polar_coordinates (kx ky wl : ℝ) (hk : (kx, ky) ≠ (0, 0)) :
    ctfAlpha kx ky wl = Real.sqrt (kx ^ 2 + ky ^ 2) * wl ∧
    Real.sqrt (kx ^ 2 + ky ^ 2) * Real.cos (ctfPhi kx ky) = kx ∧
    Real.sqrt (kx ^ 2 + ky ^ 2) * Real.sin (ctfPhi kx ky) = ky := by
  have hz : (⟨kx, ky⟩ : ℂ) ≠ 0 := by
    intro h
    apply hk
    have h1 := congrArg Complex.re h
    have h2 := congrArg Complex.im h
    simp at h1 h2
    simp [h1, h2]
  have habs : ‖(⟨kx, ky⟩ : ℂ)‖ = Real.sqrt (kx ^ 2 + ky ^ 2) := by
    rw [Complex.norm_def, Complex.normSq_mk]; congr 1; ring
  refine ⟨rfl, ?_, ?_⟩
  · unfold ctfPhi pyArctan2
    rw [Complex.cos_arg hz, habs]
    have : Real.sqrt (kx ^ 2 + ky ^ 2) ≠ 0 := by rw [← habs]; exact norm_ne_zero_iff.mpr hz
    field_simp
  · unfold ctfPhi pyArctan2
    rw [Complex.sin_arg, habs]
    have : Real.sqrt (kx ^ 2 + ky ^ 2) ≠ 0 := by rw [← habs]; exact norm_ne_zero_iff.mpr hz
    field_simp

/-! ### bridge to the probe of C05 -/
section Bridge
variable {ι : Type*} [Fintype ι]

/-- the PRISM coefficient vector (CTF value `A·aberr`, divided by its ℓ² norm, times the unit-modulus position
coefficient) IS the normalised spectrum `Probe._calculate_array` builds (C05's `normalize (probeSpectrum …)`) -/
theorem prism_coefficients_eq_probe_spectrum (A : ι → ℝ) (aberr pos : ι → ℂ) (hpos : ∀ k, Complex.normSq (pos k) = 1) :
    (fun k => ctfNormalise ((A k : ℂ) * aberr k) (∑ j, ctfNormSummand ((A j : ℂ) * aberr j)) * pos k)
      = AbtemVerif.Props.C05.normalize (AbtemVerif.Props.C05.probeSpectrum pos A aberr) := by
  funext k
  unfold AbtemVerif.Props.C05.normalize AbtemVerif.Props.C05.probeSpectrum AbtemVerif.Gen.ProbeC.normDivide
    AbtemVerif.Gen.ProbeR.normFactor ctfNormalise
  have he : energy (fun k => pos k * (A k : ℂ) * aberr k) = ∑ j, ctfNormSummand ((A j : ℂ) * aberr j) := by
    unfold energy
    apply Finset.sum_congr rfl; intro j _
    rw [ctf_norm_summand]
    show Complex.normSq (pos j * (A j : ℂ) * aberr j) = _
    rw [mul_assoc, Complex.normSq_mul, hpos j, one_mul]
  rw [he]; ring

/-- `prism_probe_eq_probe_array`: the probe the reduction superposes, `F⁻¹ c` with the PRISM coefficients, is the array
`Probe.build` returns (C05's `probeArray`: the generated order of operations kernel → aperture → aberrations → normalise →
inverse transform) for the same aperture `A`, aberration factor and scan-position kernel. -/
theorem prism_probe_eq_probe_array (P : FourierPair ι) (A : ι → ℝ) (aberr pos : ι → ℂ)
    (hpos : ∀ k, Complex.normSq (pos k) = 1) :
    P.Finv (fun k => ctfNormalise ((A k : ℂ) * aberr k) (∑ j, ctfNormSummand ((A j : ℂ) * aberr j)) * pos k)
      = AbtemVerif.Props.C05.probeArray P pos A aberr := by
  unfold AbtemVerif.Props.C05.probeArray
  rw [AbtemVerif.Props.C05.probeSpectrumOps_eq, prism_coefficients_eq_probe_spectrum A aberr pos hpos]
  rfl

/-- `reduce_eq_multislice_of_built_probe`: the headline for interpolation 1 — reducing the scattering matrix with the coefficients
the code computes equals running multislice on the probe `Probe.build` makes, for every transform pair, potential (slice
list), aperture, aberration set and position. -/
theorem reduce_eq_multislice_of_built_probe [DecidableEq ι] (P : FourierPair ι) (tr : Bool) (slices : List (Slice ι))
    (A : ι → ℝ) (aberr pos : ι → ℂ) (hpos : ∀ k, Complex.normSq (pos k) = 1) :
    ∑ k, (ctfNormalise ((A k : ℂ) * aberr k) (∑ j, ctfNormSummand ((A j : ℂ) * aberr j)) * pos k)
        • multislice P tr slices (planeWave P 1 k)
      = multislice P tr slices (AbtemVerif.Props.C05.probeArray P pos A aberr) := by
  rw [reduce_eq_multislice_probe, one_smul, prism_probe_eq_probe_array P A aberr pos hpos]

end Bridge

/-! ### the concrete DFT: numpy's plane wave is the inverse transform of a delta -/
section Concrete
open ZMod
variable {N : ℕ} [NeZero N]

/-- For the concrete pair `zmodPair N` (Mathlib's `ZMod.dft`), `F⁻¹ δ_k (j) = (1/N) · e(k·j/N)`: the array
`exp(2πi k x_j) / N` that `plane_waves` and `_build_s_matrix` write (1-D instance). -/
theorem planewave_is_invDFT_delta (k j : ZMod N) :
    (zmodPair N).Finv (Pi.single k 1) j = (N : ℂ)⁻¹ * stdAddChar (j * k) := by
  show (ZMod.dft (N := N) (E := ℂ)).symm (Pi.single k 1) j = _
  rw [ZMod.invDFT_apply]
  simp [Pi.single_apply, Finset.sum_ite_eq', mul_comm]

omit [NeZero N] in
/-- a delta on the product grid restricted to one column -/
lemma single_prod_fst {m : ℕ} (k : ZMod N × ZMod m) (j₂ : ZMod m) :
    (fun i : ZMod N => (Pi.single k (1 : ℂ) : ZMod N × ZMod m → ℂ) (i, j₂))
      = if j₂ = k.2 then (Pi.single k.1 (1 : ℂ) : ZMod N → ℂ) else 0 := by
  funext i
  by_cases h : j₂ = k.2
  · subst h
    simp only [if_true, Pi.single_apply, Prod.ext_iff]
    by_cases h1 : i = k.1 <;> simp [h1]
  · simp only [if_neg h, Pi.single_apply, Prod.ext_iff, Pi.zero_apply]
    rw [if_neg]; intro hh; exact h hh.2

/-- 2-D: for the separable DFT on an `N × M` grid (`Lib/DFT2.zmodPair2`), `F⁻¹ δ_(k₁,k₂)` is the product plane wave
`e(j₁k₁/N) e(j₂k₂/M) / (N M)` — exactly the array `plane_waves(…) · 1/(N M)` that `_build_s_matrix` writes. -/
theorem planewave_is_invDFT_delta_2d {M : ℕ} [NeZero M] (k j : ZMod N × ZMod M) :
    (zmodPair2 N M).Finv (Pi.single k 1) j
      = ((N : ℂ)⁻¹ * stdAddChar (j.1 * k.1)) * ((M : ℂ)⁻¹ * stdAddChar (j.2 * k.2)) := by
  show (alongSnd (zmodPair M).Finv) ((alongFst (zmodPair N).Finv) (Pi.single k 1)) j = _
  simp only [alongSnd, alongFst, LinearMap.coe_mk, AddHom.coe_mk]
  have h : (fun j₂ : ZMod M => (zmodPair N).Finv (fun i => (Pi.single k (1 : ℂ) : ZMod N × ZMod M → ℂ) (i, j₂)) j.1)
      = ((N : ℂ)⁻¹ * stdAddChar (j.1 * k.1)) • (Pi.single k.2 (1 : ℂ) : ZMod M → ℂ) := by
    funext j₂
    rw [single_prod_fst]
    by_cases h2 : j₂ = k.2
    · rw [if_pos h2, planewave_is_invDFT_delta]; simp [h2]
    · rw [if_neg h2]; simp [h2]
  rw [h, _root_.map_smul, Pi.smul_apply, planewave_is_invDFT_delta, smul_eq_mul]

/-- The reduction identity on the concrete 2-D DFT: reducing the S-matrix built from the product plane waves with
coefficient array `c` is the multislice of the probe `F₂⁻¹ c` (instance of `reduce_eq_multislice_probe`). -/
theorem reduce_eq_multislice_probe_2d {M : ℕ} [NeZero M] (tr : Bool) (slices : List (Slice (ZMod N × ZMod M)))
    (c : ZMod N × ZMod M → ℂ) :
    ∑ k, c k • multislice (zmodPair2 N M) tr slices (planeWave (zmodPair2 N M) 1 k)
      = multislice (zmodPair2 N M) tr slices ((zmodPair2 N M).Finv c) := by
  rw [reduce_eq_multislice_probe]; simp

end Concrete

/-! ## Part C — crop index arithmetic (interpolation > 1) -/
section Crop
open AbtemVerif.Prism AbtemVerif.Gen.Prism

lemma range_map_split {β} (k m : Nat) (h : Nat → β) :
    (List.range (k + m)).map h = (List.range k).map h ++ (List.range m).map (fun i => h (k + i)) := by
  rw [List.range_add, List.map_append, List.map_map]; rfl

/-- a slice with both ends inside the axis selects `lo, …, hi-1` -/
lemma indices_some (lo hi n : Nat) (hlo : lo ≤ hi) (hhi : hi ≤ n) :
    (PySlice.mk (some (lo : Int)) (some (hi : Int))).indices n = (List.range (hi - lo)).map (· + lo) := by
  unfold PySlice.indices
  have h1 : ¬ ((lo : Int) < 0) := by omega
  have h2 : ¬ ((hi : Int) < 0) := by omega
  simp only [h1, h2, if_false, Int.toNat_natCast]
  have : min lo n = lo := by omega
  have : min hi n = hi := by omega
  simp [*]

lemma indices_open (lo n : Nat) (hlo : lo ≤ n) :
    (PySlice.mk (some (lo : Int)) none).indices n = (List.range (n - lo)).map (· + lo) := by
  unfold PySlice.indices
  have h1 : ¬ ((lo : Int) < 0) := by omega
  simp only [h1, if_false, Int.toNat_natCast]
  have : min lo n = lo := by omega
  simp [*]

lemma pyMod_pos (a : Int) (n : Nat) (hn : 0 < n) : pyMod a n = a % (n : Int) := by
  unfold pyMod
  exact Int.fmod_eq_emod_of_nonneg a (by omega)

/-- `wrapped_slices` (regenerated whole from abtem/prism/utils.py): for every start — any number of periods outside the
axis — and every window that wraps at most once, the two slices select exactly the periodic window
`(start + i) mod n`, `i < size`, in order. -/
theorem wrapped_slices_index (start : Int) (size n : Nat) (hn : 0 < n)
    (h2 : start % (n : Int) + size ≤ 2 * n) :
    ∃ a b, wrappedSlices start (start + size) n = .ok (a, b) ∧
      a.indices n ++ b.indices n = (List.range size).map (fun i => ((start + (i : Nat)) % (n : Int)).toNat) ∧
      (0 < size → a.indices n ≠ []) := by
  obtain ⟨s, hs⟩ : ∃ s : Nat, start % (n : Int) = s := ⟨(start % (n : Int)).toNat, by
    have := Int.emod_nonneg start (by omega : (n : Int) ≠ 0); omega⟩
  have hsn : s < n := by
    have := Int.emod_lt_of_pos start (by omega : (0 : Int) < n); omega
  have hmod : ∀ i : Nat, (start + i) % (n : Int) = ((s + i : Nat) : Int) % (n : Int) := by
    intro i
    rw [← Int.emod_add_emod, hs]; push_cast; rfl
  rw [hs] at h2
  have hstop : start + (size : Int) - start + (s : Int) = ((s + size : Nat) : Int) := by
    push_cast; ring
  unfold wrappedSlices
  dsimp only
  simp only [pyMod_pos _ _ hn, hs, hstop]
  have hno : ¬ (((s + size : Nat) : Int) > 2 * (n : Int)) := by push_cast; omega
  simp only [hno, decide_false, Bool.false_eq_true, if_false]
  by_cases hw : ((s + size : Nat) : Int) > (n : Int)
  · simp only [hw, decide_true, if_true]
    refine ⟨_, _, rfl, ?_, ?_⟩
    swap
    · intro _
      rw [indices_open s n hsn.le]
      intro h
      have := congrArg List.length h
      simp at this; omega
    have e1 : ((s + size : Nat) : Int) - (n : Int) = ((s + size - n : Nat) : Int) := by omega
    rw [e1, indices_open s n hsn.le]
    have := indices_some 0 (s + size - n) n (by omega) (by omega)
    simp only [Nat.cast_zero] at this
    rw [this]
    have hsz : size = (n - s) + (s + size - n) := by omega
    conv_rhs => rw [hsz, range_map_split]
    congr 1
    · apply List.map_congr_left; intro i hi
      rw [List.mem_range] at hi
      rw [hmod, Int.emod_eq_of_lt (by omega) (by omega)]; omega
    · apply List.map_congr_left; intro i hi
      rw [List.mem_range] at hi
      rw [hmod]
      have : ((s + (n - s + i) : Nat) : Int) = (i : Int) + (n : Int) := by omega
      rw [this, Int.add_emod_right, Int.emod_eq_of_lt (by omega) (by omega)]; omega
  · simp only [hw, decide_false, Bool.false_eq_true, if_false]
    refine ⟨_, _, rfl, ?_, ?_⟩
    swap
    · intro hpos
      rw [indices_some s (s + size) n (by omega) (by omega)]
      intro h
      have := congrArg List.length h
      simp at this; omega
    rw [indices_some s (s + size) n (by omega) (by omega)]
    have := indices_some 0 0 n (by omega) (by omega)
    simp only [Nat.cast_zero] at this
    rw [this]
    simp only [Nat.sub_self, List.range_zero, List.map_nil, List.append_nil]
    have : s + size - s = size := by omega
    rw [this]
    apply List.map_congr_left; intro i hi
    rw [List.mem_range] at hi
    rw [hmod, Int.emod_eq_of_lt (by omega) (by omega)]; omega

/-- … and it raises (sending `wrapped_crop_2d` to its padding fallback) exactly when the window wraps more than once. -/
theorem wrapped_slices_raises_iff (start : Int) (size n : Nat) (hn : 0 < n) :
    wrappedSlices start (start + size) n = .error "runtime_error" ↔ 2 * (n : Int) < start % (n : Int) + size := by
  have hstop : start + (size : Int) - start + start % (n : Int) = start % (n : Int) + size := by
    ring
  unfold wrappedSlices
  dsimp only
  simp only [pyMod_pos _ _ hn, hstop]
  by_cases h : start % (n : Int) + size > 2 * (n : Int)
  · simp [h]
  · simp only [h, decide_false, Bool.false_eq_true, if_false]
    constructor
    · intro hc; split at hc <;> simp at hc
    · intro hc; exact hc.elim

/-! ### the two-dimensional crop -/

variable {α : Type}

lemma size2_take2 (x : Nat → Nat → α) (r c : List Nat) : size2 (take2 x r c) = r.length * c.length := by
  unfold size2 take2
  induction r with
  | nil => simp
  | cons a r ih =>
    simp only [List.map_cons, List.sum_cons, List.length_cons, List.length_map] at ih ⊢
    rw [ih, Nat.succ_mul, Nat.add_comm]

lemma take2_row_length (x : Nat → Nat → α) (r c : List Nat) : ∀ row ∈ take2 x r c, row.length = c.length := by
  intro row hrow; simp only [take2, List.mem_map] at hrow; obtain ⟨i, _, rfl⟩ := hrow; simp

lemma vcat_take2 (x : Nat → Nat → α) (r1 r2 c : List Nat) :
    vcat (take2 x r1 c) (take2 x r2 c) = .ok (take2 x (r1 ++ r2) c) := by
  unfold vcat
  have h : take2 x r1 c ++ take2 x r2 c = take2 x (r1 ++ r2) c := by simp [take2]
  rw [h]
  have : (take2 x (r1 ++ r2) c).all (fun r => r.length = ((take2 x (r1 ++ r2) c).headD []).length) = true := by
    rw [List.all_eq_true]
    intro row hrow
    have hh : ((take2 x (r1 ++ r2) c).headD []).length = c.length := by
      cases hq : take2 x (r1 ++ r2) c with
      | nil => rw [hq] at hrow; simp at hrow
      | cons q qs =>
        show q.length = c.length
        exact take2_row_length x (r1 ++ r2) c q (by rw [hq]; simp)
    rw [take2_row_length x _ c row hrow, hh]; simp
  rw [if_pos this]

lemma hcat_take2 (x : Nat → Nat → α) (r c1 c2 : List Nat) :
    hcat (take2 x r c1) (take2 x r c2) = .ok (take2 x r (c1 ++ c2)) := by
  unfold hcat
  have : (take2 x r c1).length = (take2 x r c2).length := by simp [take2]
  rw [if_pos this]
  congr 1
  clear this
  unfold take2
  induction r with
  | nil => simp
  | cons a r ih => simp only [List.map_cons, List.zipWith_cons_cons, ih, List.map_append]

lemma vcatOr_take2 (x : Nat → Nat → α) (r1 r2 c : List Nat) (h1 : r1 ≠ []) (hc : c ≠ []) :
    vcatOr (take2 x r1 c) (take2 x r2 c) = .ok (take2 x (r1 ++ r2) c) := by
  unfold vcatOr
  simp only [size2_take2]
  have l1 : 0 < r1.length := List.length_pos_iff.mpr h1
  have lc : 0 < c.length := List.length_pos_iff.mpr hc
  rw [if_neg (Nat.mul_ne_zero (by omega) (by omega))]
  by_cases h2 : r2 = []
  · subst h2; simp
  · have l2 : 0 < r2.length := List.length_pos_iff.mpr h2
    rw [if_neg (Nat.mul_ne_zero (by omega) (by omega)), vcat_take2]

/-- with empty columns both blocks are empty and the first shortcut returns the second block -/
lemma vcatOr_take2_nil (x : Nat → Nat → α) (r1 r2 : List Nat) :
    vcatOr (take2 x r1 []) (take2 x r2 []) = .ok (take2 x r2 []) := by
  unfold vcatOr
  simp [size2_take2]

/-- the block assembly of `wrapped_crop_2d` for non-empty leading index lists -/
lemma assemble_eq (x : Nat → Nat → α) (ai ci bi di : List Nat) (ha : ai ≠ []) (hb : bi ≠ []) :
    assemble x ai ci bi di = .ok (take2 x (ai ++ ci) (bi ++ di)) := by
  have la : 0 < ai.length := List.length_pos_iff.mpr ha
  have lb : 0 < bi.length := List.length_pos_iff.mpr hb
  unfold assemble
  rw [vcatOr_take2 x ai ci bi ha hb]
  by_cases hd : di = []
  · subst hd
    rw [vcatOr_take2_nil]
    simp [hcatOr, size2_take2]
  · have ld : 0 < di.length := List.length_pos_iff.mpr hd
    rw [vcatOr_take2 x ai ci di ha hd]
    simp only [hcatOr, size2_take2, List.length_append]
    rw [if_neg (Nat.mul_ne_zero (by omega) (by omega)), if_neg (Nat.mul_ne_zero (by omega) (by omega)), hcat_take2]

/-- the padding fallback of `wrapped_crop_2d` (generated pad amounts and slice bounds, `np.pad(mode="wrap")`) reads the
periodic window along one axis, for every corner and every size -/
lemma pad_index (c : Int) (k n : Nat) (hn : 0 < n) :
    padWrapIndices n (padAmounts c n k).1 (padAmounts c n k).2
        (padSliceStart c (padAmounts c n k).1 k) (padSliceStop c (padAmounts c n k).1 k)
      = (List.range k).map fun i => ((c + (i : Nat)) % (n : Int)).toNat := by
  unfold padAmounts padSliceStart padSliceStop
  simp only
  have hpl : intAbs (min c 0) = if c < 0 then -c else 0 := by
    unfold intAbs; split_ifs <;> omega
  rw [hpl]
  obtain ⟨lo, hlo⟩ : ∃ lo : Nat, (lo : Int) = c + (if c < 0 then -c else 0) := ⟨(c + (if c < 0 then -c else 0)).toNat, by
    split_ifs <;> omega⟩
  unfold padWrapIndices
  simp only
  have hstop : c + (if c < 0 then -c else 0) + (k : Int) = ((lo + k : Nat) : Int) := by push_cast; omega
  rw [hstop, ← hlo]
  have hlen : lo + k ≤ ((if c < 0 then -c else 0) + (n : Int) + max (c + (k : Int) - (n : Int)) 0).toNat := by
    split_ifs at hlo ⊢ <;> omega
  rw [indices_some lo (lo + k) _ (by omega) hlen, List.map_map]
  have : lo + k - lo = k := by omega
  rw [this]
  apply List.map_congr_left
  intro i _
  simp only [Function.comp]
  congr 2
  push_cast
  split_ifs at hlo ⊢ <;> omega

/-- the periodic `s₀ × s₁` window with corner `(c₀, c₁)` of an `n₀ × n₁` array -/
def window (x : Nat → Nat → α) (n₀ n₁ : Nat) (c₀ c₁ : Int) (s₀ s₁ : Nat) : List (List α) :=
  take2 x ((List.range s₀).map fun i => ((c₀ + (i : Nat)) % (n₀ : Int)).toNat)
    ((List.range s₁).map fun j => ((c₁ + (j : Nat)) % (n₁ : Int)).toNat)

/-- `wrapped_crop_2d_index`: for every array, every corner (any number of periods outside the array, either sign) and
every non-empty size (also larger than the array), `wrapped_crop_2d` returns exactly the periodic window — through
the four-block assembly when both axes wrap at most once, through the padding fallback otherwise. -/
theorem wrapped_crop_2d_index (x : Nat → Nat → α) (n₀ n₁ : Nat) (h₀ : 0 < n₀) (h₁ : 0 < n₁) (c₀ c₁ : Int) (s₀ s₁ : Nat)
    (p₀ : 0 < s₀) (p₁ : 0 < s₁) :
    wrappedCrop2d x n₀ n₁ (c₀, c₁) (s₀, s₁) = .ok (window x n₀ n₁ c₀ c₁ s₀ s₁) := by
  unfold wrappedCrop2d window
  simp only [upperCorner]
  by_cases w₀ : c₀ % (n₀ : Int) + s₀ ≤ 2 * n₀
  · by_cases w₁ : c₁ % (n₁ : Int) + s₁ ≤ 2 * n₁
    · obtain ⟨a, c, ha, hac, hane⟩ := wrapped_slices_index c₀ s₀ n₀ h₀ w₀
      obtain ⟨b, d, hb, hbd, hbne⟩ := wrapped_slices_index c₁ s₁ n₁ h₁ w₁
      rw [ha, hb]
      simp only
      rw [assemble_eq x _ _ _ _ (hane p₀) (hbne p₁), hac, hbd]
    · have r₁ := (wrapped_slices_raises_iff c₁ s₁ n₁ h₁).mpr (by omega)
      rw [r₁]
      have := pad_index c₀ s₀ n₀ h₀
      have := pad_index c₁ s₁ n₁ h₁
      cases hq : wrappedSlices c₀ (c₀ + ↑s₀) ↑n₀ <;> simp_all
  · have r₀ := (wrapped_slices_raises_iff c₀ s₀ n₀ h₀).mpr (by omega)
    rw [r₀]
    have := pad_index c₀ s₀ n₀ h₀
    have := pad_index c₁ s₁ n₁ h₁
    simp_all

/-! ### the whole cropping pipeline: batch independence -/

lemma foldl_min_le (l : List Int) (a : Int) : l.foldl min a ≤ a ∧ ∀ c ∈ l, l.foldl min a ≤ c := by
  induction l generalizing a with
  | nil => simp
  | cons b l ih =>
    simp only [List.foldl_cons, List.mem_cons]
    obtain ⟨h1, h2⟩ := ih (min a b)
    refine ⟨le_trans h1 (min_le_left a b), ?_⟩
    intro c hc
    rcases hc with rfl | hc
    · exact le_trans h1 (min_le_right a c)
    · exact h2 c hc

lemma le_foldl_max (l : List Int) (a : Int) : a ≤ l.foldl max a ∧ ∀ c ∈ l, c ≤ l.foldl max a := by
  induction l generalizing a with
  | nil => simp
  | cons b l ih =>
    simp only [List.foldl_cons, List.mem_cons]
    obtain ⟨h1, h2⟩ := ih (max a b)
    refine ⟨le_trans (le_max_left a b) h1, ?_⟩
    intro c hc
    rcases hc with rfl | hc
    · exact le_trans (le_max_right a c) h1
    · exact h2 c hc

lemma minL_le (l : List Int) : ∀ c ∈ l, minL l ≤ c := (foldl_min_le l _).2
lemma le_maxL (l : List Int) : ∀ c ∈ l, c ≤ maxL l := (le_foldl_max l _).2

lemma mapM_ok {β γ : Type} (l : List β) (g : β → Except String γ) (h : β → γ) (hg : ∀ b ∈ l, g b = .ok (h b)) :
    l.mapM g = .ok (l.map h) := by
  induction l with
  | nil => rfl
  | cons b l ih =>
    rw [List.mapM_cons, hg b (by simp), ih (fun c hc => hg c (by simp [hc]))]
    rfl

lemma advIndex_map_range {β : Type} (S : Nat) (f : Nat → β) (k : Int) (h0 : 0 ≤ k) (h1 : k < S) :
    advIndex ((List.range S).map f) k = .ok (f k.toNat) := by
  unfold advIndex
  simp only [List.length_map, List.length_range]
  have hc : ¬ (k < -(S : Int) ∨ k ≥ (S : Int)) := by omega
  rw [if_neg hc]
  have hk : ¬ (k < 0) := by omega
  simp only [hk, if_false]
  have : k.toNat < S := by omega
  simp [List.getElem?_map, List.getElem?_range this]

lemma window_rows (x : Nat → Nat → α) (n₀ n₁ : Nat) (c₀ c₁ : Int) (s₀ s₁ : Nat) :
    window x n₀ n₁ c₀ c₁ s₀ s₁ = (List.range s₀).map fun i => (List.range s₁).map fun j =>
      x ((c₀ + (i : Nat)) % (n₀ : Int)).toNat ((c₁ + (j : Nat)) % (n₁ : Int)).toNat := by
  simp [window, take2, List.map_map, Function.comp]

lemma expectedWindow_eq (x : Nat → Nat → α) (n₀ n₁ : Nat) (w : Nat × Nat) (p : Rat × Rat) :
    expectedWindow x n₀ n₁ w p
      = window x n₀ n₁ (pyRint (p.1 - (cropOffset w.1 w.2).1)) (pyRint (p.2 - (cropOffset w.1 w.2).2)) w.1 w.2 := by
  rw [window_rows]; rfl

lemma batchCrop_window (x : Nat → Nat → α) (n₀ n₁ : Nat) (cc₀ cc₁ : Int) (S₀ S₁ : Nat) (c : Int × Int) (w : Nat × Nat)
    (h0 : cc₀ ≤ c.1) (h0' : c.1 + w.1 ≤ cc₀ + S₀) (h1 : cc₁ ≤ c.2) (h1' : c.2 + w.2 ≤ cc₁ + S₁) :
    batchCrop (window x n₀ n₁ cc₀ cc₁ S₀ S₁) (c.1 - cc₀, c.2 - cc₁) w = .ok (window x n₀ n₁ c.1 c.2 w.1 w.2) := by
  unfold batchCrop
  rw [window_rows x n₀ n₁ c.1 c.2]
  apply mapM_ok
  intro i hi
  rw [List.mem_range] at hi
  rw [window_rows, advIndex_map_range _ _ _ (by unfold batchIndexX; omega) (by unfold batchIndexX; omega)]
  simp only [bind, Except.bind]
  apply mapM_ok
  intro j hj
  rw [List.mem_range] at hj
  rw [advIndex_map_range _ _ _ (by unfold batchIndexY; omega) (by unfold batchIndexY; omega)]
  have e0 : cc₀ + (((batchIndexX (i : Int) (c.1 - cc₀)).toNat : Nat) : Int) = c.1 + (i : Int) := by
    unfold batchIndexX; omega
  have e1 : cc₁ + (((batchIndexY (j : Int) (c.2 - cc₁)).toNat : Nat) : Int) = c.2 + (j : Int) := by
    unfold batchIndexY; omega
  rw [e0, e1]

/-- `reduce_windows_index`: the cropping pipeline of `SMatrixArray._reduce_to_waves` (`minimum_crop` → `wrapped_crop_2d`
→ `batch_crop_2d`) returns, for every position of the batch, the periodic window whose corner is
`rint(pixel position − window // 2)` — independently of the other positions of the batch, for every array size,
window size, batch and positions (inside or any distance outside the cell). -/
theorem reduce_windows_index (x : Nat → Nat → α) (n₀ n₁ : Nat) (h₀ : 0 < n₀) (h₁ : 0 < n₁) (w : Nat × Nat)
    (hw₀ : 0 < w.1) (hw₁ : 0 < w.2) (pixel : List (Rat × Rat)) (hp : pixel ≠ []) :
    reduceWindows x n₀ n₁ w pixel = .ok (pixel.map (expectedWindow x n₀ n₁ w)) := by
  unfold reduceWindows minimumCrop
  simp only
  set off := cropOffset (w.1 : Int) (w.2 : Int) with hoff
  set corners := pixel.map (fun p => (pyRint (p.1 - off.1), pyRint (p.2 - off.2))) with hcor
  set cc₀ := minL (corners.map (·.1)) with hcc₀
  set cc₁ := minL (corners.map (·.2)) with hcc₁
  set mu₀ := maxL ((corners.map fun c => (c.1 + (w.1 : Int), c.2 + (w.2 : Int))).map (·.1)) with hmu₀
  set mu₁ := maxL ((corners.map fun c => (c.1 + (w.1 : Int), c.2 + (w.2 : Int))).map (·.2)) with hmu₁
  have lo₀ : ∀ c ∈ corners, cc₀ ≤ c.1 := fun c hc => minL_le _ _ (List.mem_map.mpr ⟨c, hc, rfl⟩)
  have lo₁ : ∀ c ∈ corners, cc₁ ≤ c.2 := fun c hc => minL_le _ _ (List.mem_map.mpr ⟨c, hc, rfl⟩)
  have hi₀ : ∀ c ∈ corners, c.1 + (w.1 : Int) ≤ mu₀ := fun c hc =>
    le_maxL _ _ (List.mem_map.mpr ⟨(c.1 + (w.1 : Int), c.2 + (w.2 : Int)), List.mem_map.mpr ⟨c, hc, rfl⟩, rfl⟩)
  have hi₁ : ∀ c ∈ corners, c.2 + (w.2 : Int) ≤ mu₁ := fun c hc =>
    le_maxL _ _ (List.mem_map.mpr ⟨(c.1 + (w.1 : Int), c.2 + (w.2 : Int)), List.mem_map.mpr ⟨c, hc, rfl⟩, rfl⟩)
  obtain ⟨c, hc⟩ : ∃ c, c ∈ corners := by
    cases hq : pixel with
    | nil => exact absurd hq hp
    | cons p ps => exact ⟨(pyRint (p.1 - off.1), pyRint (p.2 - off.2)), by rw [hcor, hq]; simp⟩
  obtain ⟨S₀, hS₀⟩ : ∃ S₀ : Nat, mu₀ - cc₀ = (S₀ : Int) := ⟨(mu₀ - cc₀).toNat, by
    have := lo₀ c hc; have := hi₀ c hc; omega⟩
  obtain ⟨S₁, hS₁⟩ : ∃ S₁ : Nat, mu₁ - cc₁ = (S₁ : Int) := ⟨(mu₁ - cc₁).toNat, by
    have := lo₁ c hc; have := hi₁ c hc; omega⟩
  have pS₀ : 0 < S₀ := by have := lo₀ c hc; have := hi₀ c hc; omega
  have pS₁ : 0 < S₁ := by have := lo₁ c hc; have := hi₁ c hc; omega
  simp only [cropSize, hS₀, hS₁]
  rw [wrapped_crop_2d_index x n₀ n₁ h₀ h₁ cc₀ cc₁ S₀ S₁ pS₀ pS₁]
  simp only [bind, Except.bind]
  rw [mapM_ok _ _ (fun c' => window x n₀ n₁ (c'.1 + cc₀) (c'.2 + cc₁) w.1 w.2)]
  · congr 1
    rw [List.map_map, hcor, List.map_map]
    apply List.map_congr_left
    intro p _
    simp only [Function.comp, expectedWindow_eq]
    congr 1 <;> ring
  · intro c' hc'
    rw [List.mem_map] at hc'
    obtain ⟨d, hd, rfl⟩ := hc'
    have := batchCrop_window x n₀ n₁ cc₀ cc₁ S₀ S₁ d w (lo₀ d hd) (by have := hi₀ d hd; omega) (lo₁ d hd)
      (by have := hi₁ d hd; omega)
    simp only [sub_add_cancel]
    exact this

/-! ### crop-before-tensordot = crop-after: the window branch of `_reduce_to_waves` as the code runs it -/

/-- corner of the window of one position -/
def cornerOf (w : Nat × Nat) (p : Rat × Rat) : Int × Int :=
  (pyRint (p.1 - (cropOffset (w.1 : Int) (w.2 : Int)).1), pyRint (p.2 - (cropOffset (w.1 : Int) (w.2 : Int)).2))

lemma minimumCrop_spec (w : Nat × Nat) (hw₀ : 0 < w.1) (hw₁ : 0 < w.2) (pixel : List (Rat × Rat)) (hp : pixel ≠ []) :
    ∃ (cc₀ cc₁ : Int) (S₀ S₁ : Nat),
      minimumCrop pixel w = ((cc₀, cc₁), ((S₀ : Int), (S₁ : Int)),
        (pixel.map (cornerOf w)).map fun c => (c.1 - cc₀, c.2 - cc₁)) ∧ 0 < S₀ ∧ 0 < S₁ ∧
      ∀ p ∈ pixel, cc₀ ≤ (cornerOf w p).1 ∧ (cornerOf w p).1 + w.1 ≤ cc₀ + S₀ ∧
        cc₁ ≤ (cornerOf w p).2 ∧ (cornerOf w p).2 + w.2 ≤ cc₁ + S₁ := by
  set corners := pixel.map (cornerOf w) with hcor
  set cc₀ := minL (corners.map (·.1)) with hcc₀
  set cc₁ := minL (corners.map (·.2)) with hcc₁
  set mu₀ := maxL ((corners.map fun c => (c.1 + (w.1 : Int), c.2 + (w.2 : Int))).map (·.1)) with hmu₀
  set mu₁ := maxL ((corners.map fun c => (c.1 + (w.1 : Int), c.2 + (w.2 : Int))).map (·.2)) with hmu₁
  have lo₀ : ∀ c ∈ corners, cc₀ ≤ c.1 := fun c hc => minL_le _ _ (List.mem_map.mpr ⟨c, hc, rfl⟩)
  have lo₁ : ∀ c ∈ corners, cc₁ ≤ c.2 := fun c hc => minL_le _ _ (List.mem_map.mpr ⟨c, hc, rfl⟩)
  have hi₀ : ∀ c ∈ corners, c.1 + (w.1 : Int) ≤ mu₀ := fun c hc =>
    le_maxL _ _ (List.mem_map.mpr ⟨(c.1 + (w.1 : Int), c.2 + (w.2 : Int)), List.mem_map.mpr ⟨c, hc, rfl⟩, rfl⟩)
  have hi₁ : ∀ c ∈ corners, c.2 + (w.2 : Int) ≤ mu₁ := fun c hc =>
    le_maxL _ _ (List.mem_map.mpr ⟨(c.1 + (w.1 : Int), c.2 + (w.2 : Int)), List.mem_map.mpr ⟨c, hc, rfl⟩, rfl⟩)
  obtain ⟨c, hc⟩ : ∃ c, c ∈ corners := by
    cases hq : pixel with
    | nil => exact absurd hq hp
    | cons p ps => exact ⟨cornerOf w p, by rw [hcor, hq]; simp⟩
  refine ⟨cc₀, cc₁, (mu₀ - cc₀).toNat, (mu₁ - cc₁).toNat, ?_, ?_, ?_, ?_⟩
  · have e0 : ((mu₀ - cc₀).toNat : Int) = mu₀ - cc₀ := by have := lo₀ c hc; have := hi₀ c hc; omega
    have e1 : ((mu₁ - cc₁).toNat : Int) = mu₁ - cc₁ := by have := lo₁ c hc; have := hi₁ c hc; omega
    rw [e0, e1]
    rfl
  · have := lo₀ c hc; have := hi₀ c hc; omega
  · have := lo₁ c hc; have := hi₁ c hc; omega
  · intro p hp'
    have hm : cornerOf w p ∈ corners := List.mem_map.mpr ⟨p, hp', rfl⟩
    have := lo₀ _ hm; have := hi₀ _ hm; have := lo₁ _ hm; have := hi₁ _ hm
    have := lo₀ c hc; have := hi₀ c hc; have := lo₁ c hc; have := hi₁ c hc
    refine ⟨by omega, by omega, by omega, by omega⟩

/-- the superposition `Σ_k c_k · S_k` of the planes, pixel by pixel -/
def superpose (cs : List ℂ) (planes : List (Nat → Nat → ℂ)) : Nat → Nat → ℂ :=
  fun i j => ((cs.zip planes).map fun cS => cS.1 * cS.2 i j).sum

/-- linearity of the window map: combining the windows of the planes is the window of the combined plane -/
lemma combine_windows (cs : List ℂ) (planes : List (Nat → Nat → ℂ)) (n₀ n₁ : Nat) (c₀ c₁ : Int) (S₀ S₁ : Nat) :
    combine cs (planes.map fun S => window S n₀ n₁ c₀ c₁ S₀ S₁) S₀ S₁ = window (superpose cs planes) n₀ n₁ c₀ c₁ S₀ S₁ := by
  rw [window_rows]
  unfold combine superpose
  apply List.map_congr_left; intro i hi
  apply List.map_congr_left; intro j hj
  rw [List.mem_range] at hi hj
  rw [List.zip_map_right, List.map_map]
  congr 1
  apply List.map_congr_left; intro cS _
  obtain ⟨c, S⟩ := cS
  show c * (((window S n₀ n₁ c₀ c₁ S₀ S₁).getD i []).getD j 0) = _
  congr 1
  rw [window_rows]
  simp [List.getD_eq_getElem?_getD, hi, hj]

/-- `reduce_to_waves_index` (crop-before-tensordot = crop-after): the window branch of `_reduce_to_waves` as the code runs it
— crop every plane, combine the crops with each position's coefficients, cut the batch windows — returns for every position
the periodic window of *its own* superposition `Σ_k c_k S_k`, for every number of planes, all sizes, batches and positions. -/
theorem reduce_to_waves_index (planes : List (Nat → Nat → ℂ)) (n₀ n₁ : Nat) (h₀ : 0 < n₀) (h₁ : 0 < n₁) (w : Nat × Nat)
    (hw₀ : 0 < w.1) (hw₁ : 0 < w.2) (pixel : List (Rat × Rat)) (hp : pixel ≠ []) (coeffs : List (List ℂ)) :
    reduceToWaves planes n₀ n₁ w pixel coeffs
      = .ok ((pixel.zip coeffs).map fun pc => expectedWindow (superpose pc.2 planes) n₀ n₁ w pc.1) := by
  obtain ⟨cc₀, cc₁, S₀, S₁, hmc, pS₀, pS₁, hb⟩ := minimumCrop_spec w hw₀ hw₁ pixel hp
  unfold reduceToWaves
  rw [hmc]
  simp only
  rw [mapM_ok planes _ (fun S => window S n₀ n₁ cc₀ cc₁ S₀ S₁)
    (fun S _ => wrapped_crop_2d_index S n₀ n₁ h₀ h₁ cc₀ cc₁ S₀ S₁ pS₀ pS₁)]
  simp only [bind, Except.bind, Int.toNat_natCast]
  rw [List.map_map, List.zip_map_left]
  rw [mapM_ok _ _ (fun cp => window (superpose cp.2 planes) n₀ n₁ (cp.1.1 + cc₀) (cp.1.2 + cc₁) w.1 w.2)]
  · congr 1
    rw [List.map_map]
    apply List.map_congr_left
    intro pc _
    obtain ⟨p, c⟩ := pc
    simp only [Function.comp, Prod.map_apply, id_eq, expectedWindow_eq, sub_add_cancel]
    rfl
  · intro cp hcp
    rw [List.mem_map] at hcp
    obtain ⟨pc, hpc, rfl⟩ := hcp
    have hmem : pc.1 ∈ pixel := (List.of_mem_zip hpc).1
    obtain ⟨b0, b0', b1, b1'⟩ := hb pc.1 hmem
    obtain ⟨p, c⟩ := pc
    show batchCrop (combine c _ S₀ S₁) ((cornerOf w p).1 - cc₀, (cornerOf w p).2 - cc₁) w = _
    rw [combine_windows]
    have := batchCrop_window (superpose c planes) n₀ n₁ cc₀ cc₁ S₀ S₁ (cornerOf w p) w b0 b0' b1 b1'
    rw [this]
    simp only [Prod.map_apply, Function.comp, id_eq, sub_add_cancel]

/- Full statement for interpolation > 1 (not proved as a whole): for every scattering matrix, batch of positions and CTF,
   `SMatrixArray.reduce` returns, for position `p`, the window `w₀ × w₁` of the full superposition `Σ_k c_k(p) S_k` whose
   corner is `rint(p / sampling − w // 2)` taken periodically, independently of the other positions of the batch; in
   vacuum this window is the probe of the window-sized cell.
   Proved (`reduce_windows_index`, `reduce_to_waves_index`): the whole cropping pipeline
   `minimum_crop → wrapped_crop_2d (block assembly or padding fallback) → batch_crop_2d`, applied to any plane, returns
   exactly those periodic windows, for every array and window size, every batch and every position.
   The order in which the code works — crop each plane `S_k`, combine the crops with `tensordot`, cut the batch windows —
   is proved equivalent in `reduce_to_waves_index`.
   Missing: (ii) `Model/Prism.lean` is a hand model of the numpy semantics (slice
   clamping, `.size == 0` shortcuts, `concatenate`, `np.pad(mode="wrap")`, advanced indexing) around the generated
   expressions, tied by exact differential correspondence; (iii) the physical statements (vacuum window = probe of the
   window-sized cell; with a potential PRISM interpolation is an approximation) are checked by the conformance oracle. -/
end Crop

/-! ## Part D — frozen-phonon bookkeeping of the eager S-matrix path -/
section Ensemble
open AbtemVerif.PrismEnsemble

lemma foldl_set_prefix {β : Type} (rs init : List β) (d : β) (h : init.length = rs.length) (k : Nat) (hk : k ≤ rs.length) :
    (List.range k).foldl (fun (m : List β) i => m.set i (rs.getD i d)) init = rs.take k ++ init.drop k := by
  induction k with
  | zero => simp
  | succ k ih =>
    rw [List.range_succ, List.foldl_append, ih (by omega)]
    simp only [List.foldl_cons, List.foldl_nil]
    have hk' : k < rs.length := by omega
    have htake : (rs.take k).length = k := by simp; omega
    rw [List.set_append_right _ _ (by omega), htake, Nat.sub_self]
    have hd : init.drop k = (init[k]'(by omega)) :: init.drop (k + 1) := by
      rw [List.drop_eq_getElem_cons]
    rw [hd, List.set_cons_zero, List.take_succ_eq_append_getElem hk', List.append_assoc]
    simp [List.getD_eq_getElem?_getD, List.getElem?_eq_getElem hk']

theorem eager_keeps_every_configuration (mean isWaves : Bool) (m : Nat) (rs : List Arr) (h : (mean && !isWaves) = false) :
    eagerDetect mean isWaves m rs = rs := by
  unfold eagerDetect
  simp only [h, Bool.false_eq_true, if_false]
  have := foldl_set_prefix rs (List.replicate rs.length (zeros m)) [] (by simp) rs.length (le_refl _)
  simpa using this

lemma foldl_accumulate (rs : List Arr) (z : Arr) (k : Nat) (hk : k ≤ rs.length) :
    (List.range k).foldl (fun (meas : List Arr) i => meas.map (fun row => addArr row (rs.getD i []))) [z]
      = [(rs.take k).foldl addArr z] := by
  induction k with
  | zero => simp
  | succ k ih =>
    have hk' : k < rs.length := by omega
    rw [List.range_succ, List.foldl_append, ih (by omega)]
    simp only [List.foldl_cons, List.foldl_nil, List.map_cons, List.map_nil]
    rw [List.take_succ_eq_append_getElem hk', List.foldl_append]
    simp [List.getD_eq_getElem?_getD, List.getElem?_eq_getElem hk']

/-- the eager per-block bookkeeping gives exactly what the lazy path / `Probe.multislice` + `reduce_ensemble` give: the
mean over the configurations for measurements on a mean-flagged axis, every configuration's result otherwise — in
particular complex exit waves are never averaged. For every number of configurations and every results. -/
theorem eager_eq_reference (mean isWaves : Bool) (m : Nat) (rs : List Arr) :
    eagerDetect mean isWaves m rs = referenceDetect mean isWaves m rs := by
  by_cases h : (mean && !isWaves) = true
  · unfold eagerDetect referenceDetect referenceDetect.divArr'
    simp only [h, if_true]
    have := foldl_accumulate rs (zeros m) rs.length (le_refl _)
    simp only [List.take_length] at this
    rw [show List.replicate 1 (zeros m) = [zeros m] from rfl, this]
    split_ifs <;> simp
  · have h' : (mean && !isWaves) = false := by simpa using h
    rw [eager_keeps_every_configuration mean isWaves m rs h']
    unfold referenceDetect
    simp [h']

/-- Negation witness (known findings `s-matrix-over-exit-planes-raises:eager|lazy`): it is NOT true that the block built for one
ensemble member always fits the slot allocated for it — with `p > 1` exit planes the block has a leading axis of length `p`
that the allocation `ensemble_shape + (len(self),) + gpts` has no room for (numpy: "could not broadcast input array").  A repair
has to add the exit-plane axis to `allocatedShape` (and to the axes metadata), which makes this statement false. -/
theorem exit_plane_block_fits_counterexample :
    ¬ (∀ (p K : Nat) (g : Nat × Nat), broadcastsInto (builtBlockShape p K g) (allocatedShape [] K g) = true) := by
  intro h
  have := h 3 21 (16, 16)
  revert this
  decide

/-- without exit planes (one exit plane) the block always fits -/
theorem single_exit_plane_block_fits (K : Nat) (g : Nat × Nat) :
    broadcastsInto (builtBlockShape 1 K g) (allocatedShape [] K g) = true := by
  simp [broadcastsInto, builtBlockShape, allocatedShape]

end Ensemble

/-! ### non-vacuity -/
example : ∃ k, (![1, Complex.I] : Fin 2 → ℂ) k ≠ 0 := ⟨0, by simp⟩
example : ((1 : ℝ), (0 : ℝ)) ≠ (0, 0) := by simp
-- a window two periods to the left of the axis: start −19, size 5, n = 8 (the pinned tree raised IndexError here)
example : (AbtemVerif.Gen.Prism.wrappedSlices (-19) (-14) 8).toOption.map
    (fun p => AbtemVerif.Prism.PySlice.indices p.1 8 ++ AbtemVerif.Prism.PySlice.indices p.2 8) = some [5, 6, 7, 0, 1] := by
  decide +kernel
example : ((-19 : Int) % ((8 : Nat) : Int) + ((5 : Nat) : Int) ≤ 2 * ((8 : Nat) : Int)) := by decide
-- two positions far apart (one 3 cells to the left): the hypotheses of `reduce_windows_index` are satisfiable
example : AbtemVerif.Prism.reduceWindows (fun i j => (4 * i + j : Nat)) 4 4 (2, 2) [(1, 1), (-11, 5/2)]
    = .ok ([((1 : Rat), (1 : Rat)), (-11, 5/2)].map (AbtemVerif.Prism.expectedWindow (fun i j => (4 * i + j : Nat)) 4 4 (2, 2))) :=
  reduce_windows_index _ 4 4 (by decide) (by decide) (2, 2) (by decide) (by decide) _ (by simp)

end AbtemVerif.Props.C06
