/-
C11 — A potential reused after changing its grid behaves like a fresh one.

The cache state machine `AbtemVerif.Cache` (Model/Cache.lean) is parametrised by the dictionary key `key : Sym → G → K`
and by the uninterpreted computation `compute : Sym → G → V`.  The general theorems say exactly when the history of an
object is unobservable: iff the key determines the arguments of the computation.  The instance theorems at the end are
about the keys the code forms today — the *generated* definitions `Gen.IntegralsCache.sfKey` / `tableKey`.
-/
import AbtemVerif.Model.Cache
import AbtemVerif.Gen.IntegralsCache
import Mathlib.Logic.Basic
import Mathlib.Tactic.Common

namespace AbtemVerif.Props.C11
open AbtemVerif.Cache

variable {Sym G K V SA : Type} [DecidableEq K]

/-- the dictionary key determines the result of the computation it stands for -/
def KeyDetermines (key : Sym → G → K) (compute : Sym → G → V) : Prop :=
  ∀ s g s' g', key s g = key s' g' → compute s g = compute s' g'

/-- every entry of the dictionary is the computation result its key stands for -/
def Sound (key : Sym → G → K) (compute : Sym → G → V) (c : List (K × V)) : Prop :=
  ∀ s g v, dlookup c (key s g) = some v → v = compute s g

/-! ### helper lemmas -/

lemma sound_nil (key : Sym → G → K) (compute : Sym → G → V) : Sound key compute [] := by
  intro s g v h; simp [dlookup] at h

lemma getCached_spec (key : Sym → G → K) (compute : Sym → G → V) (hk : KeyDetermines key compute)
    (c : List (K × V)) (hs : Sound key compute c) (s : Sym) (g : G) :
    (getCached key compute c s g).1 = compute s g ∧ Sound key compute (getCached key compute c s g).2.1 := by
  unfold getCached
  cases h : dlookup c (key s g) with
  | some v => exact ⟨hs s g v h, hs⟩
  | none =>
    refine ⟨rfl, ?_⟩
    intro s' g' v' h'
    simp only [dlookup] at h'
    split at h'
    · rename_i heq
      cases h'
      exact hk s g s' g' heq
    · exact hs s' g' v' h'

lemma buildVals_spec (key : Sym → G → K) (compute : Sym → G → V) (hk : KeyDetermines key compute)
    (reqs : List Sym) (g : G) (c : List (K × V)) (hs : Sound key compute c) :
    (buildVals key compute c reqs g).1.map Prod.fst = reqs.map (fun s => compute s g)
      ∧ Sound key compute (buildVals key compute c reqs g).2 := by
  induction reqs generalizing c with
  | nil => exact ⟨rfl, hs⟩
  | cons s rest ih =>
    obtain ⟨h1, h2⟩ := getCached_spec key compute hk c hs s g
    obtain ⟨h3, h4⟩ := ih (getCached key compute c s g).2.1 h2
    simp only [buildVals, List.map_cons, h1, h3]
    exact ⟨trivial, h4⟩

/-- invariant of the object state -/
def Inv (key : Sym → G → K) (compute : Sym → G → V) (prepare : Unit → SA) (st : St G K V SA) : Prop :=
  Sound key compute st.cache ∧ (st.sliced = none ∨ st.sliced = some (prepare ()))

omit [DecidableEq K] in
lemma getSliced_spec (prepare : Unit → SA) (st : St G K V SA)
    (h : st.sliced = none ∨ st.sliced = some (prepare ())) :
    (getSliced prepare st).1 = prepare () ∧ (getSliced prepare st).2.grid = st.grid
      ∧ (getSliced prepare st).2.cache = st.cache
      ∧ ((getSliced prepare st).2.sliced = none ∨ (getSliced prepare st).2.sliced = some (prepare ())) := by
  unfold getSliced
  rcases h with h | h <;> simp [h]

/-- what a newly constructed potential with grid `g` produces on its first build -/
def freshVals (compute : Sym → G → V) (reqs : List Sym) (g : G) : List V := reqs.map fun s => compute s g

/-- … and what `k` fresh one-configuration potentials produce one after the other -/
def freshBlocks (compute : Sym → G → V) (reqs : List Sym) (g : G) (k : Nat) : List V :=
  (List.replicate k (freshVals compute reqs g)).flatten

omit [DecidableEq K] in
lemma freshBlocks_one (compute : Sym → G → V) (reqs : List Sym) (g : G) : freshBlocks compute reqs g 1 = freshVals compute reqs g := by
  simp [freshBlocks]

omit [DecidableEq K] in
lemma map_replicate_flatten (compute : Sym → G → V) (reqs : List Sym) (g : G) (k : Nat) :
    (List.replicate k reqs).flatten.map (fun s => compute s g) = freshBlocks compute reqs g k := by
  simp [freshBlocks, freshVals, List.map_flatten, List.map_replicate]

lemma step_spec (key : Sym → G → K) (compute : Sym → G → V) (prepare : Unit → SA) (hk : KeyDetermines key compute)
    (reqs : List Sym) (st : St G K V SA) (hinv : Inv key compute prepare st) (op : Op G) :
    Inv key compute prepare (step key compute prepare reqs st op).1
      ∧ ∀ o, (step key compute prepare reqs st op).2 = some o →
          o.vals.map Prod.fst = freshBlocks compute reqs o.grid o.blocks ∧ o.sliced = prepare () := by
  cases op with
  | setGrid g => exact ⟨⟨hinv.1, hinv.2⟩, by intro o h; cases h⟩
  | build =>
    obtain ⟨h1, h2, h3, h4⟩ := getSliced_spec prepare st hinv.2
    have hs : Sound key compute (getSliced prepare st).2.cache := by rw [h3]; exact hinv.1
    obtain ⟨h5, h6⟩ := buildVals_spec key compute hk reqs (getSliced prepare st).2.grid _ hs
    refine ⟨⟨h6, h4⟩, ?_⟩
    intro o ho
    simp only [step, Option.some.injEq] at ho
    subst ho
    exact ⟨by rw [freshBlocks_one]; exact h5, h1⟩
  | buildShared k =>
    obtain ⟨h5, _⟩ := buildVals_spec key compute hk (List.replicate k reqs).flatten st.grid _ hinv.1
    refine ⟨hinv, ?_⟩
    intro o ho
    simp only [step, Option.some.injEq] at ho
    subst ho
    exact ⟨by rw [h5]; exact map_replicate_flatten compute reqs st.grid k, rfl⟩
  | buildCopies k =>
    obtain ⟨h5, _⟩ := buildVals_spec key compute hk reqs st.grid _ hinv.1
    refine ⟨hinv, ?_⟩
    intro o ho
    simp only [step, Option.some.injEq] at ho
    subst ho
    refine ⟨?_, rfl⟩
    show ((List.replicate k (buildVals key compute st.cache reqs st.grid).1).flatten).map Prod.fst = _
    rw [List.map_flatten, List.map_replicate, h5]
    rfl

/-! ### property theorems (general) -/

/-- **history transparency**: if the key determines the computation, then in every history of builds and grid changes,
starting from any sound state, every build uses exactly the values a newly constructed object with the current grid
would compute, and the same sliced atoms. -/
theorem history_transparent_from (key : Sym → G → K) (compute : Sym → G → V) (prepare : Unit → SA)
    (hk : KeyDetermines key compute) (reqs : List Sym) (ops : List (Op G)) (st : St G K V SA)
    (hinv : Inv key compute prepare st) :
    ∀ o ∈ run key compute prepare reqs st ops,
      o.vals.map Prod.fst = freshBlocks compute reqs o.grid o.blocks ∧ o.sliced = prepare () := by
  induction ops generalizing st with
  | nil => intro o ho; simp [run] at ho
  | cons op ops ih =>
    obtain ⟨h1, h2⟩ := step_spec key compute prepare hk reqs st hinv op
    intro o ho
    simp only [run] at ho
    cases hstep : (step key compute prepare reqs st op).2 with
    | none =>
      rw [hstep] at ho
      exact ih _ h1 o ho
    | some o' =>
      rw [hstep] at ho
      rcases List.mem_cons.mp ho with rfl | ho
      · exact h2 _ hstep
      · exact ih _ h1 o ho

/-- … in particular for an object that starts fresh. -/
theorem history_transparent (key : Sym → G → K) (compute : Sym → G → V) (prepare : Unit → SA)
    (hk : KeyDetermines key compute) (reqs : List Sym) (g0 : G) (ops : List (Op G)) :
    ∀ o ∈ run key compute prepare reqs (fresh g0) ops,
      o.vals.map Prod.fst = freshBlocks compute reqs o.grid o.blocks ∧ o.sliced = prepare () :=
  history_transparent_from key compute prepare hk reqs ops (fresh g0) ⟨sound_nil key compute, Or.inl rfl⟩

/-- the grid a build runs with is the grid set last (the initial one if none was set); with the number of blocks it concatenates -/
def buildsAt : G → List (Op G) → List (G × Nat)
  | _, [] => []
  | _, .setGrid g' :: ops => buildsAt g' ops
  | g, .build :: ops => (g, 1) :: buildsAt g ops
  | g, .buildShared k :: ops => (g, k) :: buildsAt g ops
  | g, .buildCopies k :: ops => (g, k) :: buildsAt g ops

theorem run_builds (key : Sym → G → K) (compute : Sym → G → V) (prepare : Unit → SA) (reqs : List Sym)
    (ops : List (Op G)) (st : St G K V SA) :
    (run key compute prepare reqs st ops).map (fun o => (o.grid, o.blocks)) = buildsAt st.grid ops := by
  induction ops generalizing st with
  | nil => rfl
  | cons op ops ih =>
    cases op with
    | setGrid g => simp only [run, step, buildsAt]; exact ih _
    | build =>
      simp only [run, step, buildsAt, List.map_cons]
      have hg : (getSliced prepare st).2.grid = st.grid := by
        unfold getSliced; cases st.sliced <;> rfl
      rw [ih, hg]
    | buildShared k =>
      simp only [run, step, buildsAt, List.map_cons]
      rw [ih]
    | buildCopies k =>
      simp only [run, step, buildsAt, List.map_cons]
      rw [ih]

/-- **the whole observable behaviour**: the list of value lists used by the builds of a history equals the list of
first-build values of fresh objects constructed with the grid current at each build. -/
theorem history_equals_fresh_builds (key : Sym → G → K) (compute : Sym → G → V) (prepare : Unit → SA)
    (hk : KeyDetermines key compute) (reqs : List Sym) (g0 : G) (ops : List (Op G)) :
    (run key compute prepare reqs (fresh g0) ops).map (fun o => o.vals.map Prod.fst)
      = (buildsAt g0 ops).map (fun p => freshBlocks compute reqs p.1 p.2) := by
  have h := history_transparent key compute prepare hk reqs g0 ops
  have hg := run_builds key compute prepare reqs ops (fresh (K := K) (V := V) (SA := SA) g0)
  rw [show (fresh (K := K) (V := V) (SA := SA) g0).grid = g0 from rfl] at hg
  rw [← hg, List.map_map]
  apply List.map_congr_left
  intro o ho
  exact (h o ho).1

/-- **necessity**: if two grids share a key for some species but the computation differs, the history
`build; set grid; build` is observable — the second build hands out the stale value. -/
theorem stale_when_key_forgets_grid (key : Sym → G → K) (compute : Sym → G → V) (prepare : Unit → SA)
    (s : Sym) (g g' : G) (hkey : key s g = key s g') (hne : compute s g ≠ compute s g') :
    ∃ o ∈ run key compute prepare [s] (fresh g) [.build, .setGrid g', .build],
      o.vals.map Prod.fst ≠ freshVals compute [s] o.grid := by
  refine ⟨⟨g', [(compute s g, false)], prepare (), 1⟩, ?_, ?_⟩
  · simp [run, step, fresh, getSliced, buildVals, getCached, dlookup, hkey]
  · simpa [freshVals] using hne

/-! ### the keys the code forms (generated from abtem/integrals.py) -/

open AbtemVerif.Gen.IntegralsCache

/-- the scattering-factor cache key contains every argument of `_calculate_scattering_factor` -/
theorem sfKey_injective (s s' : String) (gp gp' : Nat × Nat) (sa sa' : Rat × Rat) (d d' : String)
    (h : sfKey s gp sa d = sfKey s' gp' sa' d') : s = s' ∧ gp = gp' ∧ sa = sa' ∧ d = d' := by
  simp only [sfKey, Prod.mk.injEq] at h
  exact h

/-- the integral-table cache key contains every argument of `_calculate_integral_table` -/
theorem tableKey_injective (s s' : String) (sa sa' : Rat × Rat) (h : tableKey s sa = tableKey s' sa') :
    s = s' ∧ sa = sa' := by
  simp only [tableKey, Prod.mk.injEq] at h
  exact h

/-- **cache inventory** (generated from the class bodies): the only state the integrators and the potential builder write after
construction is the two dictionaries and the sliced-atoms slot the model's `St` holds; a cache introduced later changes these
generated lists and this theorem stops checking. -/
theorem cache_inventory :
    stateFieldIntegrator = [] ∧ stateScatteringFactor = ["_scattering_factors"] ∧ stateQuadrature = ["_tables"]
      ∧ stateIntegralTable = [] ∧ stateBaseField = [] ∧ stateFieldBuilder = []
      ∧ stateFieldBuilderFromAtoms = ["_sliced_atoms"] ∧ statePotential = [] := by decide

/-- **the cached computations read no mutable state** (generated from the method bodies, following the class's own methods and
properties): besides their arguments, `_calculate_scattering_factor` and `_calculate_integral_table` read only constructor
parameters (`_parametrization`, tolerances, step, order, taper) — attributes that the inventory above shows are never written after
construction and have no setter.  Together with `cache_inventory` this is what justifies reading the computation as a function of
the key's components in the two instance theorems (the global precision setting remains outside: "grid changes only"). -/
theorem cached_computations_read_only_constructor_parameters :
    readsScatteringFactor = ["_parametrization"]
      ∧ readsQuadrature = ["_cutoff_tolerance", "_inner_cutoff_factor", "_integration_step", "_parametrization", "_quad_order", "_taper"]
      ∧ (∀ x ∈ readsScatteringFactor, x ∉ stateScatteringFactor ∧ x ∉ stateFieldIntegrator)
      ∧ (∀ x ∈ readsQuadrature, x ∉ stateQuadrature ∧ x ∉ stateFieldIntegrator) := by decide

abbrev Grid := (Nat × Nat) × (Rat × Rat) × String

/-- **C11 for infinite projection**: for every scattering-factor computation `f(symbol, gpts, sampling, device)`, every
species sequence, every history: each build equals a fresh object's build with the current grid. -/
theorem scattering_factor_history_transparent {V SA : Type} (f : String → Nat × Nat → Rat × Rat → String → V) (prepare : Unit → SA)
    (reqs : List String) (g0 : Grid) (ops : List (Op Grid)) :
    (run (fun s (g : Grid) => sfKey s g.1 g.2.1 g.2.2) (fun s g => f s g.1 g.2.1 g.2.2) prepare reqs (fresh g0) ops).map
        (fun o => o.vals.map Prod.fst)
      = (buildsAt g0 ops).map (fun p => freshBlocks (fun s (g : Grid) => f s g.1 g.2.1 g.2.2) reqs p.1 p.2) := by
  apply history_equals_fresh_builds
  intro s g s' g' h
  obtain ⟨h1, h2, h3, h4⟩ := sfKey_injective _ _ _ _ _ _ _ _ h
  show f s g.1 g.2.1 g.2.2 = f s' g'.1 g'.2.1 g'.2.2
  rw [h1, h2, h3, h4]

/-- **C11 for finite projection**: the same for every integral-table computation `t(symbol, sampling)`. -/
theorem integral_table_history_transparent {V SA : Type} (t : String → Rat × Rat → V) (prepare : Unit → SA)
    (reqs : List String) (g0 : Grid) (ops : List (Op Grid)) :
    (run (fun s (g : Grid) => tableKey s g.2.1) (fun s g => t s g.2.1) prepare reqs (fresh g0) ops).map
        (fun o => o.vals.map Prod.fst)
      = (buildsAt g0 ops).map (fun p => freshBlocks (fun s (g : Grid) => t s g.2.1) reqs p.1 p.2) := by
  apply history_equals_fresh_builds
  intro s g s' g' h
  obtain ⟨h1, h2⟩ := tableKey_injective _ _ _ _ h
  show t s g.2.1 = t s' g'.2.1
  rw [h1, h2]

/-! ### known finding: a potential without a grid of its own -/

/-- `potential.grid.match(waves)` at the start of a simulation (`validate_potential`): an undefined grid is taken from the waves — and
then belongs to the potential for good; a defined grid wins over the waves' grid (the waves are regridded). -/
def matchGrid {G : Type} (own : Option G) (waves : G) : G := own.getD waves

/-- KNOWN FINDING (findings/C11.json, key `gridless-potential-keeps-grid-of-first-waves`): a potential constructed without gpts/sampling
and used with waves of grid `g1` keeps `g1`; a second simulation with waves of grid `g2 ≠ g1` runs on `g1` (and overwrites the waves'
grid), whereas a fresh potential would run on `g2` — a result that depends on the grid the object was used with before.  The caches of
the model are not involved; the state that leaks is the grid itself.  (Full statement that fails: "the grid of the second simulation is
the second waves' grid".) -/
theorem gridless_potential_keeps_first_grid_counterexample :
    ¬ (∀ (g1 g2 : Nat × Nat), matchGrid (some (matchGrid none g1)) g2 = g2) := by
  intro h
  exact absurd (h (8, 8) (12, 12)) (by decide)

/-! ### non-vacuity -/
example : (run (fun s (g : Nat) => (s, g)) (fun (s : Nat) g => 10 * s + g) (fun _ => ()) [1, 2, 1] (fresh 3) [.build, .setGrid 4, .build]).map
    (fun o => (o.grid, o.vals)) = [(3, [(13, true), (23, true), (13, false)]), (4, [(14, true), (24, true), (14, false)])] := by decide
example : KeyDetermines (fun (s : Nat) (g : Nat) => (s, g)) (fun s g => 10 * s + g) := by
  intro s g s' g' h; cases h; rfl

end AbtemVerif.Props.C11
