/-
C30 — Saved results load back unchanged (metadata / axes path).

Statements are about `AbtemVerif.Json` (hand model of `encode_types`, JSON attribute storage,
`decode_types`, `axis_to_dict` / `axis_from_dict`, metadata packing) and about the generated table of
axis dataclasses `Gen/AxesClasses.lean` (regenerated from abtem/core/axes.py on every run).
Quantifiers: every metadata tree (any nesting of tuples, lists, dicts, numpy scalars and arrays).
-/
import AbtemVerif.Model.Json
import AbtemVerif.Gen.AxesClasses

namespace AbtemVerif.Props.C30
open AbtemVerif.Json

/-! ### array payloads (`tolist()` images) pass through unchanged -/
mutual
theorem store_plain : (t : PyVal) → Plain t = true → store t = .ok t
  | .none, h => by simp [Plain] at h
  | .bool _, _ => by simp [store]
  | .int _, _ => by simp [store]
  | .float _, _ => by simp [store]
  | .str _, h => by simp [Plain] at h
  | .npint _, h => by simp [Plain] at h
  | .npfloat _, h => by simp [Plain] at h
  | .npbool _, h => by simp [Plain] at h
  | .ndarray _, h => by simp [Plain] at h
  | .arraylike _, h => by simp [Plain] at h
  | .tuple _, h => by simp [Plain] at h
  | .list xs, h => by
      simp only [Plain] at h
      simp [store, storeL_plain xs h]
  | .dict _, h => by simp [Plain] at h
theorem storeL_plain : (xs : List PyVal) → PlainL xs = true → storeL xs = .ok xs
  | [], _ => by simp [storeL]
  | x :: xs, h => by
      simp only [PlainL, Bool.and_eq_true] at h
      simp [storeL, store_plain x h.1, storeL_plain xs h.2]
end

mutual
theorem decode_plain : (t : PyVal) → Plain t = true → decode t = .ok t
  | .none, h => by simp [Plain] at h
  | .bool _, _ => by simp [decode]
  | .int _, _ => by simp [decode]
  | .float _, _ => by simp [decode]
  | .str _, h => by simp [Plain] at h
  | .npint _, h => by simp [Plain] at h
  | .npfloat _, h => by simp [Plain] at h
  | .npbool _, h => by simp [Plain] at h
  | .ndarray _, h => by simp [Plain] at h
  | .arraylike _, h => by simp [Plain] at h
  | .tuple _, h => by simp [Plain] at h
  | .list xs, h => by
      simp only [Plain] at h
      simp [decode, decodeL_plain xs h]
  | .dict _, h => by simp [Plain] at h
theorem decodeL_plain : (xs : List PyVal) → PlainL xs = true → decodeL xs = .ok xs
  | [], _ => by simp [decodeL]
  | x :: xs, h => by
      simp only [PlainL, Bool.and_eq_true] at h
      simp [decodeL, decode_plain x h.1, decodeL_plain xs h.2]
end

/-- encoding keeps the keys of a dict (values are encoded one by one) -/
theorem lookup_encodeKV : (kvs : List (PKey × PyVal)) → (k : PKey) →
    lookup (encodeKV kvs) k = (lookup kvs k).map encode
  | [], _ => by simp [encodeKV, lookup]
  | (k', v) :: t, k => by
      by_cases hk : k' = k
      · simp [encodeKV, lookup, hk]
      · simp [encodeKV, lookup, hk, lookup_encodeKV t k]

/-! ### what `encode_types` writes is stable under JSON storage -/
mutual
theorem store_encode : (v : PyVal) → Good v = true → store (encode v) = .ok (encode v)
  | .none, _ => by simp [encode, store]
  | .bool _, _ => by simp [encode, store]
  | .int _, _ => by simp [encode, store]
  | .float _, _ => by simp [encode, store]
  | .str _, _ => by simp [encode, store]
  | .npint _, _ => by simp [encode, store]
  | .npfloat _, _ => by simp [encode, store]
  | .npbool _, _ => by simp [encode, store]
  | .ndarray t, h => by simp only [Good] at h; simp [encode, store_plain t h]
  | .arraylike t, h => by simp only [Good] at h; simp [encode, store_plain t h]
  | .tuple xs, h => by
      simp only [Good] at h
      simp [encode, store, storeKV, storeL_encode xs h, keyToJson]
  | .list xs, h => by
      simp only [Good] at h
      simp [encode, store, storeL_encode xs h]
  | .dict kvs, h => by
      simp only [Good] at h
      simp only [encode]
      split
      · simp [store, storeKV, storeKV_encode kvs h, keyToJson]
      · simp [store, storeKV_encode kvs h]
theorem storeL_encode : (xs : List PyVal) → GoodL xs = true → storeL (encodeL xs) = .ok (encodeL xs)
  | [], _ => by simp [encodeL, storeL]
  | x :: xs, h => by
      simp only [GoodL, Bool.and_eq_true] at h
      simp [encodeL, storeL, store_encode x h.1, storeL_encode xs h.2]
theorem storeKV_encode : (kvs : List (PKey × PyVal)) → GoodKV kvs = true → storeKV (encodeKV kvs) = .ok (encodeKV kvs)
  | [], _ => by simp [encodeKV, storeKV]
  | (k, v) :: t, h => by
      simp only [GoodKV, Bool.and_eq_true] at h
      obtain ⟨⟨hk, hv⟩, ht⟩ := h
      cases k with
      | s s => simp [encodeKV, storeKV, store_encode v hv, storeKV_encode t ht, keyToJson]
      | i n => simp at hk
end

/-! ### decoding what was encoded gives the value back, up to the stated normalisation -/
theorem decode_dict_plain (kvs : List (PKey × PyVal)) (h : lookup kvs (.s "_type") = none) :
    decode (.dict kvs) = match decodeKV kvs with
      | .ok r => .ok (.dict r)
      | .error e => .error e := by
  rw [decode, h]
  cases decodeKV kvs <;> rfl

/-- a wrapped user dict is read back through its `_value` -/
theorem decode_wrapped (inner : List (PKey × PyVal)) :
    decode (.dict [(.s "_type", .str "dict"), (.s "_value", .dict inner)]) = match decodeKV inner with
      | .ok r => .ok (.dict r)
      | .error e => .error e := by
  rw [decode]
  simp only [lookup, decodeDictValue, if_true, if_false, show ¬ (PKey.s "_type" = PKey.s "_value") by decide]
  cases decodeKV inner <;> rfl

mutual
theorem decode_encode : (v : PyVal) → Good v = true → decode (encode v) = .ok (norm v)
  | .none, _ => by simp [encode, decode, norm]
  | .bool _, _ => by simp [encode, decode, norm]
  | .int _, _ => by simp [encode, decode, norm]
  | .float _, _ => by simp [encode, decode, norm]
  | .str _, _ => by simp [encode, decode, norm]
  | .npint _, _ => by simp [encode, decode, norm]
  | .npfloat _, _ => by simp [encode, decode, norm]
  | .npbool _, _ => by simp [encode, decode, norm]
  | .ndarray t, h => by simp only [Good] at h; simp [encode, norm, decode_plain t h]
  | .arraylike t, h => by simp only [Good] at h; simp [encode, norm, decode_plain t h]
  | .tuple xs, h => by
      simp only [Good] at h
      simp [encode, decode, lookup, decodeTupleValue, decodeL_encode xs h, norm]
  | .list xs, h => by
      simp only [Good] at h
      simp [encode, decode, decodeL_encode xs h, norm]
  | .dict kvs, h => by
      simp only [Good] at h
      simp only [encode, norm]
      split
      · rw [decode_wrapped, decodeKV_encode kvs h]
      · rename_i hnone
        have hl : lookup (encodeKV kvs) (.s "_type") = none := by
          rw [lookup_encodeKV]
          cases hk : lookup kvs (.s "_type") with
          | none => rfl
          | some v => simp [hk] at hnone
        rw [decode_dict_plain _ hl, decodeKV_encode kvs h]
theorem decodeL_encode : (xs : List PyVal) → GoodL xs = true → decodeL (encodeL xs) = .ok (normL xs)
  | [], _ => by simp [encodeL, decodeL, normL]
  | x :: xs, h => by
      simp only [GoodL, Bool.and_eq_true] at h
      simp [encodeL, decodeL, normL, decode_encode x h.1, decodeL_encode xs h.2]
theorem decodeKV_encode : (kvs : List (PKey × PyVal)) → GoodKV kvs = true → decodeKV (encodeKV kvs) = .ok (normKV kvs)
  | [], _ => by simp [encodeKV, decodeKV, normKV]
  | (k, v) :: t, h => by
      simp only [GoodKV, Bool.and_eq_true] at h
      obtain ⟨⟨_, hv⟩, ht⟩ := h
      simp [encodeKV, decodeKV, normKV, decode_encode v hv, decodeKV_encode t ht]
end

/-- THE METADATA ROUND TRIP.  For every value tree whose dict keys are strings, in which no dict carries
`"_type": "tuple"`, and whose arrays are real arrays: what `from_zarr` decodes from what `to_zarr` encoded
and JSON stored is the value itself, tuples restored as tuples at any depth, numpy scalars as Python
scalars and arrays as nested lists. -/
theorem roundtrip_good (v : PyVal) (h : Good v = true) : roundtrip v = .ok (norm v) := by
  simp [roundtrip, store_encode v h, decode_encode v h]

/- values without numpy types come back identical -/
mutual
def Pure : PyVal → Bool
  | .npint _ => false
  | .npfloat _ => false
  | .npbool _ => false
  | .ndarray _ => false
  | .arraylike _ => false
  | .tuple xs => PureL xs
  | .list xs => PureL xs
  | .dict kvs => PureKV kvs
  | _ => true
def PureL : List PyVal → Bool
  | [] => true
  | x :: xs => Pure x && PureL xs
def PureKV : List (PKey × PyVal) → Bool
  | [] => true
  | (_, v) :: t => Pure v && PureKV t
end

mutual
theorem norm_pure : (v : PyVal) → Pure v = true → norm v = v
  | .none, _ => by simp [norm]
  | .bool _, _ => by simp [norm]
  | .int _, _ => by simp [norm]
  | .float _, _ => by simp [norm]
  | .str _, _ => by simp [norm]
  | .npint _, h => by simp [Pure] at h
  | .npfloat _, h => by simp [Pure] at h
  | .npbool _, h => by simp [Pure] at h
  | .ndarray _, h => by simp [Pure] at h
  | .arraylike _, h => by simp [Pure] at h
  | .tuple xs, h => by simp only [Pure] at h; simp [norm, normL_pure xs h]
  | .list xs, h => by simp only [Pure] at h; simp [norm, normL_pure xs h]
  | .dict kvs, h => by simp only [Pure] at h; simp [norm, normKV_pure kvs h]
theorem normL_pure : (xs : List PyVal) → PureL xs = true → normL xs = xs
  | [], _ => by simp [normL]
  | x :: xs, h => by
      simp only [PureL, Bool.and_eq_true] at h
      simp [normL, norm_pure x h.1, normL_pure xs h.2]
theorem normKV_pure : (kvs : List (PKey × PyVal)) → PureKV kvs = true → normKV kvs = kvs
  | [], _ => by simp [normKV]
  | (k, v) :: t, h => by
      simp only [PureKV, Bool.and_eq_true] at h
      simp [normKV, norm_pure v h.1, normKV_pure t h.2]
end

theorem roundtrip_identity (v : PyVal) (hg : Good v = true) (hp : Pure v = true) : roundtrip v = .ok v := by
  rw [roundtrip_good v hg, norm_pure v hp]

/-! ### the guards are necessary (witnesses replayed on the real code by the harness) -/

/-- after fix 76663a15: a user dict that itself carries `"_type": "tuple"` comes back as that dict (it used to come back as a tuple) … -/
theorem tagged_user_dict_roundtrip :
    roundtrip (.dict [(.s "note", .dict [(.s "_type", .str "tuple"), (.s "_value", .list [.int 1, .int 2])])])
      = .ok (.dict [(.s "note", .dict [(.s "_type", .str "tuple"), (.s "_value", .list [.int 1, .int 2])])]) :=
  roundtrip_identity _ (by decide) (by decide)

/-- … also without a `"_value"` entry (the file used to be unloadable: KeyError) -/
theorem tagged_user_dict_without_value_roundtrip :
    roundtrip (.dict [(.s "n", .dict [(.s "_type", .str "tuple")])]) = .ok (.dict [(.s "n", .dict [(.s "_type", .str "tuple")])]) :=
  roundtrip_identity _ (by decide) (by decide)

/-- integer dict keys come back as strings (JSON) -/
theorem int_key_changed_counterexample :
    ¬ (∀ v : PyVal, roundtrip v = .ok (norm v)) := by
  intro h
  have := h (.dict [(.i 1, .str "a")])
  simp [roundtrip, encode, encodeKV, store, storeKV, keyToJson, decode, lookup, decodeKV, norm, normKV] at this

/-! ### metadata packing: the four reserved keys -/

theorem erase_put_new {κ β} [DecidableEq κ] (d : List (κ × β)) (k : κ) (v : β) (h : lookup d k = none) :
    erase (put d k v) k = d := by
  induction d with
  | nil => simp [put, erase]
  | cons hd t ih =>
    obtain ⟨k', v'⟩ := hd
    by_cases hk : k' = k
    · simp [lookup, hk] at h
    · simp [lookup, hk] at h; simp [put, erase, hk, ih h]

theorem lookup_put_ne {κ β} [DecidableEq κ] (d : List (κ × β)) (k k2 : κ) (v : β) (h : k ≠ k2) :
    lookup (put d k v) k2 = lookup d k2 := by
  induction d with
  | nil => simp [put, lookup, h]
  | cons hd t ih =>
    obtain ⟨k', v'⟩ := hd
    by_cases hk : k' = k
    · subst hk; simp [put, lookup, h]
    · by_cases hk2 : k' = k2
      · subst hk2; simp [put, lookup, hk]
      · simp [put, lookup, hk, hk2, ih]

theorem erase_put_comm {κ β} [DecidableEq κ] (d : List (κ × β)) (k k2 : κ) (v : β) (h : k ≠ k2)
    (hk2 : lookup d k2 = none) : erase (put d k2 v) k = put (erase d k) k2 v := by
  induction d with
  | nil => simp [put, erase, Ne.symm h]
  | cons hd t ih =>
    obtain ⟨k', v'⟩ := hd
    by_cases h2 : k' = k2
    · simp [lookup, h2] at hk2
    · simp only [lookup, h2, if_false] at hk2
      by_cases h1 : k' = k
      · subst h1
        simp [put, erase, h2]
      · simp [put, erase, h1, h2, ih hk2]

theorem lookup_put_self {κ β} [DecidableEq κ] (d : List (κ × β)) (k : κ) (v : β) : lookup (put d k v) k = some v := by
  induction d with
  | nil => simp [put, lookup]
  | cons hd t ih =>
    obtain ⟨k', v'⟩ := hd
    by_cases hk : k' = k
    · simp [put, lookup, hk]
    · simp [put, lookup, hk, ih]

/-- after fix 00bee520: EVERY user metadata dict survives packing and unpacking — the untouched metadata travels with the
constructor keywords and is taken from there, so entries named `axes`, `data_origin`, `type` or `kwargs` are no longer
shadowed by the bookkeeping entries of the same name. -/
theorem unpack_pack (md kw : List (PKey × PyVal)) (axes origin cls : PyVal)
    (hkw : lookup kw (.s "metadata") = some (.dict md)) :
    unpackMetadata (packMetadata md axes origin cls (.dict kw)) = md := by
  simp only [unpackMetadata, packMetadata, lookup_put_self, hkw]

/-- in particular an entry called `type` (this used to be the recorded defect) -/
example : unpackMetadata (packMetadata [(.s "type", .str "mine")] .none .none (.str "Images")
    (.dict [(.s "metadata", .dict [(.s "type", .str "mine")])])) = [(.s "type", .str "mine")] :=
  unpack_pack _ _ _ _ _ rfl

/-! ### axis metadata: `axis_from_dict (axis_to_dict a) = a` over the generated class table -/

theorem put_new_append {κ β} [DecidableEq κ] (d : List (κ × β)) (k : κ) (v : β) (h : lookup d k = none) :
    put d k v = d ++ [(k, v)] := by
  induction d with
  | nil => simp [put]
  | cons hd t ih =>
    obtain ⟨k', v'⟩ := hd
    by_cases hk : k' = k
    · simp [lookup, hk] at h
    · simp [lookup, hk] at h; simp [put, hk, ih h]

theorem lookup_append_new {κ β} [DecidableEq κ] (d : List (κ × β)) (k : κ) (v : β) (h : lookup d k = none) :
    lookup (d ++ [(k, v)]) k = some v := by
  induction d with
  | nil => simp [lookup]
  | cons hd t ih =>
    obtain ⟨k', v'⟩ := hd
    by_cases hk : k' = k
    · simp [lookup, hk] at h
    · simp [lookup, hk] at h; simp [lookup, hk, ih h]

/-- the dict built from the fields of an axis: lookups by field name -/
theorem lookup_fields (f : PyVal → PyVal) : (l : List (String × PyVal)) → (k : String) →
    lookup (l.map fun kv => (PKey.s kv.1, f kv.2)) (.s k) = (lookup l k).map f
  | [], _ => by simp [lookup]
  | (k', v) :: t, k => by
      by_cases hk : k' = k
      · simp [lookup, hk]
      · have : PKey.s k' ≠ PKey.s k := fun hc => hk (PKey.s.inj hc)
        simp [lookup, hk, this, lookup_fields f t k]

theorem lookup_none_of_not_mem : (l : List (String × PyVal)) → (k : String) → k ∉ l.map Prod.fst → lookup l k = none
  | [], _, _ => by simp [lookup]
  | (k', v) :: t, k, h => by
      simp only [List.map_cons, List.mem_cons, not_or] at h
      simp [lookup, Ne.symm h.1, lookup_none_of_not_mem t k h.2]

theorem lookup_some_of_mem : (l : List (String × PyVal)) → (k : String) → k ∈ l.map Prod.fst → (lookup l k).isSome = true
  | [], _, h => by simp at h
  | (k', v) :: t, k, h => by
      by_cases hk : k' = k
      · simp [lookup, hk]
      · simp only [List.map_cons, List.mem_cons] at h
        rcases h with h | h
        · exact absurd h.symm hk
        · simp [lookup, hk, lookup_some_of_mem t k h]

/-- rebuilding the field list from the dict, in declaration order with defaults for missing entries, returns
exactly the (converted) fields when the names agree and are distinct -/
theorem rebuild_fields (f : PyVal → PyVal) : (vals fs : List (String × PyVal)) →
    vals.map Prod.fst = fs.map Prod.fst → (fs.map Prod.fst).Nodup →
    fs.map (fun kd => (kd.1, ((lookup vals kd.1).map f).getD kd.2)) = vals.map (fun kv => (kv.1, f kv.2))
  | [], [], _, _ => by simp
  | [], _ :: _, h, _ => by simp at h
  | _ :: _, [], h, _ => by simp at h
  | (k, v) :: vt, (k2, d) :: ft, h, hnd => by
      simp only [List.map_cons, List.cons.injEq] at h
      obtain ⟨hk, ht⟩ := h
      subst hk
      simp only [List.map_cons, List.nodup_cons] at hnd
      obtain ⟨hnot, hnd'⟩ := hnd
      have ih := rebuild_fields f vt ft ht hnd'
      simp only [List.map_cons, lookup, if_true, Option.map_some, Option.getD_some, List.cons.injEq, true_and]
      rw [← ih]
      apply List.map_congr_left
      intro kd hkd
      have hne : k ≠ kd.1 := by
        intro hc
        apply hnot
        rw [hc]
        exact List.mem_map_of_mem hkd
      simp [hne]

theorem filter_type (M : List (PKey × PyVal)) (x : PyVal) (h : ∀ kv ∈ M, kv.1 ≠ PKey.s "type") :
    (M ++ [(PKey.s "type", x)]).filter (fun kv => kv.1 != PKey.s "type") = M := by
  rw [List.filter_append]
  have h1 : M.filter (fun kv => kv.1 != PKey.s "type") = M := by
    apply List.filter_eq_self.mpr
    intro kv hkv
    simpa [bne_iff_ne] using h kv hkv
  simp [h1]

/-- AXIS ROUND TRIP.  For any class table, any class of it whose collected field names are distinct and do not
contain `"type"`, and any axis of that class carrying exactly those fields: `axis_from_dict(axis_to_dict(a))`
is the axis itself (array-valued fields as tuples). -/
theorem axis_from_to_dict (tbl : List ClassDecl) (a : Axis) (fs : List (String × PyVal))
    (hfs : classFields tbl (tbl.length + 1) a.cls = some fs)
    (hnames : a.fields.map Prod.fst = fs.map Prod.fst)
    (hnd : (fs.map Prod.fst).Nodup) (hty : "type" ∉ fs.map Prod.fst) :
    axisFromDict tbl (axisToDictRaw a) = .ok ⟨a.cls, a.fields.map fun kv => (kv.1, arrToTuple kv.2)⟩ := by
  have hty' : "type" ∉ a.fields.map Prod.fst := by rw [hnames]; exact hty
  have hM : lookup (a.fields.map fun kv => (PKey.s kv.1, arrToTuple kv.2)) (.s "type") = none := by
    rw [lookup_fields, lookup_none_of_not_mem _ _ hty']; rfl
  have hkeys : ∀ kv ∈ (a.fields.map fun kv => (PKey.s kv.1, arrToTuple kv.2)), kv.1 ≠ PKey.s "type" := by
    intro kv hkv
    simp only [List.mem_map] at hkv
    obtain ⟨x, hx, rfl⟩ := hkv
    intro hc
    apply hty'
    have := PKey.s.inj hc
    rw [← this]
    exact List.mem_map_of_mem hx
  simp only [axisToDictRaw, axisFromDict]
  rw [put_new_append _ _ _ hM, lookup_append_new _ _ _ hM]
  simp only [hfs, filter_type _ _ hkeys]
  split
  · congr 2
    have := rebuild_fields arrToTuple a.fields fs hnames hnd
    rw [← this]
    apply List.map_congr_left
    intro kd _
    simp [lookup_fields]
  · rename_i hneg
    exfalso
    apply hneg
    simp only [List.all_eq_true, List.mem_map]
    rintro kv ⟨x, hx, rfl⟩
    simp only
    apply lookup_some_of_mem
    rw [← hnames]
    exact List.mem_map_of_mem hx

/-- every class of the table generated from abtem/core/axes.py satisfies the side conditions: its
collected fields exist, are distinct, and none is called `type` (the key `axis_to_dict` adds) -/
def classOk (tbl : List ClassDecl) (c : ClassDecl) : Bool :=
  match classFields tbl (tbl.length + 1) c.name with
  | some fs => (fs.map Prod.fst).Nodup && !(fs.map Prod.fst).contains "type"
  | none => false

theorem generated_axis_classes_ok : AbtemVerif.Gen.AxesClasses.axisClasses.all (classOk AbtemVerif.Gen.AxesClasses.axisClasses) = true := by
  decide +kernel

/-- AXIS ROUND TRIP on the classes abTEM has today: for every dataclass of abtem/core/axes.py (as regenerated
on this run) and every axis object of that class, `axis_from_dict(axis_to_dict(a)) = a`. -/
theorem generated_axis_roundtrip (c : ClassDecl) (hc : c ∈ AbtemVerif.Gen.AxesClasses.axisClasses)
    (a : Axis) (ha : a.cls = c.name) (fs : List (String × PyVal))
    (hfs : classFields AbtemVerif.Gen.AxesClasses.axisClasses (AbtemVerif.Gen.AxesClasses.axisClasses.length + 1) c.name = some fs)
    (hnames : a.fields.map Prod.fst = fs.map Prod.fst) :
    axisFromDict AbtemVerif.Gen.AxesClasses.axisClasses (axisToDictRaw a)
      = .ok ⟨a.cls, a.fields.map fun kv => (kv.1, arrToTuple kv.2)⟩ := by
  have hok := List.all_eq_true.mp generated_axis_classes_ok c hc
  simp only [classOk, hfs, Bool.and_eq_true, decide_eq_true_eq, Bool.not_eq_true', List.contains_eq_mem,
    decide_eq_false_iff_not] at hok
  exact axis_from_to_dict _ a fs (by rw [ha]; exact hfs) hnames hok.1 hok.2

/-- non-vacuity: the collected fields of ScanAxis (dataclass inheritance order) -/
example : (classFields AbtemVerif.Gen.AxesClasses.axisClasses (AbtemVerif.Gen.AxesClasses.axisClasses.length + 1) "ScanAxis").map
      (fun fs => fs.map Prod.fst)
    = some ["label", "units", "tex_label", "tex_units", "_default_type", "_concatenate", "_ensemble_mean",
        "_squeeze", "sampling", "offset", "endpoint", "_main"] := by decide +kernel

/-! ### the axis through the whole file path (composition of the two round trips) -/

theorem arrToTuple_plain (t : PyVal) (h : Plain t = true) : arrToTuple t = t := by
  cases t <;> simp [Plain] at h <;> simp [arrToTuple]

theorem arrToTuple_norm (v : PyVal) (h : Good v = true) : arrToTuple (norm v) = norm v := by
  cases v <;> simp [norm, arrToTuple]
  · rename_i t; simp only [Good] at h; exact arrToTuple_plain t h
  · rename_i t; simp only [Good] at h; exact arrToTuple_plain t h

theorem normKV_put : (M : List (PKey × PyVal)) → (k : PKey) → (v : PyVal) → normKV (put M k v) = put (normKV M) k (norm v)
  | [], k, v => by simp [put, normKV]
  | (k', v') :: t, k, v => by
      by_cases hk : k' = k
      · simp [put, normKV, hk]
      · simp [put, normKV, hk, normKV_put t k v]

theorem normKV_fields (f : PyVal → PyVal) : (l : List (String × PyVal)) →
    normKV (l.map fun kv => (PKey.s kv.1, f kv.2)) = l.map fun kv => (PKey.s kv.1, norm (f kv.2))
  | [] => by simp [normKV]
  | kv :: t => by simp [normKV, normKV_fields f t]

/-- what the stated normalisation does to a serialised axis: it is the serialised axis with normalised fields -/
theorem norm_axisToDictRaw (a : Axis) (hg : ∀ kv ∈ a.fields, Good (arrToTuple kv.2) = true) :
    norm (axisToDictRaw a) = axisToDictRaw ⟨a.cls, a.fields.map fun kv => (kv.1, norm (arrToTuple kv.2))⟩ := by
  simp only [axisToDictRaw, norm, normKV_put, normKV_fields, List.map_map]
  congr 2
  apply List.map_congr_left
  intro kv hkv
  simp [Function.comp, arrToTuple_norm _ (hg kv hkv)]

/-- AXIS THROUGH THE FILE.  `axis_to_dict`, `encode_types`, JSON storage, `decode_types`, `axis_from_dict` composed: for a
class of the table with distinct field names not containing `type`, and an axis whose serialised form passes the guard,
the axis read back is the axis written, field by field, up to the stated normalisation (arrays as tuples of nested
lists, numpy scalars as Python scalars). -/
theorem axis_zarr_roundtrip (tbl : List ClassDecl) (a : Axis) (fs : List (String × PyVal))
    (hfs : classFields tbl (tbl.length + 1) a.cls = some fs)
    (hnames : a.fields.map Prod.fst = fs.map Prod.fst)
    (hnd : (fs.map Prod.fst).Nodup) (hty : "type" ∉ fs.map Prod.fst)
    (hgood : Good (axisToDictRaw a) = true) (hg : ∀ kv ∈ a.fields, Good (arrToTuple kv.2) = true) :
    (match roundtrip (axisToDictRaw a) with
     | .ok d => axisFromDict tbl d
     | .error e => .error e)
      = .ok ⟨a.cls, a.fields.map fun kv => (kv.1, norm (arrToTuple kv.2))⟩ := by
  rw [roundtrip_good _ hgood, norm_axisToDictRaw a hg]
  simp only
  have h := axis_from_to_dict tbl ⟨a.cls, a.fields.map fun kv => (kv.1, norm (arrToTuple kv.2))⟩ fs hfs
    (by rw [← hnames]; simp [List.map_map, Function.comp]) hnd hty
  rw [h]
  congr 2
  simp only [List.map_map]
  apply List.map_congr_left
  intro kv hkv
  simp [Function.comp, arrToTuple_norm _ (hg kv hkv)]


/-! ### `axis_to_dict` itself: the TypeError of 0-d array fields is not totalised away -/

theorem axisToDict_of_fieldsOk (a : Axis) (h : a.fields.all (fun kv => fieldOk kv.2) = true) :
    axisToDict a = .ok (axisToDictRaw a) := by
  simp [axisToDict, h]

/-- a 0-d array field (`LinearAxis(sampling=np.array(0.5))`) makes `axis_to_dict` raise (`tuple(0.5)`) -/
theorem axisToDict_zero_dim_array_refused (cls k : String) (r : String) (rest : List (String × PyVal)) :
    axisToDict ⟨cls, (k, .ndarray (.float r)) :: rest⟩ = .error .type_error := by
  simp [axisToDict, fieldOk]

/-- the whole axis path with the real `axis_to_dict`: when every array field is at least 1-d the axis written is the axis
read back (up to the stated normalisation) -/
theorem axis_zarr_roundtrip_checked (tbl : List ClassDecl) (a : Axis) (fs : List (String × PyVal))
    (hok : a.fields.all (fun kv => fieldOk kv.2) = true)
    (hfs : classFields tbl (tbl.length + 1) a.cls = some fs)
    (hnames : a.fields.map Prod.fst = fs.map Prod.fst)
    (hnd : (fs.map Prod.fst).Nodup) (hty : "type" ∉ fs.map Prod.fst)
    (hgood : Good (axisToDictRaw a) = true) (hg : ∀ kv ∈ a.fields, Good (arrToTuple kv.2) = true) :
    (match axisToDict a with
     | .ok d => (match roundtrip d with
        | .ok d' => axisFromDict tbl d'
        | .error e => .error e)
     | .error e => .error e)
      = .ok ⟨a.cls, a.fields.map fun kv => (kv.1, norm (arrToTuple kv.2))⟩ := by
  rw [axisToDict_of_fieldsOk a hok]
  exact axis_zarr_roundtrip tbl a fs hfs hnames hnd hty hgood hg

/-- abTEM's `PlasmonAxis` (defined in abtem/inelastic/plasmons.py, resolved by `axis_from_dict` since fix 500805c2) is a class
of the generated table with all the inherited fields -/
example : (classFields AbtemVerif.Gen.AxesClasses.axisClasses (AbtemVerif.Gen.AxesClasses.axisClasses.length + 1) "PlasmonAxis").map
      (fun fs => fs.map Prod.fst)
    = some ["label", "units", "tex_label", "tex_units", "_default_type", "_concatenate", "_ensemble_mean", "_squeeze", "values"] := by
  decide +kernel

/-! ### non-vacuity -/
example : Good (.dict [(.s "t", .tuple [.int 1, .tuple [.npfloat "2.5"], .list [.ndarray (.list [.int 1, .int 2])]])]) = true := by
  decide
example : roundtrip (.dict [(.s "t", .tuple [.int 1, .npint 2])]) = .ok (.dict [(.s "t", .tuple [.int 1, .int 2])]) :=
  roundtrip_good _ (by decide)

end AbtemVerif.Props.C30
