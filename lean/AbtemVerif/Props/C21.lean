/-
C21 — The contrast transfer function implements the polar aberration expansion.

Generated (tools/py2lean.py, every run, from abtem/transfer.py and abtem/core/complex.py): the five accumulation
statements `array = array + …` of `Aberrations._evaluate_from_angular_grid` (`chiTerm1…5`), the scaling
`array *= 2π/λ` (`chiScaled`), `complex_exponential(-array)` through the real and imaginary part of
`_complex_exponential` (`aberrationRe/Im`, `cexpRe/Im`), the `defocus` getter/setter expressions of `_HasAberrations`
and `Aberrations`, the `polar_aliases` table and the symbol tuples of the five `_nonzero_coefficients` guards.
Hand model (Model/Aberrations.lean, tied by correspondence): the coefficient dict, `__getattr__/__setattr__`,
`zip(polar_symbols, values)`, the guarded fold.

Quantifiers: all 25 coefficients, all α, φ, λ, δ; all dict states with the 25 symbol keys; every alias.
-/
import AbtemVerif.Gen.ChiR
import AbtemVerif.Gen.ChiTables
import AbtemVerif.Model.Aberrations
import Mathlib.Analysis.Complex.Trigonometric
import Mathlib.Tactic.Ring
import Mathlib.Tactic.Linarith
import Mathlib.Tactic.NormNum

namespace AbtemVerif.Props.C21
open AbtemVerif AbtemVerif.Gen.ChiR AbtemVerif.Gen.ChiTables AbtemVerif.Aberr

/-! ### the aberration function -/

/-- The 14 (n, m) orders of the polar expansion up to fifth order with their coefficient and angle
(Kirkland Eq. 2.22: χ = Σ α^{n+1}/(n+1) · C_nm · cos(m(φ − φ_nm)); rotationally symmetric terms have m = 0). -/
def orders (p : PolarCoeffs ℝ) : List (ℕ × ℕ × ℝ × ℝ) :=
  [(1, 0, p.C10, 0), (1, 2, p.C12, p.phi12), (2, 1, p.C21, p.phi21), (2, 3, p.C23, p.phi23), (3, 0, p.C30, 0),
   (3, 2, p.C32, p.phi32), (3, 4, p.C34, p.phi34), (4, 1, p.C41, p.phi41), (4, 3, p.C43, p.phi43), (4, 5, p.C45, p.phi45),
   (5, 0, p.C50, 0), (5, 2, p.C52, p.phi52), (5, 4, p.C54, p.phi54), (5, 6, p.C56, p.phi56)]

noncomputable def chiSpec (p : PolarCoeffs ℝ) (α φ : ℝ) : ℝ :=
  ((orders p).map fun t => α ^ (t.1 + 1) / ((t.1 : ℝ) + 1) * t.2.2.1 * Real.cos ((t.2.1 : ℝ) * (φ - t.2.2.2))).sum

/-- the five generated accumulation statements executed unconditionally -/
noncomputable def chi (p : PolarCoeffs ℝ) (α φ : ℝ) : ℝ :=
  chiTerm5 (chiTerm4 (chiTerm3 (chiTerm2 (chiTerm1 0 α φ p) α φ p) α φ p) α φ p) α φ p

/-- The generated sum is the standard polar aberration polynomial. -/
theorem chi_eq_kirkland (p : PolarCoeffs ℝ) (α φ : ℝ) : chi p α φ = chiSpec p α φ := by
  unfold chi chiSpec orders chiTerm1 chiTerm2 chiTerm3 chiTerm4 chiTerm5
  simp only [List.map_cons, List.map_nil, List.sum_cons, List.sum_nil, Nat.cast_zero, zero_mul, Real.cos_zero, Nat.cast_one, one_mul,
    Nat.cast_ofNat]
  ring

/-- `== 0.0` on a scalar coefficient -/
noncomputable def isZeroR (x : ℝ) : Bool := decide (x = 0)

/-- the code as it runs: each accumulation guarded by `_nonzero_coefficients(<generated symbol tuple>)` -/
noncomputable def chiGuarded (p : PolarCoeffs ℝ) (α φ : ℝ) : ℝ :=
  guardedFold [(chiTerm1 · α φ p), (chiTerm2 · α φ p), (chiTerm3 · α φ p), (chiTerm4 · α φ p), (chiTerm5 · α φ p)]
    (guardSymbols.map (nonzero isZeroR 0 p)) 0

section guards
variable (p : PolarCoeffs ℝ) (acc α φ : ℝ)

lemma guard1 : (if nonzero isZeroR 0 p ["C10", "C12", "phi12"] = true then chiTerm1 acc α φ p else acc) = chiTerm1 acc α φ p := by
  by_cases h : nonzero isZeroR 0 p ["C10", "C12", "phi12"] = true
  · simp [h]
  · have h' : p.C10 = 0 ∧ p.C12 = 0 ∧ p.phi12 = 0 := by
      simpa [nonzero, coeff, PolarCoeffs.fieldNames, PolarCoeffs.toList, List.lookup, isZeroR] using h
    simp [h, chiTerm1, h'.1, h'.2.1]

lemma guard2 : (if nonzero isZeroR 0 p ["C21", "phi21", "C23", "phi23"] = true then chiTerm2 acc α φ p else acc) = chiTerm2 acc α φ p := by
  by_cases h : nonzero isZeroR 0 p ["C21", "phi21", "C23", "phi23"] = true
  · simp [h]
  · have h' : p.C21 = 0 ∧ p.phi21 = 0 ∧ p.C23 = 0 ∧ p.phi23 = 0 := by
      simpa [nonzero, coeff, PolarCoeffs.fieldNames, PolarCoeffs.toList, List.lookup, isZeroR] using h
    simp [h, chiTerm2, h'.1, h'.2.2.1]

lemma guard3 : (if nonzero isZeroR 0 p ["C30", "C32", "phi32", "C34", "phi34"] = true then chiTerm3 acc α φ p else acc)
    = chiTerm3 acc α φ p := by
  by_cases h : nonzero isZeroR 0 p ["C30", "C32", "phi32", "C34", "phi34"] = true
  · simp [h]
  · have h' : p.C30 = 0 ∧ p.C32 = 0 ∧ p.phi32 = 0 ∧ p.C34 = 0 ∧ p.phi34 = 0 := by
      simpa [nonzero, coeff, PolarCoeffs.fieldNames, PolarCoeffs.toList, List.lookup, isZeroR] using h
    simp [h, chiTerm3, h'.1, h'.2.1, h'.2.2.2.1]

lemma guard4 : (if nonzero isZeroR 0 p ["C41", "phi41", "C43", "phi43", "C45", "phi45"] = true then chiTerm4 acc α φ p else acc)
    = chiTerm4 acc α φ p := by
  by_cases h : nonzero isZeroR 0 p ["C41", "phi41", "C43", "phi43", "C45", "phi45"] = true
  · simp [h]
  · have h' : p.C41 = 0 ∧ p.phi41 = 0 ∧ p.C43 = 0 ∧ p.phi43 = 0 ∧ p.C45 = 0 ∧ p.phi45 = 0 := by
      simpa [nonzero, coeff, PolarCoeffs.fieldNames, PolarCoeffs.toList, List.lookup, isZeroR] using h
    simp [h, chiTerm4, h'.1, h'.2.2.1, h'.2.2.2.2.1]

lemma guard5 : (if nonzero isZeroR 0 p ["C50", "C52", "phi52", "C54", "phi54", "C56", "phi56"] = true then chiTerm5 acc α φ p else acc)
    = chiTerm5 acc α φ p := by
  by_cases h : nonzero isZeroR 0 p ["C50", "C52", "phi52", "C54", "phi54", "C56", "phi56"] = true
  · simp [h]
  · have h' : p.C50 = 0 ∧ p.C52 = 0 ∧ p.phi52 = 0 ∧ p.C54 = 0 ∧ p.phi54 = 0 ∧ p.C56 = 0 ∧ p.phi56 = 0 := by
      simpa [nonzero, coeff, PolarCoeffs.fieldNames, PolarCoeffs.toList, List.lookup, isZeroR] using h
    simp [h, chiTerm5, h'.1, h'.2.1, h'.2.2.2.1, h'.2.2.2.2.2.1]

end guards

/-- The `_nonzero_coefficients` guards are value preserving: skipping a block whose listed coefficients all vanish does not
change χ, for the symbol tuples that the source passes to the guards today. -/
theorem guards_value_preserving (p : PolarCoeffs ℝ) (α φ : ℝ) : chiGuarded p α φ = chi p α φ := by
  simp only [chiGuarded, guardedFold, guardSymbols, List.map_cons, List.map_nil, List.zip_cons_cons, List.zip_nil_right,
    List.foldl_cons, List.foldl_nil, guard1, guard2, guard3, guard4, guard5, chi]

/-- χ vanishes on the optical axis. -/
theorem chi_at_zero (p : PolarCoeffs ℝ) (φ : ℝ) : chi p 0 φ = 0 := by
  unfold chi chiTerm1 chiTerm2 chiTerm3 chiTerm4 chiTerm5
  simp

/-! ### the transfer function -/

/-- `array *= 2π/λ; array = complex_exponential(-array)` on the guarded accumulation -/
noncomputable def transfer (p : PolarCoeffs ℝ) (α φ wavelength : ℝ) : ℂ :=
  ⟨aberrationRe (chiScaled (chiGuarded p α φ) wavelength), aberrationIm (chiScaled (chiGuarded p α φ) wavelength)⟩

/-- `complex_exponential(-x)` is `exp(−i x)`. -/
theorem cexp_neg_eq_exp (x : ℝ) : (⟨aberrationRe x, aberrationIm x⟩ : ℂ) = Complex.exp (((-x : ℝ) : ℂ) * Complex.I) := by
  apply Complex.ext
  · rw [Complex.exp_ofReal_mul_I_re]; simp [aberrationRe, cexpRe]
  · rw [Complex.exp_ofReal_mul_I_im]; simp [aberrationIm, cexpIm]

/-- For every coefficient set the aberration transfer function is `exp(−2πi χ(α, φ)/λ)` with the Kirkland polynomial χ. -/
theorem aberration_eq_exp (p : PolarCoeffs ℝ) (α φ wavelength : ℝ) :
    transfer p α φ wavelength = Complex.exp (((-(chiSpec p α φ * (2 * Real.pi / wavelength)) : ℝ) : ℂ) * Complex.I) := by
  unfold transfer
  rw [cexp_neg_eq_exp, guards_value_preserving, chi_eq_kirkland]
  rfl

/-- Distribution-valued coefficients: the code multiplies member `i` of the ensemble by the distribution weight `wᵢ`
(`array = weights * array`), so the modulus of a member is `|wᵢ|`, not 1 (unit weights for `from_values` without weights). -/
theorem weighted_member_norm (w : ℝ) (p : PolarCoeffs ℝ) (α φ wavelength : ℝ) :
    ‖(w : ℂ) * transfer p α φ wavelength‖ = |w| := by
  rw [norm_mul, aberration_eq_exp, Complex.norm_exp_ofReal_mul_I, mul_one, Complex.norm_real, Real.norm_eq_abs]

/-- A pure phase: the aberration function never changes the modulus. -/
theorem aberration_norm_one (p : PolarCoeffs ℝ) (α φ wavelength : ℝ) : ‖transfer p α φ wavelength‖ = 1 := by
  rw [aberration_eq_exp, Complex.norm_exp_ofReal_mul_I]

/-- Without aberrations (`_has_aberrations` false, the code returns ones) the formula gives 1 as well. -/
theorem no_aberrations_is_one (p : PolarCoeffs ℝ) (α φ wavelength : ℝ) (h : hasAberrations isZeroR p = false) :
    transfer p α φ wavelength = 1 := by
  have h' : p.C10 = 0 ∧ p.C12 = 0 ∧ p.C21 = 0 ∧ p.C23 = 0 ∧ p.C30 = 0 ∧ p.C32 = 0 ∧ p.C34 = 0 ∧ p.C41 = 0 ∧ p.C43 = 0
      ∧ p.C45 = 0 ∧ p.C50 = 0 ∧ p.C52 = 0 ∧ p.C54 = 0 ∧ p.C56 = 0 := by
    simp [hasAberrations, PolarCoeffs.toList, isZeroR] at h
    tauto
  obtain ⟨h1, h2, h3, h4, h5, h6, h7, h8, h9, h10, h11, h12, h13, h14⟩ := h'
  rw [aberration_eq_exp]
  have : chiSpec p α φ = 0 := by
    rw [← chi_eq_kirkland]
    unfold chi chiTerm1 chiTerm2 chiTerm3 chiTerm4 chiTerm5
    simp [h1, h2, h3, h4, h5, h6, h7, h8, h9, h10, h11, h12, h13, h14]
  simp [this]

/-! ### rotation covariance -/

/-- add δ to every azimuthal angle coefficient -/
def rotate (p : PolarCoeffs ℝ) (δ : ℝ) : PolarCoeffs ℝ :=
  { p with phi12 := p.phi12 + δ, phi21 := p.phi21 + δ, phi23 := p.phi23 + δ, phi32 := p.phi32 + δ, phi34 := p.phi34 + δ,
           phi41 := p.phi41 + δ, phi43 := p.phi43 + δ, phi45 := p.phi45 + δ, phi52 := p.phi52 + δ, phi54 := p.phi54 + δ,
           phi56 := p.phi56 + δ }

/-- Rotating every azimuthal angle coefficient by δ is the same as evaluating at azimuth φ − δ. -/
theorem rotation_covariance (p : PolarCoeffs ℝ) (α φ δ : ℝ) : chi (rotate p δ) α φ = chi p α (φ - δ) := by
  have e : ∀ x y : ℝ, φ - (x + δ) = φ - δ - x := fun x y => by ring
  unfold chi chiTerm1 chiTerm2 chiTerm3 chiTerm4 chiTerm5 rotate
  simp only [e _ 0]

theorem rotation_covariance_transfer (p : PolarCoeffs ℝ) (α φ δ wavelength : ℝ) :
    transfer (rotate p δ) α φ wavelength = transfer p α (φ - δ) wavelength := by
  unfold transfer
  rw [guards_value_preserving, guards_value_preserving, rotation_covariance]

/-! ### defocus -/

/-- `defocus` is the negative of `C10` (getter of `_HasAberrations` and of `Aberrations`). -/
theorem defocus_neg_C10 (C10 : ℝ) : defocusOfC10 C10 = -C10 ∧ defocusOfC10Aberrations C10 = -C10 := ⟨rfl, rfl⟩

/-- setting the defocus stores `C10 = −value`, and reading it back returns the value -/
theorem defocus_roundtrip (v : ℝ) :
    c10OfDefocus v = -v ∧ c10OfDefocusAberrations v = -v ∧ defocusOfC10 (c10OfDefocus v) = v
      ∧ defocusOfC10Aberrations (c10OfDefocusAberrations v) = v := by
  unfold c10OfDefocus c10OfDefocusAberrations defocusOfC10 defocusOfC10Aberrations
  simp

/-! ### aliases and symbols -/

/-- The alias table maps the 25 alias names one-to-one onto the 25 polar symbols, which are exactly the fields of
`PolarCoeffs` (so `polar_symbols`, its inverse, is well defined and has the 25 symbols as keys). -/
theorem aliases_bijective_onto_symbols :
    (polarAliases.map (·.1)).Nodup ∧ (polarAliases.map (·.2)).Nodup ∧ (polarAliases.map (·.2)).Perm PolarCoeffs.fieldNames
      ∧ symbolKeys.Perm PolarCoeffs.fieldNames := by
  refine ⟨by decide, by decide, by decide, by decide⟩

/-- Change detector: the generated alias table equals this literal (the names of the abTEM documentation: defocus/Cs/C5,
astigmatism…, coma…, trefoil…, quadrafoil…, pentafoil, hexafoil with their `_angle` companions).  The *independent* statement of the
documented table lives in harness/c21.py (`ALIASES_DOC`) and is compared with the real `polar_aliases` on every run. -/
theorem alias_table_is_documented :
    polarAliases = [("defocus", "C10"), ("Cs", "C30"), ("C5", "C50"), ("astigmatism", "C12"), ("astigmatism_angle", "phi12"),
      ("astigmatism3", "C32"), ("astigmatism3_angle", "phi32"), ("astigmatism5", "C52"), ("astigmatism5_angle", "phi52"),
      ("coma", "C21"), ("coma_angle", "phi21"), ("coma4", "C41"), ("coma4_angle", "phi41"), ("trefoil", "C23"),
      ("trefoil_angle", "phi23"), ("trefoil4", "C43"), ("trefoil4_angle", "phi43"), ("quadrafoil", "C34"),
      ("quadrafoil_angle", "phi34"), ("quadrafoil5", "C54"), ("quadrafoil5_angle", "phi54"), ("pentafoil", "C45"),
      ("pentafoil_angle", "phi45"), ("hexafoil", "C56"), ("hexafoil_angle", "phi56")] := rfl

/-- no alias name is itself a symbol; an alias resolves to its symbol, a symbol to itself -/
theorem resolve_spec :
    (∀ kv ∈ polarAliases, resolve kv.1 = kv.2 ∧ symbolKeys.contains kv.2 = true)
      ∧ (∀ s ∈ symbolKeys, resolve s = s) := by
  constructor
  · decide
  · decide

/-- every guard only mentions symbols that exist -/
theorem guard_symbols_are_symbols : ∀ g ∈ guardSymbols, ∀ s ∈ g, s ∈ PolarCoeffs.fieldNames := by decide

section dict
variable {α : Type}

lemma lookup_replace_self (d : Dict α) (k : String) (v : α) (h : d.any (fun kv => kv.1 == k) = true) :
    (dictReplace d k v).lookup k = some v := by
  induction d with
  | nil => simp at h
  | cons x xs ih =>
    obtain ⟨a, b⟩ := x
    by_cases hab : a = k
    · subst hab; simp [dictReplace]
    · have h1 : (a == k) = false := beq_eq_false_iff_ne.mpr hab
      have h2 : (k == a) = false := beq_eq_false_iff_ne.mpr (Ne.symm hab)
      simp only [List.any_cons, h1, Bool.false_or] at h
      have := ih h
      simp only [dictReplace, List.map_cons, h1, Bool.false_eq_true, if_false, List.lookup, h2] at this ⊢
      exact this

lemma lookup_append_new (d : Dict α) (k : String) (v : α) (h : ¬ d.any (fun kv => kv.1 == k) = true) :
    (d ++ [(k, v)]).lookup k = some v := by
  induction d with
  | nil => simp
  | cons x xs ih =>
    obtain ⟨a, b⟩ := x
    have hab : ¬ a = k := by
      intro e; apply h; simp [List.any_cons, e]
    have h2 : (k == a) = false := beq_eq_false_iff_ne.mpr (Ne.symm hab)
    have hx : ¬ xs.any (fun kv => kv.1 == k) = true := by
      intro e; apply h; simp [List.any_cons, e]
    simp only [List.cons_append, List.lookup, h2]
    exact ih hx

lemma lookup_replace_other (d : Dict α) (k k' : String) (v : α) (hne : k' ≠ k) :
    (dictReplace d k v).lookup k' = d.lookup k' := by
  have hk : (k' == k) = false := beq_eq_false_iff_ne.mpr hne
  induction d with
  | nil => rfl
  | cons x xs ih =>
    obtain ⟨a, b⟩ := x
    by_cases hab : a = k
    · subst hab
      have : List.lookup k' (dictReplace xs a v) = List.lookup k' xs := ih
      simp only [dictReplace, List.map_cons, beq_self_eq_true, if_true, List.lookup, hk] at this ⊢
      exact this
    · have h1 : (a == k) = false := beq_eq_false_iff_ne.mpr hab
      have : List.lookup k' (dictReplace xs k v) = List.lookup k' xs := ih
      simp only [dictReplace, List.map_cons, h1, Bool.false_eq_true, if_false, List.lookup] at this ⊢
      rw [this]

lemma lookup_append_other (d : Dict α) (k k' : String) (v : α) (hne : k' ≠ k) :
    (d ++ [(k, v)]).lookup k' = d.lookup k' := by
  have hk : (k' == k) = false := beq_eq_false_iff_ne.mpr hne
  induction d with
  | nil => simp [List.lookup, hk]
  | cons x xs ih =>
    obtain ⟨a, b⟩ := x
    simp only [List.cons_append, List.lookup, ih]

lemma lookup_dictSet_self (d : Dict α) (k : String) (v : α) : (dictSet d k v).lookup k = some v := by
  unfold dictSet
  by_cases h : d.any (fun kv => kv.1 == k) = true
  · simp only [h, if_true]; exact lookup_replace_self d k v h
  · simp only [h]; exact lookup_append_new d k v h

lemma lookup_dictSet_other (d : Dict α) (k k' : String) (v : α) (hne : k' ≠ k) : (dictSet d k v).lookup k' = d.lookup k' := by
  unfold dictSet
  by_cases h : d.any (fun kv => kv.1 == k) = true
  · simp only [h, if_true]; exact lookup_replace_other d k k' v hne
  · simp only [h]; exact lookup_append_other d k k' v hne

lemma keys_dictSet_of_mem (d : Dict α) (k : String) (v : α) (h : k ∈ d.map (·.1)) : (dictSet d k v).map (·.1) = d.map (·.1) := by
  unfold dictSet
  have hany : d.any (fun kv => kv.1 == k) = true := by
    simp only [List.mem_map] at h
    obtain ⟨kv, hkv, rfl⟩ := h
    simp only [List.any_eq_true]
    exact ⟨kv, hkv, by simp⟩
  simp only [hany, if_true, dictReplace, List.map_map]
  apply List.map_congr_left
  intro kv _
  by_cases hx : kv.1 = k
  · simp [hx]
  · simp [hx]

end dict

/-- the dict states the theorems range over: exactly the 25 symbol keys in `polar_symbols` order (true initially, preserved by
every `setAttr`) -/
def WellKeyed {α : Type} (d : Dict α) : Prop := d.map (·.1) = symbolKeys

theorem init_wellKeyed {α : Type} (z : α) : WellKeyed (initDict z) := by
  unfold WellKeyed initDict
  simp [List.map_map, Function.comp_def]

theorem setAttr_wellKeyed {α : Type} (neg : α → α) (d d' : Dict α) (name : String) (v : α) (hd : WellKeyed d)
    (h : setAttr neg d name v = .ok d') : WellKeyed d' := by
  unfold setAttr at h
  unfold WellKeyed at *
  split at h
  · cases h; rw [keys_dictSet_of_mem _ _ _ (by rw [hd]; decide), hd]
  · simp only at h
    split at h
    · rename_i hc
      cases h
      rw [keys_dictSet_of_mem _ _ _ (by rw [hd]; simpa using hc), hd]
    · cases h

/-- Named aliases address the same coefficient: writing through an alias (other than `defocus`) or through its symbol gives the
same dict, and reading through either name returns the written value. -/
theorem aliases_address_same_coefficient {α : Type} (neg : α → α) (z : α) (d : Dict α) (v : α) :
    ∀ kv ∈ polarAliases, kv.1 ≠ "defocus" →
      setAttr neg d kv.1 v = .ok (dictSet d kv.2 v) ∧ setAttr neg d kv.2 v = .ok (dictSet d kv.2 v)
        ∧ getAttr neg z (dictSet d kv.2 v) kv.1 = .ok v ∧ getAttr neg z (dictSet d kv.2 v) kv.2 = .ok v := by
  intro kv hkv hne
  obtain ⟨hr, hc⟩ := resolve_spec.1 kv hkv
  have hs : kv.2 ∈ symbolKeys := by simpa using hc
  have hr2 : resolve kv.2 = kv.2 := resolve_spec.2 kv.2 hs
  have hne2 : kv.2 ≠ "defocus" := by
    intro h; rw [h] at hs; revert hs; decide
  have b1 : (kv.1 == "defocus") = false := by simpa using hne
  have b2 : (kv.2 == "defocus") = false := by simpa using hne2
  refine ⟨?_, ?_, ?_, ?_⟩
  · simp [setAttr, b1, hr, hs]
  · simp [setAttr, b2, hr2, hs]
  · simp [getAttr, b1, hr, hs, lookup_dictSet_self]
  · simp [getAttr, b2, hr2, hs, lookup_dictSet_self]

/-- `defocus` is the one special name: writing it stores `neg value` under `C10`; reading it back applies `neg` again. -/
theorem defocus_addresses_neg_C10 {α : Type} (neg : α → α) (z : α) (d : Dict α) (v : α) :
    setAttr neg d "defocus" v = .ok (dictSet d "C10" (neg v))
      ∧ getAttr neg z (dictSet d "C10" (neg v)) "C10" = .ok (neg v)
      ∧ getAttr neg z (dictSet d "C10" (neg v)) "defocus" = .ok (neg (neg v)) := by
  refine ⟨by simp [setAttr], ?_, ?_⟩
  · have hr : resolve "C10" = "C10" := by decide
    have hc : "C10" ∈ symbolKeys := by decide
    simp [getAttr, hr, hc, lookup_dictSet_self]
  · simp [getAttr, lookup_dictSet_self]

/-- with the generated getter/setter bodies: `obj.defocus = v; obj.defocus == v` and `obj.C10 == −v` -/
theorem defocus_set_get (d : Dict ℝ) (v : ℝ) :
    getAttr defocusOfC10 0 (dictSet d "C10" (c10OfDefocus v)) "defocus" = .ok v
      ∧ getAttr defocusOfC10 0 (dictSet d "C10" (c10OfDefocus v)) "C10" = .ok (-v) := by
  obtain ⟨_, h2, h3⟩ := defocus_addresses_neg_C10 c10OfDefocus (0 : ℝ) d v
  have hr : resolve "C10" = "C10" := by decide
  have hc : "C10" ∈ symbolKeys := by decide
  constructor
  · simp [getAttr, lookup_dictSet_self, defocusOfC10, c10OfDefocus]
  · simp [getAttr, hr, hc, lookup_dictSet_self, c10OfDefocus]

/-- writing one coefficient leaves every other symbol unchanged -/
theorem set_other_unchanged {α : Type} (neg : α → α) (z : α) (d : Dict α) (v : α) (s s' : String)
    (hs : s ∈ symbolKeys) (hs' : s' ∈ symbolKeys) (hne : s' ≠ s) :
    getAttr neg z (dictSet d s v) s' = getAttr neg z d s' := by
  have hd' : s' ≠ "defocus" := by
    intro h; rw [h] at hs'; revert hs'; decide
  have b : (s' == "defocus") = false := by simpa using hd'
  have hr : resolve s' = s' := resolve_spec.2 s' hs'
  simp [getAttr, b, hr, lookup_dictSet_other _ _ _ _ hne]

/-- `zip(polar_symbols, values)` pairs every symbol with its own value: for a well-keyed dict, `parameters d = d`, so the record
read by the chi terms holds, under each field name, the dict value of that symbol. -/
theorem parameters_eq {α : Type} (d : Dict α) (hd : WellKeyed d) : parameters d = d := by
  unfold parameters
  rw [← hd]
  clear hd
  induction d with
  | nil => rfl
  | cons x xs ih => simp [List.zip_cons_cons, ih]

/-! ### parameter-update histories (`set_aberrations`) -/

/-- the (symbol, stored value) addressed by one item of a history: `defocus` writes `neg v` under `C10`, any other name writes `v`
under the name it resolves to (a symbol, or — for a name that is neither alias nor symbol — itself, which is then an ordinary
attribute and no coefficient) -/
def target {α : Type} (neg : α → α) (kv : String × α) : String × α :=
  if kv.1 == "defocus" then ("C10", neg kv.2) else (resolve kv.1, kv.2)

/-- the last value a history addresses to symbol `s` (none if it never does) -/
def lastWrite {α : Type} (neg : α → α) (items : List (String × α)) (s : String) : Option α :=
  (items.reverse.map (target neg)).lookup s

theorem setAttrTotal_eq {α : Type} (neg : α → α) (d : Dict α) (kv : String × α) :
    setAttrTotal neg d kv.1 kv.2
      = if (target neg kv).1 ∈ symbolKeys then dictSet d (target neg kv).1 (target neg kv).2 else d := by
  unfold setAttrTotal setAttr target
  by_cases hd : (kv.1 == "defocus") = true
  · have : "C10" ∈ symbolKeys := by decide
    simp [hd, this]
  · by_cases hc : resolve kv.1 ∈ symbolKeys
    · simp [hd, hc]
    · simp [hd, hc]

/-- `set_aberrations` keeps the dict well keyed, whatever the history of updates. -/
theorem setAberrations_wellKeyed {α : Type} (neg : α → α) (items : List (String × α)) :
    ∀ d : Dict α, WellKeyed d → WellKeyed (setAberrations neg d items) := by
  induction items with
  | nil => intro d hd; exact hd
  | cons kv rest ih =>
    intro d hd
    simp only [setAberrations, List.foldl_cons]
    apply ih
    rw [setAttrTotal_eq]
    split
    · rename_i hm
      unfold WellKeyed at *
      rw [keys_dictSet_of_mem _ _ _ (by rw [hd]; exact hm), hd]
    · exact hd

/-- Updating an existing object: the value written for a coefficient — zero included, whatever was stored before — is the
value read back, through the alias and through the symbol. -/
theorem setAberrations_overwrites {α : Type} (neg : α → α) (z : α) (d : Dict α) (v : α) :
    ∀ kv ∈ polarAliases, kv.1 ≠ "defocus" →
      setAberrations neg d [(kv.1, v)] = dictSet d kv.2 v ∧ setAberrations neg d [(kv.2, v)] = dictSet d kv.2 v
        ∧ getAttr neg z (dictSet d kv.2 v) kv.2 = .ok v ∧ getAttr neg z (dictSet d kv.2 v) kv.1 = .ok v := by
  intro kv hkv hne
  obtain ⟨h1, h2, h3, h4⟩ := aliases_address_same_coefficient neg z d v kv hkv hne
  refine ⟨?_, ?_, h4, h3⟩
  · simp [setAberrations, setAttrTotal, h1]
  · simp [setAberrations, setAttrTotal, h2]

/-- a later update of the same coefficient replaces an earlier one (non-zero then zero, or any other pair) -/
theorem dictSet_dictSet {α : Type} (d : Dict α) (k : String) (v w : α) (z : α) :
    ((dictSet (dictSet d k v) k w).lookup k).getD z = w := by
  rw [lookup_dictSet_self]; rfl

/-- Whatever the history of updates (interleaved keys, aliases, `defocus`, zeros, names that are no aberrations): afterwards every
symbol holds the last value the history addressed to it, or its previous value if the history never addressed it. -/
theorem setAberrations_last_write_wins {α : Type} (neg : α → α) (z : α) (items : List (String × α)) :
    ∀ (d : Dict α) (s : String), s ∈ symbolKeys →
      ((setAberrations neg d items).lookup s).getD z = (lastWrite neg items s).getD ((d.lookup s).getD z) := by
  induction items with
  | nil => intro d s _; simp [setAberrations, lastWrite]
  | cons kv rest ih =>
    intro d s hs
    simp only [setAberrations, List.foldl_cons]
    have := ih (setAttrTotal neg d kv.1 kv.2) s hs
    simp only [setAberrations] at this
    rw [this]
    unfold lastWrite
    rw [List.reverse_cons, List.map_append, List.lookup_append]
    cases hl : List.lookup s (List.map (target neg) rest.reverse) with
    | some v => simp
    | none =>
      simp only [Option.none_or, List.map_cons, List.map_nil, Option.getD_none]
      rw [setAttrTotal_eq]
      by_cases hst : s = (target neg kv).1
      · have hm : (target neg kv).1 ∈ symbolKeys := hst ▸ hs
        simp only [hm, if_true]
        rw [hst, lookup_dictSet_self]
        simp [List.lookup]
      · have hb : (s == (target neg kv).1) = false := beq_eq_false_iff_ne.mpr hst
        split
        · rw [lookup_dictSet_other _ _ _ _ hst]; simp [List.lookup, hb]
        · simp [List.lookup, hb]

/-- a record built from a name-indexed function returns, under each field name, that function's value -/
theorem coeff_ofList {α : Type} (z : α) (g : String → α) :
    ∀ s ∈ PolarCoeffs.fieldNames, coeff z (PolarCoeffs.ofList z (PolarCoeffs.fieldNames.map g)) s = g s := by
  intro s hs
  simp only [PolarCoeffs.fieldNames, List.mem_cons, List.not_mem_nil, or_false] at hs
  rcases hs with rfl | rfl | rfl | rfl | rfl | rfl | rfl | rfl | rfl | rfl | rfl | rfl | rfl | rfl | rfl | rfl | rfl | rfl | rfl
    | rfl | rfl | rfl | rfl | rfl | rfl <;>
  simp [coeff, PolarCoeffs.ofList, PolarCoeffs.fieldNames, PolarCoeffs.toList, List.lookup]

/-- The record handed to the generated chi terms holds, under every symbol, the value stored in the coefficient dict under that
symbol (for every dict reachable from the initial one): `parameters["C12"]` in the source is `_aberration_coefficients["C12"]`. -/
theorem toCoeffs_reads_dict {α : Type} (z : α) (d : Dict α) (hd : WellKeyed d) :
    ∀ s ∈ PolarCoeffs.fieldNames, coeff z (toCoeffs z d) s = (d.lookup s).getD z := by
  intro s hs
  unfold toCoeffs
  rw [coeff_ofList z _ s hs, parameters_eq d hd]

/-! ### non-vacuity -/
example : setAttr (fun x : Int => -x) (initDict 0) "Cs" 7 = .ok (dictSet (initDict 0) "C30" 7) :=
  (aliases_address_same_coefficient (fun x : Int => -x) 0 (initDict 0) 7 ("Cs", "C30") (by decide) (by decide)).1
example : WellKeyed (initDict (0 : ℝ)) := init_wellKeyed 0

end AbtemVerif.Props.C21
