/-
C17 — Simulation grids stay consistent through any history of edits.

Statements are about `AbtemVerif.Grid.step / run / init` (Model/Grid.lean), whose per-dimension arithmetic is
the *generated* `Gen/Grid.lean` (regenerated from `abtem/core/grid.py` on every run): the bridge theorems
`adjustExtentElt_spec … reciprocalElt_spec` (Lib/GridInv.lean) pin the generated text to the formulas of the
property, the remaining theorems are proved from those.

Guards (made explicit, probed on the real code): assigned extents and samplings are `> 0`, assigned gpts are
`≥ 1` (`≥ 2` in a dimension with `endpoint`) — the code itself checks none of these.  `lock_sampling`
(not used by abTEM itself) is covered for consistency only when the sampling is defined; what the locks fail to
protect is recorded by the `…_counterexample` theorems below (known findings, DESIGN §7 F8).
-/
import AbtemVerif.Lib.GridInv

namespace AbtemVerif.Props.C17
open AbtemVerif.Grid AbtemVerif.Py AbtemVerif.Gen.Grid

/-! ### property theorems -/

/-- An admissible assignment (values `> 0`, gpts `≥ 1`, `≥ 2` with endpoint; `None` allowed) to a consistent
grid leaves it consistent — whether the assignment succeeds or raises, for every lock combination, every number of
dimensions and every endpoint tuple. -/
theorem consistent_preserved (g : Grid) (op : Op) (hI : Inv g) (hv : ValidOp g.endpoint op) : Inv (step g op).1 := by
  cases op with
  | setExtent v =>
    simp only [step, setExtent]
    split
    next hnone =>
      split
      · exact hI
      · refine inv_partial _ hI.ep (Or.inl rfl) ?_ ?_ ?_
        · intro rs h; cases h
        · intro ns h; exact ⟨hI.gpLen ns h, hI.gpGood ns h⟩
        · intro ds h; exact ⟨hI.saLen ds h, hI.saPos ds h⟩
    next hnone =>
      split
      · exact hI
      · exact hI
      · split
        · exact hI
        next ve hve =>
          split
          · exact hI
          · rcases ve with _ | rs
            · exact absurd (validate_none hve) hnone
            · obtain ⟨hl, hp⟩ := validate_pos hve hv
              exact setExtentCore_inv g rs hI hl hp
  | setGpts v =>
    simp only [step, setGpts]
    split
    · exact hI
    · split
      · exact hI
      next vg hvg =>
        rcases vg with _ | ns
        · exact setGptsCore_none_inv g hI
        · obtain ⟨hl, hg⟩ := validateGpts_good hvg hv
          exact setGptsCore_inv g ns hI hl hg
  | setSampling v =>
    simp only [step, setSampling]
    split
    · exact hI
    next hls =>
      split
      · exact hI
      next vs hvs =>
        rcases vs with _ | ds
        · exact setSamplingCore_none_inv g hI
        · obtain ⟨hl, hp⟩ := validate_pos hvs hv
          exact setSamplingCore_inv g ds hI hl hp

/-- **Consistency in the terms of the property**: in a grid satisfying the invariant with extent and gpts
defined, the sampling is defined and `extent = gpts × sampling` (`(gpts − 1) × sampling` with endpoint) holds in
every dimension; and the reciprocal-space sampling of a dimension is `1 / (gpts × sampling)`, which is
`1 / extent` without endpoint. -/
theorem inv_means_consistent (g : Grid) (hI : Inv g) (rs : List Rat) (ns : List Int)
    (he : g.extent = some rs) (hg : g.gpts = some ns) :
    ∃ ds, g.sampling = some ds ∧ ds.length = g.dims ∧
      ∀ (i : Nat) r n d e, rs[i]? = some r → ns[i]? = some n → ds[i]? = some d → g.endpoint[i]? = some e →
        (r = if e then ((n : Rat) - 1) * d else (n : Rat) * d) ∧ 0 < d ∧ 0 < r ∧ reciprocalElt n d = 1 / ((n : Rat) * d) ∧
        (e = false → reciprocalElt n d = 1 / r) := by
  obtain ⟨ds, hs, hc⟩ := hI.cons rs ns he hg
  refine ⟨ds, hs, hI.saLen ds hs, ?_⟩
  intro i r n d e hr hn hd hep
  have h1 := hc i r n d e hr hn hd hep
  rw [adjustExtentElt_spec] at h1
  refine ⟨h1, hI.saPos ds hs d (mem_of_getElem? hd), hI.extPos rs he r (mem_of_getElem? hr), reciprocalElt_spec n d, ?_⟩
  intro hef
  subst hef
  rw [reciprocalElt_spec, h1]; simp

/-- dims, endpoint and the lock flags are never changed by an assignment -/
theorem step_frame (g : Grid) (op : Op) :
    (step g op).1.dims = g.dims ∧ (step g op).1.endpoint = g.endpoint ∧ (step g op).1.lockExtent = g.lockExtent ∧
      (step g op).1.lockGpts = g.lockGpts ∧ (step g op).1.lockSampling = g.lockSampling := by
  have hb : ∀ (g0 : Grid) (r : Res) (f : Grid → Res),
      (r.1.dims = g0.dims ∧ r.1.endpoint = g0.endpoint ∧ r.1.lockExtent = g0.lockExtent ∧ r.1.lockGpts = g0.lockGpts ∧ r.1.lockSampling = g0.lockSampling) →
      (∀ g1, (f g1).1.dims = g1.dims ∧ (f g1).1.endpoint = g1.endpoint ∧ (f g1).1.lockExtent = g1.lockExtent ∧ (f g1).1.lockGpts = g1.lockGpts ∧ (f g1).1.lockSampling = g1.lockSampling) →
      ((r.bind f).1.dims = g0.dims ∧ (r.bind f).1.endpoint = g0.endpoint ∧ (r.bind f).1.lockExtent = g0.lockExtent ∧ (r.bind f).1.lockGpts = g0.lockGpts ∧ (r.bind f).1.lockSampling = g0.lockSampling) := by
    intro g0 r f h1 h2
    rcases r with ⟨g1, _ | e⟩
    · simp only [Res.bind]
      obtain ⟨a1, a2, a3, a4, a5⟩ := h2 g1
      obtain ⟨b1, b2, b3, b4, b5⟩ := h1
      exact ⟨a1.trans b1, a2.trans b2, a3.trans b3, a4.trans b4, a5.trans b5⟩
    · simpa only [Res.bind] using h1
  have hE : ∀ g a b, (adjustExtent g a b).1.dims = g.dims ∧ (adjustExtent g a b).1.endpoint = g.endpoint ∧ (adjustExtent g a b).1.lockExtent = g.lockExtent ∧ (adjustExtent g a b).1.lockGpts = g.lockGpts ∧ (adjustExtent g a b).1.lockSampling = g.lockSampling := by
    intro g a b; unfold adjustExtent; split
    · simp only []; split <;> simp
    · simp
  have hG : ∀ g a b, (adjustGpts g a b).1.dims = g.dims ∧ (adjustGpts g a b).1.endpoint = g.endpoint ∧ (adjustGpts g a b).1.lockExtent = g.lockExtent ∧ (adjustGpts g a b).1.lockGpts = g.lockGpts ∧ (adjustGpts g a b).1.lockSampling = g.lockSampling := by
    intro g a b; unfold adjustGpts; split
    · split <;> simp
    · simp
  have hS : ∀ g a b, (adjustSampling g a b).1.dims = g.dims ∧ (adjustSampling g a b).1.endpoint = g.endpoint ∧ (adjustSampling g a b).1.lockExtent = g.lockExtent ∧ (adjustSampling g a b).1.lockGpts = g.lockGpts ∧ (adjustSampling g a b).1.lockSampling = g.lockSampling := by
    intro g a b; unfold adjustSampling; split
    · simp only []; split <;> simp
    · simp
  cases op with
  | setExtent v =>
    simp only [step, setExtent]
    split
    · split <;> simp
    · split
      · simp
      · simp
      · split
        · simp
        · split
          · simp
          · unfold setExtentCore
            apply hb
            · split
              · split
                · simp
                · apply hb _ _ _ (hG _ _ _); intro g1; exact hS _ _ _
              · exact hS _ _ _
            · intro g2; simp
  | setGpts v =>
    simp only [step, setGpts]
    split
    · simp
    · split
      · simp
      · unfold setGptsCore
        apply hb
        · split
          · split
            · simp
            · exact hE _ _ _
          · split
            · exact hS _ _ _
            · exact hE _ _ _
        · intro g1; simp
  | setSampling v =>
    simp only [step, setSampling]
    split
    · simp
    · split
      · simp
      · unfold setSamplingCore
        apply hb
        · split
          · split
            · simp
            · exact hE _ _ _
          · split
            · exact hG _ _ _
            · exact hE _ _ _
        · intro g1; split
          · simp
          · exact hS _ _ _

/-- **Histories**: after any sequence of admissible assignments (exceptions caught by the caller) the grid
satisfies the invariant — by induction over the list of operations. -/
theorem history_consistent (ops : List Op) : ∀ (g : Grid), Inv g → (∀ op ∈ ops, ValidOp g.endpoint op) → Inv (run g ops) := by
  induction ops with
  | nil => intro g hI _; exact hI
  | cons op ops ih =>
    intro g hI hv
    have h1 := consistent_preserved g op hI (hv op (by simp))
    have hep := (step_frame g op).2.1
    have := ih (step g op).1 h1 (by intro o ho; rw [hep]; exact hv o (by simp [ho]))
    simpa [run] using this

/-! ### an assignment that raises leaves the grid unchanged -/

/-- well-formedness: every defined quantity has one entry per dimension (no positivity assumed) -/
structure WF (g : Grid) : Prop where
  ep : g.endpoint.length = g.dims
  extLen : ∀ rs, g.extent = some rs → rs.length = g.dims
  gpLen : ∀ ns, g.gpts = some ns → ns.length = g.dims
  saLen : ∀ ds, g.sampling = some ds → ds.length = g.dims

lemma Inv.wf {g : Grid} (h : Inv g) : WF g := ⟨h.ep, h.extLen, h.gpLen, h.saLen⟩

lemma setExtentCore_err (g : Grid) (rs : List Rat) (e : String) (hW : WF g) (hl : rs.length = g.dims)
    (h : (setExtentCore g (some rs)).2 = some e) : (setExtentCore g (some rs)).1 = g := by
  -- gpts recomputed from the sampling `ds` (no double lock): only the ZeroDivisionError can occur, before any mutation
  have alpha : ∀ ds, g.sampling = some ds → (g.lockSampling || g.gpts.isNone) = true →
      (g.lockGpts && g.gpts.isSome) = false → (setExtentCore g (some rs)).1 = g := by
    intro ds hs hc hdl
    have hdl' : (g.lockGpts && g.gpts.isSome && true) = false := by simpa using hdl
    have hsl := hW.saLen ds hs
    have hGl := zipWith3_length adjustGptsElt g.dims rs ds g.endpoint hl hsl hW.ep
    have hSl := zipWith3_length adjustSamplingElt g.dims rs (zipWith3 adjustGptsElt rs ds g.endpoint) g.endpoint hl hGl hW.ep
    by_cases hz : ((rs.zip ds).zip g.endpoint).any (fun x => decide (x.1.2 = 0)) = true
    · simp [setExtentCore, hc, hs, hdl', adjustGpts, hz, Res.bind]
    · simp [setExtentCore, hc, hs, hdl', adjustGpts, hz, adjustSampling, hSl, Res.bind] at h
  rcases hg : g.gpts with _ | ns
  · rcases hs : g.sampling with _ | ds
    · simp [setExtentCore, hs, hg, adjustGpts, adjustSampling, Res.bind] at h
    · exact alpha ds hs (by simp [hg]) (by simp [hg])
  · have hSl := zipWith3_length adjustSamplingElt g.dims rs ns g.endpoint hl (hW.gpLen ns hg) hW.ep
    rcases hls : g.lockSampling with _ | _
    · simp [setExtentCore, hg, hls, adjustSampling, hSl, Res.bind] at h
    · rcases hs : g.sampling with _ | ds
      · simp [setExtentCore, hg, hls, hs, adjustGpts, adjustSampling, hSl, Res.bind] at h
      · rcases hlg : g.lockGpts with _ | _
        · exact alpha ds hs (by simp [hls]) (by simp [hlg])
        · simp [setExtentCore, hg, hls, hs, hlg, Res.bind]

lemma setGptsCore_err (g : Grid) (vg : Option (List Int)) (e : String) (hW : WF g) (hl : ∀ ns, vg = some ns → ns.length = g.dims)
    (h : (setGptsCore g vg).2 = some e) : (setGptsCore g vg).1 = g := by
  -- the only exception is the double-lock RuntimeError, raised before any mutation
  by_cases hr : (g.lockSampling && g.sampling.isSome) = true ∧ (g.lockExtent && g.extent.isSome) = true
  · simp [setGptsCore, hr.1, hr.2, Res.bind]
  · exfalso
    rcases vg with _ | ns
    · rcases he : g.extent with _ | rs <;> rcases hls : g.lockSampling with _ | _ <;> rcases hs : g.sampling with _ | ds <;>
        rcases hle : g.lockExtent with _ | _ <;>
        simp_all [setGptsCore, adjustExtent, adjustSampling, Res.bind]
    · have hnl := hl ns rfl
      rcases hs : g.sampling with _ | ds
      · rcases he : g.extent with _ | rs
        · rcases hls : g.lockSampling with _ | _ <;> simp [setGptsCore, he, hls, hs, adjustExtent, Res.bind] at h
        · have hSl := zipWith3_length adjustSamplingElt g.dims rs ns g.endpoint (hW.extLen rs he) hnl hW.ep
          rcases hls : g.lockSampling with _ | _ <;>
            simp [setGptsCore, he, hls, hs, adjustExtent, adjustSampling, hSl, Res.bind] at h
      · have hEl := zipWith3_length adjustExtentElt g.dims ns ds g.endpoint hnl (hW.saLen ds hs) hW.ep
        rcases he : g.extent with _ | rs
        · rcases hls : g.lockSampling with _ | _ <;> simp [setGptsCore, he, hls, hs, adjustExtent, hEl, Res.bind] at h
        · have hSl := zipWith3_length adjustSamplingElt g.dims rs ns g.endpoint (hW.extLen rs he) hnl hW.ep
          rcases hls : g.lockSampling with _ | _
          · simp [setGptsCore, he, hls, hs, adjustExtent, adjustSampling, hEl, hSl, Res.bind] at h
          · rcases hle : g.lockExtent with _ | _
            · simp [setGptsCore, he, hls, hs, hle, adjustExtent, adjustSampling, hEl, hSl, Res.bind] at h
            · exact hr ⟨by simp [hls, hs], by simp [hle, he]⟩

lemma setSamplingCore_err (g : Grid) (vs : Option (List Rat)) (e : String) (hW : WF g) (hl : ∀ ds, vs = some ds → ds.length = g.dims)
    (h : (setSamplingCore g vs).2 = some e) : (setSamplingCore g vs).1 = g := by
  by_cases hr : g.lockGpts = true ∧ (g.lockExtent && g.extent.isSome && g.gpts.isSome) = true
  · simp [setSamplingCore, hr.1, hr.2, Res.bind]
  · have hnr : ∀ (a : Res), (if g.lockGpts then (if g.lockExtent && g.extent.isSome && g.gpts.isSome then (g, some "runtime_error") else a)
        else a) = a := by
      intro a
      rcases hlg : g.lockGpts with _ | _
      · simp
      · rcases hx : (g.lockExtent && g.extent.isSome && g.gpts.isSome) with _ | _
        · simp
        · exact absurd ⟨hlg, hx⟩ hr
    rcases vs with _ | ds
    · exfalso
      have r0 : (if g.lockGpts then (if g.lockExtent && g.extent.isSome && g.gpts.isSome then (g, some "runtime_error") else adjustExtent g g.gpts none)
          else if g.extent.isSome then adjustGpts g g.extent none else adjustExtent g g.gpts none) = (g, none) := by
        rcases hg : g.gpts with _ | ns <;> rcases he : g.extent with _ | rs <;> rcases hlg : g.lockGpts with _ | _ <;>
          rcases hle : g.lockExtent with _ | _ <;> simp_all [adjustExtent, adjustGpts]
      simp only [setSamplingCore, r0, Res.bind] at h
      rcases he : g.extent with _ | rs
      · simp [he] at h
      · rcases hg : g.gpts with _ | ns
        · simp [hg] at h
        · have hSl := zipWith3_length adjustSamplingElt g.dims rs ns g.endpoint (hW.extLen rs he) (hW.gpLen ns hg) hW.ep
          simp [he, hg, adjustSampling, hSl] at h
    · have hdl := hl ds rfl
      have caseA : (g.lockGpts = true ∨ g.extent = none) → (setSamplingCore g (some ds)).1 = g := by
        intro hc
        exfalso
        rcases hg : g.gpts with _ | ns
        · rcases hlg : g.lockGpts with _ | _ <;> rcases he : g.extent with _ | rs <;> rcases hle : g.lockExtent with _ | _ <;>
            simp_all [setSamplingCore, adjustExtent, Res.bind]
        · have hnl := hW.gpLen ns hg
          have hEl := zipWith3_length adjustExtentElt g.dims ns ds g.endpoint hnl hdl hW.ep
          have hSl := zipWith3_length adjustSamplingElt g.dims (zipWith3 adjustExtentElt ns ds g.endpoint) ns g.endpoint hEl hnl hW.ep
          rcases hlg : g.lockGpts with _ | _
          · rcases hc with hc | hc
            · rw [hlg] at hc; cases hc
            · simp [setSamplingCore, hc, hlg, hg, adjustExtent, adjustSampling, hEl, hSl, Res.bind] at h
          · have hx : ¬ (g.lockExtent = true ∧ g.extent.isSome = true) := by
              intro ⟨a, b⟩; exact hr ⟨hlg, by simp [a, b, hg]⟩
            simp [setSamplingCore, hlg, hx, hg, adjustExtent, adjustSampling, hEl, hSl, Res.bind] at h
      rcases hlg : g.lockGpts with _ | _
      · rcases he : g.extent with _ | rs
        · exact caseA (Or.inr he)
        · have hrl := hW.extLen rs he
          have hGl := zipWith3_length adjustGptsElt g.dims rs ds g.endpoint hrl hdl hW.ep
          have hSl := zipWith3_length adjustSamplingElt g.dims rs (zipWith3 adjustGptsElt rs ds g.endpoint) g.endpoint hrl hGl hW.ep
          by_cases hz : ((rs.zip ds).zip g.endpoint).any (fun x => decide (x.1.2 = 0)) = true
          · simp [setSamplingCore, hlg, he, adjustGpts, hz, Res.bind]
          · simp [setSamplingCore, hlg, he, adjustGpts, hz, adjustSampling, hSl, Res.bind] at h
      · exact caseA (Or.inl hlg)

lemma validate_len {k : Nat} {v : Val} {l : List Rat} (h : validate k v = .ok (some l)) : l.length = k := by
  cases v with
  | none => simp [validate] at h
  | scalar x => simp only [validate, Except.ok.injEq, Option.some.injEq] at h; subst h; simp
  | seq xs =>
    simp only [validate] at h
    split at h
    · cases h
    · simp only [Except.ok.injEq, Option.some.injEq] at h; subst h; omega

/-- **An assignment either raises and leaves the grid exactly as it was, or succeeds** — for arbitrary values
(zero, negative, wrong lengths, `None` …), every lock combination and every well-formed grid.  (The raising paths
are: a lock, two locks that determine the third quantity, `_validate`, the gpts check, the broadcasting error of `allclose`,
and the `ZeroDivisionError` of `_adjust_gpts`, all of which come before the first mutation.) -/
theorem error_leaves_unchanged (g : Grid) (op : Op) (e : String) (hW : WF g) (h : (step g op).2 = some e) :
    (step g op).1 = g := by
  cases op with
  | setExtent v =>
    simp only [step, setExtent] at h ⊢
    by_cases hnone : v = Val.none
    · simp only [hnone, if_true] at h ⊢
      split
      · rfl
      · rename_i hl; simp [hl] at h
    · simp only [hnone, if_false] at h ⊢
      rcases hq : extentLockFails g v with e' | b
      · simp [hq]
      · cases b
        · simp only [hq] at h ⊢
          rcases hv : validate g.dims v with e' | ve
          · simp [hv]
          · simp only [hv] at h ⊢
            by_cases hk : (g.lockExtent && g.extent.isSome) = true
            · simp [hk]
            · simp only [hk, Bool.false_eq_true, if_false] at h ⊢
              rcases ve with _ | rs
              · exact absurd (validate_none hv) hnone
              · exact setExtentCore_err g rs e hW (validate_len hv) h
        · simp [hq]
  | setGpts v =>
    simp only [step, setGpts] at h ⊢
    by_cases hl : g.lockGpts = true
    · simp [hl]
    · simp only [hl] at h ⊢
      rcases hv : validateGpts g.dims v g.extent with e' | vg
      · simp [hv]
      · simp only [hv] at h ⊢
        refine setGptsCore_err g _ e hW ?_ h
        intro ns hns
        subst hns
        exact validateGpts_len hv
  | setSampling v =>
    simp only [step, setSampling] at h ⊢
    by_cases hl : g.lockSampling = true
    · simp [hl]
    · simp only [hl] at h ⊢
      rcases hv : validate g.dims v with e' | vs
      · simp [hv]
      · simp only [hv] at h ⊢
        refine setSamplingCore_err g _ e hW ?_ h
        intro ds hds
        subst hds
        exact validate_len hv

/-! ### the constructor establishes the invariant -/

lemma validate_ne_none {k : Nat} {v : Val} {l : List Rat} (h : validate k v = .ok (some l)) : v ≠ Val.none := by
  rintro rfl; simp [validate] at h

/-- A grid constructed from admissible arguments (any subset of extent / gpts / sampling, scalars or sequences)
satisfies the invariant. -/
theorem init_consistent (dims : Nat) (ep : List Bool) (extent gpts sampling : Val) (lE lG lS : Bool) (g : Grid)
    (hep : ep.length = dims) (hE : PosVal extent) (hG : GoodVal ep gpts) (hS : PosVal sampling)
    (h : init dims ep extent gpts sampling lE lG lS = .ok g) : Inv g := by
  rcases hve : validate dims extent with e1 | eo
  · simp [init, hve] at h
  have hj : (validate dims extent).toOption.join = eo := by rw [hve]; rfl
  unfold init at h
  rw [hj] at h
  rcases hvg : validateGpts dims gpts eo with e1 | go
  · simp [hve, hvg] at h
  rcases hvs : validate dims sampling with e1 | so
  · simp [hve, hvg, hvs] at h
  rcases eo with _ | rs <;> rcases go with _ | nl <;> rcases so with _ | ds
  · -- nothing given
    have h1 := validate_none hve; have h2 := validateGpts_none hvg; have h3 := validate_none hvs
    subst h1 h2 h3
    simp only [hve, hvg, hvs] at h
    simp [adjustExtent, adjustGpts, adjustSampling, Res.bind] at h
    subst h
    refine inv_partial _ hep (Or.inl rfl) ?_ ?_ ?_
    · intro x hx; cases hx
    · intro x hx; cases hx
    · intro x hx; cases hx
  · -- sampling only
    have h1 := validate_none hve; have h2 := validateGpts_none hvg
    subst h1 h2
    obtain ⟨hl, hp⟩ := validate_pos hvs hS
    simp only [hve, hvg, hvs] at h
    simp [validate_ne_none hvs, adjustExtent, adjustGpts, Res.bind] at h
    subst h
    refine inv_partial _ hep (Or.inl rfl) ?_ ?_ ?_
    · intro x hx; cases hx
    · intro x hx; cases hx
    · intro x hx; cases hx; exact ⟨hl, hp⟩
  · -- gpts only
    have h1 := validate_none hve; have h3 := validate_none hvs
    subst h1 h3
    obtain ⟨hl, hg⟩ := validateGpts_good hvg hG
    simp only [hve, hvg, hvs] at h
    simp [adjustExtent, adjustSampling, Res.bind] at h
    subst h
    refine inv_partial _ hep (Or.inl rfl) ?_ ?_ ?_
    · intro x hx; cases hx
    · intro x hx; cases hx; exact ⟨hl, hg⟩
    · intro x hx; cases hx
  · -- gpts and sampling: extent := gpts × sampling
    have h1 := validate_none hve
    subst h1
    obtain ⟨hl, hg⟩ := validateGpts_good hvg hG
    obtain ⟨hdl, hp⟩ := validate_pos hvs hS
    have hnl : nl.length = dims := hl
    have hEl := zipWith3_length adjustExtentElt dims nl ds ep hnl hdl hep
    simp only [hve, hvg, hvs] at h
    simp [validate_ne_none hvs, adjustExtent, hEl, Res.bind] at h
    subst h
    exact inv_extent_computed _ nl ds hep hnl hdl hp hg rfl rfl rfl
  · -- extent only
    have h2 := validateGpts_none hvg; have h3 := validate_none hvs
    subst h2 h3
    obtain ⟨hl, hp⟩ := validate_pos hve hE
    simp only [hve, hvg, hvs] at h
    simp [adjustGpts, adjustSampling, Res.bind] at h
    subst h
    refine inv_partial _ hep (Or.inr rfl) ?_ ?_ ?_
    · intro x hx; cases hx; exact ⟨hl, hp⟩
    · intro x hx; cases hx
    · intro x hx; cases hx
  · -- extent and sampling: gpts := ceil(extent / sampling), then the sampling is recomputed
    have h2 := validateGpts_none hvg
    subst h2
    obtain ⟨hl, hp⟩ := validate_pos hve hE
    obtain ⟨hdl, hdp⟩ := validate_pos hvs hS
    have hGl := zipWith3_length adjustGptsElt dims rs ds ep hl hdl hep
    have hSl := zipWith3_length adjustSamplingElt dims rs (zipWith3 adjustGptsElt rs ds ep) ep hl hGl hep
    simp only [hve, hvg, hvs] at h
    simp [validate_ne_none hve, adjustGpts, no_zero_of_pos rs ds ep hdp, adjustSampling, hSl, Res.bind] at h
    subst h
    exact inv_sampling_recomputed _ rs _ hep hl hGl hp (goodL_adjustGpts rs ds ep hp hdp) rfl rfl rfl
  · -- extent and gpts: sampling := extent / gpts
    have h3 := validate_none hvs
    subst h3
    obtain ⟨hl, hp⟩ := validate_pos hve hE
    obtain ⟨hnl0, hg⟩ := validateGpts_good hvg hG
    have hnl : nl.length = dims := hnl0
    have hSl := zipWith3_length adjustSamplingElt dims rs nl ep hl hnl hep
    simp only [hve, hvg, hvs] at h
    simp [adjustSampling, hSl, Res.bind] at h
    subst h
    exact inv_sampling_recomputed _ rs _ hep hl hnl hp hg rfl rfl rfl
  · -- all three: the given sampling is overwritten by extent / gpts ("overspecified grid")
    obtain ⟨hl, hp⟩ := validate_pos hve hE
    obtain ⟨hnl0, hg⟩ := validateGpts_good hvg hG
    have hnl : nl.length = dims := hnl0
    have hSl := zipWith3_length adjustSamplingElt dims rs nl ep hl hnl hep
    simp only [hve, hvg, hvs] at h
    simp [validate_ne_none hve, adjustSampling, hSl, Res.bind] at h
    subst h
    exact inv_sampling_recomputed _ rs _ hep hl hnl hp hg rfl rfl rfl

/-! ### locks -/

lemma adjustExtent_gpts (g : Grid) (a : Option (List Int)) (b : Option (List Rat)) : (adjustExtent g a b).1.gpts = g.gpts := by
  unfold adjustExtent; split
  · simp only []; split <;> rfl
  · rfl

lemma adjustSampling_gpts (g : Grid) (a : Option (List Rat)) (b : Option (List Int)) : (adjustSampling g a b).1.gpts = g.gpts := by
  unfold adjustSampling; split
  · simp only []; split <;> rfl
  · rfl

lemma adjustSampling_extent (g : Grid) (a : Option (List Rat)) (b : Option (List Int)) : (adjustSampling g a b).1.extent = g.extent := by
  unfold adjustSampling; split
  · simp only []; split <;> rfl
  · rfl

lemma adjustGpts_extent (g : Grid) (a b : Option (List Rat)) : (adjustGpts g a b).1.extent = g.extent := by
  unfold adjustGpts; split
  · split <;> rfl
  · rfl

lemma bind_proj {α} (proj : Grid → α) (r : Res) (f : Grid → Res) (hf : ∀ g1, proj (f g1).1 = proj g1) :
    proj (r.bind f).1 = proj r.1 := by
  rcases r with ⟨g1, _ | e⟩ <;> simp [Res.bind, hf]

lemma adjustGpts_gpts_none (g : Grid) (a : Option (List Rat)) : adjustGpts g a none = (g, none) := by
  cases a <;> rfl

lemma adjustExtent_none (g : Grid) (b : Option (List Rat)) : adjustExtent g none b = (g, none) := by
  cases b <;> rfl

/-- **`lock_gpts`** (the lock abTEM uses for wave-function arrays): defined, locked gpts are never changed by an
assignment — successful or not, admissible values or not, whatever the other locks (an extent assignment under
`lock_gpts` + `lock_sampling` raises since the repair of the double locks). -/
theorem lock_gpts_protects (g : Grid) (op : Op) (hl : g.lockGpts = true) (hg : g.gpts.isSome = true) :
    (step g op).1.gpts = g.gpts := by
  have hgn : g.gpts.isNone = false := by
    rcases h : g.gpts with _ | ns
    · simp [h] at hg
    · rfl
  cases op with
  | setExtent v =>
    simp only [step, setExtent]
    split
    · split <;> rfl
    · split
      · rfl
      · rfl
      · split
        · rfl
        · split
          · rfl
          · simp only [setExtentCore, hgn, Bool.or_false, hl, hg, Bool.true_and]
            rw [bind_proj (fun g => g.gpts) _ _ (by intro g1; rfl)]
            rcases hls : g.lockSampling with _ | _
            · simp only [Bool.false_eq_true, if_false]; exact adjustSampling_gpts _ _ _
            · simp only [if_true]
              rcases hs : g.sampling with _ | ds
              · simp only [Option.isSome_none, Bool.false_eq_true, if_false, adjustGpts_gpts_none, Res.bind]
                exact adjustSampling_gpts _ _ _
              · simp
  | setGpts v => simp [step, setGpts, hl]
  | setSampling v =>
    simp only [step, setSampling]
    split
    · rfl
    · split
      · rfl
      · simp only [setSamplingCore, hl, if_true]
        rw [bind_proj (fun g => g.gpts) _ _ (by
          intro g1; split
          · rfl
          · exact adjustSampling_gpts _ _ _)]
        split
        · rfl
        · exact adjustExtent_gpts _ _ _

/-- **`lock_gpts` over histories**: no sequence of assignments (any values, exceptions caught) changes locked, defined gpts -/
theorem lock_gpts_protects_history (ops : List Op) : ∀ (g : Grid), g.lockGpts = true →
    g.gpts.isSome = true → (run g ops).gpts = g.gpts := by
  induction ops with
  | nil => intro g _ _; rfl
  | cons op ops ih =>
    intro g hl hg
    have h1 := lock_gpts_protects g op hl hg
    have hf := step_frame g op
    have := ih (step g op).1 (by rw [hf.2.2.2.1]; exact hl) (by rw [h1]; exact hg)
    simp only [run, List.foldl_cons] at this ⊢
    rw [this, h1]

/-- **`lock_extent`** (the lock abTEM uses for potentials): a defined, locked extent is never changed by an assignment —
whatever the other locks and the values.  An extent that `numpy.allclose` accepts as equal leaves the grid as it is
(repaired: it used to REPLACE the locked extent, which then drifted without bound over a history), `None` and any other
extent raise, and assignments to gpts / sampling re-derive the remaining quantity or raise when that is locked too. -/
theorem lock_extent_protects (g : Grid) (op : Op) (rs : List Rat) (hl : g.lockExtent = true) (he : g.extent = some rs) :
    (step g op).1.extent = some rs := by
  have hes : g.extent.isSome = true := by rw [he]; rfl
  cases op with
  | setExtent v =>
    simp only [step, setExtent, hl, hes, Bool.and_self, if_true]
    split
    · exact he
    · split
      · exact he
      · exact he
      · split <;> exact he
  | setGpts v =>
    simp only [step, setGpts]
    split
    · exact he
    · split
      · exact he
      · simp only [setGptsCore, hl, hes, Bool.and_self, if_true]
        rw [bind_proj (fun g => g.extent) _ _ (by intro g1; rfl)]
        split
        · exact he
        · rw [adjustSampling_extent]; exact he
  | setSampling v =>
    simp only [step, setSampling]
    split
    · exact he
    · split
      · exact he
      · simp only [setSamplingCore, hl, hes, Bool.true_and, if_true]
        rw [bind_proj (fun g => g.extent) _ _ (by
          intro g1; split
          · rfl
          · exact adjustSampling_extent _ _ _)]
        split
        · split
          · exact he
          · rename_i hgp
            have : g.gpts = none := by
              rcases h : g.gpts with _ | ns
              · rfl
              · simp [h] at hgp
            rw [this, adjustExtent_none]; exact he
        · rw [adjustGpts_extent]; exact he

/-- **`lock_extent` over histories**: the locked extent at the end of any history is the one at its start (no drift) -/
theorem lock_extent_protects_history (ops : List Op) : ∀ (g : Grid) (rs : List Rat), g.lockExtent = true →
    g.extent = some rs → (run g ops).extent = some rs := by
  induction ops with
  | nil => intro g rs _ he; exact he
  | cons op ops ih =>
    intro g rs hl he
    have h1 := lock_extent_protects g op rs hl he
    have hf := step_frame g op
    have := ih (step g op).1 rs (by rw [hf.2.2.1]; exact hl) h1
    simpa [run] using this

/-! ### check_match -/

/-- `Grid.check_match` accepts exactly the pairs whose defined extents are `isclose` and whose defined gpts are equal
(same number of dimensions) -/
theorem check_match_spec (g o : Grid)
    (hlen : ∀ a b, g.extent = some a → o.extent = some b → a.length = b.length) :
    checkMatch g o = .ok () ↔
      (∀ a b, g.extent = some a → o.extent = some b → all2 isclose a b = true) ∧
      (∀ a b, g.gpts = some a → o.gpts = some b → a = b) := by
  unfold checkMatch
  rcases hge : g.extent with _ | a <;> rcases hoe : o.extent with _ | b <;>
    rcases hgg : g.gpts with _ | m <;> rcases hog : o.gpts with _ | n <;> simp_all
  all_goals
    rcases hc : all2 isclose a b <;> simp_all

/-! ### `Grid.match` -/

lemma pyInt_intCast' (n : Int) : pyInt (n : Rat) = n := by
  unfold pyInt; split <;> simp [Rat.floor_intCast, Rat.ceil_intCast]

lemma validOp_extent_of_inv {o : Grid} (ep : List Bool) (hI : Inv o) : ValidOp ep (.setExtent (valOfRats o.extent)) := by
  rcases h : o.extent with _ | l
  · trivial
  · exact hI.extPos l h

lemma validOp_sampling_of_inv {o : Grid} (ep : List Bool) (hI : Inv o) : ValidOp ep (.setSampling (valOfRats o.sampling)) := by
  rcases h : o.sampling with _ | l
  · trivial
  · exact hI.saPos l h

lemma validOp_gpts_of_inv {o : Grid} (hI : Inv o) : ValidOp o.endpoint (.setGpts (valOfInts o.gpts)) := by
  rcases h : o.gpts with _ | l
  · trivial
  · intro i x e hx he
    simp only [List.getElem?_map, Option.map_eq_some_iff] at hx
    obtain ⟨n, hn, rfl⟩ := hx
    rw [pyInt_intCast']
    exact hI.gpGood l h i n e hn he

/-- the invariant of a pair of grids that `match` works on: both consistent, same endpoint flags -/
def Inv2 (p : Grid × Grid) : Prop := Inv p.1 ∧ Inv p.2 ∧ p.1.endpoint = p.2.endpoint

lemma matchExtent_inv (s o : Grid) (c1 : Bool) (h : Inv2 (s, o)) : Inv2 (matchExtent s o c1).1 := by
  obtain ⟨hs, ho, he⟩ := h
  unfold matchExtent
  split
  · have := consistent_preserved o (.setExtent (valOfRats s.extent)) ho (validOp_extent_of_inv _ hs)
    exact ⟨hs, this, he.trans (step_frame o (.setExtent (valOfRats s.extent))).2.1.symm⟩
  · split
    · have := consistent_preserved s (.setExtent (valOfRats o.extent)) hs (validOp_extent_of_inv _ ho)
      exact ⟨this, ho, (step_frame s (.setExtent (valOfRats o.extent))).2.1.trans he⟩
    · exact ⟨hs, ho, he⟩

lemma matchGpts_inv (s o : Grid) (h : Inv2 (s, o)) : Inv2 (matchGpts s o).1 := by
  obtain ⟨hs, ho, he⟩ := h
  unfold matchGpts
  split
  · have := consistent_preserved o (.setGpts (valOfInts s.gpts)) ho (by rw [← he]; exact validOp_gpts_of_inv hs)
    exact ⟨hs, this, he.trans (step_frame o (.setGpts (valOfInts s.gpts))).2.1.symm⟩
  · split
    · have := consistent_preserved s (.setGpts (valOfInts o.gpts)) hs (by rw [he]; exact validOp_gpts_of_inv ho)
      exact ⟨this, ho, (step_frame s (.setGpts (valOfInts o.gpts))).2.1.trans he⟩
    · exact ⟨hs, ho, he⟩

lemma matchSampling_inv (s o : Grid) (c3 : Bool) (h : Inv2 (s, o)) : Inv2 (matchSampling s o c3).1 := by
  obtain ⟨hs, ho, he⟩ := h
  unfold matchSampling
  split
  · have := consistent_preserved o (.setSampling (valOfRats s.sampling)) ho (validOp_sampling_of_inv _ hs)
    exact ⟨hs, this, he.trans (step_frame o (.setSampling (valOfRats s.sampling))).2.1.symm⟩
  · split
    · have := consistent_preserved s (.setSampling (valOfRats o.sampling)) hs (validOp_sampling_of_inv _ ho)
      exact ⟨this, ho, (step_frame s (.setSampling (valOfRats o.sampling))).2.1.trans he⟩
    · exact ⟨hs, ho, he⟩

lemma bind2_inv (r : Res2) (f : Grid → Grid → Res2) (hr : Inv2 r.1) (hf : ∀ s o, Inv2 (s, o) → Inv2 (f s o).1) :
    Inv2 (r.bind f).1 := by
  rcases r with ⟨⟨s, o⟩, _ | e⟩
  · exact hf s o hr
  · exact hr

/-- **`Grid.match` keeps both grids consistent**: whatever the two float32 comparisons decide, whether or not
`check_match` is requested, whether the call completes or one of the assignments raises (locks), two consistent grids
with the same endpoint flags are both still consistent afterwards. -/
theorem match_preserves_consistency (s o : Grid) (check c1 c3 : Bool) (hs : Inv s) (ho : Inv o) (he : s.endpoint = o.endpoint) :
    Inv (matchGrids s o check c1 c3).1.1 ∧ Inv (matchGrids s o check c1 c3).1.2 := by
  have h0 : Inv2 (s, o) := ⟨hs, ho, he⟩
  have : Inv2 (matchGrids s o check c1 c3).1 := by
    unfold matchGrids
    apply bind2_inv _ _ _ (fun s o h => matchSampling_inv s o c3 h)
    apply bind2_inv _ _ _ (fun s o h => matchGpts_inv s o h)
    apply bind2_inv _ _ _ (fun s o h => matchExtent_inv s o c1 h)
    split
    · split <;> exact h0
    · exact h0
  exact ⟨this.1, this.2.1⟩

/-- with `check_match=True`, grids that `check_match` rejects are left untouched and the error is passed on -/
theorem match_check_rejects (s o : Grid) (c1 c3 : Bool) (e : String) (h : checkMatch s o = .error e) :
    matchGrids s o true c1 c3 = ((s, o), some e) := by
  simp [matchGrids, h, Res2.bind]

/-! ### what the locks do not protect (known findings, DESIGN §7 F8): negation witnesses -/

/-- `lock_sampling` does not protect the sampling: `Grid(sampling=.3, lock_sampling=True).extent = 1` ends with
sampling 1/4. -/
theorem lock_sampling_protects_counterexample :
    ¬ (∀ (g : Grid) (op : Op), g.lockSampling = true → g.sampling.isSome = true → (step g op).2 = none →
        (step g op).1.sampling = g.sampling) := by
  intro h
  have := h ⟨1, [false], none, none, some [3/10], false, false, true⟩ (.setExtent (.scalar 1)) rfl rfl (by decide +kernel)
  revert this; decide +kernel

/-- assigning `None` to a locked, defined extent raises and changes nothing (repaired in /repo 718fdf49; before, the
assignment succeeded and removed the extent, after which any extent could be assigned) -/
theorem lock_extent_none_rejected (g : Grid) (hl : g.lockExtent = true) (he : g.extent.isSome = true) :
    step g (.setExtent .none) = (g, some "runtime_error") := by
  simp [step, setExtent, hl, he]

/-- `endpoint` with a single grid point: `_safe_divide` sets the sampling to 0 and keeps the extent, so
`extent = (gpts − 1) × sampling` fails (`1 ≠ 0 · 0`); the guard `gpts ≥ 2` of `consistent_preserved` is needed -/
theorem endpoint_single_point_consistent_counterexample :
    ¬ (∀ (g : Grid) (op : Op) (r : Rat) (n : Int) (d : Rat), (step g op).2 = none →
        (step g op).1.endpoint = [true] → (step g op).1.extent = some [r] → (step g op).1.gpts = some [n] →
        (step g op).1.sampling = some [d] → r = adjustExtentElt n d true) := by
  intro h
  have h1 := h ⟨1, [true], some [1], some [4], some [1/3], false, false, false⟩ (.setGpts (.scalar 1)) 1 1 0
    (by decide +kernel) (by decide +kernel) (by decide +kernel) (by decide +kernel) (by decide +kernel)
  revert h1; decide +kernel

/-- two locks determine the third quantity: an assignment that would have to overwrite a locked quantity raises and changes
nothing (repaired: it used to overwrite the locked gpts / extent) -/
theorem double_lock_rejected :
    step ⟨1, [false], some [1], some [4], some [1/4], false, true, true⟩ (.setExtent (.scalar 2))
      = (⟨1, [false], some [1], some [4], some [1/4], false, true, true⟩, some "runtime_error") ∧
    step ⟨1, [false], some [1], some [4], some [1/4], true, false, true⟩ (.setGpts (.scalar 8))
      = (⟨1, [false], some [1], some [4], some [1/4], true, false, true⟩, some "runtime_error") ∧
    step ⟨1, [false], some [1], some [4], some [1/4], true, true, false⟩ (.setSampling (.scalar (1/2)))
      = (⟨1, [false], some [1], some [4], some [1/4], true, true, false⟩, some "runtime_error") := by
  refine ⟨by decide +kernel, by decide +kernel, by decide +kernel⟩

/-- with `lock_sampling` but no sampling to protect, a gpts assignment derives the sampling (repaired: the grid was left
with extent and gpts defined and the sampling `None`) -/
theorem lock_sampling_without_sampling_derives_it :
    step ⟨1, [false], some [1], none, none, false, false, true⟩ (.setGpts (.scalar 4))
      = (⟨1, [false], some [1], some [4], some [1/4], false, false, true⟩, none) := by decide +kernel

/-- negative gpts are rejected and change nothing (`Grid._check_gpts`) -/
theorem negative_gpts_rejected (g : Grid) (x : Rat) (hl : g.lockGpts = false) (hd : 0 < g.dims) (hx : pyInt x < 0) :
    step g (.setGpts (.scalar x)) = (g, some "value_error") := by
  have hrep : (List.replicate g.dims x).map pyInt = List.replicate g.dims (pyInt x) := by simp
  have : ((List.replicate g.dims (pyInt x)).any fun n => decide (n < 0)) = true := by
    rw [List.any_eq_true]
    exact ⟨pyInt x, List.mem_replicate.mpr ⟨by omega, rfl⟩, by simpa using hx⟩
  simp [step, setGpts, hl, validateGpts, validate, hrep, this]

/-- `gpts = 0` is rejected next to an undefined or a non-zero extent (it is legal only for a zero extent: an empty scan
block); repaired: it was accepted and left extent 1 with sampling 0 -/
theorem zero_gpts_rejected :
    step ⟨1, [false], some [1], some [4], some [1/4], false, false, false⟩ (.setGpts (.scalar 0))
      = (⟨1, [false], some [1], some [4], some [1/4], false, false, false⟩, some "value_error") ∧
    step ⟨1, [false], none, none, some [1/4], false, false, false⟩ (.setGpts (.scalar 0))
      = (⟨1, [false], none, none, some [1/4], false, false, false⟩, some "value_error") ∧
    (step ⟨1, [false], some [0], none, none, false, false, false⟩ (.setGpts (.scalar 0))).2 = none := by
  refine ⟨by decide +kernel, by decide +kernel, by decide +kernel⟩

/-- a *negative* extent is still accepted (no sign check on extents and samplings): with a sampling and no gpts the
setter computes `gpts = ⌈−2/2.4⌉ = 0`, `_safe_divide` sets the sampling to 0 and the extent stays −2 — neither an
exception nor a consistent grid.  Outside the guard `extent > 0` of `consistent_preserved`; recorded as a known finding. -/
theorem negative_extent_consistent_counterexample :
    ¬ (∀ (g : Grid) (op : Op) (r : Rat) (n : Int) (d : Rat), (step g op).2 = none →
        (step g op).1.endpoint = [false] → (step g op).1.extent = some [r] → (step g op).1.gpts = some [n] →
        (step g op).1.sampling = some [d] → r = adjustExtentElt n d false) := by
  intro h
  have h1 := h ⟨1, [false], none, none, some [12/5], false, false, false⟩ (.setExtent (.scalar (-2))) (-2) 0 0
    (by decide +kernel) (by decide +kernel) (by decide +kernel) (by decide +kernel) (by decide +kernel)
  revert h1; decide +kernel

/-- gpts = 0 computed from a zero extent stay 0 when a non-zero extent is assigned afterwards (only the sampling is
recomputed, `_safe_divide(1, 0) = 0`): extent 1 with gpts 0 and sampling 0.  Recorded as a known finding. -/
theorem stale_zero_gpts_consistent_counterexample :
    ¬ (∀ (g : Grid) (op : Op) (r : Rat) (n : Int) (d : Rat), (step g op).2 = none →
        (step g op).1.endpoint = [false] → (step g op).1.extent = some [r] → (step g op).1.gpts = some [n] →
        (step g op).1.sampling = some [d] → r = adjustExtentElt n d false) := by
  intro h
  have h1 := h ⟨1, [false], some [0], some [0], some [0], false, false, false⟩ (.setExtent (.scalar 1)) 1 0 0
    (by decide +kernel) (by decide +kernel) (by decide +kernel) (by decide +kernel) (by decide +kernel)
  revert h1; decide +kernel

/-! ### non-vacuity -/

/-- the hypotheses of `init_consistent`, `consistent_preserved` and `history_consistent` are satisfiable: a
2-D grid with one endpoint dimension built by the constructor, then edited three times -/
example : ∃ g, init 2 [false, true] (.scalar 1) (.scalar 4) .none false false false = .ok g ∧ Inv g ∧
    Inv (run g [.setSampling (.scalar (3/10)), .setExtent (.seq [2, 3]), .setGpts (.scalar 7)]) := by
  have hgood : GoodVal [false, true] (.scalar 4) := by
    intro e _; cases e <;> decide +kernel
  have hI : Inv _ := init_consistent 2 [false, true] (.scalar 1) (.scalar 4) .none false false false
    ⟨2, [false, true], some [1, 1], some [4, 4], some [1/4, 1/3], false, false, false⟩ rfl
    (by show (0 : Rat) < 1; norm_num) hgood trivial (by decide +kernel)
  refine ⟨_, by decide +kernel, hI, history_consistent _ _ hI ?_⟩
  intro op hop
  simp only [List.mem_cons, List.mem_nil_iff, or_false] at hop
  rcases hop with rfl | rfl | rfl
  · show (0 : Rat) < 3 / 10; norm_num
  · intro x hx
    simp only [List.mem_cons, List.mem_nil_iff, or_false] at hx
    rcases hx with rfl | rfl <;> norm_num
  · intro e _; cases e <;> decide +kernel

example : run ⟨2, [false, true], some [1, 1], some [4, 4], some [1/4, 1/3], false, false, false⟩
    [.setSampling (.scalar (3/10)), .setExtent (.seq [2, 3]), .setGpts (.scalar 7)]
    = ⟨2, [false, true], some [2, 3], some [7, 7], some [2/7, 1/2], false, false, false⟩ := by decide +kernel

/-- an assignment that raises (ZeroDivisionError for a zero sampling) — hypothesis of `error_leaves_unchanged` -/
example : (step ⟨1, [false], some [1], some [4], some [1/4], false, false, false⟩ (.setSampling (.scalar 0))).2
    = some "zero_division" := by decide +kernel

end AbtemVerif.Props.C17
