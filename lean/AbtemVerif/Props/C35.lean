/-
C35 — Axis metadata behaves like the value sequences it describes.

Statements are about `AbtemVerif.Axes.*` (Model/Axes.lean); the class table (names, bases, fields, defaults) is the
generated `Gen/Axes.lean`, regenerated from abtem/core/axes.py on every run, and `LinearAxis.coordinates` goes
through the generated linspace arguments of `Gen/Scan.lean`.

* `axis_roundtrip`   — for EVERY axis object the constructors can build (every class of the table, every keyword set):
                       `axis_from_dict(axis_to_dict(a))` is exactly `a` (same class, same fields);
* `getitem_*`        — `OrdinalAxis.__getitem__` returns the selected values (number, slice, index list, mask) and
                       leaves class and other fields alone;
* `concat_values`, `concat_rejects` — concatenation appends the values (reassembly of partition pieces: oracle only);
* `linear_coordinates` — `offset + i · sampling`.
-/
import AbtemVerif.Model.Axes
import AbtemVerif.Lib.Linspace

namespace AbtemVerif.Props.C35
open AbtemVerif.Axes AbtemVerif.Gen.Axes AbtemVerif.Np

/-! ### facts about the generated class table (re-checked by the kernel on every run) -/

/-- every class of the table has a constructor signature with distinct field names, none of them `"type"`
(the key `axis_to_dict` adds) -/
theorem table_ok :
    axisClasses.all (fun r => match fieldsOf r.1 with
      | some sig => !(sig.map Prod.fst).contains "type" && decide (sig.map Prod.fst).Nodup
      | none => false) = true := by decide +kernel

/-- every ordinal class has a `values` field -/
theorem table_ordinal_has_values :
    axisClasses.all (fun r => !isOrdinal r.1 || match fieldsOf r.1 with
      | some sig => (sig.map Prod.fst).contains "values"
      | none => false) = true := by decide +kernel

lemma lookupClass_mem {t : ClassTable} {c : String} {x : Option String × Fields} (h : lookupClass t c = some x) :
    ∃ r ∈ t, r.1 = c := by
  unfold lookupClass at h
  rcases hf : t.find? (fun r => r.1 == c) with _ | r
  · simp [hf] at h
  · exact ⟨r, List.mem_of_find?_eq_some hf, by simpa using List.find?_some hf⟩

lemma fieldsOf_mem {c : String} {sig : Fields} (h : fieldsOf c = some sig) : ∃ r ∈ axisClasses, r.1 = c := by
  unfold fieldsOf at h
  generalize axisClasses.length = fuel at h
  cases fuel with
  | zero => simp [fieldsOfFuel] at h
  | succ n =>
    simp only [fieldsOfFuel] at h
    rcases hl : lookupClass axisClasses c with _ | x
    · simp [hl] at h
    · exact lookupClass_mem hl

lemma sig_ok {c : String} {sig : Fields} (h : fieldsOf c = some sig) :
    "type" ∉ sig.map Prod.fst ∧ (sig.map Prod.fst).Nodup := by
  obtain ⟨r, hr, rfl⟩ := fieldsOf_mem h
  have := List.all_eq_true.mp table_ok r hr
  simp only [h] at this
  simpa using this

/-! ### association-list lemmas -/

lemma lookup_append_last (l : Fields) (k : String) (v : V) (h : k ∉ l.map Prod.fst) :
    (l ++ [(k, v)]).lookup k = some v := by
  induction l with
  | nil => simp [List.lookup]
  | cons p t ih =>
    obtain ⟨k', v'⟩ := p
    have hne : k ≠ k' := by intro e; apply h; simp [e]
    have ht : k ∉ t.map Prod.fst := by intro e; apply h; simp [e]
    simp only [List.cons_append, List.lookup]
    have : (k == k') = false := by simpa using hne
    rw [this]; exact ih ht

lemma filter_append_last (l : Fields) (k : String) (v : V) (h : k ∉ l.map Prod.fst) :
    (l ++ [(k, v)]).filter (fun p => p.1 != k) = l := by
  rw [List.filter_append]
  have h1 : l.filter (fun p => p.1 != k) = l := by
    apply List.filter_eq_self.mpr
    intro p hp
    have : p.1 ≠ k := by intro e; apply h; rw [← e]; exact List.mem_map_of_mem hp
    simpa using this
  simp [h1]

lemma lookup_isSome_of_mem (l : Fields) (k : String) (h : k ∈ l.map Prod.fst) : (l.lookup k).isSome = true := by
  induction l with
  | nil => simp at h
  | cons p t ih =>
    obtain ⟨k', v'⟩ := p
    by_cases hk : k = k'
    · subst hk; simp [List.lookup]
    · have hb : (k == k') = false := by simpa using hk
      have ht : k ∈ t.map Prod.fst := by
        simp only [List.map_cons, List.mem_cons] at h
        rcases h with h | h
        · exact absurd h hk
        · exact h
      simp only [List.lookup, hb]; exact ih ht

lemma mem_keys_of_lookup (l : Fields) (k : String) (v : V) (h : l.lookup k = some v) : k ∈ l.map Prod.fst := by
  induction l with
  | nil => simp [List.lookup] at h
  | cons p t ih =>
    obtain ⟨k', v'⟩ := p
    by_cases hk : k = k'
    · subst hk; simp
    · have hb : (k == k') = false := by simpa using hk
      simp only [List.lookup, hb] at h
      simp only [List.map_cons, List.mem_cons]
      exact Or.inr (ih h)

/-- rebuilding an association list from its own keys (in order, keys distinct) returns it -/
lemma rebuild_self : ∀ (sig l : Fields), sig.map Prod.fst = l.map Prod.fst → (l.map Prod.fst).Nodup →
    sig.map (fun p => (p.1, (l.lookup p.1).getD p.2)) = l := by
  intro sig l
  induction l generalizing sig with
  | nil => intro h _; cases sig <;> simp_all
  | cons p t ih =>
    intro h hnd
    cases sig with
    | nil => simp at h
    | cons q s =>
      obtain ⟨k, v⟩ := p
      obtain ⟨k', d⟩ := q
      simp only [List.map_cons, List.cons.injEq] at h
      obtain ⟨hk, hs⟩ := h
      subst hk
      simp only [List.map_cons, List.nodup_cons] at hnd
      obtain ⟨hnot, hnd'⟩ := hnd
      have htail : s.map (fun p => (p.1, (List.lookup p.1 ((k', v) :: t)).getD p.2)) = s.map (fun p => (p.1, (t.lookup p.1).getD p.2)) := by
        apply List.map_congr_left
        intro p hp
        have hpk : p.1 ∈ t.map Prod.fst := by rw [← hs]; exact List.mem_map_of_mem hp
        have hne : p.1 ≠ k' := by intro e; apply hnot; rw [← e]; exact hpk
        have : (p.1 == k') = false := by simpa using hne
        simp [List.lookup, this]
      rw [List.map_cons, htail, ih s hs hnd']
      simp [List.lookup]

lemma setField_keys (fs : Fields) (k : String) (v : V) : (setField fs k v).map Prod.fst = fs.map Prod.fst := by
  unfold setField
  rw [List.map_map]
  apply List.map_congr_left
  intro p _
  obtain ⟨a, b⟩ := p
  simp only [Function.comp]
  split <;> rfl

/-- writing back the value that is already stored changes nothing (distinct keys) -/
lemma setField_same (fs : Fields) (k : String) (v : V) (hnd : (fs.map Prod.fst).Nodup) (h : fs.lookup k = some v) :
    setField fs k v = fs := by
  induction fs with
  | nil => rfl
  | cons p t ih =>
    obtain ⟨k', v'⟩ := p
    simp only [List.map_cons, List.nodup_cons] at hnd
    by_cases hk : k = k'
    · subst hk
      simp only [List.lookup, beq_self_eq_true, Option.some.injEq] at h
      subst h
      unfold setField
      simp only [List.map_cons, beq_self_eq_true, if_true, List.cons.injEq, true_and]
      have hid : t.map (fun p => if (p.1 == k) = true then (p.1, v') else (p.1, p.2)) = t.map id := by
        apply List.map_congr_left
        intro p hp
        obtain ⟨a, b⟩ := p
        have : a ≠ k := by intro e; apply hnd.1; rw [← e]; exact List.mem_map_of_mem (f := Prod.fst) hp
        have : (a == k) = false := by simpa using this
        simp [this]
      simpa using hid
    · have hb : (k == k') = false := by simpa using hk
      have hb' : (k' == k) = false := by simpa using (Ne.symm hk)
      simp only [List.lookup, hb] at h
      have := ih hnd.2 h
      unfold setField at this ⊢
      simp only [List.map_cons, hb', Bool.false_eq_true, if_false, List.cons.injEq, true_and]
      exact this

lemma lookup_setField (fs : Fields) (k : String) (v : V) (h : k ∈ fs.map Prod.fst) : (setField fs k v).lookup k = some v := by
  induction fs with
  | nil => simp at h
  | cons p t ih =>
    obtain ⟨k', v'⟩ := p
    by_cases hk : k = k'
    · subst hk; simp [setField, List.lookup]
    · have hb : (k == k') = false := by simpa using hk
      have hb' : (k' == k) = false := by simpa using (Ne.symm hk)
      have ht : k ∈ t.map Prod.fst := by
        simp only [List.map_cons, List.mem_cons] at h
        rcases h with h | h
        · exact absurd h hk
        · exact h
      have := ih ht
      unfold setField at this ⊢
      simp only [List.map_cons, hb', Bool.false_eq_true, if_false, List.lookup, hb]
      exact this

/-! ### what a constructed axis looks like -/

/-- the result of `cls(**kwargs)`: the class, one entry per field of the signature, `values` a tuple for ordinal classes -/
structure Built (a : Axis) (sig : Fields) : Prop where
  hsig : fieldsOf a.cls = some sig
  keys : a.fields.map Prod.fst = sig.map Prod.fst
  vals : isOrdinal a.cls = true → ∃ vs, a.fields.lookup "values" = some (V.tup vs)

lemma normValues_tup {v w : V} (h : normValues v = .ok w) : ∃ vs, w = V.tup vs := by
  cases v <;> simp [normValues] at h <;> exact ⟨_, h.symm⟩

lemma construct_built {c : String} {kw : Fields} {a : Axis} (h : construct c kw = .ok a) : ∃ sig, Built a sig := by
  unfold construct at h
  rcases hs : fieldsOf c with _ | sig
  · simp [hs] at h
  · simp only [hs] at h
    split at h
    · cases h
    · have hkeys : (sig.map fun p => (p.1, (kw.lookup p.1).getD p.2)).map Prod.fst = sig.map Prod.fst := by
        rw [List.map_map]; rfl
      by_cases ho : isOrdinal c = true
      · simp only [ho, if_true] at h
        split at h
        · cases h
        · rename_i v hv
          simp only [Except.ok.injEq] at h
          subst h
          refine ⟨sig, hs, by simpa [setField_keys] using hkeys, ?_⟩
          intro _
          obtain ⟨vs, rfl⟩ := normValues_tup hv
          refine ⟨vs, lookup_setField _ _ _ ?_⟩
          rw [hkeys]
          obtain ⟨r, hr, rfl⟩ := fieldsOf_mem hs
          have := List.all_eq_true.mp table_ordinal_has_values r hr
          simp only [ho, hs, Bool.not_true, Bool.false_or] at this
          simpa using this
      · simp only [ho, Bool.false_eq_true, if_false, Except.ok.injEq] at h
        subst h
        exact ⟨sig, hs, hkeys, fun hh => absurd hh ho⟩

/-- constructing a class from a complete, normalised field list returns exactly that field list -/
lemma construct_self (c : String) (fs sig : Fields) (hsig : fieldsOf c = some sig) (keys : fs.map Prod.fst = sig.map Prod.fst)
    (hv : isOrdinal c = true → ∃ vs, fs.lookup "values" = some (V.tup vs)) :
    construct c fs = .ok { cls := c, fields := fs } := by
  obtain ⟨_, hnd⟩ := sig_ok hsig
  have hnd' : (fs.map Prod.fst).Nodup := by rw [keys]; exact hnd
  unfold construct
  simp only [hsig]
  have hany : (fs.any fun x => match x with | (k, _) => (sig.lookup k).isNone) = false := by
    rw [List.any_eq_false]
    intro p hp
    obtain ⟨k, v⟩ := p
    have hk : k ∈ sig.map Prod.fst := by rw [← keys]; exact List.mem_map_of_mem (f := Prod.fst) hp
    have : (sig.lookup k).isSome = true := lookup_isSome_of_mem sig k hk
    simp only [Option.isNone_iff_eq_none]
    intro hn; rw [hn] at this; cases this
  simp only [hany, Bool.false_eq_true, if_false]
  have hre : (sig.map fun x => match x with | (k, d) => (k, (fs.lookup k).getD d)) = fs :=
    rebuild_self sig fs keys.symm hnd'
  simp only [hre]
  by_cases ho : isOrdinal c = true
  · obtain ⟨vs, hv⟩ := hv ho
    simp only [ho, if_true, hv, Option.getD_some, normValues]
    rw [setField_same fs "values" (V.tup vs) hnd' hv]
  · simp only [ho, Bool.false_eq_true, if_false]

lemma lookup_setField_ne (fs : Fields) (k k2 : String) (v : V) (h : k2 ≠ k) : (setField fs k v).lookup k2 = fs.lookup k2 := by
  induction fs with
  | nil => rfl
  | cons p t ih =>
    obtain ⟨k', v'⟩ := p
    unfold setField at ih ⊢
    by_cases hk : k' = k
    · subst hk
      have hb : (k2 == k') = false := by simpa using h
      simp only [List.map_cons, beq_self_eq_true, if_true, List.lookup, hb]
      exact ih
    · have hb' : (k' == k) = false := by simpa using hk
      simp only [List.map_cons, hb', Bool.false_eq_true, if_false, List.lookup]
      split
      · rfl
      · exact ih

/-! ### property theorems -/

/-- **Serialisation round trip.** For every axis object `a` that a constructor of abtem/core/axes.py can produce —
any class of the table, any keyword arguments — `axis_from_dict(axis_to_dict(a))` is `a`: the same class and exactly the
same field values in the same order. -/
theorem axis_roundtrip (c : String) (kw : Fields) (a : Axis) (h : construct c kw = .ok a) :
    fromDict (toDict a) = .ok a := by
  obtain ⟨sig, hb⟩ := construct_built h
  obtain ⟨hty, _⟩ := sig_ok hb.hsig
  have hty' : "type" ∉ a.fields.map Prod.fst := by rw [hb.keys]; exact hty
  unfold fromDict toDict
  rw [lookup_append_last _ _ _ hty']
  have hfil : List.filter (fun x => match x with | (k, _) => k != "type") (a.fields ++ [("type", V.str a.cls)]) = a.fields :=
    filter_append_last a.fields "type" (V.str a.cls) hty'
  simp only [hfil]
  exact construct_self a.cls a.fields sig hb.hsig hb.keys hb.vals

/-- the dictionary carries the class name under `"type"` and the fields in constructor order -/
theorem to_dict_spec (a : Axis) : toDict a = a.fields ++ [("type", V.str a.cls)] := rfl

/-- a dictionary without `"type"`, or naming a class that does not exist, is rejected with KeyError; an unknown key with
TypeError -/
theorem from_dict_rejects (d : Fields) (h : d.lookup "type" = none) : fromDict d = .error "key_error" := by
  simp [fromDict, h]

/-! #### indexing an ordinal axis -/

/-- **`axis[item]`** on an ordinal axis: when the item selects `vs` out of the values, the result is an axis of the
same class, with exactly the values `vs`, and every other field unchanged. -/
theorem getitem_spec (c : String) (kw : Fields) (a : Axis) (it : Item) (vs : List V) (h : construct c kw = .ok a)
    (ho : isOrdinal a.cls = true) (hsel : select (values a) it = .ok vs) :
    ∃ b, getitem a it = .ok b ∧ b.cls = a.cls ∧ values b = vs ∧
      ∀ k, k ≠ "values" → b.fields.lookup k = a.fields.lookup k := by
  obtain ⟨sig, hb⟩ := construct_built h
  have hmem : "values" ∈ a.fields.map Prod.fst := by
    obtain ⟨ws, hw⟩ := hb.vals ho
    exact mem_keys_of_lookup _ _ _ hw
  have hcs := construct_self a.cls (setField a.fields "values" (V.tup vs)) sig hb.hsig
    (by rw [setField_keys]; exact hb.keys) (fun _ => ⟨vs, lookup_setField _ _ _ hmem⟩)
  refine ⟨{ cls := a.cls, fields := setField a.fields "values" (V.tup vs) }, by simp only [getitem, ho, if_true, hsel]; exact hcs, rfl, ?_, ?_⟩
  · simp only [values, lookup_setField _ _ _ hmem]
  · intro k hk; exact lookup_setField_ne _ _ _ _ hk

/-- a non-negative integer item selects that single value -/
theorem select_index (l : List V) (i : Nat) (h : i < l.length) : select l (.idx (i : Int)) = .ok [l[i]] := by
  have hw : wrapIndex (i : Int) l.length = some i := by
    unfold wrapIndex
    have : (0 : Int) ≤ (i : Int) ∧ (i : Int) < (l.length : Int) := ⟨by omega, by omega⟩
    simp [this]
  simp only [select, hw]
  congr 1
  rw [List.take_one_drop_eq_of_lt_length h]
  simp

/-- a negative integer item counts from the end -/
theorem select_negative_index (l : List V) (j : Nat) (h : j < l.length) :
    select l (.idx (-((j : Int) + 1))) = .ok [l[l.length - 1 - j]'(by omega)] := by
  have hw : wrapIndex (-((j : Int) + 1)) l.length = some (l.length - 1 - j) := by
    unfold wrapIndex
    have h1 : ¬ ((0 : Int) ≤ -((j : Int) + 1) ∧ -((j : Int) + 1) < (l.length : Int)) := by omega
    have h2 : (-((j : Int) + 1) < 0 ∧ -(l.length : Int) ≤ -((j : Int) + 1)) := ⟨by omega, by omega⟩
    simp only [h1, if_false, h2, and_self, if_true, Option.some.injEq]
    omega
  simp only [select, hw]
  congr 1
  rw [List.take_one_drop_eq_of_lt_length (by omega)]
  simp

/-- an integer item outside `[-n, n)` raises IndexError -/
theorem select_index_out_of_range (l : List V) (i : Int) (h : i < -(l.length : Int) ∨ (l.length : Int) ≤ i) :
    select l (.idx i) = .error "index_error" := by
  have hw : wrapIndex i l.length = none := by
    unfold wrapIndex
    have h1 : ¬ ((0 : Int) ≤ i ∧ i < (l.length : Int)) := by omega
    have h2 : ¬ (i < 0 ∧ -(l.length : Int) ≤ i) := by omega
    simp [h1, h2]
  simp [select, hw]

lemma filterMap_range_shift (l : List V) (a : Nat) : ∀ (m : Nat), a + m ≤ l.length →
    (List.range m).filterMap (fun k => l[a + k]?) = (l.drop a).take m := by
  intro m
  induction m with
  | zero => intro _; simp
  | succ m ih =>
    intro h
    rw [List.range_succ, List.filterMap_append, ih (by omega)]
    have hlt : a + m < l.length := by omega
    simp only [List.filterMap_cons, List.filterMap_nil, List.getElem?_eq_getElem hlt]
    rw [List.take_add_one]
    congr 1
    simp [List.getElem?_drop, List.getElem?_eq_getElem hlt]

/-- **`axis[a:b]`** for `0 ≤ a ≤ b ≤ n` selects the values `a … b−1` in order (the chunk slices of the ensemble
partitioning are of this form) -/
theorem select_slice (l : List V) (a b : Nat) (hab : a ≤ b) (hb : b ≤ l.length) :
    select l (.slice (some (a : Int)) (some (b : Int)) none) = .ok ((l.take b).drop a) := by
  have ha0 : ¬ ((a : Int) < 0) := by omega
  have hb0 : ¬ ((b : Int) < 0) := by omega
  simp only [select, sliceIndices, Option.getD_none, Option.map_some, Option.getD_some, ha0, hb0, if_false]
  have h1 : (1 : Int) ≠ 0 := by decide
  have hmina : min (a : Int) (l.length : Int) = a := by omega
  have hminb : min (b : Int) (l.length : Int) = b := by omega
  simp only [h1, if_false, show (1 : Int) > 0 by decide, if_true, hmina, hminb, Except.map]
  have hcnt : (if (b : Int) > (a : Int) then (((b : Int) - a + 1 - 1) / 1).toNat else 0) = b - a := by
    split <;> omega
  rw [hcnt]
  congr 1
  rw [List.filterMap_map]
  have : (fun k => l[k]?) ∘ (fun (k : Nat) => ((a : Int) + (k : Int) * 1).toNat) = fun k => l[a + k]? := by
    funext k; simp only [Function.comp]; congr 1; omega
  rw [this, filterMap_range_shift l a (b - a) (by omega), List.drop_take]

/-- the whole slice `axis[:]` selects everything -/
theorem select_slice_all (l : List V) : select l (.slice none none none) = .ok l := by
  have h1 : (1 : Int) ≠ 0 := by decide
  simp only [select, sliceIndices, Option.getD_none, Option.map_none, h1, if_false, show (1 : Int) > 0 by decide, if_true,
    Except.map]
  have hcnt : (if (l.length : Int) > 0 then (((l.length : Int) - 0 + 1 - 1) / 1).toNat else 0) = l.length := by
    split <;> omega
  rw [hcnt]
  congr 1
  rw [List.filterMap_map]
  have : (fun k => l[k]?) ∘ (fun (k : Nat) => ((0 : Int) + (k : Int) * 1).toNat) = fun k => l[0 + k]? := by
    funext k; simp only [Function.comp]; congr 1; omega
  rw [this, filterMap_range_shift l 0 l.length (by omega)]
  simp

/-- a boolean mask of the right length selects the values at its `True` positions; a wrong (non-zero) length raises
IndexError -/
theorem select_mask (l : List V) (m : List Bool) (h : m.length = l.length) :
    select l (.mask m) = .ok ((l.zip m).filterMap fun p => if p.2 then some p.1 else none) := by
  simp [select, h]

theorem select_mask_wrong_length (l : List V) (m : List Bool) (h : m.length ≠ l.length) (h0 : m.length ≠ 0) :
    select l (.mask m) = .error "index_error" := by
  simp [select, h, h0]

/-! #### concatenation -/

/-- **`a.concatenate(b)`** for ordinal axes whose other fields agree: the same class as `a`, the values of `a`
followed by the values of `b`, every other field as in `a`. -/
theorem concat_values (c : String) (kw : Fields) (a b : Axis) (h : construct c kw = .ok a) (ho : isOrdinal a.cls = true)
    (hsub : isSubclass b.cls a.cls = true) (heq : fieldsEq a.fields b.fields "values" = true) :
    ∃ r, concat a b = .ok r ∧ r.cls = a.cls ∧ values r = values a ++ values b ∧
      ∀ k, k ≠ "values" → r.fields.lookup k = a.fields.lookup k := by
  obtain ⟨sig, hb⟩ := construct_built h
  have hmem : "values" ∈ a.fields.map Prod.fst := by
    obtain ⟨ws, hw⟩ := hb.vals ho
    exact mem_keys_of_lookup _ _ _ hw
  have hcs := construct_self a.cls (setField a.fields "values" (V.tup (values a ++ values b))) sig hb.hsig
    (by rw [setField_keys]; exact hb.keys) (fun _ => ⟨_, lookup_setField _ _ _ hmem⟩)
  refine ⟨{ cls := a.cls, fields := setField a.fields "values" (V.tup (values a ++ values b)) },
    by simp only [concat, ho, if_true, hsub, heq, Bool.and_self]; exact hcs, rfl, ?_, ?_⟩
  · simp only [values, lookup_setField _ _ _ hmem]
  · intro k hk; exact lookup_setField_ne _ _ _ _ hk

/-- axes of unrelated classes, or with differing fields, are not concatenated (RuntimeError) -/
theorem concat_rejects (a b : Axis) (ho : isOrdinal a.cls = true)
    (h : isSubclass b.cls a.cls = false ∨ fieldsEq a.fields b.fields "values" = false) :
    concat a b = .error "runtime_error" := by
  rcases h with h | h <;> simp [concat, ho, h]

/-! #### coordinates -/

/-- **Linear axis coordinates are `offset + i × sampling`**, `i = 0 … n−1` (numeric `offset` `o` and `sampling` `d`). -/
theorem linear_coordinates (a : Axis) (n : Nat) (o d : Rat) (hl : isLinear a.cls = true) (ho : isOrdinal a.cls = false)
    (hof : numField? a "offset" = some o) (hsa : numField? a "sampling" = some d) :
    coordinates a (n : Int) = .ok ((List.range n).map fun (i : Nat) => V.num (o + (i : Rat) * d)) := by
  simp only [coordinates, ho, Bool.false_eq_true, if_false, hl, if_true, hof, hsa]
  unfold AbtemVerif.Scan.axisCoordinates AbtemVerif.Gen.Scan.coordStart AbtemVerif.Gen.Scan.coordStop
    AbtemVerif.Gen.Scan.coordNum AbtemVerif.Gen.Scan.coordEndpoint
  rw [linspaceI_nonneg]
  have : o + d * ((n : Int) : Rat) = o + (n : Rat) * d := by push_cast; ring
  rw [this, linspace_open_of_step]
  simp [Except.map, List.map_map, Function.comp]

/-- a linear axis whose offset or sampling is not a number has no coordinates (TypeError) -/
theorem linear_coordinates_non_numeric (a : Axis) (n : Int) (hl : isLinear a.cls = true) (ho : isOrdinal a.cls = false)
    (h : numField? a "offset" = none ∨ numField? a "sampling" = none) : coordinates a n = .error "type_error" := by
  rcases h with h | h
  · simp [coordinates, ho, hl, h]
  · rcases ho' : numField? a "offset" with _ | o <;> simp [coordinates, ho, hl, h, ho']

/-- **Forward slice of a linear axis** (`LinearAxis.__getitem__`, fix 4dde25c3): the result is the same class with
`offset + start·sampling` and `sampling·step`, i.e. its coordinate `k` is coordinate `start + k·step` of the original;
a negative start, a step below 1 or a non-slice item raise TypeError. -/
theorem linear_getitem_slice (a : Axis) (st sp : Nat) (stop : Option Int) (o d : Rat) (hl : isSubclass a.cls "LinearAxis" = true)
    (ho : isOrdinal a.cls = false) (hsp : 1 ≤ sp) (hof : numField? a "offset" = some o) (hsa : numField? a "sampling" = some d) :
    getitem a (.slice (some (st : Int)) stop (some (sp : Int)))
      = construct a.cls (setField (setField a.fields "offset" (.num (o + (st : Rat) * d))) "sampling" (.num (d * (sp : Rat)))) ∧
    ∀ k : Nat, (o + (st : Rat) * d) + (k : Rat) * (d * (sp : Rat)) = o + ((st + k * sp : Nat) : Rat) * d := by
  constructor
  · have h1 : ¬ (((st : Int) < 0) ∨ ((sp : Int) < 1)) := by omega
    simp only [getitem, ho, Bool.false_eq_true, if_false, hl, if_true, Option.getD_some, h1, hof, hsa, Int.cast_natCast]
  · intro k; push_cast; ring

theorem linear_getitem_rejects (a : Axis) (it : Item) (hl : isSubclass a.cls "LinearAxis" = true) (ho : isOrdinal a.cls = false)
    (h : (∀ x y z, it ≠ .slice x y z) ∨ ∃ x y z, it = .slice x y z ∧ (x.getD 0 < 0 ∨ z.getD 1 < 1)) :
    getitem a it = .error "type_error" := by
  rcases h with h | ⟨x, y, z, rfl, h⟩
  · cases it with
    | slice x y z => exact absurd rfl (h x y z)
    | idx i => simp [getitem, ho, hl]
    | ints l => simp [getitem, ho, hl]
    | mask l => simp [getitem, ho, hl]
  · simp [getitem, ho, hl, h]

/-- **Pieces of one linear axis join back** (`LinearAxis.concatenate`, fix 5d453b12): a linear axis and an axis of a
subclass whose fields agree with it once the offset is aligned concatenate to the first one; otherwise RuntimeError. -/
theorem linear_concat (a b : Axis) (hl : isLinear a.cls = true) (ho : isOrdinal a.cls = false) :
    concat a b = if ((a.fields.lookup "_concatenate") == some (V.bool true) && isLinear b.cls && isSubclass b.cls a.cls
        && fieldsEq a.fields (setField b.fields "offset" ((a.fields.lookup "offset").getD V.none)) "") = true
      then .ok a else .error "runtime_error" := by
  simp [concat, ho, hl]

/-- the coordinates of an ordinal axis are its values -/
theorem ordinal_coordinates (a : Axis) (n : Int) (ho : isOrdinal a.cls = true) : coordinates a n = .ok (values a) := by
  simp [coordinates, ho]

/-- linear and ordinal classes are disjoint in the class table (hypotheses of `linear_coordinates` are satisfiable
for exactly the LinearAxis family) -/
theorem table_linear_not_ordinal :
    axisClasses.all (fun r => !(isLinear r.1 && isOrdinal r.1)) = true := by decide +kernel

/-! ### non-vacuity -/
example : (match construct "ScanAxis" [("sampling", V.num (1/2)), ("offset", V.num 1)] with
    | .ok a => isLinear a.cls && !isOrdinal a.cls
    | .error _ => false) = true := by decide +kernel
example : (match construct "PositionsAxis" [("values", V.tup [V.tup [V.num 0, V.num 1], V.tup [V.num 2, V.num 3]])] with
    | .ok a => isOrdinal a.cls && (values a).length == 2
    | .error _ => false) = true := by decide +kernel
example : (match select [V.num 1, V.num 2, V.num 3, V.num 4] (.slice (some 1) none (some 2)) with
    | .ok l => l == [V.num 2, V.num 4]
    | .error _ => false) = true := by decide +kernel
example : (match construct "OrdinalAxis" [("values", V.tup [V.num 1])], construct "OrdinalAxis" [("values", V.tup [V.num 2])] with
    | .ok a, .ok b => isSubclass b.cls a.cls && fieldsEq a.fields b.fields "values"
    | _, _ => false) = true := by decide +kernel

end AbtemVerif.Props.C35
