/-
C22 — Cartesian and polar aberration conversions describe the same aberration.

Generated (tools/py2lean.py, every run): each assignment of `polar2cartesian` (`p2c_*`, constant `k` = `p2cK`) and of
`cartesian2polar` (`c2p_*`) in abtem/transfer.py, and the chi accumulation statements of
`Aberrations._evaluate_from_angular_grid` (`Gen.ChiR.chiTerm1…5`).  Glue: the two dicts as records (`p2c`, `c2p`; a missing
key of the `defaultdict` is 0).

Main theorem: for all values of C10, C12, phi12, C21, phi21, C23, phi23, C30, C32, phi32, C34, phi34 and all α, φ, the
aberration function of `cartesian2polar(polar2cartesian(p))` equals that of `p` (harmonic addition; `k = 1 + √2`,
`4·arctan(1/k) = π/2`, prefactor `(1+k²)²/(4(k³−k)) = 1`).
-/
import AbtemVerif.Gen.AberrConvR
import AbtemVerif.Gen.ChiR
import Mathlib.Analysis.SpecialFunctions.Complex.Arg
import Mathlib.Analysis.SpecialFunctions.Trigonometric.Arctan
import Mathlib.Analysis.SpecialFunctions.Sqrt
import Mathlib.Tactic.FieldSimp
import Mathlib.Tactic.Ring
import Mathlib.Tactic.Linarith
import Mathlib.Tactic.LinearCombination
import Mathlib.Tactic.NormNum
import Mathlib.Tactic.Positivity

namespace AbtemVerif.Props.C22
open AbtemVerif AbtemVerif.Py AbtemVerif.Gen.AberrConvR AbtemVerif.Gen.ChiR

/-! ### harmonic addition -/

/-- `√(a²+b²)·cos(ψ − arctan2(b, a)) = a cos ψ + b sin ψ` (numpy's `arctan2(y, x)` = `arg(x + iy)`). -/
theorem harmonic_addition (a b ψ : ℝ) :
    Real.sqrt (a ^ 2 + b ^ 2) * Real.cos (ψ - pyArctan2 b a) = a * Real.cos ψ + b * Real.sin ψ := by
  unfold pyArctan2
  set z : ℂ := ⟨a, b⟩ with hz
  have hn : ‖z‖ = Real.sqrt (a ^ 2 + b ^ 2) := by rw [Complex.norm_eq_sqrt_sq_add_sq]
  by_cases h0 : z = 0
  · have ha : a = 0 := by simpa [hz] using congrArg Complex.re h0
    have hb : b = 0 := by simpa [hz] using congrArg Complex.im h0
    simp [ha, hb]
  · have hpos : ‖z‖ ≠ 0 := by simpa using h0
    rw [Real.cos_sub, Complex.cos_arg h0, Complex.sin_arg, ← hn]
    field_simp
    simp [hz]

/-- the `+` form: `√(a²+b²)·cos(ψ + arctan2(b, a)) = a cos ψ − b sin ψ` -/
theorem harmonic_addition' (a b ψ : ℝ) :
    Real.sqrt (a ^ 2 + b ^ 2) * Real.cos (ψ + pyArctan2 b a) = a * Real.cos ψ - b * Real.sin ψ := by
  have h := harmonic_addition a b (-ψ)
  have e : -ψ - pyArctan2 b a = -(ψ + pyArctan2 b a) := by ring
  rw [e, Real.cos_neg, Real.cos_neg, Real.sin_neg] at h
  linarith

/-! ### the constants of the C34b line -/

lemma sqrt_eight : Real.sqrt 8 = 2 * Real.sqrt 2 := by
  rw [show (8 : ℝ) = 2 ^ 2 * 2 by norm_num, Real.sqrt_mul (by positivity), Real.sqrt_sq (by norm_num)]

lemma sq_sqrt_two : Real.sqrt 2 ^ 2 = 2 := Real.sq_sqrt (by norm_num)

/-- `k = √(3 + √8) = 1 + √2` -/
theorem k_eq : p2cK = 1 + Real.sqrt 2 := by
  unfold p2cK
  have h : (3 : ℝ) + Real.sqrt 8 = (1 + Real.sqrt 2) ^ 2 := by
    rw [sqrt_eight]; linear_combination (-1 : ℝ) * sq_sqrt_two
  rw [h, Real.sqrt_sq (by positivity)]

/-- `1/k = √2 − 1` -/
lemma inv_k : 1 / p2cK = Real.sqrt 2 - 1 := by
  rw [k_eq]
  have hpos : (1 + Real.sqrt 2) ≠ 0 := by positivity
  field_simp
  linear_combination (-1 : ℝ) * sq_sqrt_two

/-- `4·arctan(1/k) = π/2` -/
theorem four_arctan_inv_k : 4 * Real.arctan (1 / p2cK) = Real.pi / 2 := by
  rw [inv_k]
  have h1 : (1 : ℝ) < Real.sqrt 2 := by
    rw [show (1 : ℝ) = Real.sqrt 1 by simp]; exact Real.sqrt_lt_sqrt (by norm_num) (by norm_num)
  have h2 : Real.sqrt 2 < 2 := by
    rw [show (2 : ℝ) = Real.sqrt 4 by rw [show (4 : ℝ) = 2 ^ 2 by norm_num, Real.sqrt_sq (by norm_num)]]
    exact Real.sqrt_lt_sqrt (by norm_num) (by norm_num)
  have two := Real.two_mul_arctan (x := Real.sqrt 2 - 1) (by linarith) (by linarith)
  have hx : 2 * (Real.sqrt 2 - 1) / (1 - (Real.sqrt 2 - 1) ^ 2) = 1 := by
    have hd : 1 - (Real.sqrt 2 - 1) ^ 2 = 2 * (Real.sqrt 2 - 1) := by linear_combination (-1 : ℝ) * sq_sqrt_two
    rw [hd]
    exact div_self (by nlinarith)
  rw [hx, Real.arctan_one] at two
  linarith

/-- the prefactor `1/4·(1+k²)²/(k³−k)` is 1 -/
theorem prefactor_eq_one : 1 / (4 : ℝ) * (1 + p2cK ^ 2) ^ 2 / (p2cK ^ 3 - p2cK) = 1 := by
  rw [k_eq]
  have hs := sq_sqrt_two
  have hpos : 0 < Real.sqrt 2 := Real.sqrt_pos.mpr (by norm_num)
  have hd : (1 + Real.sqrt 2) ^ 3 - (1 + Real.sqrt 2) = 6 + 4 * Real.sqrt 2 := by
    linear_combination (3 + Real.sqrt 2) * hs
  have hn : (1 + (1 + Real.sqrt 2) ^ 2) ^ 2 = 4 * (6 + 4 * Real.sqrt 2) := by
    linear_combination (10 + 4 * Real.sqrt 2 + Real.sqrt 2 ^ 2) * hs
  rw [hd, hn]
  have : (6 + 4 * Real.sqrt 2) ≠ 0 := by positivity
  field_simp

/-! ### closed forms of the Cartesian coefficients -/

theorem p2c_C32b_eq (p : PolarCoeffs ℝ) : p2c_C32b p = p.C32 * Real.sin (2 * p.phi32) := by
  unfold p2c_C32b; rw [Real.cos_pi_div_two_sub]

theorem p2c_C34a_eq (p : PolarCoeffs ℝ) : p2c_C34a p = p.C34 * Real.cos (4 * p.phi34) := by
  unfold p2c_C34a
  rw [show (-4 : ℝ) * p.phi34 = -(4 * p.phi34) by ring, Real.cos_neg]

theorem p2c_C34b_eq (p : PolarCoeffs ℝ) : p2c_C34b p = p.C34 * Real.sin (4 * p.phi34) := by
  unfold p2c_C34b
  rw [prefactor_eq_one, four_arctan_inv_k, Real.cos_pi_div_two_sub]
  ring

/-! ### glue: the two dicts as records -/

/-- `polar2cartesian` -/
noncomputable def p2c (p : PolarCoeffs ℝ) : CartesianCoeffs ℝ :=
  ⟨p2c_C10 p, p2c_C12a p, p2c_C12b p, p2c_C21a p, p2c_C21b p, p2c_C23a p, p2c_C23b p, p2c_C30 p, p2c_C32a p, p2c_C32b p,
   p2c_C34a p, p2c_C34b p⟩

/-- `cartesian2polar` (the keys it does not set are absent, i.e. 0 for every consumer) -/
noncomputable def c2p (c : CartesianCoeffs ℝ) : PolarCoeffs ℝ :=
  { PolarCoeffs.const (0 : ℝ) with
    C10 := c2p_C10 c, C12 := c2p_C12 c, phi12 := c2p_phi12 c, C21 := c2p_C21 c, phi21 := c2p_phi21 c, C23 := c2p_C23 c,
    phi23 := c2p_phi23 c, C30 := c2p_C30 c, C32 := c2p_C32 c, phi32 := c2p_phi32 c, C34 := c2p_C34 c, phi34 := c2p_phi34 c }

/-- the part of a coefficient set that the conversion supports (orders 1–3) -/
def supported (p : PolarCoeffs ℝ) : PolarCoeffs ℝ :=
  { PolarCoeffs.const (0 : ℝ) with
    C10 := p.C10, C12 := p.C12, phi12 := p.phi12, C21 := p.C21, phi21 := p.phi21, C23 := p.C23, phi23 := p.phi23,
    C30 := p.C30, C32 := p.C32, phi32 := p.phi32, C34 := p.C34, phi34 := p.phi34 }

/-- the generated aberration function (five accumulation statements, see C21) -/
noncomputable def chi (p : PolarCoeffs ℝ) (α φ : ℝ) : ℝ :=
  chiTerm5 (chiTerm4 (chiTerm3 (chiTerm2 (chiTerm1 0 α φ p) α φ p) α φ p) α φ p) α φ p

/-! ### term-wise round trips -/
section terms
variable (p : PolarCoeffs ℝ) (φ : ℝ)

/-- two-fold astigmatism (also used for C32) -/
lemma roundtrip_neg_cos (C θ : ℝ) :
    -Real.sqrt ((-C * Real.cos (2 * θ)) ^ 2 + (C * Real.sin (2 * θ)) ^ 2)
        * Real.cos (2 * (φ - -pyArctan2 (C * Real.sin (2 * θ)) (-C * Real.cos (2 * θ)) / 2))
      = C * Real.cos (2 * (φ - θ)) := by
  have e : 2 * (φ - -pyArctan2 (C * Real.sin (2 * θ)) (-C * Real.cos (2 * θ)) / 2)
      = 2 * φ + pyArctan2 (C * Real.sin (2 * θ)) (-C * Real.cos (2 * θ)) := by ring
  rw [e, neg_mul, harmonic_addition']
  rw [show 2 * (φ - θ) = 2 * φ - 2 * θ by ring, Real.cos_sub]
  ring

lemma term_C12 : (c2p (p2c p)).C12 * Real.cos (2 * (φ - (c2p (p2c p)).phi12)) = p.C12 * Real.cos (2 * (φ - p.phi12)) := by
  simp only [c2p, p2c, c2p_C12, c2p_phi12, p2c_C12a, p2c_C12b]
  exact roundtrip_neg_cos φ p.C12 p.phi12

lemma term_C32 : (c2p (p2c p)).C32 * Real.cos (2 * (φ - (c2p (p2c p)).phi32)) = p.C32 * Real.cos (2 * (φ - p.phi32)) := by
  simp only [c2p, p2c, c2p_C32, c2p_phi32, p2c_C32a]
  rw [p2c_C32b_eq]
  exact roundtrip_neg_cos φ p.C32 p.phi32

lemma term_C21 : (c2p (p2c p)).C21 * Real.cos (φ - (c2p (p2c p)).phi21) = p.C21 * Real.cos (φ - p.phi21) := by
  simp only [c2p, p2c, c2p_C21, c2p_phi21, p2c_C21a, p2c_C21b]
  rw [add_comm ((p.C21 * Real.sin p.phi21) ^ 2), harmonic_addition, Real.cos_sub]
  ring

lemma term_C23 : (c2p (p2c p)).C23 * Real.cos (3 * (φ - (c2p (p2c p)).phi23)) = p.C23 * Real.cos (3 * (φ - p.phi23)) := by
  simp only [c2p, p2c, c2p_C23, c2p_phi23, p2c_C23a, p2c_C23b]
  have e : 3 * (φ - -pyArctan2 (-p.C23 * Real.sin (3 * p.phi23)) (p.C23 * Real.cos (3 * p.phi23)) / 3)
      = 3 * φ + pyArctan2 (-p.C23 * Real.sin (3 * p.phi23)) (p.C23 * Real.cos (3 * p.phi23)) := by ring
  rw [e, add_comm ((-p.C23 * Real.sin (3 * p.phi23)) ^ 2), harmonic_addition']
  rw [show 3 * (φ - p.phi23) = 3 * φ - 3 * p.phi23 by ring, Real.cos_sub]
  ring

lemma term_C34 : (c2p (p2c p)).C34 * Real.cos (4 * (φ - (c2p (p2c p)).phi34)) = p.C34 * Real.cos (4 * (φ - p.phi34)) := by
  simp only [c2p, p2c, c2p_C34, c2p_phi34]
  rw [p2c_C34a_eq, p2c_C34b_eq]
  have e : 4 * (φ - pyArctan2 (p.C34 * Real.sin (4 * p.phi34)) (p.C34 * Real.cos (4 * p.phi34)) / 4)
      = 4 * φ - pyArctan2 (p.C34 * Real.sin (4 * p.phi34)) (p.C34 * Real.cos (4 * p.phi34)) := by ring
  rw [e, harmonic_addition]
  rw [show 4 * (φ - p.phi34) = 4 * φ - 4 * p.phi34 by ring, Real.cos_sub]
  ring

end terms

/-! ### the property -/

/-- Converting polar coefficients to Cartesian form and back yields coefficients with the same aberration function, for
every value of the twelve supported coefficients and every α, φ. -/
theorem roundtrip_chi_eq (p : PolarCoeffs ℝ) (α φ : ℝ) : chi (c2p (p2c p)) α φ = chi (supported p) α φ := by
  have h12 := term_C12 p φ
  have h32 := term_C32 p φ
  have h21 := term_C21 p φ
  have h23 := term_C23 p φ
  have h34 := term_C34 p φ
  have hC10 : (c2p (p2c p)).C10 = p.C10 := rfl
  have hC30 : (c2p (p2c p)).C30 = p.C30 := rfl
  have z : ∀ q : PolarCoeffs ℝ, q = c2p (p2c p) ∨ q = supported p →
      q.C41 = 0 ∧ q.C43 = 0 ∧ q.C45 = 0 ∧ q.C50 = 0 ∧ q.C52 = 0 ∧ q.C54 = 0 ∧ q.C56 = 0 := by
    rintro q (rfl | rfl) <;> simp [c2p, supported, PolarCoeffs.const, PolarCoeffs.ofList]
  obtain ⟨a1, a2, a3, a4, a5, a6, a7⟩ := z _ (Or.inl rfl)
  obtain ⟨b1, b2, b3, b4, b5, b6, b7⟩ := z _ (Or.inr rfl)
  have s : (supported p).C10 = p.C10 ∧ (supported p).C12 = p.C12 ∧ (supported p).phi12 = p.phi12 ∧ (supported p).C21 = p.C21
      ∧ (supported p).phi21 = p.phi21 ∧ (supported p).C23 = p.C23 ∧ (supported p).phi23 = p.phi23 ∧ (supported p).C30 = p.C30
      ∧ (supported p).C32 = p.C32 ∧ (supported p).phi32 = p.phi32 ∧ (supported p).C34 = p.C34 ∧ (supported p).phi34 = p.phi34 :=
    ⟨rfl, rfl, rfl, rfl, rfl, rfl, rfl, rfl, rfl, rfl, rfl, rfl⟩
  obtain ⟨s1, s2, s3, s4, s5, s6, s7, s8, s9, s10, s11, s12⟩ := s
  unfold chi chiTerm1 chiTerm2 chiTerm3 chiTerm4 chiTerm5
  rw [a1, a2, a3, a4, a5, a6, a7, b1, b2, b3, b4, b5, b6, b7, s1, s2, s3, s4, s5, s6, s7, s8, s9, s10, s11, s12, hC10, hC30]
  linear_combination (1 / 2 * α ^ 2) * h12 + (1 / 3 * α ^ 3) * h21 + (1 / 3 * α ^ 3) * h23 + (1 / 4 * α ^ 4) * h32
    + (1 / 4 * α ^ 4) * h34

/-- In particular, for a coefficient set that only uses supported coefficients the round trip preserves χ exactly. -/
theorem roundtrip_chi_eq_of_supported (p : PolarCoeffs ℝ) (α φ : ℝ) (h : supported p = p) :
    chi (c2p (p2c p)) α φ = chi p α φ := by
  rw [roundtrip_chi_eq, h]

/-- The round trip normalises the representation: magnitudes of C21, C23, C34 come back non-negative, those of C12, C32
non-positive (so the coefficients themselves are in general *not* reproduced, only the aberration). -/
theorem roundtrip_signs (p : PolarCoeffs ℝ) :
    0 ≤ (c2p (p2c p)).C21 ∧ 0 ≤ (c2p (p2c p)).C23 ∧ 0 ≤ (c2p (p2c p)).C34 ∧ (c2p (p2c p)).C12 ≤ 0 ∧ (c2p (p2c p)).C32 ≤ 0 := by
  simp only [c2p, c2p_C21, c2p_C23, c2p_C34, c2p_C12, c2p_C32]
  exact ⟨Real.sqrt_nonneg _, Real.sqrt_nonneg _, Real.sqrt_nonneg _, neg_nonpos.mpr (Real.sqrt_nonneg _),
    neg_nonpos.mpr (Real.sqrt_nonneg _)⟩

/-- magnitudes are preserved up to sign -/
theorem roundtrip_magnitudes (p : PolarCoeffs ℝ) :
    (c2p (p2c p)).C21 = |p.C21| ∧ (c2p (p2c p)).C23 = |p.C23| ∧ (c2p (p2c p)).C34 = |p.C34| ∧ (c2p (p2c p)).C12 = -|p.C12|
      ∧ (c2p (p2c p)).C32 = -|p.C32| ∧ (c2p (p2c p)).C10 = p.C10 ∧ (c2p (p2c p)).C30 = p.C30 := by
  have key : ∀ C x : ℝ, Real.sqrt ((C * Real.sin x) ^ 2 + (C * Real.cos x) ^ 2) = |C| := by
    intro C x
    rw [show (C * Real.sin x) ^ 2 + (C * Real.cos x) ^ 2 = C ^ 2 * (Real.sin x ^ 2 + Real.cos x ^ 2) by ring,
      Real.sin_sq_add_cos_sq, mul_one, Real.sqrt_sq_eq_abs]
  have key' : ∀ C x : ℝ, Real.sqrt ((C * Real.cos x) ^ 2 + (C * Real.sin x) ^ 2) = |C| := by
    intro C x; rw [add_comm]; exact key C x
  refine ⟨?_, ?_, ?_, ?_, ?_, rfl, rfl⟩
  · simp only [c2p, p2c, c2p_C21, p2c_C21a, p2c_C21b]; exact key _ _
  · simp only [c2p, p2c, c2p_C23, p2c_C23a, p2c_C23b]
    rw [show (-p.C23 * Real.sin (3 * p.phi23)) ^ 2 = (p.C23 * Real.sin (3 * p.phi23)) ^ 2 by ring]; exact key _ _
  · simp only [c2p, p2c, c2p_C34]; rw [p2c_C34a_eq, p2c_C34b_eq]; exact key' _ _
  · simp only [c2p, p2c, c2p_C12, p2c_C12a, p2c_C12b]
    rw [show (-p.C12 * Real.cos (2 * p.phi12)) ^ 2 = (p.C12 * Real.cos (2 * p.phi12)) ^ 2 by ring, key']
  · simp only [c2p, p2c, c2p_C32, p2c_C32a]; rw [p2c_C32b_eq]
    rw [show (-p.C32 * Real.cos (2 * p.phi32)) ^ 2 = (p.C32 * Real.cos (2 * p.phi32)) ^ 2 by ring, key']

/-! ### Cartesian → polar → Cartesian -/

lemma polar_re (a b : ℝ) : Real.sqrt (a ^ 2 + b ^ 2) * Real.cos (pyArctan2 b a) = a := by
  unfold pyArctan2
  have h := Complex.norm_mul_cos_arg (⟨a, b⟩ : ℂ)
  rw [Complex.norm_eq_sqrt_sq_add_sq] at h
  exact h

lemma polar_im (a b : ℝ) : Real.sqrt (a ^ 2 + b ^ 2) * Real.sin (pyArctan2 b a) = b := by
  unfold pyArctan2
  have h := Complex.norm_mul_sin_arg (⟨a, b⟩ : ℂ)
  rw [Complex.norm_eq_sqrt_sq_add_sq] at h
  exact h

/-- The other direction (not required by the property statement, which is polar → Cartesian → polar): Cartesian → polar → Cartesian
reproduces every Cartesian coefficient exactly, so a Cartesian description loses nothing. -/
theorem cartesian_roundtrip (c : CartesianCoeffs ℝ) : p2c (c2p c) = c := by
  have e2 : ∀ t : ℝ, 2 * (-t / 2) = -t := fun t => by ring
  have e3 : ∀ t : ℝ, 3 * (-t / 3) = -t := fun t => by ring
  have e4 : ∀ t : ℝ, 4 * (t / 4) = t := fun t => by ring
  have e4' : ∀ t : ℝ, -4 * (t / 4) = -t := fun t => by ring
  have hc : p2c (c2p c) = ⟨(p2c (c2p c)).C10, (p2c (c2p c)).C12a, (p2c (c2p c)).C12b, (p2c (c2p c)).C21a, (p2c (c2p c)).C21b,
      (p2c (c2p c)).C23a, (p2c (c2p c)).C23b, (p2c (c2p c)).C30, (p2c (c2p c)).C32a, (p2c (c2p c)).C32b, (p2c (c2p c)).C34a,
      (p2c (c2p c)).C34b⟩ := rfl
  rw [hc]
  obtain ⟨c10, a12, b12, a21, b21, a23, b23, c30, a32, b32, a34, b34⟩ := c
  congr 1
  · simp only [p2c, c2p, p2c_C12a, c2p_C12, c2p_phi12]
    rw [e2, Real.cos_neg, neg_neg, polar_re]
  · simp only [p2c, c2p, p2c_C12b, c2p_C12, c2p_phi12]
    rw [e2, Real.sin_neg, neg_mul_neg, polar_im]
  · simp only [p2c, c2p, p2c_C21a, c2p_C21, c2p_phi21]
    rw [add_comm, polar_im]
  · simp only [p2c, c2p, p2c_C21b, c2p_C21, c2p_phi21]
    rw [add_comm, polar_re]
  · simp only [p2c, c2p, p2c_C23a, c2p_C23, c2p_phi23]
    rw [e3, Real.sin_neg, neg_mul_neg, add_comm, polar_im]
  · simp only [p2c, c2p, p2c_C23b, c2p_C23, c2p_phi23]
    rw [e3, Real.cos_neg, add_comm, polar_re]
  · simp only [p2c, c2p, p2c_C32a, c2p_C32, c2p_phi32]
    rw [e2, Real.cos_neg, neg_neg, polar_re]
  · simp only [p2c]
    rw [p2c_C32b_eq]
    simp only [c2p, c2p_C32, c2p_phi32]
    rw [e2, Real.sin_neg, neg_mul_neg, polar_im]
  · simp only [p2c]
    rw [p2c_C34a_eq]
    simp only [c2p, c2p_C34, c2p_phi34]
    rw [e4, polar_re]
  · simp only [p2c]
    rw [p2c_C34b_eq]
    simp only [c2p, c2p_C34, c2p_phi34]
    rw [e4, polar_im]

/-! ### non-vacuity -/
example : supported (PolarCoeffs.const (0 : ℝ)) = PolarCoeffs.const 0 := rfl

end AbtemVerif.Props.C22
