/-
C14 — Diffraction pattern geometry is self-consistent.

Statements are about `AbtemVerif.FftGeom` (Model/FftGeom.lean), whose branch tests, slice bounds, parity
tests/returns, numeric-angle shape, frequency limits and block radius are the *generated* definitions of
`Gen/FftMasks.lean` / `Gen/BandlimitR.lean` (regenerated from abtem/core/fft.py, abtem/waves.py,
abtem/measurements.py on every run).  Quantifiers: every pair of sizes `n₁, n₂ ≥ 1` (odd or even, crop or pad),
every array, every position, every shape / parity request, every sampling and radius.
-/
import AbtemVerif.Model.FftGeom
import AbtemVerif.Lib.Linspace
import AbtemVerif.Gen.BandlimitR
import Mathlib.Tactic.Ring
import Mathlib.Tactic.Linarith

namespace AbtemVerif.Props.C14
open AbtemVerif.FftGeom AbtemVerif.Py AbtemVerif.Np AbtemVerif.Gen.FftMasks

/-! ### helper lemmas -/

lemma pyFloorDiv_two (a : Int) : pyFloorDiv a 2 = a / 2 := Int.fdiv_eq_ediv_of_nonneg a (by norm_num)
lemma pyMod_two (a : Int) : pyMod a 2 = a % 2 := Int.fmod_eq_emod_of_nonneg a (by norm_num)

/-- closed form of the mask on the larger axis (length `N`) for the smaller size `n`:
the first `⌈n/2⌉` and the last `⌊n/2⌋` positions -/
def headTail (N n : Nat) : Nat → Bool :=
  fun i => decide (i < (n + 1) / 2) || (decide (N - n / 2 ≤ i) && decide (i < N))

/-- the three-way branch of `_fft_interpolation_masks_1d` for the larger axis -/
def bigMask (N : Nat) (one even : Bool) (eh et oh ot : Int) : Nat → Bool :=
  if one then setFirst maskZeros
  else if even then setTail N (setHead N maskZeros eh) et
  else setTail N (setHead N maskZeros oh) ot

lemma bigMask_closed (N n : Nat) (h1 : 1 ≤ n) (h : n ≤ N) :
    bigMask N (decide ((n : Int) = 1)) (decide (pyMod (n : Int) 2 = 0)) (pyFloorDiv n 2) (pyFloorDiv (-(n : Int)) 2)
      (pyFloorDiv n 2 + 1) (pyFloorDiv (-(n : Int)) 2 + 1) = headTail N n := by
  funext i
  simp only [pyFloorDiv_two, pyMod_two, bigMask]
  by_cases hn1 : n = 1
  · subst hn1
    simp only [Nat.cast_one, decide_true, if_true]
    rw [Bool.eq_iff_iff]
    simp [setFirst, maskZeros, headTail]
  · have : ¬ ((n : Int) = 1) := by omega
    simp only [this, decide_false, Bool.false_eq_true, if_false]
    by_cases he : (n : Int) % 2 = 0
    · simp only [he, decide_true, if_true]
      simp only [setTail, setHead, maskZeros, sliceBound, headTail, Bool.false_or]
      rw [Bool.eq_iff_iff]
      simp only [Bool.or_eq_true, Bool.and_eq_true, decide_eq_true_eq]
      split_ifs <;> simp only [decide_eq_true_eq] <;> omega
    · simp only [he, decide_false, Bool.false_eq_true, if_false]
      simp only [setTail, setHead, maskZeros, sliceBound, headTail, Bool.false_or]
      rw [Bool.eq_iff_iff]
      simp only [Bool.or_eq_true, Bool.and_eq_true, decide_eq_true_eq]
      split_ifs <;> simp only [decide_eq_true_eq] <;> omega

lemma trueIdx_all (n : Nat) : trueIdx n (maskAll n) = List.range n := by
  unfold trueIdx maskAll
  apply List.filter_eq_self.2
  intro a ha
  simpa using ha

/-- positions selected by the head/tail mask, in increasing order -/
def htIdx (N n : Nat) : List Nat := List.range' 0 ((n + 1) / 2) ++ List.range' (N - n / 2) (n / 2)

lemma trueIdx_headTail (N n : Nat) (h : n ≤ N) : trueIdx N (headTail N n) = htIdx N n := by
  unfold trueIdx htIdx
  have hsplit : List.range N
      = List.range' 0 ((n + 1) / 2) ++ (List.range' ((n + 1) / 2) (N - n / 2 - (n + 1) / 2) ++ List.range' (N - n / 2) (n / 2)) := by
    rw [List.range_eq_range']
    have e1 := @List.range'_append ((n + 1) / 2) (N - n / 2 - (n + 1) / 2) (n / 2) 1
    have e2 := @List.range'_append 0 ((n + 1) / 2) (N - n / 2 - (n + 1) / 2 + n / 2) 1
    have a1 : (n + 1) / 2 + 1 * (N - n / 2 - (n + 1) / 2) = N - n / 2 := by omega
    have a2 : 0 + 1 * ((n + 1) / 2) = (n + 1) / 2 := by omega
    have a3 : (n + 1) / 2 + (N - n / 2 - (n + 1) / 2 + n / 2) = N := by omega
    rw [a1] at e1
    rw [a2, e1.symm, a3] at e2
    exact e2.symm
  rw [hsplit, List.filter_append, List.filter_append]
  have f1 : (List.range' 0 ((n + 1) / 2)).filter (headTail N n) = List.range' 0 ((n + 1) / 2) := by
    apply List.filter_eq_self.2
    intro a ha
    have := List.mem_range'_1.1 ha
    simp only [headTail, Bool.or_eq_true, Bool.and_eq_true, decide_eq_true_eq]
    omega
  have f2 : (List.range' ((n + 1) / 2) (N - n / 2 - (n + 1) / 2)).filter (headTail N n) = [] := by
    apply List.filter_eq_nil_iff.2
    intro a ha
    have := List.mem_range'_1.1 ha
    simp only [headTail, Bool.or_eq_true, Bool.and_eq_true, decide_eq_true_eq]
    omega
  have f3 : (List.range' (N - n / 2) (n / 2)).filter (headTail N n) = List.range' (N - n / 2) (n / 2) := by
    apply List.filter_eq_self.2
    intro a ha
    have := List.mem_range'_1.1 ha
    simp only [headTail, Bool.or_eq_true, Bool.and_eq_true, decide_eq_true_eq]
    omega
  rw [f1, f2, f3, List.nil_append]

lemma htIdx_length (N n : Nat) : (htIdx N n).length = n := by
  simp [htIdx]; omega

lemma zip_range' (a b k : Nat) :
    (List.range' a k).zip (List.range' b k) = (List.range k).map fun x => (a + x, b + x) := by
  rw [List.range'_eq_map_range, List.range'_eq_map_range (s := b), List.zip_map']

/-- the position on the larger axis that carries the same signed frequency as position `p` of the smaller axis -/
def bigPos (N n p : Nat) : Nat := if p < (n + 1) / 2 then p else p + N - n

lemma range_zip_htIdx (N n : Nat) (h : n ≤ N) :
    (List.range n).zip (htIdx N n) = (List.range n).map fun p => (p, bigPos N n p) := by
  have hr : List.range n = List.range' 0 ((n + 1) / 2) ++ List.range' ((n + 1) / 2) (n / 2) := by
    rw [List.range_eq_range']
    have e := @List.range'_append 0 ((n + 1) / 2) (n / 2) 1
    have a : (n + 1) / 2 + n / 2 = n := by omega
    have b : 0 + 1 * ((n + 1) / 2) = (n + 1) / 2 := by omega
    rw [a, b] at e
    exact e.symm
  unfold htIdx
  rw [hr, List.zip_append (by simp), zip_range', zip_range', List.map_append,
    List.range'_eq_map_range, List.range'_eq_map_range (s := (n + 1) / 2), List.map_map, List.map_map]
  congr 1
  · apply List.map_congr_left
    intro x hx
    have := List.mem_range.1 hx
    simp only [Function.comp, bigPos]
    rw [if_pos (by omega)]
  · apply List.map_congr_left
    intro x hx
    have := List.mem_range.1 hx
    simp only [Function.comp, bigPos]
    rw [if_neg (by omega)]
    congr 1
    omega

lemma htIdx_zip_range (N n : Nat) (h : n ≤ N) :
    (htIdx N n).zip (List.range n) = (List.range n).map fun p => (bigPos N n p, p) := by
  have := congrArg (List.map Prod.swap) (range_zip_htIdx N n h)
  rw [List.map_map] at this
  rw [← List.zip_swap] at this
  simpa [Function.comp_def] using this

/-! ### property theorems: the Fourier crop masks -/

/-- Cropping (`1 ≤ n₂ ≤ n₁`): the input mask is the first `⌈n₂/2⌉` and last `⌊n₂/2⌋` positions, the output
mask is everything. -/
theorem masks1d_crop (n1 n2 : Nat) (h2 : 1 ≤ n2) (h : n2 ≤ n1) :
    masks1d n1 n2 = (headTail n1 n2, maskAll n2) := by
  have hpad : condPad (n1 : Int) (n2 : Int) = false := by simp [condPad]; omega
  unfold masks1d
  simp only [hpad, Bool.false_eq_true, if_false]
  congr 1
  exact bigMask_closed n1 n2 h2 h

/-- Padding (`1 ≤ n₁ < n₂`): the roles are exchanged. -/
theorem masks1d_pad (n1 n2 : Nat) (h1 : 1 ≤ n1) (h : n1 < n2) :
    masks1d n1 n2 = (maskAll n1, headTail n2 n1) := by
  have hpad : condPad (n1 : Int) (n2 : Int) = true := by simp [condPad]; omega
  unfold masks1d
  simp only [hpad, if_true]
  congr 1
  exact bigMask_closed n2 n1 h1 (by omega)

/-- Both masks select exactly `min n₁ n₂` positions, so the boolean-mask assignment never fails and copies
`min n₁ n₂` coefficients. -/
theorem mask_counts (n1 n2 : Nat) (h1 : 1 ≤ n1) (h2 : 1 ≤ n2) :
    (trueIdx n1 (masks1d n1 n2).1).length = min n1 n2 ∧ (trueIdx n2 (masks1d n1 n2).2).length = min n1 n2 := by
  by_cases h : n2 ≤ n1
  · rw [masks1d_crop n1 n2 h2 h, trueIdx_headTail n1 n2 h, trueIdx_all, htIdx_length, List.length_range]
    omega
  · rw [masks1d_pad n1 n2 h1 (by omega), trueIdx_headTail n2 n1 (by omega), trueIdx_all, htIdx_length, List.length_range]
    omega

/-- Cropping pairs output position `p` with input position `bigPos n₁ n₂ p` — for every `p < n₂`, in order. -/
theorem pairs1d_crop (n1 n2 : Nat) (h2 : 1 ≤ n2) (h : n2 ≤ n1) :
    pairs1d n1 n2 = (List.range n2).map fun p => (p, bigPos n1 n2 p) := by
  unfold pairs1d
  rw [masks1d_crop n1 n2 h2 h, trueIdx_headTail n1 n2 h, trueIdx_all]
  exact range_zip_htIdx n1 n2 h

/-- Padding pairs input position `q` with output position `bigPos n₂ n₁ q` — for every `q < n₁`, in order. -/
theorem pairs1d_pad (n1 n2 : Nat) (h1 : 1 ≤ n1) (h : n1 < n2) :
    pairs1d n1 n2 = (List.range n1).map fun q => (bigPos n2 n1 q, q) := by
  unfold pairs1d
  rw [masks1d_pad n1 n2 h1 h, trueIdx_headTail n2 n1 (by omega), trueIdx_all]
  exact htIdx_zip_range n2 n1 (by omega)

/-- The paired positions carry the same signed frequency (`numpy.fft.fftfreq` index) on both grids. -/
theorem bigPos_same_frequency (N n p : Nat) (h1 : 1 ≤ n) (h : n ≤ N) (hp : p < n) :
    fftfreqIndex N (bigPos N n p) = fftfreqIndex n p ∧ bigPos N n p < N := by
  unfold fftfreqIndex bigPos
  split_ifs <;> omega

lemma fftshiftSrc_eq (n j : Nat) (hj : j < n) :
    fftshiftSrc n j = if j < n / 2 then j + (n - n / 2) else j - n / 2 := by
  unfold fftshiftSrc
  split_ifs with hlt
  · exact Nat.mod_eq_of_lt (by omega)
  · have : j + (n - n / 2) = n + (j - n / 2) := by omega
    rw [this, Nat.add_mod_left, Nat.mod_eq_of_lt (by omega)]

/-- **Crop = centred crop (index level).**  Reading the centred (fftshift-ed) cropped axis at `i` reads the same
input coefficient as reading the centred full axis at `i + ⌊n₁/2⌋ − ⌊n₂/2⌋` — for odd and even sizes alike. -/
theorem crop_eq_centred_crop (n1 n2 i : Nat) (h2 : 1 ≤ n2) (h : n2 ≤ n1) (hi : i < n2) :
    bigPos n1 n2 (fftshiftSrc n2 i) = fftshiftSrc n1 (i + (n1 / 2 - n2 / 2)) := by
  rw [fftshiftSrc_eq n2 i hi, fftshiftSrc_eq n1 _ (by omega)]
  unfold bigPos
  split_ifs <;> omega

/-- **Pad = centred zero pad (index level).**  The centred padded axis at `i + ⌊n₂/2⌋ − ⌊n₁/2⌋` holds the input
coefficient that the centred input axis holds at `i`. -/
theorem pad_eq_centred_pad (n1 n2 i : Nat) (h1 : 1 ≤ n1) (h : n1 ≤ n2) (hi : i < n1) :
    fftshiftSrc n2 (i + (n2 / 2 - n1 / 2)) = bigPos n2 n1 (fftshiftSrc n1 i) := by
  rw [fftshiftSrc_eq n1 i hi, fftshiftSrc_eq n2 _ (by omega)]
  unfold bigPos
  split_ifs <;> omega

/-- `ifftshift` undoes `fftshift` position by position (the un-shifted pattern is the inverse shift of the
shifted one), for every length. -/
theorem ifftshiftSrc_fftshiftSrc (n j : Nat) (hj : j < n) :
    fftshiftSrc n (ifftshiftSrc n j) = j ∧ ifftshiftSrc n (fftshiftSrc n j) = j := by
  have hI : ∀ k, k < n → ifftshiftSrc n k = if k < n - n / 2 then k + n / 2 else k - (n - n / 2) := by
    intro k hk
    unfold ifftshiftSrc
    split_ifs with hlt
    · exact Nat.mod_eq_of_lt (by omega)
    · have : k + n / 2 = n + (k - (n - n / 2)) := by omega
      rw [this, Nat.add_mod_left, Nat.mod_eq_of_lt (by omega)]
  constructor
  · rw [hI j hj, fftshiftSrc_eq n _ (by split_ifs <;> omega)]
    split_ifs <;> omega
  · rw [fftshiftSrc_eq n j hj, hI _ (by split_ifs <;> omega)]
    split_ifs <;> omega

/-! ### parity -/

/-- `_ensure_parity` returns a number of the requested parity, for `v = ±1`, changing `n` by at most one step. -/
theorem ensureParity_parity (n : Int) (even : Bool) (v : Int) (hv : v = 1 ∨ v = -1) :
    ∃ m, ensureParity n even v = .ok m ∧ (m % 2 = 0 ↔ even = true) ∧ (m = n ∨ m = n + v) := by
  unfold ensureParity parityTest0 parityTest1 parityRet0 parityRet1 parityRet2
  simp only [pyMod_two]
  have hv' : (!(v == 1 || v == -1)) = false := by
    rcases hv with rfl | rfl <;> simp
  simp only [hv', Bool.false_eq_true, if_false]
  rcases hv with rfl | rfl <;> cases even <;> by_cases hm : n % 2 = 0 <;> simp [hm] <;> omega

/-- Shapes produced for parity `"odd"`, `"even"`, `"same"` have that parity; `"none"` leaves the shape alone;
any other string is rejected. -/
theorem ensureParityOfGpts_parity (new old : Int × Int) :
    (∃ a b, ensureParityOfGpts new old "odd" = .ok (a, b) ∧ a % 2 = 1 ∧ b % 2 = 1) ∧
    (∃ a b, ensureParityOfGpts new old "even" = .ok (a, b) ∧ a % 2 = 0 ∧ b % 2 = 0) ∧
    (∃ a b, ensureParityOfGpts new old "same" = .ok (a, b) ∧ a % 2 = old.1 % 2 ∧ b % 2 = old.2 % 2) ∧
    ensureParityOfGpts new old "none" = .ok new := by
  obtain ⟨a0, ha0, pa0, _⟩ := ensureParity_parity new.1 false 1 (Or.inl rfl)
  obtain ⟨b0, hb0, pb0, _⟩ := ensureParity_parity new.2 false 1 (Or.inl rfl)
  obtain ⟨a1, ha1, pa1, _⟩ := ensureParity_parity new.1 true 1 (Or.inl rfl)
  obtain ⟨b1, hb1, pb1, _⟩ := ensureParity_parity new.2 true 1 (Or.inl rfl)
  obtain ⟨a2, ha2, pa2, _⟩ := ensureParity_parity new.1 (decide (old.1 % 2 = 0)) 1 (Or.inl rfl)
  obtain ⟨b2, hb2, pb2, _⟩ := ensureParity_parity new.2 (decide (old.2 % 2 = 0)) 1 (Or.inl rfl)
  refine ⟨⟨a0, b0, ?_, ?_, ?_⟩, ⟨a1, b1, ?_, ?_, ?_⟩, ⟨a2, b2, ?_, ?_, ?_⟩, ?_⟩
  · simp [ensureParityOfGpts, oddEven0, oddEven1, ha0, hb0]; rfl
  · simp at pa0; omega
  · simp at pb0; omega
  · simp [ensureParityOfGpts, evenEven0, evenEven1, ha1, hb1]; rfl
  · simpa using pa1
  · simpa using pb1
  · simp [ensureParityOfGpts, sameEven0, sameEven1, pyMod_two, ha2, hb2]; rfl
  · simp at pa2; omega
  · simp at pb2; omega
  · simp [ensureParityOfGpts]

theorem ensureParityOfGpts_rejects (new old : Int × Int) (s : String)
    (hs : s ≠ "same" ∧ s ≠ "odd" ∧ s ≠ "even" ∧ s ≠ "none") :
    ensureParityOfGpts new old s = .error "value_error" := by
  simp [ensureParityOfGpts, hs.1, hs.2.1, hs.2.2.1, hs.2.2.2]

/-- A numeric `max_angle ≥ 0` gives, before the parity correction, an odd shape that contains the angle:
`⌈angle/s⌉` pixels on either side of the centre. -/
theorem gptsNumber_odd_and_covers (angle s0 s1 : Rat) (ha : 0 ≤ angle) (h0 : 0 < s0) (h1 : 0 < s1) :
    (gptsNumber angle s0 s1).1 = 2 * (angle / s0).ceil + 1 ∧ (gptsNumber angle s0 s1).2 = 2 * (angle / s1).ceil + 1 ∧
    angle ≤ ((angle / s0).ceil : Rat) * s0 ∧ angle ≤ ((angle / s1).ceil : Rat) * s1 := by
  have key : ∀ s : Rat, 0 < s → pyInt ((2 * pyCeil (angle / s) : Int) : Rat) = 2 * (angle / s).ceil ∧
      angle ≤ ((angle / s).ceil : Rat) * s := by
    intro s hs
    constructor
    · unfold pyInt pyCeil
      have hc : (0 : Int) ≤ (angle / s).ceil := by
        have h1 : (0 : Rat) ≤ (((angle / s).ceil : Int) : Rat) := le_trans (div_nonneg ha hs.le) Rat.le_ceil
        exact_mod_cast h1
      have : (0 : Rat) ≤ ((2 * (angle / s).ceil : Int) : Rat) := by
        exact_mod_cast (by omega : (0 : Int) ≤ 2 * (angle / s).ceil)
      rw [if_pos this, Rat.floor_intCast]
    · have := Rat.le_ceil (x := angle / s)
      calc angle = angle / s * s := by field_simp
        _ ≤ _ := mul_le_mul_of_nonneg_right this hs.le
  unfold gptsNumber
  obtain ⟨k0, c0⟩ := key s0 h0
  obtain ⟨k1, c1⟩ := key s1 h1
  refine ⟨?_, ?_, c0, c1⟩
  · simp only; push_cast at k0 ⊢; rw [k0]
  · simp only; push_cast at k1 ⊢; rw [k1]

/-- Angle-limited patterns have the requested parity (numeric limits and keyword limits alike); `"full"`
returns the wave's own grid. -/
theorem gptsWithin_parity (sel : AngleSel) (old : Int × Int) :
    (gptsWithin .full old "odd" = .ok old) ∧
    (sel ≠ .full → ∃ a b, gptsWithin sel old "odd" = .ok (a, b) ∧ a % 2 = 1 ∧ b % 2 = 1) ∧
    (sel ≠ .full → ∃ a b, gptsWithin sel old "even" = .ok (a, b) ∧ a % 2 = 0 ∧ b % 2 = 0) ∧
    (sel ≠ .full → ∃ a b, gptsWithin sel old "same" = .ok (a, b) ∧ a % 2 = old.1 % 2 ∧ b % 2 = old.2 % 2) := by
  refine ⟨rfl, ?_, ?_, ?_⟩ <;> intro hsel <;> cases sel with
  | full => exact absurd rfl hsel
  | number angle s0 s1 =>
    first
      | exact (ensureParityOfGpts_parity (gptsNumber angle s0 s1) old).1
      | exact (ensureParityOfGpts_parity (gptsNumber angle s0 s1) old).2.1
      | exact (ensureParityOfGpts_parity (gptsNumber angle s0 s1) old).2.2.1
  | keyword g =>
    first
      | exact (ensureParityOfGpts_parity g old).1
      | exact (ensureParityOfGpts_parity g old).2.1
      | exact (ensureParityOfGpts_parity g old).2.2.1

/-! ### coordinates and the direct-beam block -/

lemma ifftshiftSrc_eq (n k : Nat) (hk : k < n) :
    ifftshiftSrc n k = if k < n - n / 2 then k + n / 2 else k - (n - n / 2) := by
  unfold ifftshiftSrc
  split_ifs with hlt
  · exact Nat.mod_eq_of_lt (by omega)
  · have : k + n / 2 = n + (k - (n - n / 2)) := by omega
    rw [this, Nat.add_mod_left, Nat.mod_eq_of_lt (by omega)]

lemma rot_getElem {α} (l : List α) (k : Nat) (hk : k ≤ l.length) (j : Nat) (hj : j < l.length) :
    (l.drop k ++ l.take k)[j]'(by simp; omega) = l[(j + k) % l.length]'(Nat.mod_lt _ (by omega)) := by
  rw [List.getElem_append]
  split
  next h =>
    simp only [List.getElem_drop]
    simp at h
    congr 1
    rw [Nat.mod_eq_of_lt (by omega)]; omega
  next h =>
    simp only [List.getElem_take]
    simp at h
    congr 1
    have : j + k = l.length + (j - (l.length - k)) := by omega
    rw [this, Nat.add_mod_left, Nat.mod_eq_of_lt (by omega)]
    simp

/-- `DiffractionPatterns.limits`: lowest frequency `-⌊n/2⌋·s`, highest `n-1` steps above it (odd and even sizes) -/
lemma limits_eq (n : Nat) (s : Rat) :
    limits n s = (-(((n : Int) / 2 : Int) : Rat) * s, -(((n : Int) / 2 : Int) : Rat) * s + ((n : Rat) - 1) * s) := by
  unfold limits limitsOdd limitsEven
  simp only [pyFloorDiv_two]
  by_cases hp : (n : Int) % 2 ≠ 0
  · have e1 : (-((n : Int) - 1)) / 2 = -((n : Int) / 2) := by omega
    have e2 : ((n : Int) - 1) / 2 = -((n : Int) / 2) + ((n : Int) - 1) := by omega
    rw [if_pos hp, e1, e2]
    simp only [List.headD_cons]
    refine Prod.ext ?_ ?_ <;> simp only [] <;> push_cast <;> ring
  · have e1 : (-(n : Int)) / 2 = -((n : Int) / 2) := by omega
    have e2 : (n : Int) / 2 - 1 = -((n : Int) / 2) + ((n : Int) - 1) := by omega
    have e2' : ((((n : Int) / 2 : Int) : Rat) - 1) = -(((n : Int) / 2 : Int) : Rat) + ((n : Rat) - 1) := by
      exact_mod_cast e2
    rw [if_neg hp, e1, e2']
    simp only [List.headD_cons]
    refine Prod.ext ?_ ?_ <;> simp only [] <;> push_cast <;> ring

/-- Centred patterns: pixel `i` has angle `(i − ⌊n/2⌋)·s`, so the zero angle sits at `⌊n/2⌋`. -/
theorem angularCoords_shifted (n : Nat) (s : Rat) (hn : 1 ≤ n) :
    angularCoords n s true = (List.range n).map fun (i : Nat) => (((i : Int) - (n : Int) / 2 : Int) : Rat) * s := by
  unfold angularCoords
  simp only [if_true]
  rw [limits_eq n s]
  by_cases h1 : n = 1
  · subst h1; simp
  · rw [linspace_endpoint_of_step _ s n (by omega)]
    apply List.map_congr_left
    intro i _
    push_cast; ring

/-- Un-shifted patterns: storage position `j` has the angle of its FFT frequency, `fftfreq`-index · `s`; in
particular the zero angle sits at position `0`, for odd and even sizes. -/
theorem angularCoords_unshifted (n : Nat) (s : Rat) (hn : 1 ≤ n) :
    angularCoords n s false = (List.range n).map fun (j : Nat) => (fftfreqIndex n j : Rat) * s := by
  have hs := angularCoords_shifted n s hn
  unfold angularCoords at hs ⊢
  simp only [if_true, Bool.false_eq_true, if_false, unshiftedCoords] at hs ⊢
  rw [hs]
  apply List.ext_getElem
  · simp [ifftshift]; omega
  · intro j h1 h2
    have hj : j < n := by simpa using h2
    unfold ifftshift
    simp only [List.length_map, List.length_range]
    rw [rot_getElem _ (n / 2) (by simp; omega) j (by simpa using hj)]
    simp only [List.getElem_map, List.getElem_range, List.length_map, List.length_range]
    have hsrc := ifftshiftSrc_eq n j hj
    unfold ifftshiftSrc at hsrc
    have key : (((j + n / 2) % n : Nat) : Int) - (n : Int) / 2 = fftfreqIndex n j := by
      rw [hsrc]; unfold fftfreqIndex; split_ifs <;> omega
    rw [key]

/-- The rational predicate of the model is the generated real predicate `sqrt(ax² + ay²) > inner` of
`DiffractionPatterns._bandlimit`. -/
theorem keepInner_eq_keepQ (ax ay r : Rat) :
    AbtemVerif.Gen.BandlimitR.keepInner (ax : ℝ) (ay : ℝ) (r : ℝ) = keepQ ax ay r := by
  unfold AbtemVerif.Gen.BandlimitR.keepInner keepQ
  rw [Bool.eq_iff_iff]
  simp only [Bool.or_eq_true, decide_eq_true_eq, gt_iff_lt]
  by_cases hr : r < 0
  · have : (r : ℝ) < 0 := by exact_mod_cast hr
    constructor
    · intro _; exact Or.inl hr
    · intro _; exact lt_of_lt_of_le this (Real.sqrt_nonneg _)
  · have h0 : (0 : ℝ) ≤ (r : ℝ) := by exact_mod_cast (not_lt.1 hr)
    rw [Real.lt_sqrt h0]
    constructor
    · intro h; right; exact_mod_cast h
    · rintro (h | h)
      · exact absurd h hr
      · exact_mod_cast h

/-- **block_direct is exact**: pixel `k` of the result is the input pixel if its angle exceeds the radius and `0`
otherwise — nothing else changes. -/
theorem blockDirect_getD (nx ny : Nat) (sx sy : Rat) (shifted : Bool) (r : Rat) (x : List Int) (k : Nat) (hk : k < nx * ny) :
    (blockDirect nx ny sx sy shifted r x).getD k 0 =
      if keepQ ((angularCoords nx sx shifted).getD (k / ny) 0) ((angularCoords ny sy shifted).getD (k % ny) 0) r
      then x.getD k 0 else 0 := by
  unfold blockDirect
  simp [List.getD_eq_getElem?_getD, hk]

/-- For a radius `r ≥ 0` the zero-angle pixel is always blocked, shifted or not, odd or even size:
position `(⌊nx/2⌋, ⌊ny/2⌋)` of a centred pattern, position `(0, 0)` of an un-shifted one. -/
theorem blockDirect_blocks_zero_angle (nx ny : Nat) (sx sy r : Rat) (x : List Int) (hx : 1 ≤ nx) (hy : 1 ≤ ny) (hr : 0 ≤ r) :
    (blockDirect nx ny sx sy true r x).getD ((nx / 2) * ny + ny / 2) 0 = 0 ∧
    (blockDirect nx ny sx sy false r x).getD 0 0 = 0 := by
  have hpos : 0 < nx * ny := Nat.mul_pos hx hy
  have hk : (nx / 2) * ny + ny / 2 < nx * ny := by
    have h1 : nx / 2 + 1 ≤ nx := by omega
    calc (nx / 2) * ny + ny / 2 < (nx / 2) * ny + ny := by omega
      _ = (nx / 2 + 1) * ny := by ring
      _ ≤ nx * ny := Nat.mul_le_mul_right _ h1
  have hdiv : ((nx / 2) * ny + ny / 2) / ny = nx / 2 := by
    rw [Nat.add_comm, Nat.add_mul_div_right _ _ (by omega), Nat.div_eq_of_lt (by omega)]; simp
  have hmod : ((nx / 2) * ny + ny / 2) % ny = ny / 2 := by
    rw [Nat.add_comm, Nat.add_mul_mod_self_right, Nat.mod_eq_of_lt (by omega)]
  constructor
  · rw [blockDirect_getD _ _ _ _ _ _ _ _ hk, hdiv, hmod, angularCoords_shifted nx sx hx, angularCoords_shifted ny sy hy]
    have hx2 : nx / 2 < nx := by omega
    have hy2 : ny / 2 < ny := by omega
    simp only [List.getD_eq_getElem?_getD, List.getElem?_map, List.getElem?_range hx2, List.getElem?_range hy2,
      Option.map_some, Option.getD_some]
    have ex : ((nx / 2 : Nat) : Int) - (nx : Int) / 2 = 0 := by omega
    have ey : ((ny / 2 : Nat) : Int) - (ny : Int) / 2 = 0 := by omega
    rw [ex, ey]
    have : keepQ (((0 : Int) : Rat) * sx) (((0 : Int) : Rat) * sy) r = false := by
      unfold keepQ
      simp only [Int.cast_zero, zero_mul]
      rw [Bool.or_eq_false_iff]
      constructor
      · simpa using hr
      · have : (0 : Rat) ≤ r ^ 2 := by positivity
        simpa using this
    rw [this]; simp
  · rw [blockDirect_getD _ _ _ _ _ _ _ _ hpos, angularCoords_unshifted nx sx hx, angularCoords_unshifted ny sy hy]
    have h0 : 0 / ny = 0 := Nat.zero_div _
    have h0' : 0 % ny = 0 := Nat.zero_mod _
    simp only [h0, h0', List.getD_eq_getElem?_getD, List.getElem?_map, List.getElem?_range (show 0 < nx by omega),
      List.getElem?_range (show 0 < ny by omega), Option.map_some, Option.getD_some]
    have fx : fftfreqIndex nx 0 = 0 := by unfold fftfreqIndex; simp
    have fy : fftfreqIndex ny 0 = 0 := by unfold fftfreqIndex; simp
    rw [fx, fy]
    have : keepQ (((0 : Int) : Rat) * sx) (((0 : Int) : Rat) * sy) r = false := by
      unfold keepQ
      simp only [Int.cast_zero, zero_mul]
      rw [Bool.or_eq_false_iff]
      constructor
      · simpa using hr
      · have : (0 : Rat) ≤ r ^ 2 := by positivity
        simpa using this
    rw [this]; simp

/-- The radius passed on by `block_direct`: the user's value, else the probe's semi-angle, else just over one
pixel; the margin of one pixel is added when asked for, or by default when the semi-angle is known. -/
theorem effectiveRadius_cases (r c maxs : Rat) :
    effectiveRadius (some r) none none maxs = r ∧
    effectiveRadius (some r) none (some true) maxs = r + maxs ∧
    effectiveRadius (some r) (some c) none maxs = r + maxs ∧
    effectiveRadius none (some c) none maxs = c + maxs ∧
    effectiveRadius none (some c) (some false) maxs = c ∧
    effectiveRadius none none none maxs = maxs * (10001 / 10000) := by
  simp [effectiveRadius, blockMargin, blockDefaultRadius]

/-! ### the cropped array itself -/

lemma lookup_map_range' (f : Nat → Nat) (s n p : Nat) (h1 : s ≤ p) (h2 : p < s + n) :
    ((List.range' s n).map fun i => (i, f i)).lookup p = some (f p) := by
  induction n generalizing s with
  | zero => omega
  | succ n ih =>
    rw [List.range'_succ, List.map_cons, List.lookup_cons]
    by_cases hps : p = s
    · subst hps; simp
    · have : (p == s) = false := by simpa using hps
      rw [this]
      exact ih (s + 1) (by omega) (by omega)

/-- **`fft_crop` of a 1-D array to a smaller size** succeeds and output position `p` holds the input coefficient of
the same signed frequency, `x[bigPos n₁ n₂ p]`; with `crop_eq_centred_crop` this is the centred crop of the
centred array. -/
theorem crop1d_value (x : List Int) (n2 : Nat) (h2 : 1 ≤ n2) (h : n2 ≤ x.length) :
    crop1d x n2 = .ok ((List.range n2).map fun p => x.getD (bigPos x.length n2 p) 0) := by
  have hc := mask_counts x.length n2 (by omega) h2
  unfold crop1d
  simp only [hc.1, hc.2, if_true]
  congr 1
  unfold assignPairs
  rw [pairs1d_crop x.length n2 h2 h]
  apply List.map_congr_left
  intro p hp
  have hp' := List.mem_range.1 hp
  rw [List.range_eq_range', lookup_map_range' _ 0 n2 p (by omega) (by omega)]

/-- Elementwise form of "crop = centred crop": centring the cropped array and reading position `i` gives the
element of the centred input at `i + ⌊n₁/2⌋ − ⌊n₂/2⌋`. -/
theorem crop1d_centred (x y : List Int) (n2 i : Nat) (h2 : 1 ≤ n2) (h : n2 ≤ x.length) (hi : i < n2)
    (hy : crop1d x n2 = .ok y) :
    (fftshift y).getD i 0 = (fftshift x).getD (i + (x.length / 2 - n2 / 2)) 0 := by
  rw [crop1d_value x n2 h2 h] at hy
  cases hy
  have hlen : ((List.range n2).map fun p => x.getD (bigPos x.length n2 p) 0).length = n2 := by simp
  have hi1 : i < (fftshift ((List.range n2).map fun p => x.getD (bigPos x.length n2 p) 0)).length := by
    rw [fftshift_length, hlen]; exact hi
  have hi2 : i + (x.length / 2 - n2 / 2) < (fftshift x).length := by rw [fftshift_length]; omega
  rw [List.getD_eq_getElem?_getD, List.getD_eq_getElem?_getD, List.getElem?_eq_getElem hi1, List.getElem?_eq_getElem hi2,
    Option.getD_some, Option.getD_some, fftshift_getElem, fftshift_getElem]
  simp only [hlen, List.getElem_map, List.getElem_range]
  rw [crop_eq_centred_crop x.length n2 i h2 h hi]
  have hlt : fftshiftSrc x.length (i + (x.length / 2 - n2 / 2)) < x.length := by
    unfold fftshiftSrc; exact Nat.mod_lt _ (by omega)
  rw [List.getD_eq_getElem?_getD, List.getElem?_eq_getElem hlt, Option.getD_some]

lemma bigPos_inj (N n p q : Nat) (h : n ≤ N) (hp : p < n) (hq : q < n) (he : bigPos N n p = bigPos N n q) : p = q := by
  unfold bigPos at he
  split_ifs at he <;> omega

lemma lookup_map_key (f : Nat → Nat) (l : List Nat) (q0 : Nat) (hq : q0 ∈ l)
    (hinj : ∀ a ∈ l, ∀ b ∈ l, f a = f b → a = b) :
    (l.map fun q => (f q, q)).lookup (f q0) = some q0 := by
  induction l with
  | nil => simp at hq
  | cons a as ih =>
    rw [List.map_cons, List.lookup_cons]
    by_cases ha : q0 = a
    · subst ha; simp
    · have hne : f q0 ≠ f a := fun h => ha (hinj q0 hq a (List.mem_cons_self) h)
      have : (f q0 == f a) = false := by simpa using hne
      rw [this]
      have hq' : q0 ∈ as := by
        rcases List.mem_cons.1 hq with h | h
        · exact absurd h ha
        · exact h
      exact ih hq' (fun x hx y hy => hinj x (List.mem_cons_of_mem _ hx) y (List.mem_cons_of_mem _ hy))

lemma lookup_map_none (f : Nat → Nat) (l : List Nat) (p : Nat) (hp : ∀ a ∈ l, f a ≠ p) :
    (l.map fun q => (f q, q)).lookup p = none := by
  induction l with
  | nil => simp
  | cons a as ih =>
    rw [List.map_cons, List.lookup_cons]
    have : (p == f a) = false := by
      have := hp a List.mem_cons_self
      simpa using fun h => this h.symm
    rw [this]
    exact ih (fun x hx => hp x (List.mem_cons_of_mem _ hx))

/-- **`fft_crop` of a 1-D array to a larger size** (zero padding): input coefficient `q` lands at the output position
of the same signed frequency, `bigPos n₂ n₁ q`, and every other output position is `0`. -/
theorem crop1d_pad_value (x y : List Int) (n2 : Nat) (h1 : 1 ≤ x.length) (h : x.length < n2) (hy : crop1d x n2 = .ok y) :
    y.length = n2 ∧ (∀ q, q < x.length → y.getD (bigPos n2 x.length q) 0 = x.getD q 0) ∧
    (∀ p, p < n2 → headTail n2 x.length p = false → y.getD p 0 = 0) := by
  have hc := mask_counts x.length n2 h1 (by omega)
  unfold crop1d at hy
  simp only [hc.1, hc.2, if_true] at hy
  cases hy
  have hpairs := pairs1d_pad x.length n2 h1 h
  refine ⟨by simp [assignPairs], ?_, ?_⟩
  · intro q hq
    have hb := (bigPos_same_frequency n2 x.length q h1 (by omega) hq).2
    unfold assignPairs
    rw [List.getD_eq_getElem?_getD, List.getElem?_map, List.getElem?_range hb]
    simp only [Option.map_some, Option.getD_some]
    rw [hpairs, lookup_map_key (bigPos n2 x.length) (List.range x.length) q (List.mem_range.2 hq)
      (fun a ha b hb' he => bigPos_inj n2 x.length a b (by omega) (List.mem_range.1 ha) (List.mem_range.1 hb') he)]
  · intro p hp hm
    unfold assignPairs
    rw [List.getD_eq_getElem?_getD, List.getElem?_map, List.getElem?_range hp]
    simp only [Option.map_some, Option.getD_some]
    rw [hpairs, lookup_map_none]
    intro a ha hEq
    have ha' := List.mem_range.1 ha
    have : headTail n2 x.length p = true := by
      rw [← hEq]
      unfold headTail bigPos
      simp only [Bool.or_eq_true, Bool.and_eq_true, decide_eq_true_eq]
      split_ifs <;> omega
    rw [this] at hm
    exact absurd hm (by simp)

/-! ### `DiffractionPatterns.crop` (cropping a pattern after the fact) -/

/-- An un-shifted pattern is cropped directly in its FFT storage order. -/
theorem cropMethod1_unshifted (x : List Int) (n2 : Nat) : cropMethod1 x n2 false = crop1d x n2 := by
  unfold cropMethod1 cropDirectTest cropDirectReturn
  cases crop1d x n2 <;> simp [Except.map]

/-- **Cropping commutes with the storage convention**: cropping the centred version of a pattern gives the centred
version of the crop of the un-centred pattern — the two conventions of `DiffractionPatterns.crop` agree. -/
theorem cropMethod1_consistent (x : List Int) (n2 : Nat) :
    cropMethod1 (fftshift x) n2 true = (cropMethod1 x n2 false).map fftshift := by
  rw [cropMethod1_unshifted]
  unfold cropMethod1 cropDirectTest
  simp [ifftshift_fftshift]

/-- For a centred pattern `s` the method returns the centred crop: element `i` is `s[i + ⌊n₁/2⌋ − ⌊n₂/2⌋]`. -/
theorem cropMethod1_shifted_is_centred_crop (s y : List Int) (n2 i : Nat) (h2 : 1 ≤ n2) (h : n2 ≤ s.length) (hi : i < n2)
    (hy : cropMethod1 s n2 true = .ok y) : y.getD i 0 = s.getD (i + (s.length / 2 - n2 / 2)) 0 := by
  unfold cropMethod1 cropDirectTest at hy
  simp only [Bool.not_true, Bool.false_eq_true, if_false] at hy
  have hlen : (ifftshift s).length = s.length := by simp [ifftshift]; omega
  cases hc : crop1d (ifftshift s) n2 with
  | error e => rw [hc] at hy; cases hy
  | ok z =>
    rw [hc] at hy
    simp only [Except.map] at hy
    cases hy
    have := crop1d_centred (ifftshift s) z n2 i h2 (by rw [hlen]; exact h) hi hc
    rw [this, hlen, fftshift_ifftshift]

/-! ### two dimensions: the outer-product masks pair positions axis by axis -/

lemma flatTrue_product (nx ny : Nat) (mx my : Nat → Bool) :
    flatTrue nx ny mx my = (trueIdx nx mx).flatMap fun i => (trueIdx ny my).map fun j => i * ny + j := by
  unfold flatTrue trueIdx
  rcases Nat.eq_zero_or_pos ny with h0 | hpos
  · subst h0; simp
  · induction nx with
    | zero => simp
    | succ n ih =>
      rw [Nat.succ_mul, List.range_add, List.filter_append, ih, List.range_succ, List.filter_append, List.flatMap_append]
      congr 1
      rw [List.filter_map]
      have hcomp : ((fun k => mx (k / ny) && my (k % ny)) ∘ fun x => n * ny + x) = fun j => mx ((n * ny + j) / ny) && my ((n * ny + j) % ny) := rfl
      rw [hcomp]
      by_cases hm : mx n = true
      · have e1 : List.filter mx [n] = [n] := by simp [hm]
        rw [e1]
        simp only [List.flatMap_cons, List.flatMap_nil, List.append_nil]
        congr 1
        apply List.filter_congr
        intro j hj
        have hj' := List.mem_range.1 hj
        have d : (n * ny + j) / ny = n := by
          rw [Nat.add_comm, Nat.add_mul_div_right _ _ hpos, Nat.div_eq_of_lt hj']; simp
        have r : (n * ny + j) % ny = j := by
          rw [Nat.add_comm, Nat.add_mul_mod_self_right, Nat.mod_eq_of_lt hj']
        rw [d, r, hm]; simp
      · have e1 : List.filter mx [n] = [] := by simp [hm]
        rw [e1]
        simp only [List.flatMap_nil, List.map_eq_nil_iff]
        apply List.filter_eq_nil_iff.2
        intro j hj
        have hj' := List.mem_range.1 hj
        have d : (n * ny + j) / ny = n := by
          rw [Nat.add_comm, Nat.add_mul_div_right _ _ hpos, Nat.div_eq_of_lt hj']; simp
        rw [d]
        simp [hm]

lemma zip_flatMap_map {α β γ δ : Type} (I1 : List α) (I2 : List β) (J1 : List γ) (J2 : List δ)
    (hJ : J1.length = J2.length) {ε ζ : Type} (f : α → γ → ε) (g : β → δ → ζ) :
    (I1.flatMap fun i => J1.map (f i)).zip (I2.flatMap fun i => J2.map (g i))
      = (I1.zip I2).flatMap fun p => (J1.zip J2).map fun q => (f p.1 q.1, g p.2 q.2) := by
  induction I1 generalizing I2 with
  | nil => simp
  | cons a as ih =>
    cases I2 with
    | nil => simp
    | cons b bs =>
      simp only [List.flatMap_cons, List.zip_cons_cons]
      rw [List.zip_append (by simp [hJ]), ih bs, List.zip_map]
      congr 1

/-- **The 2-D crop pairs positions axis by axis**: the k-th selected output pixel `(pᵢ, pⱼ)` receives the input pixel
`(qᵢ, qⱼ)` where `(pᵢ, qᵢ)` and `(pⱼ, qⱼ)` are pairs of the two 1-D crops — so every 1-D statement above (equal signed
frequency, centred crop, centred pad) holds along both axes of the diffraction pattern. -/
theorem pairs2d_product (nx ny mx my : Nat) (hy1 : 1 ≤ ny) (hy2 : 1 ≤ my) :
    pairs2d nx ny mx my = (pairs1d nx mx).flatMap fun p => (pairs1d ny my).map fun q => (p.1 * my + q.1, p.2 * ny + q.2) := by
  unfold pairs2d pairs1d
  rw [flatTrue_product, flatTrue_product]
  have hJ := mask_counts ny my hy1 hy2
  exact zip_flatMap_map _ _ _ _ (by rw [hJ.1, hJ.2]) (fun i j => i * my + j) (fun i j => i * ny + j)

/-! ### non-vacuity: concrete instances -/
example : (masks1d 7 4).1 = headTail 7 4 := by rw [masks1d_crop 7 4 (by omega) (by omega)]
example : crop1d [10, 11, 12, 13, 14, 15, 16] 4 = .ok [10, 11, 15, 16] := by decide +kernel
example : fftshift [10, 11, 15, 16] = ((fftshift [10, 11, 12, 13, 14, 15, 16]).drop 1).take 4 := by decide +kernel
example : crop1d [1, 2, 3] 6 = .ok [1, 2, 0, 0, 0, 3] := by decide +kernel
example : ensureParityOfGpts (6, 7) (8, 8) "odd" = .ok (7, 7) := by decide +kernel
example : gptsWithin (.number 10 3 4) (8, 8) "odd" = .ok (9, 7) := by decide +kernel
example : angularCoords 5 (1/2) false = [0, 1/2, 1, -1, -1/2] := by decide +kernel
example : blockDirect 3 3 1 1 true 1 [1, 2, 3, 4, 5, 6, 7, 8, 9] = [1, 0, 3, 0, 0, 0, 7, 0, 9] := by decide +kernel
example : cropMethod1 [13, 14, 15, 16, 10, 11, 12] 3 true = .ok [15, 16, 10] := by decide +kernel
example : cropMethod1 [10, 11, 12, 13, 14, 15, 16] 3 false = .ok [10, 11, 16] := by decide +kernel
example : blockDirect 3 3 1 1 false 1 [1, 2, 3, 4, 5, 6, 7, 8, 9] = [0, 0, 0, 0, 5, 6, 0, 8, 9] := by decide +kernel

end AbtemVerif.Props.C14
