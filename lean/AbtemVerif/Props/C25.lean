/-
C25 — Each atomic potential parametrization is internally consistent.

Kernel formulas (`abtem/parametrizations/functions/{lobato,kirkland,peng}.py`), the parameter scalings of
`scaled_parameters` and the five JSON coefficient tables are *generated* (`Gen/Param*.lean`, regenerated from the
source tree on every run).  For each functional form the sign / monotonicity theorems are proved for all real
arguments under explicit hypotheses on the coefficients, and those hypotheses are then discharged for the WHOLE
table by kernel evaluation (`decide +kernel`) — a finite quantifier, hence a proof:

* Kirkland: all 12 coefficients of all 103 elements are positive ⇒ scattering factor positive and strictly
  decreasing in k², potential positive and strictly decreasing in r;
* Peng (high/low/ionic tables): positive coefficients ⇒ same conclusions; the exceptions of each table (entries with a
  negative Gaussian weight, as published) are listed exactly (`peng*_exceptions`);
* Lobato: the coefficients have mixed signs, so the hypothesis is on the numerator polynomial of the rational function
  `Σ aᵢ(2+bᵢx)/(1+bᵢx)²` (all coefficients positive) — true for all 103 elements ⇒ scattering factor positive on `[0,∞)`;
  same technique for `-f'` ⇒ strictly decreasing;
* the projected scattering factor evaluated at the scaled parameters equals the scattering factor / κ for all three
  forms (Fourier-slice consistency of the reciprocal-space forms: algebraic identity);
* `potential_derivative` is the derivative of `potential` (Kirkland, Lobato).

NOT proved (`_partial` in the harness meta): the Hankel/Fourier transform pairs between the real-space and
reciprocal-space forms (Yukawa / Bessel-K integrals) — validated by quadrature in the harness, labelled validation;
positivity/monotonicity of the Lobato *real-space* potential for the tabulated mixed-sign coefficients (sampled).
-/
import AbtemVerif.Gen.ParamTables
import AbtemVerif.Gen.ParamLobatoR
import AbtemVerif.Gen.ParamKirklandR
import AbtemVerif.Gen.ParamPengR
import AbtemVerif.Lib.ListPoly
import AbtemVerif.Lib.ParamCalc
import AbtemVerif.Lib.ParamProj
import Mathlib.Analysis.SpecialFunctions.Exp
import Mathlib.Analysis.SpecialFunctions.Pow.Real
import Mathlib.Analysis.SpecialFunctions.Sqrt
import Mathlib.Tactic.Ring
import Mathlib.Tactic.Linarith
import Mathlib.Tactic.Positivity
import Mathlib.Tactic.FieldSimp
import Mathlib.Tactic.IntervalCases

namespace AbtemVerif.Props.C25
open AbtemVerif.Gen AbtemVerif.Gen.ParamTables AbtemVerif.ListPoly AbtemVerif.Param AbtemVerif.ParamCalc

/-! ## elementary monotonicity lemmas -/

lemma exp_term_pos (a b x : ℝ) (ha : 0 < a) : 0 < a * Real.exp (-b * x) := by positivity

lemma exp_term_anti (a b x y : ℝ) (ha : 0 < a) (hb : 0 < b) (hxy : x < y) :
    a * Real.exp (-b * y) < a * Real.exp (-b * x) := by
  apply mul_lt_mul_of_pos_left _ ha
  apply Real.exp_lt_exp.mpr
  nlinarith

lemma inv_term_anti (a b x y : ℝ) (ha : 0 < a) (hb : 0 < b) (hx : 0 ≤ x) (hxy : x < y) :
    a / (b + y) < a / (b + x) := by
  apply div_lt_div_of_pos_left ha (by linarith) (by linarith)

/-! ## Peng: `Σ aᵢ exp(-bᵢ k²)` -/

/-- positive Gaussian weights ⇒ the scattering factor is positive (any `k²`, any widths) -/
theorem peng_sf_pos (x a0 a1 a2 a3 a4 b0 b1 b2 b3 b4 : ℝ) (h0 : 0 < a0) (h1 : 0 < a1) (h2 : 0 < a2) (h3 : 0 < a3) (h4 : 0 < a4) :
    0 < ParamPengR.scatteringFactorK2 x a0 a1 a2 a3 a4 b0 b1 b2 b3 b4 := by
  unfold ParamPengR.scatteringFactorK2
  have := exp_term_pos a0 b0 x h0; have := exp_term_pos a1 b1 x h1; have := exp_term_pos a2 b2 x h2
  have := exp_term_pos a3 b3 x h3; have := exp_term_pos a4 b4 x h4
  linarith

/-- positive weights and widths ⇒ strictly decreasing in `k²` -/
theorem peng_sf_strictAnti (x y a0 a1 a2 a3 a4 b0 b1 b2 b3 b4 : ℝ) (h0 : 0 < a0) (h1 : 0 < a1) (h2 : 0 < a2) (h3 : 0 < a3)
    (h4 : 0 < a4) (k0 : 0 < b0) (k1 : 0 < b1) (k2 : 0 < b2) (k3 : 0 < b3) (k4 : 0 < b4) (hxy : x < y) :
    ParamPengR.scatteringFactorK2 y a0 a1 a2 a3 a4 b0 b1 b2 b3 b4 < ParamPengR.scatteringFactorK2 x a0 a1 a2 a3 a4 b0 b1 b2 b3 b4 := by
  unfold ParamPengR.scatteringFactorK2
  have := exp_term_anti a0 b0 x y h0 k0 hxy; have := exp_term_anti a1 b1 x y h1 k1 hxy
  have := exp_term_anti a2 b2 x y h2 k2 hxy; have := exp_term_anti a3 b3 x y h3 k3 hxy
  have := exp_term_anti a4 b4 x y h4 k4 hxy
  linarith

/-- the `k`-form (`peng.scattering_factor`, also used as the Gaussian real-space potential) is the `k²`-form at `k²` -/
theorem peng_k_form (k a0 a1 a2 a3 a4 b0 b1 b2 b3 b4 : ℝ) :
    ParamPengR.scatteringFactor k a0 a1 a2 a3 a4 b0 b1 b2 b3 b4 = ParamPengR.scatteringFactorK2 (k ^ 2) a0 a1 a2 a3 a4 b0 b1 b2 b3 b4 := by
  unfold ParamPengR.scatteringFactor ParamPengR.scatteringFactorK2; rfl

/-- hence positive and strictly decreasing in `k ≥ 0` (and, with the potential scaling, in `r ≥ 0`) -/
theorem peng_k_form_strictAnti (k k' a0 a1 a2 a3 a4 b0 b1 b2 b3 b4 : ℝ) (h0 : 0 < a0) (h1 : 0 < a1) (h2 : 0 < a2) (h3 : 0 < a3)
    (h4 : 0 < a4) (k0 : 0 < b0) (k1 : 0 < b1) (k2 : 0 < b2) (k3 : 0 < b3) (k4 : 0 < b4) (hk : 0 ≤ k) (hkk : k < k') :
    ParamPengR.scatteringFactor k' a0 a1 a2 a3 a4 b0 b1 b2 b3 b4 < ParamPengR.scatteringFactor k a0 a1 a2 a3 a4 b0 b1 b2 b3 b4 := by
  rw [peng_k_form, peng_k_form]
  exact peng_sf_strictAnti _ _ _ _ _ _ _ _ _ _ _ _ h0 h1 h2 h3 h4 k0 k1 k2 k3 k4 (by nlinarith)

/-- `PengParametrization.scaled_parameters("scattering_factor")`: widths divided by `2**2` -/
noncomputable def pengSF (e : List (List ℚ)) (x : ℝ) : ℝ :=
  ParamPengR.scatteringFactorK2 x (g e 0 0) (g e 0 1) (g e 0 2) (g e 0 3) (g e 0 4)
    ((g e 1 0 : ℝ) / ParamPengR.widthDivisor) ((g e 1 1 : ℝ) / ParamPengR.widthDivisor) ((g e 1 2 : ℝ) / ParamPengR.widthDivisor)
    ((g e 1 3 : ℝ) / ParamPengR.widthDivisor) ((g e 1 4 : ℝ) / ParamPengR.widthDivisor)

/-- the generated unit conversion of the Peng widths, `scattering_factor[1] /= 2 ** 2` -/
theorem peng_width_divisor : ParamPengR.widthDivisor = 4 := by unfold ParamPengR.widthDivisor; norm_num

lemma peng_div_pos : (0 : ℝ) < ParamPengR.widthDivisor := by rw [peng_width_divisor]; norm_num

lemma pos10_spec (e : List (List ℚ)) (h : pos10 e = true) :
    (0 < (g e 0 0 : ℝ) ∧ 0 < (g e 0 1 : ℝ) ∧ 0 < (g e 0 2 : ℝ) ∧ 0 < (g e 0 3 : ℝ) ∧ 0 < (g e 0 4 : ℝ)) ∧
    (0 < (g e 1 0 : ℝ) ∧ 0 < (g e 1 1 : ℝ) ∧ 0 < (g e 1 2 : ℝ) ∧ 0 < (g e 1 3 : ℝ) ∧ 0 < (g e 1 4 : ℝ)) := by
  simp only [pos10, Bool.and_eq_true, decide_eq_true_eq] at h
  obtain ⟨⟨⟨⟨⟨⟨⟨⟨⟨a0, a1⟩, a2⟩, a3⟩, a4⟩, b0⟩, b1⟩, b2⟩, b3⟩, b4⟩ := h
  refine ⟨⟨?_, ?_, ?_, ?_, ?_⟩, ⟨?_, ?_, ?_, ?_, ?_⟩⟩ <;> exact_mod_cast ‹_›

theorem peng_entry_sf_pos (e : List (List ℚ)) (h : pos10 e = true) (x : ℝ) : 0 < pengSF e x := by
  obtain ⟨⟨a0, a1, a2, a3, a4⟩, _⟩ := pos10_spec e h
  exact peng_sf_pos _ _ _ _ _ _ _ _ _ _ _ a0 a1 a2 a3 a4

theorem peng_entry_sf_strictAnti (e : List (List ℚ)) (h : pos10 e = true) (x y : ℝ) (hxy : x < y) : pengSF e y < pengSF e x := by
  obtain ⟨⟨a0, a1, a2, a3, a4⟩, ⟨b0, b1, b2, b3, b4⟩⟩ := pos10_spec e h
  exact peng_sf_strictAnti _ _ _ _ _ _ _ _ _ _ _ _ a0 a1 a2 a3 a4 (div_pos b0 peng_div_pos) (div_pos b1 peng_div_pos)
    (div_pos b2 peng_div_pos) (div_pos b3 peng_div_pos) (div_pos b4 peng_div_pos) hxy

/-! ### Peng real-space potential and projected forms at the generated `scaled_parameters` -/

/-- the potential amplitude is linear in the tabulated weight (in particular it keeps its sign) -/
theorem peng_potA_linear (a b kappa : ℝ) : ParamPengR.potA a b kappa = a * ParamPengR.potA 1 b kappa := by
  unfold ParamPengR.potA; ring

theorem peng_scaled_pos (a b kappa : ℝ) (ha : 0 < a) (hb : 0 < b) (hk : 0 < kappa) :
    0 < ParamPengR.potA a b kappa ∧ 0 < ParamPengR.potB b ∧ 0 < ParamPengR.projA a b kappa ∧ 0 < ParamPengR.projB b := by
  unfold ParamPengR.potA ParamPengR.potB ParamPengR.projA ParamPengR.projB
  have hpi := Real.pi_pos
  have h1 : 0 < Real.rpow Real.pi ((3 : ℝ) / 2) := Real.rpow_pos_of_pos hpi _
  have h2 : 0 < Real.rpow b ((3 : ℝ) / 2) := Real.rpow_pos_of_pos hb _
  refine ⟨by positivity, by positivity, by positivity, by positivity⟩

/-- a negative tabulated weight gives a negative potential amplitude (sign preserved) -/
theorem peng_potA_neg (a b kappa : ℝ) (ha : a < 0) (hb : 0 < b) (hk : 0 < kappa) : ParamPengR.potA a b kappa < 0 := by
  rw [peng_potA_linear]
  exact mul_neg_of_neg_of_pos ha (peng_scaled_pos 1 b kappa one_pos hb hk).1

/-- `PengParametrization.potential`: the Gaussian kernel at the scaled parameters -/
noncomputable def pengPotential (kappa : ℝ) (e : List (List ℚ)) (r : ℝ) : ℝ :=
  ParamPengR.scatteringFactor r
    (ParamPengR.potA (g e 0 0) ((g e 1 0 : ℝ) / ParamPengR.widthDivisor) kappa) (ParamPengR.potA (g e 0 1) ((g e 1 1 : ℝ) / ParamPengR.widthDivisor) kappa)
    (ParamPengR.potA (g e 0 2) ((g e 1 2 : ℝ) / ParamPengR.widthDivisor) kappa) (ParamPengR.potA (g e 0 3) ((g e 1 3 : ℝ) / ParamPengR.widthDivisor) kappa)
    (ParamPengR.potA (g e 0 4) ((g e 1 4 : ℝ) / ParamPengR.widthDivisor) kappa)
    (ParamPengR.potB ((g e 1 0 : ℝ) / ParamPengR.widthDivisor)) (ParamPengR.potB ((g e 1 1 : ℝ) / ParamPengR.widthDivisor))
    (ParamPengR.potB ((g e 1 2 : ℝ) / ParamPengR.widthDivisor)) (ParamPengR.potB ((g e 1 3 : ℝ) / ParamPengR.widthDivisor))
    (ParamPengR.potB ((g e 1 4 : ℝ) / ParamPengR.widthDivisor))

/-- positive table entry ⇒ the Peng potential is positive and strictly decreasing on `r ≥ 0` (κ > 0) -/
theorem peng_entry_potential (kappa : ℝ) (hk : 0 < kappa) (e : List (List ℚ)) (h : pos10 e = true) :
    (∀ r, 0 < pengPotential kappa e r) ∧ ∀ r s, 0 ≤ r → r < s → pengPotential kappa e s < pengPotential kappa e r := by
  obtain ⟨⟨a0, a1, a2, a3, a4⟩, ⟨b0, b1, b2, b3, b4⟩⟩ := pos10_spec e h
  obtain ⟨A0, B0, _, _⟩ := peng_scaled_pos _ _ kappa a0 (div_pos b0 peng_div_pos) hk
  obtain ⟨A1, B1, _, _⟩ := peng_scaled_pos _ _ kappa a1 (div_pos b1 peng_div_pos) hk
  obtain ⟨A2, B2, _, _⟩ := peng_scaled_pos _ _ kappa a2 (div_pos b2 peng_div_pos) hk
  obtain ⟨A3, B3, _, _⟩ := peng_scaled_pos _ _ kappa a3 (div_pos b3 peng_div_pos) hk
  obtain ⟨A4, B4, _, _⟩ := peng_scaled_pos _ _ kappa a4 (div_pos b4 peng_div_pos) hk
  refine ⟨fun r => ?_, fun r s hr hrs => ?_⟩
  · unfold pengPotential; rw [peng_k_form]; exact peng_sf_pos _ _ _ _ _ _ _ _ _ _ _ A0 A1 A2 A3 A4
  · exact peng_k_form_strictAnti r s _ _ _ _ _ _ _ _ _ _ A0 A1 A2 A3 A4 B0 B1 B2 B3 B4 hr hrs

/-- `projected_scattering_factor` at the generated scaled parameters `(a/κ, b/4)` = scattering factor / κ, every entry -/
theorem peng_entry_projected_sf (kappa : ℝ) (e : List (List ℚ)) (x : ℝ) :
    ParamPengR.scatteringFactorK2 x (ParamPengR.psfA (g e 0 0) kappa) (ParamPengR.psfA (g e 0 1) kappa) (ParamPengR.psfA (g e 0 2) kappa)
        (ParamPengR.psfA (g e 0 3) kappa) (ParamPengR.psfA (g e 0 4) kappa)
        (ParamPengR.psfB ((g e 1 0 : ℝ) / ParamPengR.widthDivisor)) (ParamPengR.psfB ((g e 1 1 : ℝ) / ParamPengR.widthDivisor))
        (ParamPengR.psfB ((g e 1 2 : ℝ) / ParamPengR.widthDivisor)) (ParamPengR.psfB ((g e 1 3 : ℝ) / ParamPengR.widthDivisor))
        (ParamPengR.psfB ((g e 1 4 : ℝ) / ParamPengR.widthDivisor))
      = pengSF e x / kappa := by
  unfold pengSF ParamPengR.psfA ParamPengR.psfB ParamPengR.scatteringFactorK2; ring

lemma ok_of_not_exception (t : List (String × List (List ℚ))) (ok : List (List ℚ) → Bool)
    (e : String × List (List ℚ)) (he : e ∈ t) (hn : e.1 ∉ exceptions t ok) : ok e.2 = true := by
  by_contra hc
  apply hn
  unfold exceptions
  exact List.mem_map.mpr ⟨e, List.mem_filter.mpr ⟨he, by simpa using hc⟩, rfl⟩

/-- **Peng (default `peng_high.json`)**: every entry except radium has positive weights and widths -/
theorem pengHigh_exceptions : exceptions pengHighTable pos10 = ["Ra"] := by decide +kernel
theorem pengLow_exceptions : exceptions pengLowTable pos10 = ["Rb", "Np"] := by decide +kernel

theorem pengIonic_exceptions : exceptions pengIonicTable pos10 =
    ["Si++++", "Ti++", "Ti+++", "V++", "Cr+++", "Mn++++", "Ni++", "Ge++++", "Y+++", "Mo+++++", "Pd++", "Sn++", "I-", "Ba++", "U++++"] := by
  decide +kernel

/-- the three ions of the ionic table whose sampled real-space potential is not positive / not decreasing violate the
coefficient hypothesis (PRECONDITION witness of the known findings: it states that the sign hypothesis of `peng_entry_potential` fails for these ions —
and would become unprovable if the published weights were made positive; that the potential actually goes negative there is
re-derived numerically by the oracle from the published Gaussians, it is not proved) -/
theorem pengIonic_sign_hypothesis_fails :
    ["Si++++", "Ge++++", "Pd++"].all (fun s => (exceptions pengIonicTable pos10).contains s) = true := by
  rw [pengIonic_exceptions]; decide

/-- Peng: `projected_scattering_factor` uses the weights `a/κ` with the same widths, hence equals scattering factor / κ -/
theorem peng_projected_sf_eq (x a0 a1 a2 a3 a4 b0 b1 b2 b3 b4 kappa : ℝ) :
    ParamPengR.scatteringFactorK2 x (a0 / kappa) (a1 / kappa) (a2 / kappa) (a3 / kappa) (a4 / kappa) b0 b1 b2 b3 b4
      = ParamPengR.scatteringFactorK2 x a0 a1 a2 a3 a4 b0 b1 b2 b3 b4 / kappa := by
  unfold ParamPengR.scatteringFactorK2; ring

/-- whole-table statement: for every tabulated element other than the listed exception the Peng scattering factor
is positive everywhere and strictly decreasing in `k²` -/
theorem pengHigh_table_sf (e : String × List (List ℚ)) (he : e ∈ pengHighTable) (hn : e.1 ≠ "Ra") :
    (∀ x, 0 < pengSF e.2 x) ∧ ∀ x y, x < y → pengSF e.2 y < pengSF e.2 x := by
  have hok := ok_of_not_exception pengHighTable pos10 e he (by rw [pengHigh_exceptions]; simpa using hn)
  exact ⟨peng_entry_sf_pos e.2 hok, peng_entry_sf_strictAnti e.2 hok⟩

theorem pengHigh_table_potential (kappa : ℝ) (hk : 0 < kappa) (e : String × List (List ℚ)) (he : e ∈ pengHighTable) (hn : e.1 ≠ "Ra") :
    (∀ r, 0 < pengPotential kappa e.2 r) ∧ ∀ r s, 0 ≤ r → r < s → pengPotential kappa e.2 s < pengPotential kappa e.2 r :=
  peng_entry_potential kappa hk e.2 (ok_of_not_exception pengHighTable pos10 e he (by rw [pengHigh_exceptions]; simpa using hn))

theorem pengLow_table_potential (kappa : ℝ) (hk : 0 < kappa) (e : String × List (List ℚ)) (he : e ∈ pengLowTable)
    (hn : e.1 ≠ "Rb" ∧ e.1 ≠ "Np") :
    (∀ r, 0 < pengPotential kappa e.2 r) ∧ ∀ r s, 0 ≤ r → r < s → pengPotential kappa e.2 s < pengPotential kappa e.2 r :=
  peng_entry_potential kappa hk e.2 (ok_of_not_exception pengLowTable pos10 e he (by rw [pengLow_exceptions]; simpa using hn))

/-- ionic table: every ion outside the exception list has a positive, strictly decreasing scattering factor and potential -/
theorem pengIonic_table_sf_potential (kappa : ℝ) (hk : 0 < kappa) (e : String × List (List ℚ)) (he : e ∈ pengIonicTable)
    (hn : e.1 ∉ exceptions pengIonicTable pos10) :
    ((∀ x, 0 < pengSF e.2 x) ∧ ∀ x y, x < y → pengSF e.2 y < pengSF e.2 x) ∧
      ((∀ r, 0 < pengPotential kappa e.2 r) ∧ ∀ r s, 0 ≤ r → r < s → pengPotential kappa e.2 s < pengPotential kappa e.2 r) := by
  have hok := ok_of_not_exception pengIonicTable pos10 e he hn
  exact ⟨⟨peng_entry_sf_pos e.2 hok, peng_entry_sf_strictAnti e.2 hok⟩, peng_entry_potential kappa hk e.2 hok⟩

theorem pengLow_table_sf (e : String × List (List ℚ)) (he : e ∈ pengLowTable) (hn : e.1 ≠ "Rb" ∧ e.1 ≠ "Np") :
    (∀ x, 0 < pengSF e.2 x) ∧ ∀ x y, x < y → pengSF e.2 y < pengSF e.2 x := by
  have hok := ok_of_not_exception pengLowTable pos10 e he (by rw [pengLow_exceptions]; simpa using hn)
  exact ⟨peng_entry_sf_pos e.2 hok, peng_entry_sf_strictAnti e.2 hok⟩

/-! ## Kirkland: `Σ aᵢ/(bᵢ+k²) + cᵢ exp(-dᵢ k²)` -/

theorem kirkland_sf_pos (x a0 a1 a2 b0 b1 b2 c0 c1 c2 d0 d1 d2 : ℝ) (hx : 0 ≤ x)
    (ha0 : 0 < a0) (ha1 : 0 < a1) (ha2 : 0 < a2) (hb0 : 0 < b0) (hb1 : 0 < b1) (hb2 : 0 < b2)
    (hc0 : 0 < c0) (hc1 : 0 < c1) (hc2 : 0 < c2) :
    0 < ParamKirklandR.scatteringFactor x a0 a1 a2 b0 b1 b2 c0 c1 c2 d0 d1 d2 := by
  unfold ParamKirklandR.scatteringFactor
  have := exp_term_pos c0 d0 x hc0; have := exp_term_pos c1 d1 x hc1; have := exp_term_pos c2 d2 x hc2
  have : 0 < a0 / (b0 + x) := by positivity
  have : 0 < a1 / (b1 + x) := by positivity
  have : 0 < a2 / (b2 + x) := by positivity
  linarith

theorem kirkland_sf_strictAnti (x y a0 a1 a2 b0 b1 b2 c0 c1 c2 d0 d1 d2 : ℝ) (hx : 0 ≤ x) (hxy : x < y)
    (ha0 : 0 < a0) (ha1 : 0 < a1) (ha2 : 0 < a2) (hb0 : 0 < b0) (hb1 : 0 < b1) (hb2 : 0 < b2)
    (hc0 : 0 < c0) (hc1 : 0 < c1) (hc2 : 0 < c2) (hd0 : 0 < d0) (hd1 : 0 < d1) (hd2 : 0 < d2) :
    ParamKirklandR.scatteringFactor y a0 a1 a2 b0 b1 b2 c0 c1 c2 d0 d1 d2
      < ParamKirklandR.scatteringFactor x a0 a1 a2 b0 b1 b2 c0 c1 c2 d0 d1 d2 := by
  unfold ParamKirklandR.scatteringFactor
  have := exp_term_anti c0 d0 x y hc0 hd0 hxy; have := exp_term_anti c1 d1 x y hc1 hd1 hxy
  have := exp_term_anti c2 d2 x y hc2 hd2 hxy
  have := inv_term_anti a0 b0 x y ha0 hb0 hx hxy; have := inv_term_anti a1 b1 x y ha1 hb1 hx hxy
  have := inv_term_anti a2 b2 x y ha2 hb2 hx hxy
  linarith

/-- Yukawa term `a e^{-br}/r` is positive and strictly decreasing for `r > 0` -/
lemma yukawa_anti (a b r s : ℝ) (ha : 0 < a) (hb : 0 < b) (hr : 0 < r) (hrs : r < s) :
    a * Real.exp (-b * s) / s < a * Real.exp (-b * r) / r := by
  have h1 : a * Real.exp (-b * s) < a * Real.exp (-b * r) := exp_term_anti a b r s ha hb hrs
  have h2 : 0 < a * Real.exp (-b * s) := exp_term_pos a b s ha
  calc a * Real.exp (-b * s) / s < a * Real.exp (-b * s) / r := div_lt_div_of_pos_left h2 hr hrs
    _ < a * Real.exp (-b * r) / r := div_lt_div_of_pos_right h1 hr

lemma gauss_anti (c d r s : ℝ) (hc : 0 < c) (hd : 0 < d) (hr : 0 < r) (hrs : r < s) :
    c * Real.exp (-d * s ^ 2) < c * Real.exp (-d * r ^ 2) :=
  exp_term_anti c d (r ^ 2) (s ^ 2) hc hd (by nlinarith)

/-- Kirkland real-space potential (positive scaled parameters): positive for `r > 0` -/
theorem kirkland_potential_pos (r a0 a1 a2 b0 b1 b2 c0 c1 c2 d0 d1 d2 : ℝ) (hr : 0 < r)
    (ha0 : 0 < a0) (ha1 : 0 < a1) (ha2 : 0 < a2) (hc0 : 0 < c0) (hc1 : 0 < c1) (hc2 : 0 < c2) :
    0 < ParamKirklandR.potential r a0 a1 a2 b0 b1 b2 c0 c1 c2 d0 d1 d2 := by
  unfold ParamKirklandR.potential
  have := exp_term_pos c0 d0 (r ^ 2) hc0; have := exp_term_pos c1 d1 (r ^ 2) hc1; have := exp_term_pos c2 d2 (r ^ 2) hc2
  have : 0 < a0 * Real.exp (-b0 * r) / r := by positivity
  have : 0 < a1 * Real.exp (-b1 * r) / r := by positivity
  have : 0 < a2 * Real.exp (-b2 * r) / r := by positivity
  linarith

/-- … and strictly decreasing in `r > 0` -/
theorem kirkland_potential_strictAnti (r s a0 a1 a2 b0 b1 b2 c0 c1 c2 d0 d1 d2 : ℝ) (hr : 0 < r) (hrs : r < s)
    (ha0 : 0 < a0) (ha1 : 0 < a1) (ha2 : 0 < a2) (hb0 : 0 < b0) (hb1 : 0 < b1) (hb2 : 0 < b2)
    (hc0 : 0 < c0) (hc1 : 0 < c1) (hc2 : 0 < c2) (hd0 : 0 < d0) (hd1 : 0 < d1) (hd2 : 0 < d2) :
    ParamKirklandR.potential s a0 a1 a2 b0 b1 b2 c0 c1 c2 d0 d1 d2 < ParamKirklandR.potential r a0 a1 a2 b0 b1 b2 c0 c1 c2 d0 d1 d2 := by
  unfold ParamKirklandR.potential
  have := yukawa_anti a0 b0 r s ha0 hb0 hr hrs; have := yukawa_anti a1 b1 r s ha1 hb1 hr hrs
  have := yukawa_anti a2 b2 r s ha2 hb2 hr hrs
  have := gauss_anti c0 d0 r s hc0 hd0 hr hrs; have := gauss_anti c1 d1 r s hc1 hd1 hr hrs
  have := gauss_anti c2 d2 r s hc2 hd2 hr hrs
  linarith

/-- the scaled (real-space) parameters of positive tabulated parameters are positive (κ > 0) -/
theorem kirkland_scaled_pos (a b c d kappa : ℝ) (ha : 0 < a) (hb : 0 < b) (hc : 0 < c) (hd : 0 < d) (hk : 0 < kappa) :
    0 < ParamKirklandR.scaledA a kappa ∧ 0 < ParamKirklandR.scaledB b ∧ 0 < ParamKirklandR.scaledC c d kappa ∧
      0 < ParamKirklandR.scaledD d := by
  unfold ParamKirklandR.scaledA ParamKirklandR.scaledB ParamKirklandR.scaledC ParamKirklandR.scaledD
  have hpi := Real.pi_pos
  have h1 : 0 < Real.rpow Real.pi ((3 : ℝ) / 2) := Real.rpow_pos_of_pos hpi _
  have h2 : 0 < Real.rpow d ((3 : ℝ) / 2) := Real.rpow_pos_of_pos hd _
  have h3 : 0 < Real.sqrt b := Real.sqrt_pos.mpr hb
  refine ⟨by positivity, by positivity, by positivity, by positivity⟩

noncomputable def kirklandSF (e : List (List ℚ)) (x : ℝ) : ℝ :=
  ParamKirklandR.scatteringFactor x (g e 0 0) (g e 0 1) (g e 0 2) (g e 1 0) (g e 1 1) (g e 1 2)
    (g e 2 0) (g e 2 1) (g e 2 2) (g e 3 0) (g e 3 1) (g e 3 2)

/-- `KirklandParametrization.potential`: the kernel at the scaled parameters -/
noncomputable def kirklandPotential (kappa : ℝ) (e : List (List ℚ)) (r : ℝ) : ℝ :=
  ParamKirklandR.potential r
    (ParamKirklandR.scaledA (g e 0 0) kappa) (ParamKirklandR.scaledA (g e 0 1) kappa) (ParamKirklandR.scaledA (g e 0 2) kappa)
    (ParamKirklandR.scaledB (g e 1 0)) (ParamKirklandR.scaledB (g e 1 1)) (ParamKirklandR.scaledB (g e 1 2))
    (ParamKirklandR.scaledC (g e 2 0) (g e 3 0) kappa) (ParamKirklandR.scaledC (g e 2 1) (g e 3 1) kappa)
    (ParamKirklandR.scaledC (g e 2 2) (g e 3 2) kappa)
    (ParamKirklandR.scaledD (g e 3 0)) (ParamKirklandR.scaledD (g e 3 1)) (ParamKirklandR.scaledD (g e 3 2))

lemma pos12_spec (e : List (List ℚ)) (h : pos12 e = true) :
    (0 < (g e 0 0 : ℝ) ∧ 0 < (g e 0 1 : ℝ) ∧ 0 < (g e 0 2 : ℝ)) ∧ (0 < (g e 1 0 : ℝ) ∧ 0 < (g e 1 1 : ℝ) ∧ 0 < (g e 1 2 : ℝ)) ∧
    (0 < (g e 2 0 : ℝ) ∧ 0 < (g e 2 1 : ℝ) ∧ 0 < (g e 2 2 : ℝ)) ∧ (0 < (g e 3 0 : ℝ) ∧ 0 < (g e 3 1 : ℝ) ∧ 0 < (g e 3 2 : ℝ)) := by
  simp only [pos12, Bool.and_eq_true, decide_eq_true_eq] at h
  obtain ⟨⟨⟨⟨⟨⟨⟨⟨⟨⟨⟨a0, a1⟩, a2⟩, b0⟩, b1⟩, b2⟩, c0⟩, c1⟩, c2⟩, d0⟩, d1⟩, d2⟩ := h
  refine ⟨⟨?_, ?_, ?_⟩, ⟨?_, ?_, ?_⟩, ⟨?_, ?_, ?_⟩, ⟨?_, ?_, ?_⟩⟩ <;> exact_mod_cast ‹_›

/-- **Kirkland, whole table**: every coefficient of every tabulated element is positive -/
theorem kirkland_table_pos : ∀ e ∈ kirklandTable, pos12 e.2 = true := by decide +kernel

/-- hence, for every tabulated element: scattering factor positive on `k² ≥ 0` and strictly decreasing; potential
positive and strictly decreasing on `r > 0` (any κ > 0) -/
theorem kirkland_table_sf (e : String × List (List ℚ)) (he : e ∈ kirklandTable) :
    (∀ x, 0 ≤ x → 0 < kirklandSF e.2 x) ∧ ∀ x y, 0 ≤ x → x < y → kirklandSF e.2 y < kirklandSF e.2 x := by
  obtain ⟨⟨a0, a1, a2⟩, ⟨b0, b1, b2⟩, ⟨c0, c1, c2⟩, ⟨d0, d1, d2⟩⟩ := pos12_spec e.2 (kirkland_table_pos e he)
  exact ⟨fun x hx => kirkland_sf_pos x _ _ _ _ _ _ _ _ _ _ _ _ hx a0 a1 a2 b0 b1 b2 c0 c1 c2,
    fun x y hx hxy => kirkland_sf_strictAnti x y _ _ _ _ _ _ _ _ _ _ _ _ hx hxy a0 a1 a2 b0 b1 b2 c0 c1 c2 d0 d1 d2⟩

theorem kirkland_table_potential (kappa : ℝ) (hk : 0 < kappa) (e : String × List (List ℚ)) (he : e ∈ kirklandTable) :
    (∀ r, 0 < r → 0 < kirklandPotential kappa e.2 r) ∧
      ∀ r s, 0 < r → r < s → kirklandPotential kappa e.2 s < kirklandPotential kappa e.2 r := by
  obtain ⟨⟨a0, a1, a2⟩, ⟨b0, b1, b2⟩, ⟨c0, c1, c2⟩, ⟨d0, d1, d2⟩⟩ := pos12_spec e.2 (kirkland_table_pos e he)
  obtain ⟨A0, B0, C0, D0⟩ := kirkland_scaled_pos _ _ _ _ kappa a0 b0 c0 d0 hk
  obtain ⟨A1, B1, C1, D1⟩ := kirkland_scaled_pos _ _ _ _ kappa a1 b1 c1 d1 hk
  obtain ⟨A2, B2, C2, D2⟩ := kirkland_scaled_pos _ _ _ _ kappa a2 b2 c2 d2 hk
  exact ⟨fun r hr => kirkland_potential_pos r _ _ _ _ _ _ _ _ _ _ _ _ hr A0 A1 A2 C0 C1 C2,
    fun r s hr hrs => kirkland_potential_strictAnti r s _ _ _ _ _ _ _ _ _ _ _ _ hr hrs A0 A1 A2 B0 B1 B2 C0 C1 C2 D0 D1 D2⟩

/-! ## Lobato: `Σ aᵢ (2 + bᵢ x)/(1 + bᵢ x)²` with mixed-sign `aᵢ` -/

noncomputable def lobatoSF (e : List (List ℚ)) (x : ℝ) : ℝ :=
  ParamLobatoR.scatteringFactor x (g e 0 0) (g e 0 1) (g e 0 2) (g e 0 3) (g e 0 4) (g e 1 0) (g e 1 1) (g e 1 2) (g e 1 3) (g e 1 4)

lemma lobatoSF_eq_F (e : List (List ℚ)) (x : ℝ) : lobatoSF e x = F (lobatoTerms e) x := by
  unfold lobatoSF ParamLobatoR.scatteringFactor F lobatoTerms
  simp only [List.map_cons, List.map_nil, List.sum_cons, List.sum_nil]
  ring

/-- **Lobato scattering factor positive** on `k² ≥ 0` under the polynomial-coefficient hypothesis -/
theorem lobato_sf_pos (e : List (List ℚ)) (h : lobatoOK e = true) (x : ℝ) (hx : 0 ≤ x) : 0 < lobatoSF e x := by
  simp only [lobatoOK, Bool.and_eq_true, List.all_eq_true, decide_eq_true_eq] at h
  obtain ⟨hb, hN⟩ := h
  have hne : ∀ t ∈ lobatoTerms e, 1 + (t.2 : ℝ) * x ≠ 0 := by
    intro t ht
    have : (0 : ℝ) < (t.2 : ℝ) := by exact_mod_cast hb t ht
    have : 0 < 1 + (t.2 : ℝ) * x := by positivity
    exact ne_of_gt this
  rw [lobatoSF_eq_F, (F_eq_ratio _ x hne).2]
  exact div_pos (peval_pos _ hN x hx) (den_pos _ hb x hx)

/-- **Lobato, whole table**: the hypothesis holds for every tabulated element (although the `aᵢ` have mixed signs) -/
theorem lobato_ok_chunk0 : chunkOK lobatoTable lobatoOK 13 0 = true := by decide +kernel
theorem lobato_ok_chunk1 : chunkOK lobatoTable lobatoOK 13 1 = true := by decide +kernel
theorem lobato_ok_chunk2 : chunkOK lobatoTable lobatoOK 13 2 = true := by decide +kernel
theorem lobato_ok_chunk3 : chunkOK lobatoTable lobatoOK 13 3 = true := by decide +kernel
theorem lobato_ok_chunk4 : chunkOK lobatoTable lobatoOK 13 4 = true := by decide +kernel
theorem lobato_ok_chunk5 : chunkOK lobatoTable lobatoOK 13 5 = true := by decide +kernel
theorem lobato_ok_chunk6 : chunkOK lobatoTable lobatoOK 13 6 = true := by decide +kernel
theorem lobato_ok_chunk7 : chunkOK lobatoTable lobatoOK 13 7 = true := by decide +kernel

theorem lobato_table_ok : ∀ e ∈ lobatoTable, lobatoOK e.2 = true := by
  refine all_of_chunks lobatoTable lobatoOK 13 8 (by norm_num) (by decide +kernel) ?_
  intro i hi
  interval_cases i
  exacts [lobato_ok_chunk0, lobato_ok_chunk1, lobato_ok_chunk2, lobato_ok_chunk3, lobato_ok_chunk4, lobato_ok_chunk5,
    lobato_ok_chunk6, lobato_ok_chunk7]

theorem lobato_table_sf_pos (e : String × List (List ℚ)) (he : e ∈ lobatoTable) (x : ℝ) (hx : 0 ≤ x) : 0 < lobatoSF e.2 x :=
  lobato_sf_pos e.2 (lobato_table_ok e he) x hx

/-- **Lobato scattering factor strictly decreasing** on `k² ≥ 0` under the coefficient hypothesis on `-f'` -/
theorem lobato_sf_strictAntiOn (e : List (List ℚ)) (h : lobatoDecOK e = true) : StrictAntiOn (lobatoSF e) (Set.Ici 0) := by
  simp only [lobatoDecOK, Bool.and_eq_true, List.all_eq_true, decide_eq_true_eq] at h
  obtain ⟨hb, hN⟩ := h
  have := F_strictAntiOn (lobatoTerms e) hb hN
  intro x hx y hy hxy
  rw [lobatoSF_eq_F, lobatoSF_eq_F]
  exact this hx hy hxy

theorem lobato_dec_chunk0 : chunkOK lobatoTable lobatoDecOK 13 0 = true := by decide +kernel
theorem lobato_dec_chunk1 : chunkOK lobatoTable lobatoDecOK 13 1 = true := by decide +kernel
theorem lobato_dec_chunk2 : chunkOK lobatoTable lobatoDecOK 13 2 = true := by decide +kernel
theorem lobato_dec_chunk3 : chunkOK lobatoTable lobatoDecOK 13 3 = true := by decide +kernel
theorem lobato_dec_chunk4 : chunkOK lobatoTable lobatoDecOK 13 4 = true := by decide +kernel
theorem lobato_dec_chunk5 : chunkOK lobatoTable lobatoDecOK 13 5 = true := by decide +kernel
theorem lobato_dec_chunk6 : chunkOK lobatoTable lobatoDecOK 13 6 = true := by decide +kernel
theorem lobato_dec_chunk7 : chunkOK lobatoTable lobatoDecOK 13 7 = true := by decide +kernel

theorem lobato_table_dec_ok : ∀ e ∈ lobatoTable, lobatoDecOK e.2 = true := by
  refine all_of_chunks lobatoTable lobatoDecOK 13 8 (by norm_num) (by decide +kernel) ?_
  intro i hi
  interval_cases i
  exacts [lobato_dec_chunk0, lobato_dec_chunk1, lobato_dec_chunk2, lobato_dec_chunk3, lobato_dec_chunk4, lobato_dec_chunk5,
    lobato_dec_chunk6, lobato_dec_chunk7]

/-- **Lobato, whole table**: positive and strictly decreasing scattering factor for all 103 elements -/
theorem lobato_table_sf_strictAntiOn (e : String × List (List ℚ)) (he : e ∈ lobatoTable) :
    StrictAntiOn (lobatoSF e.2) (Set.Ici 0) :=
  lobato_sf_strictAntiOn e.2 (lobato_table_dec_ok e he)

/-- the tabulated `aᵢ` really have mixed signs (so a term-wise argument cannot work): hydrogen -/
theorem lobato_mixed_signs : ∃ e ∈ lobatoTable, g e.2 0 1 < 0 ∧ 0 < g e.2 0 2 := by
  refine ⟨lobatoTable.head!, ?_, ?_⟩ <;> decide +kernel

/-- the derivative theorems of `Lib/ParamCalc.lean` restated for table entries: for every tabulated Lobato element the
generated `potential_derivative` at the scaled parameters is the derivative of the generated `potential` (κ ≠ 0, r ≠ 0) -/
theorem lobato_table_potential_derivative (kappa : ℝ) (e : String × List (List ℚ)) (he : e ∈ lobatoTable) (r : ℝ) (hr : r ≠ 0) :
    HasDerivAt (fun r => ParamLobatoR.potential r
        (ParamLobatoR.scaledA (g e.2 0 0) (g e.2 1 0) kappa) (ParamLobatoR.scaledA (g e.2 0 1) (g e.2 1 1) kappa)
        (ParamLobatoR.scaledA (g e.2 0 2) (g e.2 1 2) kappa) (ParamLobatoR.scaledA (g e.2 0 3) (g e.2 1 3) kappa)
        (ParamLobatoR.scaledA (g e.2 0 4) (g e.2 1 4) kappa)
        (ParamLobatoR.scaledB (g e.2 1 0)) (ParamLobatoR.scaledB (g e.2 1 1)) (ParamLobatoR.scaledB (g e.2 1 2))
        (ParamLobatoR.scaledB (g e.2 1 3)) (ParamLobatoR.scaledB (g e.2 1 4)))
      (ParamLobatoR.potentialDerivative r
        (ParamLobatoR.scaledA (g e.2 0 0) (g e.2 1 0) kappa) (ParamLobatoR.scaledA (g e.2 0 1) (g e.2 1 1) kappa)
        (ParamLobatoR.scaledA (g e.2 0 2) (g e.2 1 2) kappa) (ParamLobatoR.scaledA (g e.2 0 3) (g e.2 1 3) kappa)
        (ParamLobatoR.scaledA (g e.2 0 4) (g e.2 1 4) kappa)
        (ParamLobatoR.scaledB (g e.2 1 0)) (ParamLobatoR.scaledB (g e.2 1 1)) (ParamLobatoR.scaledB (g e.2 1 2))
        (ParamLobatoR.scaledB (g e.2 1 3)) (ParamLobatoR.scaledB (g e.2 1 4))) r := by
  have h := lobato_table_ok e he
  simp only [lobatoOK, Bool.and_eq_true, List.all_eq_true, decide_eq_true_eq] at h
  have hb : ∀ t ∈ lobatoTerms e.2, ParamLobatoR.scaledB (t.2 : ℝ) ≠ 0 := by
    intro t ht
    have : (0 : ℝ) < (t.2 : ℝ) := by exact_mod_cast h.1 t ht
    unfold ParamLobatoR.scaledB
    have := Real.sqrt_pos.mpr this
    have := Real.pi_pos
    positivity
  apply lobato_potential_hasDerivAt _ _ _ _ _ _ _ _ _ _ _ hr
  · exact hb (g e.2 0 0, g e.2 1 0) (by simp [lobatoTerms])
  · exact hb (g e.2 0 1, g e.2 1 1) (by simp [lobatoTerms])
  · exact hb (g e.2 0 2, g e.2 1 2) (by simp [lobatoTerms])
  · exact hb (g e.2 0 3, g e.2 1 3) (by simp [lobatoTerms])
  · exact hb (g e.2 0 4, g e.2 1 4) (by simp [lobatoTerms])

/-- **Reciprocal-space consistency, whole tables**: for every tabulated Lobato / Kirkland element the projected scattering
factor at the scaled parameters is the scattering factor divided by κ, for all `k² ≥ 0` and `κ ≠ 0` -/
theorem lobato_table_projected_sf (kappa : ℝ) (hk : kappa ≠ 0) (e : String × List (List ℚ)) (he : e ∈ lobatoTable) (x : ℝ) (hx : 0 ≤ x) :
    ParamLobatoR.projectedScatteringFactor x
        (ParamLobatoR.scaledA (g e.2 0 0) (g e.2 1 0) kappa) (ParamLobatoR.scaledA (g e.2 0 1) (g e.2 1 1) kappa)
        (ParamLobatoR.scaledA (g e.2 0 2) (g e.2 1 2) kappa) (ParamLobatoR.scaledA (g e.2 0 3) (g e.2 1 3) kappa)
        (ParamLobatoR.scaledA (g e.2 0 4) (g e.2 1 4) kappa)
        (ParamLobatoR.scaledB (g e.2 1 0)) (ParamLobatoR.scaledB (g e.2 1 1)) (ParamLobatoR.scaledB (g e.2 1 2))
        (ParamLobatoR.scaledB (g e.2 1 3)) (ParamLobatoR.scaledB (g e.2 1 4))
      = lobatoSF e.2 x / kappa := by
  have h := lobato_table_ok e he
  simp only [lobatoOK, Bool.and_eq_true, List.all_eq_true, decide_eq_true_eq] at h
  have hb : ∀ t ∈ lobatoTerms e.2, (0 : ℝ) < (t.2 : ℝ) := fun t ht => by exact_mod_cast h.1 t ht
  exact AbtemVerif.ParamProj.lobato_projected_sf_eq x _ _ _ _ _ _ _ _ _ _ kappa hx hk
    (hb (g e.2 0 0, g e.2 1 0) (by simp [lobatoTerms])) (hb (g e.2 0 1, g e.2 1 1) (by simp [lobatoTerms]))
    (hb (g e.2 0 2, g e.2 1 2) (by simp [lobatoTerms])) (hb (g e.2 0 3, g e.2 1 3) (by simp [lobatoTerms]))
    (hb (g e.2 0 4, g e.2 1 4) (by simp [lobatoTerms]))

theorem kirkland_table_projected_sf (kappa : ℝ) (hk : kappa ≠ 0) (e : String × List (List ℚ)) (he : e ∈ kirklandTable) (x : ℝ) (hx : 0 ≤ x) :
    ParamKirklandR.projectedScatteringFactor x
        (ParamKirklandR.scaledA (g e.2 0 0) kappa) (ParamKirklandR.scaledA (g e.2 0 1) kappa) (ParamKirklandR.scaledA (g e.2 0 2) kappa)
        (ParamKirklandR.scaledB (g e.2 1 0)) (ParamKirklandR.scaledB (g e.2 1 1)) (ParamKirklandR.scaledB (g e.2 1 2))
        (ParamKirklandR.scaledC (g e.2 2 0) (g e.2 3 0) kappa) (ParamKirklandR.scaledC (g e.2 2 1) (g e.2 3 1) kappa)
        (ParamKirklandR.scaledC (g e.2 2 2) (g e.2 3 2) kappa)
        (ParamKirklandR.scaledD (g e.2 3 0)) (ParamKirklandR.scaledD (g e.2 3 1)) (ParamKirklandR.scaledD (g e.2 3 2))
      = kirklandSF e.2 x / kappa := by
  obtain ⟨_, ⟨b0, b1, b2⟩, _, ⟨d0, d1, d2⟩⟩ := pos12_spec e.2 (kirkland_table_pos e he)
  exact AbtemVerif.ParamProj.kirkland_projected_sf_eq x _ _ _ _ _ _ _ _ _ _ _ _ kappa hx hk b0 b1 b2 d0 d1 d2

/-! ## non-vacuity -/
example : pos12 [[1, 1, 1], [1, 1, 1], [1, 1, 1], [1, 1, 1]] = true := by decide +kernel
example : lobatoOK [[1, -1/2, 1, 1, 1], [1, 2, 3, 4, 5]] = true := by decide +kernel
example : ("H", [[(42029832 : ℚ) / 10000000000, (627762505 : ℚ) / 10000000000, (300907347 : ℚ) / 10000000000],
    [(225350888 : ℚ) / 1000000000, (22536695 : ℚ) / 100000000, (225331756 : ℚ) / 1000000000],
    [(677756695 : ℚ) / 10000000000, (35660924 : ℚ) / 10000000000, (276135815 : ℚ) / 10000000000],
    [(438854001 : ℚ) / 100000000, (403884823 : ℚ) / 1000000000, (144490166 : ℚ) / 100000000]]) ∈ kirklandTable := by
  decide +kernel

end AbtemVerif.Props.C25
