/-
C12 — Detectors measure consistent integrated intensities.

Statements are about `AbtemVerif.Detect` (Model/Detect.lean), whose annular predicate, bin label formula, flexible bin
count and radial samplings are the *generated* definitions of `Gen/Detect.lean` (regenerated from
abtem/measurements.py and abtem/detectors.py on every run).  Quantifiers: every pattern geometry (sizes, samplings,
shifted or not), every intensity table, all limits `0 ≤ a ≤ b ≤ c`, every bin count and step.
-/
import AbtemVerif.Model.Detect
import AbtemVerif.Props.C13
import Mathlib.Tactic.Ring
import Mathlib.Tactic.Linarith
import Mathlib.Tactic.FieldSimp
import Mathlib.Tactic.Positivity
import Mathlib.Algebra.Order.Floor.Ring
import Mathlib.Data.Rat.Floor
import AbtemVerif.Gen.DetectR
import Mathlib.Analysis.SpecialFunctions.Sqrt

namespace AbtemVerif.Props.C12
open AbtemVerif.Detect AbtemVerif.Py AbtemVerif.Np AbtemVerif.Gen.Detect AbtemVerif.Polar

/-! ### helper lemmas -/

lemma sq_mono {a b : Rat} (ha : 0 ≤ a) (hab : a ≤ b) : a ^ 2 ≤ b ^ 2 := by nlinarith

lemma maskSum_union (n : Nat) (m1 m2 m3 : Nat → Bool) (x : Nat → Int)
    (h : ∀ k, k < n → m3 k = (m1 k || m2 k) ∧ (m1 k && m2 k) = false) :
    maskSum n m3 x = maskSum n m1 x + maskSum n m2 x := by
  unfold maskSum
  rw [← List.sum_map_add]
  congr 1
  apply List.map_congr_left
  intro k hk
  obtain ⟨h3, hd⟩ := h k (List.mem_range.1 hk)
  rw [h3]
  cases h1 : m1 k <;> cases h2 : m2 k <;> simp_all

lemma maskSum_congr (n : Nat) (m1 m2 : Nat → Bool) (x : Nat → Int) (h : ∀ k, k < n → m1 k = m2 k) :
    maskSum n m1 x = maskSum n m2 x := by
  unfold maskSum
  congr 1
  apply List.map_congr_left
  intro k hk
  rw [h k (List.mem_range.1 hk)]

lemma maskSum_false (n : Nat) (x : Nat → Int) : maskSum n (fun _ => false) x = 0 := by
  unfold maskSum
  simp

/-! ### property theorems -/

/-- **Annular masks are additive over adjacent ranges**, pixel by pixel: `[a,c) = [a,b) ⊎ [b,c)`. -/
theorem annularIn_additive (kx ky a b c : Rat) (ha : 0 ≤ a) (hab : a ≤ b) (hbc : b ≤ c) :
    annularIn kx ky a c = (annularIn kx ky a b || annularIn kx ky b c) ∧
    (annularIn kx ky a b && annularIn kx ky b c) = false := by
  have h1 := sq_mono ha hab
  have h2 := sq_mono (le_trans ha hab) hbc
  unfold annularIn
  constructor
  · rw [Bool.eq_iff_iff]
    simp only [Bool.and_eq_true, Bool.or_eq_true, decide_eq_true_eq, ge_iff_le]
    constructor
    · rintro ⟨p, q⟩
      rcases lt_or_ge (kx ^ 2 + ky ^ 2) (b ^ 2) with hlt | hge
      · exact Or.inl ⟨p, hlt⟩
      · exact Or.inr ⟨hge, q⟩
    · rintro (⟨p, q⟩ | ⟨p, q⟩)
      · exact ⟨p, lt_of_lt_of_le q h2⟩
      · exact ⟨le_trans h1 p, q⟩
  · rw [Bool.and_eq_false_iff]
    by_cases hlt : kx ^ 2 + ky ^ 2 < b ^ 2
    · right
      simp only [Bool.and_eq_false_iff, decide_eq_false_iff_not, ge_iff_le, not_le]
      exact Or.inl hlt
    · left
      simp only [Bool.and_eq_false_iff, decide_eq_false_iff_not]
      exact Or.inr hlt

/-- **Annular intensities are additive over adjacent ranges**: for every pattern and `0 ≤ a ≤ b ≤ c`,
`I[a,b) + I[b,c) = I[a,c)`. -/
theorem annular_additive (g : Geom) (x : Nat → Int) (a b c : Rat) (ha : 0 ≤ a) (hab : a ≤ b) (hbc : b ≤ c) :
    annularSum g a c x = annularSum g a b x + annularSum g b c x := by
  unfold annularSum
  apply maskSum_union
  intro k _
  exact annularIn_additive (g.ax k) (g.ay k) a b c ha hab hbc

/-- an empty range detects nothing -/
theorem annular_empty (g : Geom) (x : Nat → Int) (a : Rat) : annularSum g a a x = 0 := by
  unfold annularSum
  rw [maskSum_congr _ _ (fun _ => false) x, maskSum_false]
  intro k _
  unfold annularMask annularIn
  rw [Bool.and_eq_false_iff]
  by_cases h : g.ax k ^ 2 + g.ay k ^ 2 < a ^ 2
  · left; simpa using h
  · right; simpa using h

/-- equally spaced edges `a + r·w` -/
def edge (a w : Rat) (r : Nat) : Rat := a + r * w

lemma edge_nonneg (a w : Rat) (ha : 0 ≤ a) (hw : 0 ≤ w) (r : Nat) : 0 ≤ edge a w r := by
  unfold edge; positivity

lemma edge_mono (a w : Rat) (hw : 0 ≤ w) (r : Nat) : edge a w r ≤ edge a w (r + 1) := by
  unfold edge; push_cast; nlinarith

/-- **Telescoping**: the bins `i₀ ≤ r < i₁` of width `w` starting at `a` add up to the annulus between their outer
edges — this is what integrating a flexible / segmented measurement over bin-aligned limits returns. -/
theorem bins_sum_to_annulus (g : Geom) (x : Nat → Int) (a w : Rat) (ha : 0 ≤ a) (hw : 0 ≤ w) (i0 i1 : Nat) (h : i0 ≤ i1) :
    sumRange (fun r => annularSum g (edge a w r) (edge a w (r + 1)) x) i0 i1 = annularSum g (edge a w i0) (edge a w i1) x := by
  induction i1, h using Nat.le_induction with
  | base => simp [sumRange, annular_empty]
  | succ m hm ih =>
    rw [AbtemVerif.Props.C13.sumRange_succ _ _ _ hm, ih]
    have hmono : edge a w i0 ≤ edge a w m := by
      clear ih
      induction m, hm using Nat.le_induction with
      | base => exact le_refl _
      | succ j _ ihj => exact le_trans ihj (edge_mono a w hw j)
    exact (annular_additive g x _ _ _ (edge_nonneg a w ha hw i0) hmono (edge_mono a w hw m)).symm

lemma k2_nonneg (g : Geom) (k : Nat) : 0 ≤ g.k2 k := by unfold Geom.k2; positivity

lemma sqrtGe_nonneg (k2 e : Rat) (hk : 0 ≤ k2) (he : 0 ≤ e) : sqrtGe k2 e = decide (e ^ 2 ≤ k2) := by
  unfold sqrtGe
  rcases eq_or_lt_of_le he with h0 | hpos
  · subst h0; simp [hk]
  · have : ¬ e ≤ 0 := not_le.2 hpos
    simp [this]

lemma sqrtLt_nonneg (k2 e : Rat) (hk : 0 ≤ k2) (he : 0 ≤ e) : sqrtLt k2 e = decide (k2 < e ^ 2) := by
  unfold sqrtLt
  rcases eq_or_lt_of_le he with h0 | hpos
  · subst h0
    have : ¬ k2 < 0 := not_lt.2 hk
    simp [this]
  · simp [hpos]

/-- **Each radial bin is the annular detector on the bin's edges**: the pixels with
`int(nb·(√k2 − inner)/(outer − inner)) = r` are exactly those of the annulus `[inner + r·w, inner + (r+1)·w)`,
`w = (outer − inner)/nb`. -/
theorem radial_bin_is_annulus (g : Geom) (inner outer : Rat) (nb r : Nat) (k : Nat) (hi : 0 ≤ inner) (hio : inner ≤ outer) :
    inRadialBin (g.k2 k) inner outer nb r
      = annularMask g (edge inner ((outer - inner) / nb) r) (edge inner ((outer - inner) / nb) (r + 1)) k := by
  have hw : 0 ≤ (outer - inner) / (nb : Rat) := div_nonneg (by linarith) (by positivity)
  unfold inRadialBin annularMask annularIn
  have e1 := edge_nonneg inner _ hi hw r
  have e2 := edge_nonneg inner _ hi hw (r + 1)
  have hk := k2_nonneg g k
  have c1 : inner + (r : Rat) * ((outer - inner) / nb) = edge inner ((outer - inner) / nb) r := rfl
  have c2 : inner + ((r : Rat) + 1) * ((outer - inner) / nb) = edge inner ((outer - inner) / nb) (r + 1) := by
    unfold edge; push_cast; ring
  rw [c1, c2, sqrtGe_nonneg _ _ hk e1, sqrtLt_nonneg _ _ hk e2]
  rfl

/-- `valid = (alpha ≥ inner) & (alpha < outer)` selects the annulus `[inner, outer)` of `_annular_detector_mask`. -/
theorem polarValid_is_annulus (g : Geom) (inner outer : Rat) (k : Nat) (hi : 0 ≤ inner) (hio : inner ≤ outer) :
    polarValid (g.k2 k) inner outer = annularMask g inner outer k := by
  unfold polarValid annularMask annularIn
  rw [sqrtGe_nonneg _ _ (k2_nonneg g k) hi, sqrtLt_nonneg _ _ (k2_nonneg g k) (le_trans hi hio)]
  rfl

/-- Labels partition the pixels: summing the per-label sums over all labels `0 ≤ l < L` gives the sum over the
pixels whose label lies in that range — whatever the labelling (any sector count, rotation, offset). -/
theorem labels_partition (n L : Nat) (lab : Nat → Int) (x : Nat → Int) :
    ((List.range L).map fun (l : Nat) => maskSum n (fun k => lab k == (l : Int)) x).sum
      = maskSum n (fun k => decide (0 ≤ lab k) && decide (lab k < (L : Int))) x := by
  induction L with
  | zero =>
    simp only [List.range_zero, List.map_nil, List.sum_nil]
    rw [maskSum_congr _ _ (fun _ => false) x, maskSum_false]
    intro k _
    rw [Bool.and_eq_false_iff]
    by_cases h : 0 ≤ lab k
    · right; simp; omega
    · left; simpa using h
  | succ L ih =>
    rw [List.range_succ, List.map_append, List.sum_append, ih]
    simp only [List.map_cons, List.map_nil, List.sum_cons, List.sum_nil, add_zero]
    symm
    apply maskSum_union
    intro k _
    constructor
    · rw [Bool.eq_iff_iff]
      simp only [Bool.and_eq_true, Bool.or_eq_true, decide_eq_true_eq, beq_iff_eq]
      push_cast
      omega
    · rw [Bool.and_eq_false_iff]
      by_cases h : lab k = (L : Int)
      · left
        rw [Bool.and_eq_false_iff]; right
        simp; omega
      · right; simpa using h

/-- **Segments add up to the annular detector**: if every pixel of the annulus `[inner, outer)` receives a label in
`[0, nr·na)` and every other pixel the label `-1` (what `_polar_detector_bins` produces: `a + r·na` with the clipped
sector `a < na` and the radial bin `r < nr`), the sum over all segments equals the annular intensity. -/
theorem segments_sum_eq_annular (g : Geom) (x : Nat → Int) (inner outer : Rat) (L : Nat) (lab : Nat → Int)
    (hlab : ∀ k, k < g.size → (annularMask g inner outer k = true → 0 ≤ lab k ∧ lab k < (L : Int)) ∧
                               (annularMask g inner outer k = false → lab k = -1)) :
    ((List.range L).map fun (l : Nat) => maskSum g.size (fun k => lab k == (l : Int)) x).sum = annularSum g inner outer x := by
  rw [labels_partition]
  unfold annularSum
  apply maskSum_congr
  intro k hk
  obtain ⟨h1, h2⟩ := hlab k hk
  cases hm : annularMask g inner outer k
  · have := h2 hm
    rw [Bool.and_eq_false_iff]; left
    simp [this]
  · obtain ⟨p, q⟩ := h1 hm
    simp [p, q]

/-- The label formula `a + r·na` with `a < na`, `r < nr` lies in `[0, nr·na)` and determines `(r, a)`. -/
theorem binLabel_range (a r na nr : Nat) (ha : a < na) (hr : r < nr) :
    0 ≤ binLabel a r na ∧ binLabel a r na < ((nr * na : Nat) : Int) ∧
    binLabel a r na / (na : Int) = r ∧ binLabel a r na % (na : Int) = a := by
  unfold binLabel
  have h1 : (a : Int) + (r : Int) * (na : Int) < ((nr * na : Nat) : Int) := by
    have : a + r * na < nr * na := by
      calc a + r * na < na + r * na := by omega
        _ = (r + 1) * na := by ring
        _ ≤ nr * na := Nat.mul_le_mul_right _ hr
    exact_mod_cast this
  refine ⟨by positivity, h1, ?_, ?_⟩
  · rw [Int.add_mul_ediv_right _ _ (by omega), Int.ediv_eq_zero_of_lt (by omega) (by omega)]; simp
  · rw [Int.add_mul_emod_self_right, Int.emod_eq_of_lt (by omega) (by omega)]

/-! ### the segmented detector, without hypotheses on the labels (1, 2 or 4 sectors, rotation 0) -/

/-- `a² ≤ k2 < b²` -/
def inAnn (k2 a b : Rat) : Bool := decide (a ^ 2 ≤ k2) && decide (k2 < b ^ 2)

lemma inAnn_split (k2 a b c : Rat) (h : inAnn k2 a c = true) :
    inAnn k2 a b = true ∨ inAnn k2 b c = true := by
  unfold inAnn at *
  simp only [Bool.and_eq_true, decide_eq_true_eq] at *
  obtain ⟨p, q⟩ := h
  rcases lt_or_ge k2 (b ^ 2) with hlt | hge
  · exact Or.inl ⟨p, hlt⟩
  · exact Or.inr ⟨hge, q⟩

lemma edge_le (a w : Rat) (hw : 0 ≤ w) (r s : Nat) (h : r ≤ s) : edge a w r ≤ edge a w s := by
  unfold edge
  have : (r : Rat) ≤ (s : Rat) := by exact_mod_cast h
  nlinarith

lemma inRadialBin_inAnn (k2 inner outer : Rat) (nb r : Nat) (hk : 0 ≤ k2) (hi : 0 ≤ inner) (hio : inner ≤ outer) :
    inRadialBin k2 inner outer nb r
      = inAnn k2 (edge inner ((outer - inner) / nb) r) (edge inner ((outer - inner) / nb) (r + 1)) := by
  have hw : 0 ≤ (outer - inner) / (nb : Rat) := div_nonneg (by linarith) (by positivity)
  unfold inRadialBin inAnn
  have e1 := edge_nonneg inner _ hi hw r
  have e2 := edge_nonneg inner _ hi hw (r + 1)
  have c1 : inner + (r : Rat) * ((outer - inner) / nb) = edge inner ((outer - inner) / nb) r := rfl
  have c2 : inner + ((r : Rat) + 1) * ((outer - inner) / nb) = edge inner ((outer - inner) / nb) (r + 1) := by
    unfold edge; push_cast; ring
  rw [c1, c2, sqrtGe_nonneg _ _ hk e1, sqrtLt_nonneg _ _ hk e2]

lemma bins_cover (k2 a w : Rat) (ha : 0 ≤ a) (hw : 0 ≤ w) :
    ∀ m : Nat, inAnn k2 (edge a w 0) (edge a w m) = true → ∃ r, r < m ∧ inAnn k2 (edge a w r) (edge a w (r + 1)) = true := by
  intro m
  induction m with
  | zero =>
    intro h
    unfold inAnn at h
    simp only [Bool.and_eq_true, decide_eq_true_eq] at h
    exact absurd (lt_of_le_of_lt h.1 h.2) (lt_irrefl _)
  | succ m ih =>
    intro h
    rcases inAnn_split k2 _ (edge a w m) _ h with h1 | h2
    · obtain ⟨r, hr, hb⟩ := ih h1
      exact ⟨r, by omega, hb⟩
    · exact ⟨m, by omega, h2⟩

/-- Every pixel of the annulus falls in exactly the radial bin found by the model, and that bin exists (`r < nb`). -/
theorem radialBin_of_valid (k2 inner outer : Rat) (nb : Nat) (hk : 0 ≤ k2) (hi : 0 ≤ inner) (hio : inner < outer) (hnb : 1 ≤ nb)
    (hv : polarValid k2 inner outer = true) : ∃ r, radialBin k2 inner outer nb = some r ∧ r < nb := by
  have hw : 0 ≤ (outer - inner) / (nb : Rat) := div_nonneg (by linarith) (by positivity)
  have hnb' : (nb : Rat) ≠ 0 := by
    have : (0 : Rat) < nb := by exact_mod_cast hnb
    exact ne_of_gt this
  have e0 : edge inner ((outer - inner) / nb) 0 = inner := by unfold edge; simp
  have en : edge inner ((outer - inner) / nb) nb = outer := by unfold edge; field_simp; ring
  have hv' : inAnn k2 (edge inner ((outer - inner) / nb) 0) (edge inner ((outer - inner) / nb) nb) = true := by
    rw [e0, en]
    unfold polarValid at hv
    rw [sqrtGe_nonneg _ _ hk hi, sqrtLt_nonneg _ _ hk (le_trans hi hio.le)] at hv
    exact hv
  obtain ⟨r0, hr0, hb0⟩ := bins_cover k2 inner _ hi hw nb hv'
  rw [← inRadialBin_inAnn k2 inner outer nb r0 hk hi hio.le] at hb0
  unfold radialBin
  rw [if_pos hv]
  cases hf : (List.range nb).find? (inRadialBin k2 inner outer nb) with
  | none =>
    have := List.find?_eq_none.1 hf r0 (List.mem_range.2 hr0)
    exact absurd hb0 this
  | some r =>
    exact ⟨r, rfl, List.mem_range.1 (List.mem_of_find?_eq_some hf)⟩

lemma azimuthalBin_lt (kx ky : Rat) (na : Nat) (hna : na = 1 ∨ na = 2 ∨ na = 4) :
    ∃ a, azimuthalBin kx ky na = some a ∧ a < na := by
  unfold azimuthalBin
  rcases hna with rfl | rfl | rfl
  · exact ⟨0, by simp, by omega⟩
  · simp only [show ¬ (2 = 1) by omega, if_false, if_true]
    split_ifs
    · exact ⟨0, rfl, by omega⟩
    · exact ⟨1, rfl, by omega⟩
  · simp only [show ¬ (4 = 1) by omega, show ¬ (4 = 2) by omega, if_false, if_true]
    split_ifs
    · exact ⟨0, rfl, by omega⟩
    · exact ⟨1, rfl, by omega⟩
    · exact ⟨2, rfl, by omega⟩
    · exact ⟨3, rfl, by omega⟩

/-- **The sum over all segments of a SegmentedDetector spanning `[inner, outer)` equals the annular intensity** —
for the executable model of `_polar_detector_bins` + `polar_binning` itself (1, 2 or 4 azimuthal sectors, any number
of radial bins, any pattern, shifted or not). -/
theorem polarSums_sum_eq_annular (g : Geom) (x : Nat → Int) (inner outer : Rat) (nr na : Nat)
    (hna : na = 1 ∨ na = 2 ∨ na = 4) (hnr : 1 ≤ nr) (hi : 0 ≤ inner) (hio : inner < outer) :
    ∃ s, polarSums g inner outer (nr : Int) (na : Int) x = .ok s ∧ s.sum = annularSum g inner outer x := by
  have hna0 : 1 ≤ na := by rcases hna with rfl | rfl | rfl <;> omega
  have hcond : ((nr : Int) ≤ 0 || (na : Int) ≤ 0) = false := by
    simp only [Bool.or_eq_false_iff, decide_eq_false_iff_not, not_le]
    constructor <;> omega
  -- the label of every pixel
  have hlabel : ∀ k, ∃ l : Int, polarLabel g inner outer nr na k = some l ∧
      (annularMask g inner outer k = true → 0 ≤ l ∧ l < ((nr * na : Nat) : Int)) ∧
      (annularMask g inner outer k = false → l = -1) := by
    intro k
    obtain ⟨a, haz, ha⟩ := azimuthalBin_lt (g.ax k) (g.ay k) na hna
    have hval := polarValid_is_annulus g inner outer k hi hio.le
    cases hm : annularMask g inner outer k with
    | true =>
      rw [hm] at hval
      obtain ⟨r, hr, hrlt⟩ := radialBin_of_valid (g.k2 k) inner outer nr (k2_nonneg g k) hi hio hnr hval
      refine ⟨binLabel a r na, ?_, ?_, ?_⟩
      · unfold polarLabel; rw [hr, haz]
      · intro _
        have := binLabel_range a r na nr ha hrlt
        exact ⟨this.1, this.2.1⟩
      · intro h; exact absurd h (by simp)
    | false =>
      rw [hm] at hval
      have hr : radialBin (g.k2 k) inner outer nr = none := by
        unfold radialBin; rw [if_neg (by rw [hval]; simp)]
      refine ⟨-1, ?_, ?_, ?_⟩
      · unfold polarLabel; rw [hr, haz]
      · intro h; exact absurd h (by simp)
      · intro _; rfl
  choose lab hlab using hlabel
  refine ⟨(List.range (nr * na)).map fun (l : Nat) =>
    maskSum g.size (fun k => polarLabel g inner outer nr na k == some (l : Int)) x, ?_, ?_⟩
  · unfold polarSums
    rw [hcond]
    simp only [Bool.false_eq_true, if_false, Int.toNat_natCast]
  · have hmask : ∀ (l : Nat), maskSum g.size (fun k => polarLabel g inner outer nr na k == some (l : Int)) x
        = maskSum g.size (fun k => lab k == (l : Int)) x := by
      intro l
      apply maskSum_congr
      intro k _
      rw [(hlab k).1]
      simp
    simp only [hmask]
    exact segments_sum_eq_annular g x inner outer (nr * na) lab (fun k _ => (hlab k).2)

/-! ### the generated real-valued expressions (`alpha = √k2`) agree with the rational decisions of the model -/

lemma sqrt_ge_iff (k2 e : ℚ) (hk : 0 ≤ k2) (he : 0 ≤ e) : (e : ℝ) ≤ Real.sqrt (k2 : ℝ) ↔ e ^ 2 ≤ k2 := by
  have hk' : (0 : ℝ) ≤ (k2 : ℝ) := by exact_mod_cast hk
  have he' : (0 : ℝ) ≤ (e : ℝ) := by exact_mod_cast he
  rw [Real.le_sqrt he']
  all_goals first | exact hk' | (constructor <;> intro h <;> exact_mod_cast h)

lemma sqrt_lt_iff (k2 e : ℚ) (_hk : 0 ≤ k2) (he : 0 < e) : Real.sqrt (k2 : ℝ) < (e : ℝ) ↔ k2 < e ^ 2 := by
  have he' : (0 : ℝ) < (e : ℝ) := by exact_mod_cast he
  rw [Real.sqrt_lt' he']
  constructor <;> intro h <;> exact_mod_cast h

/-- the generated real-valued `valid` mask is the rational decision of the model -/
theorem polarValidR_eq (k2 inner outer : ℚ) (hk : 0 ≤ k2) (hi : 0 ≤ inner) (hio : inner < outer) :
    AbtemVerif.Gen.DetectR.polarValid (Real.sqrt (k2 : ℝ)) (inner : ℝ) (outer : ℝ) = polarValid k2 inner outer := by
  unfold AbtemVerif.Gen.DetectR.polarValid polarValid
  rw [sqrtGe_nonneg _ _ hk hi, sqrtLt_nonneg _ _ hk (le_trans hi hio.le), Bool.eq_iff_iff]
  simp only [Bool.and_eq_true, decide_eq_true_eq, ge_iff_le]
  rw [sqrt_ge_iff k2 inner hk hi, sqrt_lt_iff k2 outer hk (lt_of_le_of_lt hi hio)]

theorem radialQuot_floor_iff (k2 inner outer : ℚ) (nb r : ℕ) (hk : 0 ≤ k2) (hi : 0 ≤ inner) (hio : inner < outer) (hnb : 1 ≤ nb) :
    ⌊AbtemVerif.Gen.DetectR.radialQuot (Real.sqrt (k2 : ℝ)) (inner : ℝ) (outer : ℝ) (nb : ℝ)⌋ = (r : ℤ) ↔ inRadialBin k2 inner outer nb r = true := by
  have hnbQ : (0 : ℚ) < (nb : ℚ) := by exact_mod_cast hnb
  have hwQ : 0 < (outer - inner) / (nb : ℚ) := div_pos (by linarith) hnbQ
  rw [inRadialBin_inAnn k2 inner outer nb r hk hi hio.le]
  unfold inAnn
  simp only [Bool.and_eq_true, decide_eq_true_eq]
  have e1 : 0 ≤ edge inner ((outer - inner) / nb) r := edge_nonneg _ _ hi hwQ.le r
  have e2 : 0 < edge inner ((outer - inner) / nb) (r + 1) := by
    unfold edge; push_cast; nlinarith
  rw [← sqrt_ge_iff k2 _ hk e1, ← sqrt_lt_iff k2 _ hk e2, Int.floor_eq_iff]
  unfold AbtemVerif.Gen.DetectR.radialQuot edge
  have hw : (0 : ℝ) < ((outer : ℝ) - inner) := by
    have : (0 : ℚ) < outer - inner := by linarith
    exact_mod_cast this
  have hn : (0 : ℝ) < (nb : ℝ) := by exact_mod_cast hnb
  push_cast
  constructor
  · rintro ⟨h1, h2⟩
    rw [le_div_iff₀ hw] at h1
    rw [div_lt_iff₀ hw] at h2
    constructor
    · have : (r : ℝ) * ((outer - inner) / nb) = (r : ℝ) * (outer - inner) / nb := by ring
      rw [this, ← sub_nonneg]
      have : Real.sqrt k2 - (inner + r * (outer - inner) / nb) = (nb * (Real.sqrt k2 - inner) - r * (outer - inner)) / nb := by
        field_simp
        ring
      rw [this]
      apply div_nonneg _ hn.le
      linarith
    · have : Real.sqrt k2 < inner + (r + 1) * (outer - inner) / nb := by
        rw [← sub_pos]
        have : inner + (r + 1) * (outer - inner) / nb - Real.sqrt k2 = ((r + 1) * (outer - inner) - nb * (Real.sqrt k2 - inner)) / nb := by
          field_simp; ring
        rw [this]
        apply div_pos _ hn
        linarith
      calc Real.sqrt k2 < inner + (r + 1) * (outer - inner) / nb := this
        _ = _ := by ring
  · rintro ⟨h1, h2⟩
    constructor
    · rw [le_div_iff₀ hw]
      have : inner + (r : ℝ) * ((outer - inner) / nb) = inner + r * (outer - inner) / nb := by ring
      rw [this] at h1
      have h3 : (r : ℝ) * (outer - inner) / nb ≤ Real.sqrt k2 - inner := by linarith
      rw [div_le_iff₀ hn] at h3
      linarith
    · rw [div_lt_iff₀ hw]
      have : inner + ((r : ℝ) + 1) * ((outer - inner) / nb) = inner + (r + 1) * (outer - inner) / nb := by ring
      rw [this] at h2
      have h3 : Real.sqrt k2 - inner < ((r : ℝ) + 1) * (outer - inner) / nb := by linarith
      rw [lt_div_iff₀ hn] at h3
      linarith

/-- For any number of sectors and any rotation: the generated sector index `floor(na·φ/2π)` of an angle
`φ ∈ [0, 2π)` (what `(phi - rotation) % (2π)` produces) already lies in `[0, na)`, so after the clip every pixel of the
annulus carries an azimuthal index `a < na` — the hypothesis `binLabel_range` / `segments_sum_eq_annular` need. -/
theorem azimuthal_in_range (phi : ℝ) (na : ℕ) (hna : 1 ≤ na) (h0 : 0 ≤ phi) (h1 : phi < 2 * Real.pi) :
    0 ≤ AbtemVerif.Gen.DetectR.azimuthalQuot phi (na : ℝ) ∧ AbtemVerif.Gen.DetectR.azimuthalQuot phi (na : ℝ) < (na : ℤ) := by
  unfold AbtemVerif.Gen.DetectR.azimuthalQuot pyFloorR
  have hpi : (0 : ℝ) < 2 * Real.pi := by positivity
  have hn : (0 : ℝ) < (na : ℝ) := by exact_mod_cast hna
  have hq0 : 0 ≤ phi / (2 * Real.pi) := div_nonneg h0 hpi.le
  have hq1 : phi / (2 * Real.pi) < 1 := by rw [div_lt_one hpi]; exact h1
  constructor
  · exact Int.floor_nonneg.2 (mul_nonneg hn.le hq0)
  · rw [Int.floor_lt]
    push_cast
    nlinarith

/-- `AnnularDetector._calculate_new_array` hands its own `offset` to `integrate_radial` (generated keyword argument; fix
4901abf9 — before it the detector silently dropped the offset).  This is only a tripwire on the source text: the site
maps the whole offset expression to a parameter, so the statement is `rfl`; that the shifted detector equals the shifted
annular mask is observed by the oracle. -/
theorem annular_detector_passes_offset (o : Rat × Rat) : annularDetectOffset o = o := rfl

/-- **A shifted detector stays inside the cropped pattern**: the pattern is cropped to `outer + max|offset| + max
sampling` (generated), so for every axis with pixel size `0 < s ≤ maxs` the shifted annulus — radius `< outer/s` pixels,
moved by `round(|o|/s) ≤ |o|/s + ½` pixels — lies strictly inside the half-width of the crop and the rolled label table
cannot wrap around (before fix the crop ended at `outer` and shifted segments wrapped). -/
theorem offset_crop_contains_shifted_bins (outer o maxoff s maxs : Rat) (hs : 0 < s) (hsm : s ≤ maxs) (ho : o ≤ maxoff) :
    outer / s + (o / s + 1 / 2) < offsetCropAngle outer (offsetCropMargin maxoff maxs) / s := by
  unfold offsetCropAngle offsetCropMargin
  have h1 : o / s ≤ maxoff / s := div_le_div_of_nonneg_right ho hs.le
  have h2 : (1 : Rat) ≤ maxs / s := (one_le_div hs).2 hsm
  have e : (outer + (maxoff + maxs)) / s = outer / s + maxoff / s + maxs / s := by ring
  rw [e]; linarith

/-! ### the flexible detector -/

/-- **Flexible bins have the width the axis metadata states.**  With the binned range of `angular_limits`
(`inner … inner + nbins·step`) the radial sampling that `polar_binning` bins with equals `step`. -/
theorem flexible_bin_width (inner outer step : Rat) (hn : 0 < flexNbins inner outer step) :
    polarRadialSampling (flexLimits inner outer step).2.1 (flexLimits inner outer step).2.2 (flexNbins inner outer step : Rat) = step := by
  have hne : ((flexNbins inner outer step : Int) : Rat) ≠ 0 := by
    have : (0 : Rat) < ((flexNbins inner outer step : Int) : Rat) := by exact_mod_cast hn
    exact ne_of_gt this
  have e2 : (flexLimits inner outer step).2.2 = inner + ((flexNbins inner outer step : Int) : Rat) * step := by
    unfold flexLimits flexLimitsRange flexNbins; rfl
  have e1 : (flexLimits inner outer step).2.1 = inner := by
    unfold flexLimits flexLimitsRange; rfl
  unfold polarRadialSampling
  rw [e1, e2]
  field_simp
  ring

/-- The number of bins is the number of whole steps between the limits (with the code's rounding tolerance `1e-7`
on the ratio), it is never negative, at least one bin exists as soon as one step fits, and the binned range stays
inside `[inner, outer]` up to `step·1e-7`. -/
theorem flexible_range_inside (inner outer step : Rat) (hs : 0 < step) (hio : inner ≤ outer) :
    0 ≤ flexNbins inner outer step ∧ (step ≤ outer - inner → 1 ≤ flexNbins inner outer step) ∧
    (flexLimits inner outer step).2.2 ≤ outer + step / 10000000 := by
  unfold flexLimits flexLimitsRange flexNbins pyInt pyFloor
  have hq : (0 : Rat) ≤ (outer - inner) / step + 1 / 10000000 := by
    have : 0 ≤ (outer - inner) / step := div_nonneg (by linarith) hs.le
    linarith
  have hfl : (0 : Int) ≤ ((outer - inner) / step + 1 / 10000000).floor := Rat.le_floor_iff.mpr (by simpa using hq)
  have hcast : (0 : Rat) ≤ ((((outer - inner) / step + 1 / 10000000).floor : Int) : Rat) := by exact_mod_cast hfl
  simp only [if_pos hcast, Rat.floor_intCast]
  refine ⟨hfl, ?_, ?_⟩
  · intro h1
    apply Rat.le_floor_iff.mpr
    have : (1 : Rat) ≤ (outer - inner) / step := by rw [le_div_iff₀ hs]; linarith
    push_cast; linarith
  · have h1 : ((((outer - inner) / step + 1 / 10000000).floor : Int) : Rat) ≤ (outer - inner) / step + 1 / 10000000 := Rat.floor_le _
    have h3 := mul_le_mul_of_nonneg_right h1 hs.le
    have e : ((outer - inner) / step + 1 / 10000000) * step = (outer - inner) + step / 10000000 := by field_simp
    rw [e] at h3
    linarith

/-- **FlexibleAnnularDetector followed by `integrate_radial(a, b)` equals `AnnularDetector(a, b)`** for limits on
the stated bin edges `a = inner + i₀·step`, `b = inner + i₁·step`, `i₀ ≤ i₁ ≤ nbins`: the index ranges selected by
`PolarMeasurements.integrate` (generated index expressions of C13) are `[i₀, i₁)` and those bins, each an annulus of
width `step`, add up to the annulus `[a, b)`. -/
theorem flexible_then_integrate_eq_annular (g : Geom) (x : Nat → Int) (inner step : Rat) (nb i0 i1 : Nat)
    (hi : 0 ≤ inner) (hs : 0 < step) (h01 : i0 ≤ i1) (h1 : i1 ≤ nb) :
    Polar.integrate ⟨inner, step, 0, 1⟩ nb 1 (fun r _ => annularSum g (edge inner step r) (edge inner step (r + 1)) x)
        (some (inner + i0 * step, inner + i1 * step)) none
      = .ok (annularSum g (inner + i0 * step) (inner + i1 * step) x) := by
  unfold Polar.integrate
  have hsel := AbtemVerif.Props.C13.radial_aligned ⟨inner, step, 0, 1⟩ nb 1 i0 i1 (ne_of_gt hs) h01 h1
  simp only at hsel
  rw [hsel]
  simp only [Except.map]
  congr 1
  have hcol : ∀ r, sumRange (fun _ => annularSum g (edge inner step r) (edge inner step (r + 1)) x) 0 1
      = annularSum g (edge inner step r) (edge inner step (r + 1)) x := by
    intro r; simp [sumRange]
  simp only [hcol]
  exact bins_sum_to_annulus g x inner step hi hs.le i0 i1 h01

/-! ### non-vacuity -/
example : annularSum ⟨3, 3, 1, 1, false⟩ 0 2 (fun k => (k : Int) + 1) = 45 := by decide +kernel
example : annularSum ⟨3, 3, 1, 1, false⟩ 0 1 (fun k => (k : Int) + 1)
    + annularSum ⟨3, 3, 1, 1, false⟩ 1 2 (fun k => (k : Int) + 1) = 45 := by decide +kernel
example : flexLimits 4 24 3 = (6, 4, 22) := by decide +kernel
example : flexLimits 4 (13/2) (5/2) = (1, 4, 13/2) := by decide +kernel
example : polarSums ⟨3, 3, 1, 1, false⟩ 0 2 2 2 (fun k => (k : Int) + 1) = .ok [1, 0, 19, 25] := by decide +kernel

end AbtemVerif.Props.C12
