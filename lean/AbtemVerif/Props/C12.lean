/-
C12 — Detectors measure consistent integrated intensities.

Statements are about `AbtemVerif.Detect` (Model/Detect.lean), whose annular predicate, bin label formula, flexible bin
count and radial samplings are the *generated* definitions of `Gen/Detect.lean` (regenerated from
abtem/measurements.py and abtem/detectors.py on every run).  Quantifiers: every pattern geometry (sizes, samplings,
shifted or not), every intensity table, all limits `0 ≤ a ≤ b ≤ c`, every bin count and step.
-/
import AbtemVerif.Model.Detect
import AbtemVerif.Props.C13
import Mathlib.Tactic.Ring
import Mathlib.Tactic.Linarith
import Mathlib.Tactic.FieldSimp
import Mathlib.Tactic.Positivity
import Mathlib.Algebra.Order.Floor.Ring
import Mathlib.Data.Rat.Floor

namespace AbtemVerif.Props.C12
open AbtemVerif.Detect AbtemVerif.Py AbtemVerif.Np AbtemVerif.Gen.Detect AbtemVerif.Polar

/-! ### helper lemmas -/

lemma sq_mono {a b : Rat} (ha : 0 ≤ a) (hab : a ≤ b) : a ^ 2 ≤ b ^ 2 := by nlinarith

lemma maskSum_union (n : Nat) (m1 m2 m3 : Nat → Bool) (x : Nat → Int)
    (h : ∀ k, k < n → m3 k = (m1 k || m2 k) ∧ (m1 k && m2 k) = false) :
    maskSum n m3 x = maskSum n m1 x + maskSum n m2 x := by
  unfold maskSum
  rw [← List.sum_map_add]
  congr 1
  apply List.map_congr_left
  intro k hk
  obtain ⟨h3, hd⟩ := h k (List.mem_range.1 hk)
  rw [h3]
  cases h1 : m1 k <;> cases h2 : m2 k <;> simp_all

lemma maskSum_congr (n : Nat) (m1 m2 : Nat → Bool) (x : Nat → Int) (h : ∀ k, k < n → m1 k = m2 k) :
    maskSum n m1 x = maskSum n m2 x := by
  unfold maskSum
  congr 1
  apply List.map_congr_left
  intro k hk
  rw [h k (List.mem_range.1 hk)]

lemma maskSum_false (n : Nat) (x : Nat → Int) : maskSum n (fun _ => false) x = 0 := by
  unfold maskSum
  simp

/-! ### property theorems -/

/-- **Annular masks are additive over adjacent ranges**, pixel by pixel: `[a,c) = [a,b) ⊎ [b,c)`. -/
theorem annularIn_additive (kx ky a b c : Rat) (ha : 0 ≤ a) (hab : a ≤ b) (hbc : b ≤ c) :
    annularIn kx ky a c = (annularIn kx ky a b || annularIn kx ky b c) ∧
    (annularIn kx ky a b && annularIn kx ky b c) = false := by
  have h1 := sq_mono ha hab
  have h2 := sq_mono (le_trans ha hab) hbc
  unfold annularIn
  constructor
  · rw [Bool.eq_iff_iff]
    simp only [Bool.and_eq_true, Bool.or_eq_true, decide_eq_true_eq, ge_iff_le]
    constructor
    · rintro ⟨p, q⟩
      rcases lt_or_ge (kx ^ 2 + ky ^ 2) (b ^ 2) with hlt | hge
      · exact Or.inl ⟨p, hlt⟩
      · exact Or.inr ⟨hge, q⟩
    · rintro (⟨p, q⟩ | ⟨p, q⟩)
      · exact ⟨p, lt_of_lt_of_le q h2⟩
      · exact ⟨le_trans h1 p, q⟩
  · rw [Bool.and_eq_false_iff]
    by_cases hlt : kx ^ 2 + ky ^ 2 < b ^ 2
    · right
      simp only [Bool.and_eq_false_iff, decide_eq_false_iff_not, ge_iff_le, not_le]
      exact Or.inl hlt
    · left
      simp only [Bool.and_eq_false_iff, decide_eq_false_iff_not]
      exact Or.inr hlt

/-- **Annular intensities are additive over adjacent ranges**: for every pattern and `0 ≤ a ≤ b ≤ c`,
`I[a,b) + I[b,c) = I[a,c)`. -/
theorem annular_additive (g : Geom) (x : Nat → Int) (a b c : Rat) (ha : 0 ≤ a) (hab : a ≤ b) (hbc : b ≤ c) :
    annularSum g a c x = annularSum g a b x + annularSum g b c x := by
  unfold annularSum
  apply maskSum_union
  intro k _
  exact annularIn_additive (g.ax k) (g.ay k) a b c ha hab hbc

/-- an empty range detects nothing -/
theorem annular_empty (g : Geom) (x : Nat → Int) (a : Rat) : annularSum g a a x = 0 := by
  unfold annularSum
  rw [maskSum_congr _ _ (fun _ => false) x, maskSum_false]
  intro k _
  unfold annularMask annularIn
  rw [Bool.and_eq_false_iff]
  by_cases h : g.ax k ^ 2 + g.ay k ^ 2 < a ^ 2
  · left; simpa using h
  · right; simpa using h

/-- equally spaced edges `a + r·w` -/
def edge (a w : Rat) (r : Nat) : Rat := a + r * w

lemma edge_nonneg (a w : Rat) (ha : 0 ≤ a) (hw : 0 ≤ w) (r : Nat) : 0 ≤ edge a w r := by
  unfold edge; positivity

lemma edge_mono (a w : Rat) (hw : 0 ≤ w) (r : Nat) : edge a w r ≤ edge a w (r + 1) := by
  unfold edge; push_cast; nlinarith

/-- **Telescoping**: the bins `i₀ ≤ r < i₁` of width `w` starting at `a` add up to the annulus between their outer
edges — this is what integrating a flexible / segmented measurement over bin-aligned limits returns. -/
theorem bins_sum_to_annulus (g : Geom) (x : Nat → Int) (a w : Rat) (ha : 0 ≤ a) (hw : 0 ≤ w) (i0 i1 : Nat) (h : i0 ≤ i1) :
    sumRange (fun r => annularSum g (edge a w r) (edge a w (r + 1)) x) i0 i1 = annularSum g (edge a w i0) (edge a w i1) x := by
  induction i1, h using Nat.le_induction with
  | base => simp [sumRange, annular_empty]
  | succ m hm ih =>
    rw [AbtemVerif.Props.C13.sumRange_succ _ _ _ hm, ih]
    have hmono : edge a w i0 ≤ edge a w m := by
      clear ih
      induction m, hm using Nat.le_induction with
      | base => exact le_refl _
      | succ j _ ihj => exact le_trans ihj (edge_mono a w hw j)
    exact (annular_additive g x _ _ _ (edge_nonneg a w ha hw i0) hmono (edge_mono a w hw m)).symm

lemma k2_nonneg (g : Geom) (k : Nat) : 0 ≤ g.k2 k := by unfold Geom.k2; positivity

lemma sqrtGe_nonneg (k2 e : Rat) (hk : 0 ≤ k2) (he : 0 ≤ e) : sqrtGe k2 e = decide (e ^ 2 ≤ k2) := by
  unfold sqrtGe
  rcases eq_or_lt_of_le he with h0 | hpos
  · subst h0; simp [hk]
  · have : ¬ e ≤ 0 := not_le.2 hpos
    simp [this]

lemma sqrtLt_nonneg (k2 e : Rat) (hk : 0 ≤ k2) (he : 0 ≤ e) : sqrtLt k2 e = decide (k2 < e ^ 2) := by
  unfold sqrtLt
  rcases eq_or_lt_of_le he with h0 | hpos
  · subst h0
    have : ¬ k2 < 0 := not_lt.2 hk
    simp [this]
  · simp [hpos]

/-- **Each radial bin is the annular detector on the bin's edges**: the pixels with
`int(nb·(√k2 − inner)/(outer − inner)) = r` are exactly those of the annulus `[inner + r·w, inner + (r+1)·w)`,
`w = (outer − inner)/nb`. -/
theorem radial_bin_is_annulus (g : Geom) (inner outer : Rat) (nb r : Nat) (k : Nat) (hi : 0 ≤ inner) (hio : inner ≤ outer) :
    inRadialBin (g.k2 k) inner outer nb r
      = annularMask g (edge inner ((outer - inner) / nb) r) (edge inner ((outer - inner) / nb) (r + 1)) k := by
  have hw : 0 ≤ (outer - inner) / (nb : Rat) := div_nonneg (by linarith) (by positivity)
  unfold inRadialBin annularMask annularIn
  have e1 := edge_nonneg inner _ hi hw r
  have e2 := edge_nonneg inner _ hi hw (r + 1)
  have hk := k2_nonneg g k
  have c1 : inner + (r : Rat) * ((outer - inner) / nb) = edge inner ((outer - inner) / nb) r := rfl
  have c2 : inner + ((r : Rat) + 1) * ((outer - inner) / nb) = edge inner ((outer - inner) / nb) (r + 1) := by
    unfold edge; push_cast; ring
  rw [c1, c2, sqrtGe_nonneg _ _ hk e1, sqrtLt_nonneg _ _ hk e2]
  rfl

/-- `valid = (alpha ≥ inner) & (alpha < outer)` selects the annulus `[inner, outer)` of `_annular_detector_mask`. -/
theorem polarValid_is_annulus (g : Geom) (inner outer : Rat) (k : Nat) (hi : 0 ≤ inner) (hio : inner ≤ outer) :
    polarValid (g.k2 k) inner outer = annularMask g inner outer k := by
  unfold polarValid annularMask annularIn
  rw [sqrtGe_nonneg _ _ (k2_nonneg g k) hi, sqrtLt_nonneg _ _ (k2_nonneg g k) (le_trans hi hio)]
  rfl

/-- Labels partition the pixels: summing the per-label sums over all labels `0 ≤ l < L` gives the sum over the
pixels whose label lies in that range — whatever the labelling (any sector count, rotation, offset). -/
theorem labels_partition (n L : Nat) (lab : Nat → Int) (x : Nat → Int) :
    ((List.range L).map fun (l : Nat) => maskSum n (fun k => lab k == (l : Int)) x).sum
      = maskSum n (fun k => decide (0 ≤ lab k) && decide (lab k < (L : Int))) x := by
  induction L with
  | zero =>
    simp only [List.range_zero, List.map_nil, List.sum_nil]
    rw [maskSum_congr _ _ (fun _ => false) x, maskSum_false]
    intro k _
    rw [Bool.and_eq_false_iff]
    by_cases h : 0 ≤ lab k
    · right; simp; omega
    · left; simpa using h
  | succ L ih =>
    rw [List.range_succ, List.map_append, List.sum_append, ih]
    simp only [List.map_cons, List.map_nil, List.sum_cons, List.sum_nil, add_zero]
    symm
    apply maskSum_union
    intro k _
    constructor
    · rw [Bool.eq_iff_iff]
      simp only [Bool.and_eq_true, Bool.or_eq_true, decide_eq_true_eq, beq_iff_eq]
      push_cast
      omega
    · rw [Bool.and_eq_false_iff]
      by_cases h : lab k = (L : Int)
      · left
        rw [Bool.and_eq_false_iff]; right
        simp; omega
      · right; simpa using h

/-- **Segments add up to the annular detector**: if every pixel of the annulus `[inner, outer)` receives a label in
`[0, nr·na)` and every other pixel the label `-1` (what `_polar_detector_bins` produces: `a + r·na` with the clipped
sector `a < na` and the radial bin `r < nr`), the sum over all segments equals the annular intensity. -/
theorem segments_sum_eq_annular (g : Geom) (x : Nat → Int) (inner outer : Rat) (L : Nat) (lab : Nat → Int)
    (hlab : ∀ k, k < g.size → (annularMask g inner outer k = true → 0 ≤ lab k ∧ lab k < (L : Int)) ∧
                               (annularMask g inner outer k = false → lab k = -1)) :
    ((List.range L).map fun (l : Nat) => maskSum g.size (fun k => lab k == (l : Int)) x).sum = annularSum g inner outer x := by
  rw [labels_partition]
  unfold annularSum
  apply maskSum_congr
  intro k hk
  obtain ⟨h1, h2⟩ := hlab k hk
  cases hm : annularMask g inner outer k
  · have := h2 hm
    rw [Bool.and_eq_false_iff]; left
    simp [this]
  · obtain ⟨p, q⟩ := h1 hm
    simp [p, q]

/-- The label formula `a + r·na` with `a < na`, `r < nr` lies in `[0, nr·na)` and determines `(r, a)`. -/
theorem binLabel_range (a r na nr : Nat) (ha : a < na) (hr : r < nr) :
    0 ≤ binLabel a r na ∧ binLabel a r na < ((nr * na : Nat) : Int) ∧
    binLabel a r na / (na : Int) = r ∧ binLabel a r na % (na : Int) = a := by
  unfold binLabel
  have h1 : (a : Int) + (r : Int) * (na : Int) < ((nr * na : Nat) : Int) := by
    have : a + r * na < nr * na := by
      calc a + r * na < na + r * na := by omega
        _ = (r + 1) * na := by ring
        _ ≤ nr * na := Nat.mul_le_mul_right _ hr
    exact_mod_cast this
  refine ⟨by positivity, h1, ?_, ?_⟩
  · rw [Int.add_mul_ediv_right _ _ (by omega), Int.ediv_eq_zero_of_lt (by omega) (by omega)]; simp
  · rw [Int.add_mul_emod_self_right, Int.emod_eq_of_lt (by omega) (by omega)]

/-! ### the flexible detector -/

/-- **Flexible bins have the width the axis metadata states.**  With the binned range of `angular_limits`
(`inner … inner + nbins·step`) the radial sampling that `polar_binning` bins with equals `step`. -/
theorem flexible_bin_width (inner outer step : Rat) (hn : 0 < flexNbins inner outer step) :
    polarRadialSampling (flexLimits inner outer step).2.1 (flexLimits inner outer step).2.2 (flexNbins inner outer step : Rat) = step := by
  unfold polarRadialSampling flexLimits flexLimitsRange
  unfold flexNbins at hn ⊢
  have : ((flexNbins inner outer step : Int) : Rat) ≠ 0 := by
    have : (0 : Rat) < ((flexNbins inner outer step : Int) : Rat) := by exact_mod_cast hn
    exact ne_of_gt this
  simp only
  field_simp
  ring

/-- The number of bins is the number of whole steps inside `⌊outer − inner⌋`, and the binned range stays inside
`[inner, outer]`. -/
theorem flexible_range_inside (inner outer step : Rat) (hs : 0 < step) (hio : inner ≤ outer) :
    0 ≤ flexNbins inner outer step ∧ (flexLimits inner outer step).2.2 ≤ outer := by
  unfold flexLimits flexLimitsRange flexNbins pyInt pyFloor
  have hfl : (0 : Int) ≤ (outer - inner).floor := Rat.le_floor_iff.mpr (by simp; linarith)
  have hq : (0 : Rat) ≤ ((outer - inner).floor : Rat) / step := div_nonneg (by exact_mod_cast hfl) hs.le
  simp only [if_pos hq]
  constructor
  · exact Rat.le_floor_iff.mpr (by simpa using hq)
  · have h1 : (((((outer - inner).floor : Rat) / step).floor : Int) : Rat) ≤ ((outer - inner).floor : Rat) / step := Rat.floor_le _
    have h2 : ((outer - inner).floor : Rat) ≤ outer - inner := Rat.floor_le _
    have h3 : (((((outer - inner).floor : Rat) / step).floor : Int) : Rat) * step ≤ ((outer - inner).floor : Rat) := by
      calc _ ≤ ((outer - inner).floor : Rat) / step * step := mul_le_mul_of_nonneg_right h1 hs.le
        _ = _ := by field_simp
    linarith

/-- **FlexibleAnnularDetector followed by `integrate_radial(a, b)` equals `AnnularDetector(a, b)`** for limits on
the stated bin edges `a = inner + i₀·step`, `b = inner + i₁·step`, `i₀ ≤ i₁ ≤ nbins`: the index ranges selected by
`PolarMeasurements.integrate` (generated index expressions of C13) are `[i₀, i₁)` and those bins, each an annulus of
width `step`, add up to the annulus `[a, b)`. -/
theorem flexible_then_integrate_eq_annular (g : Geom) (x : Nat → Int) (inner step : Rat) (nb i0 i1 : Nat)
    (hi : 0 ≤ inner) (hs : 0 < step) (h01 : i0 ≤ i1) (h1 : i1 ≤ nb) :
    Polar.integrate ⟨inner, step, 0, 1⟩ nb 1 (fun r _ => annularSum g (edge inner step r) (edge inner step (r + 1)) x)
        (some (inner + i0 * step, inner + i1 * step)) none
      = .ok (annularSum g (inner + i0 * step) (inner + i1 * step) x) := by
  unfold Polar.integrate
  have hsel := AbtemVerif.Props.C13.radial_aligned ⟨inner, step, 0, 1⟩ nb 1 i0 i1 (ne_of_gt hs) h01 h1
  simp only at hsel
  rw [hsel]
  simp only [Except.map]
  congr 1
  have hcol : ∀ r, sumRange (fun _ => annularSum g (edge inner step r) (edge inner step (r + 1)) x) 0 1
      = annularSum g (edge inner step r) (edge inner step (r + 1)) x := by
    intro r; simp [sumRange]
  simp only [hcol]
  exact bins_sum_to_annulus g x inner step hi hs.le i0 i1 h01

/-! ### non-vacuity -/
example : annularSum ⟨3, 3, 1, 1, false⟩ 0 2 (fun k => (k : Int) + 1) = 45 := by decide +kernel
example : annularSum ⟨3, 3, 1, 1, false⟩ 0 1 (fun k => (k : Int) + 1)
    + annularSum ⟨3, 3, 1, 1, false⟩ 1 2 (fun k => (k : Int) + 1) = 45 := by decide +kernel
example : flexLimits 4 24 3 = (6, 4, 22) := by decide +kernel
example : polarSums ⟨3, 3, 1, 1, false⟩ 0 2 2 2 (fun k => (k : Int) + 1) = .ok [1, 0, 19, 25] := by decide +kernel

end AbtemVerif.Props.C12
