/-
C03 — Parameter ensembles decompose into individual simulations.

Statements are about `AbtemVerif.ParamEnsemble.*` (Model/ParamEnsemble.lean) and hold for every parameter type `V`,
weight type `W`, result type `R`, every kernel `f : List V → R` (the pointwise formula evaluated by numpy
broadcasting — CTF phase, aperture, envelopes, tilt), every argument list mixing scalars and distributions.
-/
import AbtemVerif.Model.ParamEnsemble
import AbtemVerif.Lib.Partition
import AbtemVerif.Props.C19
import Mathlib.Tactic.Ring
import Mathlib.Tactic.Linarith
import Mathlib.Tactic.FieldSimp

namespace AbtemVerif.Props.C03
open AbtemVerif.ParamEnsemble AbtemVerif.Partition AbtemVerif
variable {V W R : Type}

/-- the scalar run for ensemble member `idx`: every distribution replaced by the value that member sees -/
def scalarize (dflt : V) : List (Arg V W) → List Nat → List (Arg V W)
  | [], _ => []
  | .scalar v :: rest, idx => .scalar v :: scalarize dflt rest idx
  | .dist vs _ :: rest, i :: idx => .scalar (vs.getD i dflt) :: scalarize dflt rest idx
  | .dist vs _ :: rest, [] => .scalar (vs.getD 0 dflt) :: scalarize dflt rest []

lemma ensembleShape_scalarize (d : V) (args : List (Arg V W)) (idx : List Nat) :
    ensembleShape (scalarize d args idx) = [] := by
  induction args generalizing idx with
  | nil => rfl
  | cons a rest ih =>
    cases a with
    | scalar v => simpa [scalarize, ensembleShape] using ih idx
    | dist vs ws => cases idx with
      | nil => simpa [scalarize, ensembleShape] using ih []
      | cons i idx => simpa [scalarize, ensembleShape] using ih idx

lemma argsAt_scalarize (d : V) (args : List (Arg V W)) (idx jdx : List Nat) :
    argsAt d (scalarize d args idx) jdx = argsAt d args idx := by
  induction args generalizing idx with
  | nil => rfl
  | cons a rest ih =>
    cases a with
    | scalar v => simp [scalarize, argsAt, ih]
    | dist vs ws => cases idx with
      | nil => simp [scalarize, argsAt, ih]
      | cons i idx => simp [scalarize, argsAt, ih]

lemma weightsAt_scalarize (d : V) (o : W) (args : List (Arg V W)) (idx jdx : List Nat) :
    weightsAt o (scalarize d args idx) jdx = [] := by
  induction args generalizing idx with
  | nil => rfl
  | cons a rest ih =>
    cases a with
    | scalar v => simp [scalarize, weightsAt, ih]
    | dist vs ws => cases idx with
      | nil => simp [scalarize, weightsAt, ih]
      | cons i idx => simp [scalarize, weightsAt, ih]

/-- **Ensemble member `idx` equals the simulation run with the scalar values it sees**: the scalar run has a single
member, whose value is the value part of member `idx` of the ensemble (for every kernel `f`); the ensemble member
additionally carries the weights of its distribution values. -/
theorem member_eq_scalar_run (d : V) (o : W) (f : List V → R) (args : List (Arg V W)) (k : Nat)
    (hk : k < (memberIndices args).length) :
    evalEnsemble d o f (scalarize d args ((memberIndices args)[k])) = [([], ((evalEnsemble d o f args)[k]'(by
      simpa [evalEnsemble] using hk)).2)] := by
  simp only [evalEnsemble, memberIndices, ensembleShape_scalarize, List.map_nil, product, List.map_cons,
    argsAt_scalarize, weightsAt_scalarize, List.getElem_map]

/-- the member multi-indices are exactly the in-range index tuples, … -/
theorem mem_memberIndices (args : List (Arg V W)) (idx : List Nat) :
    idx ∈ memberIndices args ↔ List.Forall₂ (fun i n => i < n) idx (ensembleShape args) := by
  unfold memberIndices
  rw [mem_product]
  constructor
  · intro h
    have : List.Forall₂ (fun i (r : List Nat) => i ∈ r) idx ((ensembleShape args).map List.range) := h
    rw [List.forall₂_map_right_iff] at this
    exact this.imp fun _ _ h => List.mem_range.1 h
  · intro h
    rw [List.forall₂_map_right_iff]
    exact h.imp fun _ _ h => List.mem_range.2 h

/-- … one per combination of distribution values (the ensemble has `∏ lenⱼ` members). -/
theorem memberIndices_length (args : List (Arg V W)) :
    (memberIndices args).length = (ensembleShape args).prod := by
  unfold memberIndices
  rw [length_product, List.map_map]
  congr 1
  induction (ensembleShape args) with
  | nil => rfl
  | cons n ns ih => simp [ih]

/-- values seen by member `idx` at the distribution-valued arguments, in argument order -/
def seenDistValues (dflt : V) : List (Arg V W) → List Nat → List V
  | [], _ => []
  | .scalar _ :: rest, idx => seenDistValues dflt rest idx
  | .dist vs _ :: rest, i :: idx => vs.getD i dflt :: seenDistValues dflt rest idx
  | .dist vs _ :: rest, [] => vs.getD 0 dflt :: seenDistValues dflt rest []

/-- **The ensemble axes metadata list exactly the distribution values, in order**: axis `j` belongs to the `j`-th
distribution-valued argument and the member at index `i` along it sees `values_j[i]`. -/
theorem axis_values_eq_distribution_values (d : V) (args : List (Arg V W)) (idx : List Nat)
    (h : idx.length = (ensembleShape args).length) :
    seenDistValues d args idx = List.zipWith (fun vs i => vs.getD i d) (axesValues args) idx ∧
    (axesValues args).map List.length = ensembleShape args := by
  constructor
  · induction args generalizing idx with
    | nil => simp [seenDistValues, axesValues]
    | cons a rest ih =>
      cases a with
      | scalar v => simpa [seenDistValues, axesValues, ensembleShape] using ih idx (by simpa [ensembleShape] using h)
      | dist vs ws =>
        cases idx with
        | nil => simp [ensembleShape] at h
        | cons i idx =>
          have := ih idx (by simpa [ensembleShape] using h)
          simp only [axesValues, ensembleShape] at this ⊢
          simp [seenDistValues, this]
  · clear h
    induction args with
    | nil => rfl
    | cons a rest ih =>
      cases a with
      | scalar v => simpa [axesValues, ensembleShape] using ih
      | dist vs ws => simpa [axesValues, ensembleShape] using ih

/-! ### `_unpack_distributions`: the k-th distribution lives on new axis k -/

def axisOf : Unpacked V → Option Nat
  | .scalar _ => none
  | .onAxis a _ _ => some a

lemma unpackLoop_axes (numNew : Nat) (base : List Nat) (i : Nat) (args : List (Arg V W)) :
    (unpackLoop numNew base i args).filterMap axisOf
      = (List.range (args.filter Arg.isDist).length).map (· + i) := by
  induction args generalizing i with
  | nil => rfl
  | cons a rest ih =>
    cases a with
    | scalar v =>
      have := ih i
      simp only [unpackLoop, List.filterMap_cons, axisOf, List.filter_cons, Arg.isDist] at this ⊢
      simpa using this
    | dist vs ws =>
      simp only [unpackLoop, List.filterMap_cons, axisOf, List.filter_cons, Arg.isDist, if_true, List.length_cons,
        ih (i + 1)]
      rw [List.range_succ_eq_map, List.map_cons, List.map_map]
      simp only [Nat.zero_add, List.cons.injEq, true_and]
      apply List.map_congr_left
      intro j _; simp only [Function.comp]; omega

/-- In `_unpack_distributions` the distribution-valued arguments are put on the new axes `0, 1, 2, …` in argument
order, scalars take no axis, and each is expanded on every other new axis and on all base axes. -/
theorem unpack_axes (args : List (Arg V W)) (baseDims : Nat) :
    (unpack args baseDims).filterMap axisOf = List.range (ensembleShape args).length ∧
    ∀ u ∈ unpack args baseDims, ∀ a ex vs, u = Unpacked.onAxis a ex vs →
      ex = rangeExcept (ensembleShape args).length a ++ (List.range baseDims).map (· + (ensembleShape args).length) := by
  have hn : (args.filter Arg.isDist).length = (ensembleShape args).length := by
    induction args with
    | nil => rfl
    | cons a rest ih =>
      cases a with
      | scalar v => simpa [Arg.isDist, ensembleShape] using ih
      | dist vs ws =>
        simp only [ensembleShape] at ih
        simp only [ensembleShape, List.filter_cons, Arg.isDist, if_true, List.length_cons, List.filterMap_cons, ih]
  constructor
  · unfold unpack
    rw [unpackLoop_axes, hn]; simp
  · unfold unpack
    rw [hn]
    clear hn
    generalize (ensembleShape args).length = n
    generalize (0 : Nat) = i
    induction args generalizing i with
    | nil => intro u hu; simp [unpackLoop] at hu
    | cons a rest ih =>
      intro u hu a' ex vs hq
      cases a with
      | scalar v =>
        simp only [unpackLoop, List.mem_cons] at hu
        rcases hu with rfl | hu
        · cases hq
        · exact ih i u hu a' ex vs hq
      | dist vs' ws =>
        simp only [unpackLoop, List.mem_cons] at hu
        rcases hu with rfl | hu
        · injection hq with h1 h2 h3; subst h1; exact h2.symm
        · exact ih (i + 1) u hu a' ex vs hq

/-! ### partitioned ensembles (lazy evaluation): a block sees the values of its slice -/

/-- Value (or weight) `l` of block `b` of a divided distribution is value `blockStart b + l` of the whole, for every
valid chunking — so member `l` of block `b` of a lazily evaluated ensemble is member `blockStart b + l` of the
eager one, axis by axis (C19 `nd_member_unique` gives uniqueness). -/
theorem block_value_eq_global_value {α : Type} (xs : List α) (cs : List Nat) (b l : Nat) (hb : b < cs.length)
    (hl : l < cs[b]) :
    ((Ensemble.distBlocks xs cs)[b]'(by rw [C19.distBlocks_eq_splitBy]; simpa using hb))[l]? = xs[blockStart cs b + l]? := by
  simp only [C19.distBlocks_eq_splitBy]
  exact getElem?_splitBy cs xs b l hb hl

/-! ### averaged axes -/

lemma foldl_add_eq_sum (l : List Rat) (a : Rat) : l.foldl (· + ·) a = a + l.sum := by
  induction l generalizing a with
  | nil => simp
  | cons x xs ih => simp only [List.foldl_cons, List.sum_cons, ih]; ring

/-- **An averaged (`ensemble_mean`) axis is the mean of the weighted members, as the code defines it**:
`mean_i (w_i · f_i) = (Σ w_i f_i) / n`; with unit weights it is the plain average of the scalar runs. -/
theorem mean_axis_eq_weighted_mean (ws fs : List Rat) :
    meanList (List.zipWith (· * ·) ws fs) = (List.zipWith (· * ·) ws fs).sum / ((List.zipWith (· * ·) ws fs).length : Rat) ∧
    (ws = List.replicate fs.length 1 → meanList (List.zipWith (· * ·) ws fs) = fs.sum / (fs.length : Rat)) := by
  constructor
  · simp [meanList, foldl_add_eq_sum]
  · intro h
    have key : ∀ l : List Rat, List.zipWith (· * ·) (List.replicate l.length (1 : Rat)) l = l := by
      intro l
      induction l with
      | nil => rfl
      | cons x xs ih => simp [List.replicate_succ, ih]
    rw [h, key fs]; simp [meanList, foldl_add_eq_sum]

/-! ### non-vacuity -/
example : evalEnsemble (0 : Int) (1 : Int) (fun l => l.sum) [.dist [10, 20] [1, 2], .scalar 5, .dist [1, 2, 3] [1, 1, 1]]
    = [([1, 1], 16), ([1, 1], 17), ([1, 1], 18), ([2, 1], 26), ([2, 1], 27), ([2, 1], 28)] := by decide
example : (unpack ([.dist [10, 20] [1, 2], .scalar 5, .dist [1, 2, 3] [1, 1, 1]] : List (Arg Int Int)) 2).filterMap axisOf = [0, 1] := by decide
example : meanList (List.zipWith (· * ·) [1, 2] [3, 5]) = 13 / 2 := by decide +kernel

end AbtemVerif.Props.C03
