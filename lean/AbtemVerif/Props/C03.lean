/-
C03 — Parameter ensembles decompose into individual simulations.

Statements are about `AbtemVerif.ParamEnsemble.*` (Model/ParamEnsemble.lean) and hold for every parameter type `V`,
weight type `W`, result type `R`, every kernel `f : List V → R` (the pointwise formula evaluated by numpy
broadcasting — CTF phase, aperture, envelopes, tilt), every argument list mixing scalars and distributions.
-/
import AbtemVerif.Model.ParamEnsemble
import AbtemVerif.Lib.Partition
import AbtemVerif.Props.C19
import Mathlib.Tactic.Ring
import Mathlib.Tactic.Linarith
import Mathlib.Tactic.FieldSimp

namespace AbtemVerif.Props.C03
open AbtemVerif.ParamEnsemble AbtemVerif.Partition AbtemVerif
variable {V W R : Type}

/-- the scalar run for ensemble member `idx`: every distribution replaced by the value that member sees -/
def scalarize (dflt : V) : List (Arg V W) → List Nat → List (Arg V W)
  | [], _ => []
  | .scalar v :: rest, idx => .scalar v :: scalarize dflt rest idx
  | .dist vs _ :: rest, i :: idx => .scalar (vs.getD i dflt) :: scalarize dflt rest idx
  | .dist vs _ :: rest, [] => .scalar (vs.getD 0 dflt) :: scalarize dflt rest []

lemma ensembleShape_scalarize (d : V) (args : List (Arg V W)) (idx : List Nat) :
    ensembleShape (scalarize d args idx) = [] := by
  induction args generalizing idx with
  | nil => rfl
  | cons a rest ih =>
    cases a with
    | scalar v => simpa [scalarize, ensembleShape] using ih idx
    | dist vs ws => cases idx with
      | nil => simpa [scalarize, ensembleShape] using ih []
      | cons i idx => simpa [scalarize, ensembleShape] using ih idx

lemma argsAt_scalarize (d : V) (args : List (Arg V W)) (idx jdx : List Nat) :
    argsAt d (scalarize d args idx) jdx = argsAt d args idx := by
  induction args generalizing idx with
  | nil => rfl
  | cons a rest ih =>
    cases a with
    | scalar v => simp [scalarize, argsAt, ih]
    | dist vs ws => cases idx with
      | nil => simp [scalarize, argsAt, ih]
      | cons i idx => simp [scalarize, argsAt, ih]

lemma weightsAt_scalarize (d : V) (o : W) (args : List (Arg V W)) (idx jdx : List Nat) :
    weightsAt o (scalarize d args idx) jdx = [] := by
  induction args generalizing idx with
  | nil => rfl
  | cons a rest ih =>
    cases a with
    | scalar v => simp [scalarize, weightsAt, ih]
    | dist vs ws => cases idx with
      | nil => simp [scalarize, weightsAt, ih]
      | cons i idx => simp [scalarize, weightsAt, ih]

/-- (By construction of the model — the bridge from the code path is `unpack_broadcast_eq_argsAt` /
`ensemble_from_unpacked` above and `applyAll_reverse` / `compose_reverse_ok` for composed transforms.)
**Ensemble member `idx` equals the simulation run with the scalar values it sees**: the scalar run has a single
member, whose value is the value part of member `idx` of the ensemble (for every kernel `f`); the ensemble member
additionally carries the weights of its distribution values. -/
theorem member_eq_scalar_run (d : V) (o : W) (f : List V → R) (args : List (Arg V W)) (k : Nat)
    (hk : k < (memberIndices args).length) :
    evalEnsemble d o f (scalarize d args ((memberIndices args)[k])) = [([], ((evalEnsemble d o f args)[k]'(by
      simpa [evalEnsemble] using hk)).2)] := by
  simp only [evalEnsemble, memberIndices, ensembleShape_scalarize, List.map_nil, product, List.map_cons,
    argsAt_scalarize, weightsAt_scalarize, List.getElem_map]

/-- the member multi-indices are exactly the in-range index tuples, … -/
theorem mem_memberIndices (args : List (Arg V W)) (idx : List Nat) :
    idx ∈ memberIndices args ↔ List.Forall₂ (fun i n => i < n) idx (ensembleShape args) := by
  unfold memberIndices
  rw [mem_product]
  constructor
  · intro h
    have : List.Forall₂ (fun i (r : List Nat) => i ∈ r) idx ((ensembleShape args).map List.range) := h
    rw [List.forall₂_map_right_iff] at this
    exact this.imp fun _ _ h => List.mem_range.1 h
  · intro h
    rw [List.forall₂_map_right_iff]
    exact h.imp fun _ _ h => List.mem_range.2 h

/-- … one per combination of distribution values (the ensemble has `∏ lenⱼ` members). -/
theorem memberIndices_length (args : List (Arg V W)) :
    (memberIndices args).length = (ensembleShape args).prod := by
  unfold memberIndices
  rw [length_product, List.map_map]
  congr 1
  induction (ensembleShape args) with
  | nil => rfl
  | cons n ns ih => simp [ih]

/-- values seen by member `idx` at the distribution-valued arguments, in argument order -/
def seenDistValues (dflt : V) : List (Arg V W) → List Nat → List V
  | [], _ => []
  | .scalar _ :: rest, idx => seenDistValues dflt rest idx
  | .dist vs _ :: rest, i :: idx => vs.getD i dflt :: seenDistValues dflt rest idx
  | .dist vs _ :: rest, [] => vs.getD 0 dflt :: seenDistValues dflt rest []

/-- **The ensemble axes metadata list exactly the distribution values, in order**: axis `j` belongs to the `j`-th
distribution-valued argument and the member at index `i` along it sees `values_j[i]`. -/
theorem axis_values_eq_distribution_values (d : V) (args : List (Arg V W)) (idx : List Nat)
    (h : idx.length = (ensembleShape args).length) :
    seenDistValues d args idx = List.zipWith (fun vs i => vs.getD i d) (axesValues args) idx ∧
    (axesValues args).map List.length = ensembleShape args := by
  constructor
  · induction args generalizing idx with
    | nil => simp [seenDistValues, axesValues]
    | cons a rest ih =>
      cases a with
      | scalar v => simpa [seenDistValues, axesValues, ensembleShape] using ih idx (by simpa [ensembleShape] using h)
      | dist vs ws =>
        cases idx with
        | nil => simp [ensembleShape] at h
        | cons i idx =>
          have := ih idx (by simpa [ensembleShape] using h)
          simp only [axesValues, ensembleShape] at this ⊢
          simp [seenDistValues, this]
  · clear h
    induction args with
    | nil => rfl
    | cons a rest ih =>
      cases a with
      | scalar v => simpa [axesValues, ensembleShape] using ih
      | dist vs ws => simpa [axesValues, ensembleShape] using ih

/-! ### `_unpack_distributions`: the k-th distribution lives on new axis k -/

def axisOf : Unpacked V → Option Nat
  | .scalar _ => none
  | .onAxis a _ _ => some a

lemma unpackLoop_axes (numNew : Nat) (base : List Nat) (i : Nat) (args : List (Arg V W)) :
    (unpackLoop numNew base i args).filterMap axisOf
      = (List.range (args.filter Arg.isDist).length).map (· + i) := by
  induction args generalizing i with
  | nil => rfl
  | cons a rest ih =>
    cases a with
    | scalar v =>
      have := ih i
      simp only [unpackLoop, List.filterMap_cons, axisOf, List.filter_cons, Arg.isDist] at this ⊢
      simpa using this
    | dist vs ws =>
      simp only [unpackLoop, List.filterMap_cons, axisOf, List.filter_cons, Arg.isDist, if_true, List.length_cons,
        ih (i + 1)]
      rw [List.range_succ_eq_map, List.map_cons, List.map_map]
      simp only [Nat.zero_add, List.cons.injEq, true_and]
      apply List.map_congr_left
      intro j _; simp only [Function.comp]; omega

/-- In `_unpack_distributions` the distribution-valued arguments are put on the new axes `0, 1, 2, …` in argument
order, scalars take no axis, and each is expanded on every other new axis and on all base axes. -/
theorem unpack_axes (args : List (Arg V W)) (baseDims : Nat) :
    (unpack args baseDims).filterMap axisOf = List.range (ensembleShape args).length ∧
    ∀ u ∈ unpack args baseDims, ∀ a ex vs, u = Unpacked.onAxis a ex vs →
      ex = rangeExcept (ensembleShape args).length a ++ (List.range baseDims).map (· + (ensembleShape args).length) := by
  have hn : (args.filter Arg.isDist).length = (ensembleShape args).length := by
    induction args with
    | nil => rfl
    | cons a rest ih =>
      cases a with
      | scalar v => simpa [Arg.isDist, ensembleShape] using ih
      | dist vs ws =>
        simp only [ensembleShape] at ih
        simp only [ensembleShape, List.filter_cons, Arg.isDist, if_true, List.length_cons, List.filterMap_cons, ih]
  constructor
  · unfold unpack
    rw [unpackLoop_axes, hn]; simp
  · unfold unpack
    rw [hn]
    clear hn
    generalize (ensembleShape args).length = n
    generalize (0 : Nat) = i
    induction args generalizing i with
    | nil => intro u hu; simp [unpackLoop] at hu
    | cons a rest ih =>
      intro u hu a' ex vs hq
      cases a with
      | scalar v =>
        simp only [unpackLoop, List.mem_cons] at hu
        rcases hu with rfl | hu
        · cases hq
        · exact ih i u hu a' ex vs hq
      | dist vs' ws =>
        simp only [unpackLoop, List.mem_cons] at hu
        rcases hu with rfl | hu
        · injection hq with h1 h2 h3; subst h1; exact h2.symm
        · exact ih (i + 1) u hu a' ex vs hq

/-! ### bridge: the arrays `_unpack_distributions` returns, read by numpy broadcasting, are what `evalEnsemble` evaluates -/

lemma unpackLoop_broadcast (d : V) (numNew : Nat) (base : List Nat) (args : List (Arg V W)) (pre idx : List Nat)
    (hlen : (ensembleShape args).length ≤ idx.length) :
    (unpackLoop numNew base pre.length args).map (fun u => broadcastAt d u (pre ++ idx)) = argsAt d args idx := by
  induction args generalizing pre idx with
  | nil => rfl
  | cons a rest ih =>
    cases a with
    | scalar v =>
      have h := ih pre idx (by simpa [ensembleShape] using hlen)
      simp only [unpackLoop, List.map_cons, argsAt]
      rw [h]; rfl
    | dist vs ws =>
      cases idx with
      | nil => simp [ensembleShape] at hlen
      | cons j idx =>
        have h := ih (pre ++ [j]) idx (by simp only [ensembleShape, List.filterMap_cons, List.length_cons] at hlen ⊢; omega)
        simp only [List.length_append, List.length_cons, List.length_nil, List.append_assoc, List.cons_append,
          List.nil_append] at h
        simp only [unpackLoop, List.map_cons, argsAt]
        rw [h]
        congr 1
        simp [broadcastAt, List.getD_eq_getElem?_getD]

/-- **From the code path to the member**: evaluating a pointwise kernel on the arrays returned by
`_unpack_distributions` (modelled by `unpack`: the k-th distribution on new axis k, expanded elsewhere), read at ensemble
multi-index `idx` with numpy's broadcasting rule (`broadcastAt`: an axis of size 1 ignores the index), gives exactly the
scalar arguments `argsAt idx` — distribution `k` contributes `values_k[idx_k]`, scalars themselves. -/
theorem unpack_broadcast_eq_argsAt (d : V) (args : List (Arg V W)) (baseDims : Nat) (idx : List Nat)
    (hlen : (ensembleShape args).length ≤ idx.length) :
    (unpack args baseDims).map (fun u => broadcastAt d u idx) = argsAt d args idx := by
  have := unpackLoop_broadcast d (args.filter Arg.isDist).length ((List.range baseDims).map (· + (args.filter Arg.isDist).length))
    args [] idx hlen
  simpa [unpack] using this

/-- … hence the ensemble array defined through the unpacked, broadcast arguments is `evalEnsemble`: member `idx` is the
kernel on the broadcast values, and (with `member_eq_scalar_run`) the run with those scalars. -/
theorem ensemble_from_unpacked (d : V) (o : W) (f : List V → R) (args : List (Arg V W)) (baseDims : Nat) :
    (memberIndices args).map (fun idx => (weightsAt o args idx, f ((unpack args baseDims).map fun u => broadcastAt d u idx)))
      = evalEnsemble d o f args := by
  unfold evalEnsemble
  apply List.map_congr_left
  intro idx hidx
  have hl : idx.length = (ensembleShape args).length := ((mem_memberIndices args idx).1 hidx).length_eq
  rw [unpack_broadcast_eq_argsAt d args baseDims idx (by omega)]

/-! ### partitioned ensembles (lazy evaluation): a block sees the values of its slice -/

/-- Value (or weight) `l` of block `b` of a divided distribution is value `blockStart b + l` of the whole, for every
valid chunking — so member `l` of block `b` of a lazily evaluated ensemble is member `blockStart b + l` of the
eager one, axis by axis (C19 `nd_member_unique` gives uniqueness). -/
theorem block_value_eq_global_value {α : Type} (xs : List α) (cs : List Nat) (b l : Nat) (hb : b < cs.length)
    (hl : l < cs[b]) :
    ((Ensemble.distBlocks xs cs)[b]'(by rw [C19.distBlocks_eq_splitBy]; simpa using hb))[l]? = xs[blockStart cs b + l]? := by
  simp only [C19.distBlocks_eq_splitBy]
  exact getElem?_splitBy cs xs b l hb hl

/-! ### averaged axes -/

lemma foldl_add_eq_sum (l : List Rat) (a : Rat) : l.foldl (· + ·) a = a + l.sum := by
  induction l generalizing a with
  | nil => simp
  | cons x xs ih => simp only [List.foldl_cons, List.sum_cons, ih]; ring

/-- **An averaged (`ensemble_mean`) axis is the mean of the weighted members, as the code defines it**:
`mean_i (w_i · f_i) = (Σ w_i f_i) / n`; with unit weights it is the plain average of the scalar runs. -/
theorem mean_axis_is_mean_of_weighted_members (ws fs : List Rat) :
    meanList (List.zipWith (· * ·) ws fs) = (List.zipWith (· * ·) ws fs).sum / ((List.zipWith (· * ·) ws fs).length : Rat) ∧
    (ws = List.replicate fs.length 1 → meanList (List.zipWith (· * ·) ws fs) = fs.sum / (fs.length : Rat)) := by
  constructor
  · simp [meanList, foldl_add_eq_sum]
  · intro h
    have key : ∀ l : List Rat, List.zipWith (· * ·) (List.replicate l.length (1 : Rat)) l = l := by
      intro l
      induction l with
      | nil => rfl
      | cons x xs ih => simp [List.replicate_succ, ih]
    rw [h, key fs]; simp [meanList, foldl_add_eq_sum]

/-! ### lazy (block-wise) evaluation of a parameter ensemble -/

/-- the blocks handed to block multi-index `bs` by `_partition_args` (one per distribution-valued argument) -/
def pickBlocks (args : List (Arg V W)) (chunks : List (List Nat)) (bs : List Nat) : List (List V × List W) :=
  List.zipWith (fun bl b => bl.getD b ([], [])) (partitionArgs args chunks) bs

lemma getD_of_getElem? {α : Type} (l m : List α) (i j : Nat) (d : α) (h : l[i]? = m[j]?) : l.getD i d = m.getD j d := by
  simp [List.getD_eq_getElem?_getD, h]

lemma lt_length_of_lt_getD (cs : List Nat) (b l : Nat) (h : l < cs.getD b 0) : b < cs.length := by
  by_contra hb
  have : cs.getD b 0 = 0 := by simp [List.getD_eq_getElem?_getD, List.getElem?_eq_none (by omega : cs.length ≤ b)]
  omega

/-- one distribution axis: entry `l` of block `b` (values and weights alike) is entry `blockStart b + l` of the whole -/
lemma pick_axis (vs : List V) (ws : List W) (cs : List Nat) (b l : Nat) (d : V) (o : W) (h : l < cs.getD b 0) :
    ((List.zipWith Prod.mk (Ensemble.distBlocks vs cs) (Ensemble.distBlocks ws cs)).getD b ([], [])).1.getD l d
        = vs.getD (blockStart cs b + l) d ∧
    ((List.zipWith Prod.mk (Ensemble.distBlocks vs cs) (Ensemble.distBlocks ws cs)).getD b ([], [])).2.getD l o
        = ws.getD (blockStart cs b + l) o := by
  have hb := lt_length_of_lt_getD cs b l h
  have hl : l < cs[b] := by
    have : cs.getD b 0 = cs[b] := by simp [List.getD_eq_getElem?_getD, List.getElem?_eq_getElem hb]
    omega
  have hbv : b < (Ensemble.distBlocks vs cs).length := by rw [C19.distBlocks_eq_splitBy]; simpa using hb
  have hbw : b < (Ensemble.distBlocks ws cs).length := by rw [C19.distBlocks_eq_splitBy]; simpa using hb
  have hz : (List.zipWith Prod.mk (Ensemble.distBlocks vs cs) (Ensemble.distBlocks ws cs)).getD b ([], [])
      = ((Ensemble.distBlocks vs cs)[b], (Ensemble.distBlocks ws cs)[b]) := by
    rw [List.getD_eq_getElem?_getD, List.getElem?_eq_getElem (by simp; omega)]
    simp
  rw [hz]
  exact ⟨getD_of_getElem? _ _ _ _ d (block_value_eq_global_value vs cs b l hb hl),
    getD_of_getElem? _ _ _ _ o (block_value_eq_global_value ws cs b l hb hl)⟩

/-- **Lazy member = eager member.**  For every argument list, every chunking of every distribution axis, every block
multi-index `b` and local multi-index `l` inside that block (`axs` lists `(chunks, b, l)` per distribution axis): the
scalar values and the weights seen by local member `l` of the block transform built by
`_partition_args`/`_partial_transform` are those seen by member `blockStart b + l` of the whole ensemble. -/
theorem lazy_member_eq_eager_member (d : V) (o : W) (args : List (Arg V W)) (axs : List (List Nat × Nat × Nat))
    (hlen : axs.length = (ensembleShape args).length) (hax : ∀ t ∈ axs, t.2.2 < t.1.getD t.2.1 0) :
    argsAt d (blockArgs args (pickBlocks args (axs.map (·.1)) (axs.map (·.2.1)))) (axs.map (·.2.2))
        = argsAt d args (axs.map fun t => blockStart t.1 t.2.1 + t.2.2) ∧
    weightsAt o (blockArgs args (pickBlocks args (axs.map (·.1)) (axs.map (·.2.1)))) (axs.map (·.2.2))
        = weightsAt o args (axs.map fun t => blockStart t.1 t.2.1 + t.2.2) := by
  induction args generalizing axs with
  | nil => simp [blockArgs, argsAt, weightsAt]
  | cons a rest ih =>
    cases a with
    | scalar v =>
      have := ih axs (by simpa [ensembleShape] using hlen) hax
      simp only [pickBlocks, partitionArgs, List.filterMap_cons, blockArgs, argsAt, weightsAt] at this ⊢
      exact ⟨by rw [this.1], this.2⟩
    | dist vs ws =>
      cases axs with
      | nil => simp [ensembleShape] at hlen
      | cons t axs =>
        obtain ⟨cs, b, l⟩ := t
        have hrec := ih axs (by simpa [ensembleShape] using hlen) (fun t ht => hax t (by simp [ht]))
        have hpick := pick_axis vs ws cs b l d o (by simpa using hax (cs, b, l) (by simp))
        simp only [pickBlocks, partitionArgs, List.filterMap_cons, List.map_cons, List.zipWith_cons_cons, blockArgs,
          argsAt, weightsAt] at hrec ⊢
        exact ⟨by rw [hpick.1, hrec.1], by rw [hpick.2, hrec.2]⟩

/-- **Lazy member = eager member = scalar run**, for every kernel `f`: evaluating the block transform at local index `l`
gives the value the eager ensemble has at global index `blockStart b + l`, which is the value of the run with the
scalar parameters that member sees. -/
theorem lazy_member_eq_scalar_run (d : V) (o : W) (f : List V → R) (args : List (Arg V W)) (axs : List (List Nat × Nat × Nat))
    (hlen : axs.length = (ensembleShape args).length) (hax : ∀ t ∈ axs, t.2.2 < t.1.getD t.2.1 0) :
    f (argsAt d (blockArgs args (pickBlocks args (axs.map (·.1)) (axs.map (·.2.1)))) (axs.map (·.2.2)))
      = f (argsAt d args (axs.map fun t => blockStart t.1 t.2.1 + t.2.2)) ∧
    evalEnsemble d o f (scalarize d args (axs.map fun t => blockStart t.1 t.2.1 + t.2.2))
      = [([], f (argsAt d args (axs.map fun t => blockStart t.1 t.2.1 + t.2.2)))] := by
  refine ⟨by rw [(lazy_member_eq_eager_member d o args axs hlen hax).1], ?_⟩
  simp only [evalEnsemble, memberIndices, ensembleShape_scalarize, List.map_nil, product, List.map_cons,
    argsAt_scalarize, weightsAt_scalarize]

/-- Every member of the ensemble is produced by exactly one block at exactly one local index, for every valid chunking
(`chunks_j` sums to the length of distribution `j`). -/
theorem lazy_covers_every_member_once (args : List (Arg V W)) (chunks : List (List Nat)) (idx : List Nat)
    (hch : List.Forall₂ (fun cs n => cs.sum = n) chunks (ensembleShape args)) (hidx : idx ∈ memberIndices args) :
    List.Forall₂ (fun cs k => ∃ b l, b < cs.length ∧ l < cs.getD b 0 ∧ blockStart cs b + l = k ∧
      ∀ b' l', (hb' : b' < cs.length) → l' < cs[b'] → blockStart cs b' + l' = k → b' = b ∧ l' = l) chunks idx := by
  apply C19.nd_member_unique
  have h1 := (mem_memberIndices args idx).1 hidx
  -- combine `idx_j < n_j` with `cs_j.sum = n_j`
  have : ∀ (chunks : List (List Nat)) (shape idx : List Nat), List.Forall₂ (fun cs n => cs.sum = n) chunks shape →
      List.Forall₂ (fun i n => i < n) idx shape → List.Forall₂ (fun cs k => k < cs.sum) chunks idx := by
    intro chunks shape idx h2 h3
    induction h2 generalizing idx with
    | nil => cases h3; exact .nil
    | cons hc _ ih => cases h3 with
      | cons hi hrest => exact .cons (by omega) (ih _ hrest)
  exact this chunks _ idx hch h1

/-! ### averaged axes, block-wise -/

/-- the mean over an averaged axis computed from the blocks' partial sums equals the mean over the whole axis (what a
block-wise reduction has to reproduce), for every chunking -/
theorem mean_of_blocks (fs : List Rat) (cs : List Nat) (h : cs.sum = fs.length) :
    ((splitBy cs fs).map List.sum).sum / (fs.length : Rat) = meanList fs := by
  have : ((splitBy cs fs).map List.sum).sum = fs.sum := by
    rw [← List.sum_flatten, flatten_splitBy cs fs (by omega)]
  rw [this]; simp [meanList, foldl_add_eq_sum]

/-! ### composition of several ensemble transforms (Probe: aperture, aberrations, tilt) -/

/-- **Axis j ↔ j-th distribution across composed transforms**: applying the transforms in the *reverse* of the order in
which the builder lists its ensembles yields the ensemble axes in the listed order, followed by the axes that were
already there (the scan axes of the probe kernel). -/
theorem applyAll_reverse {α : Type} (base : List α) (ts : List (List α)) :
    applyAll base ts.reverse = ts.flatten ++ base := by
  induction ts generalizing base with
  | nil => rfl
  | cons t ts ih =>
    simp only [applyAll, List.reverse_cons, List.foldl_append, List.foldl_cons, List.foldl_nil, List.flatten_cons,
      List.append_assoc] at ih ⊢
    rw [ih]

lemma flatten_sizes (named : List (String × Nat)) :
    (named.map fun t => if t.2 = 0 then ([] : List Nat) else [t.2]).flatten = (named.filter fun t => t.2 ≠ 0).map (·.2) := by
  induction named with
  | nil => rfl
  | cons t ts ih =>
    by_cases h : t.2 = 0 <;> simp [h, ih]

/-- With the transforms applied in the reverse of the order in which the builder names its ensembles (what
`Probe._calculate_array` does since fix 04606fd4) the built array has exactly the axes the metadata lists, for every
combination of ensemble sizes — the constructor's size check cannot fail and axis `j` of the array is the `j`-th listed
ensemble. -/
theorem compose_reverse_ok (named : List (String × Nat)) :
    composeAxes named named.reverse
      = .ok ((named.filter fun t => t.2 ≠ 0).map (·.2), (named.filter fun t => t.2 ≠ 0).map (·.1)) := by
  unfold composeAxes
  simp only [List.map_reverse, applyAll_reverse, List.append_nil, flatten_sizes, if_true]

/-- … and any other order mislabels them (the order `aperture, tilt, aberrations` used before fix 04606fd4 puts the
aberration axes in front of the tilt axes). -/
theorem applyAll_wrong_order_counterexample :
    ¬ ∀ (tilt ab ap scan : List String), applyAll scan [ap, tilt, ab] = [tilt, ab, ap].flatten ++ scan := by
  intro h
  have := h ["tilt_x"] ["C10"] [] []
  revert this
  decide

example : applyAll ["x", "y"] ([["tilt_x"], ["C10", "C30"], ["semiangle_cutoff"]] : List (List String)).reverse
    = ["tilt_x", "C10", "C30", "semiangle_cutoff", "x", "y"] := by decide

/-! ### averaged axes versus the weighted mean of the statement -/

/-- With unit weights the code's reduction (arithmetic mean of the weighted members) *is* the weighted mean. -/
theorem mean_eq_weightedMean_of_unit_weights (fs : List Rat) (hne : fs ≠ []) :
    meanList (List.zipWith (· * ·) (List.replicate fs.length 1) fs) = weightedMean (List.replicate fs.length 1) fs := by
  have key : ∀ l : List Rat, List.zipWith (· * ·) (List.replicate l.length (1 : Rat)) l = l := by
    intro l
    induction l with
    | nil => rfl
    | cons x xs ih => simp [List.replicate_succ, ih]
  have hs : (List.replicate fs.length (1 : Rat)).sum = (fs.length : Rat) := by
    induction fs with
    | nil => rfl
    | cons x xs _ => simp [List.sum_replicate]
  rw [weightedMean, key fs, hs]; simp [meanList, foldl_add_eq_sum]

lemma sum_zipWith_scaled (c : Rat) (us fs : List Rat) :
    (List.zipWith (· * ·) (us.map fun u => u * c) fs).sum = c * (List.zipWith (· * ·) us fs).sum := by
  induction us generalizing fs with
  | nil => simp
  | cons u us ih =>
    cases fs with
    | nil => simp
    | cons f fs => simp only [List.map_cons, List.zipWith_cons_cons, List.sum_cons, ih]; ring

/-- **Averaged aberration / CTF axes are the weighted mean** (since fix 4ef047d8): with the intensity weights rescaled by
`n / Σu` in `_unpack_distributions`, the plain mean that `reduce_ensemble` takes over the weighted members equals
`Σ uᵢ fᵢ / Σ uᵢ`, for every weight list with non-zero sum and every member results. -/
theorem averaged_axis_eq_weighted_mean (us fs : List Rat) (hlen : us.length = fs.length) (hne : us ≠ []) (hs : us.sum ≠ 0) :
    meanList (List.zipWith (· * ·) (normalizeMeanWeights us) fs) = weightedMean us fs := by
  have hn : (us.length : Rat) ≠ 0 := by
    have : 0 < us.length := List.length_pos_of_ne_nil hne
    exact_mod_cast Nat.pos_iff_ne_zero.1 this
  have hl : (List.zipWith (· * ·) (normalizeMeanWeights us) fs).length = us.length := by
    simp [normalizeMeanWeights, hlen]
  have hmap : normalizeMeanWeights us = us.map fun u => u * ((us.length : Rat) / us.sum) := by
    unfold normalizeMeanWeights; apply List.map_congr_left; intro u _; ring
  rw [meanList, foldl_add_eq_sum, zero_add, hl, hmap, sum_zipWith_scaled, weightedMean]
  field_simp

/-- Known finding `envelope:ensemble-mean-ignores-distribution-weights`: TemporalEnvelope and SpatialEnvelope discard the
weights (`unpacked, _ = _unpack_distributions(...)`), Aperture never reads them, so their reduction is the plain mean of the members, which is not
the weighted mean either. -/
theorem unweighted_mean_ne_weighted_mean_counterexample :
    ¬ ∀ ws fs : List Rat, meanList fs = weightedMean ws fs := by
  intro h
  have := h [1, 3] [0, 4]
  revert this
  decide +kernel

/-- a probe member is normalised on its own (`waves.normalize()` after the aberrations): the intensity weight `w`
multiplies the member and its norm alike -/
def normalisedIntensity (w psi2 norm2 : Rat) : Rat := (w * psi2) / (w * norm2)

/-- … so a non-zero weight has no effect on the member at all. -/
theorem normalised_member_ignores_weight (w psi2 norm2 : Rat) (hw : w ≠ 0) :
    normalisedIntensity w psi2 norm2 = psi2 / norm2 := by
  unfold normalisedIntensity; rw [mul_div_mul_left _ _ hw]

/-- Known finding `probe:ensemble-mean-weights-cancelled-by-normalisation`: the mean over an averaged parameter axis of
built probes (each member normalised on its own) is not the weighted mean of the normalised members. -/
theorem probe_mean_ne_weighted_mean_counterexample :
    ¬ ∀ ws psis norms : List Rat, meanList (List.zipWith (fun w (p : Rat × Rat) => normalisedIntensity w p.1 p.2) ws (psis.zip norms))
        = weightedMean ws (List.zipWith (· / ·) psis norms) := by
  intro h
  have := h [1, 3] [0, 4] [1, 1]
  revert this
  decide +kernel

/-- Known finding `tilt:ensemble-mean-ignores-distribution-weights`: the tilt transforms tile the wave without weights, so
an averaged tilt axis reduces to the unweighted mean of the members. -/
theorem tilt_mean_ne_weighted_mean_counterexample :
    ¬ ∀ ws fs : List Rat, meanList fs = weightedMean ws fs := unweighted_mean_ne_weighted_mean_counterexample

/-! ### non-vacuity -/
example : evalEnsemble (0 : Int) (1 : Int) (fun l => l.sum) [.dist [10, 20] [1, 2], .scalar 5, .dist [1, 2, 3] [1, 1, 1]]
    = [([1, 1], 16), ([1, 1], 17), ([1, 1], 18), ([2, 1], 26), ([2, 1], 27), ([2, 1], 28)] := by decide
example : (unpack ([.dist [10, 20] [1, 2], .scalar 5, .dist [1, 2, 3] [1, 1, 1]] : List (Arg Int Int)) 2).filterMap axisOf = [0, 1] := by decide
example : meanList (List.zipWith (· * ·) [1, 2] [3, 5]) = 13 / 2 := by decide +kernel

end AbtemVerif.Props.C03
