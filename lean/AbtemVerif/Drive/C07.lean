import AbtemVerif.Model.Proto
import AbtemVerif.Model.Multislice
open AbtemVerif AbtemVerif.Proto AbtemVerif.ExitPlanes AbtemVerif.Multislice

/- requests (one per line):
   `validate none|int:<k>|tuple:<ints> <n>`            → `ok <ints>` | `err <kind>`
   `after <planes> <n>`                                 → `ok <T/F list>` | `err <kind>`
   `window <planes> <a> <b>`                            → `ok <exit planes of the slice window [a,b)>`
   `thick <planes> <rats>`                              → `ok <rats>` | `err <kind>`
   `msd <ensAxis T/F> <planes> <num_slices> <configs: listlist of slice ids> [<incident waves in reciprocal space T/F>]`
        (history marker `0` = the representation change `ensure_real_space`)
        → `final <shape> <hist>` | `table <shape> <entry>;<entry>…` (row-major over the shape; entry = slice-id
          history, `_` = empty history (incident wave), `z` = never written) | `err <kind>`
   anything else → `bad-op` -/

def spec? (s : String) : Option ExitSpec :=
  if s = "none" then some .none
  else match s.splitOn ":" with
    | ["int", k] => (parseInt? k).map .int
    | ["tuple", l] => (parseList? parseInt? l).map .tuple
    | _ => none

def showRes {α} (f : α → String) : Except String α → String
  | .ok a => s!"ok {f a}"
  | .error e => s!"err {e}"

/-- all multi-indices of a shape, row-major -/
def indices : List Nat → List (List Nat)
  | [] => [[]]
  | n :: rest => (List.range n).flatMap fun i => (indices rest).map fun t => i :: t

def showEntry : Option Hist → String
  | none => "z"
  | some h => showList toString h

def showOut (o : Out Hist) : String :=
  match o with
  | .final shape m => s!"final {showList toString shape} {showList toString m}"
  | .table shape _ =>
    s!"table {showList toString shape} {";".intercalate ((indices shape).map fun i => showEntry (o.get i))}"

def handle : List String → String
  | ["validate", spec, n] =>
    match spec? spec, parseInt? n with
    | some sp, some n => showRes (showList showInt) (validateExitPlanes sp n)
    | _, _ => "bad-op"
  | ["after", planes, n] =>
    match parseList? parseInt? planes, parseNat? n with
    | some pl, some n => showRes (showList showBool) (exitPlaneAfter pl n)
    | _, _ => "bad-op"
  | ["window", planes, a, b] =>
    match parseList? parseInt? planes, parseNat? a, parseNat? b with
    | some pl, some a, some b =>
      match windowPlanes pl a b with
      | some r => s!"ok {showList showInt r}"
      | none => s!"ok {showInt ((b : Int) - (a : Int) - 1)}"      -- `exit_planes=None` → the last slice of the window
    | _, _, _ => "bad-op"
  | ["thick", planes, ts] =>
    match parseList? parseInt? planes, parseList? parseRat? ts with
    | some pl, some ts => showRes (showList showRat) (exitThicknesses pl ts)
    | _, _ => "bad-op"
  | ["msd", ens, planes, nslices, configs] =>
    match parseBool? ens, parseList? parseInt? planes, parseNat? nslices, parseListList? parseNat? configs with
    | some ens, some pl, some ns, some cfgs =>
      match multisliceAndDetect hstep hdetect [] ⟨ens, pl, ns, cfgs⟩ with
      | .ok o => showOut o
      | .error e => s!"err {e}"
    | _, _, _, _ => "bad-op"
  | ["msd", ens, planes, nslices, configs, recip] =>
    -- the same from the entry of the function: incident waves handed over in reciprocal space (`T`) or real space (`F`)
    match parseBool? ens, parseList? parseInt? planes, parseNat? nslices, parseListList? parseNat? configs, parseBool? recip with
    | some ens, some pl, some ns, some cfgs, some rc =>
      match multisliceAndDetectFrom hstep hdetect htoReal rc [] ⟨ens, pl, ns, cfgs⟩ with
      | .ok o => showOut o
      | .error e => s!"err {e}"
    | _, _, _, _, _ => "bad-op"
  | _ => "bad-op"

def main : IO Unit := serve handle
