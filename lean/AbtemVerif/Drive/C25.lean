import AbtemVerif.Model.Proto
import AbtemVerif.Model.FloatProto
import AbtemVerif.Model.ParamPoly
import AbtemVerif.Gen.ParamTables
import AbtemVerif.Gen.ParamLobatoF
import AbtemVerif.Gen.ParamKirklandF
import AbtemVerif.Gen.ParamPengF
open AbtemVerif AbtemVerif.Proto AbtemVerif.Param AbtemVerif.ListPoly AbtemVerif.Gen AbtemVerif.Gen.ParamTables

/- requests (floats travel as IEEE-754 bit patterns, rationals exactly):
     `entry <table> <symbol>`                      -> `ok <row;row;…>` | `err key_error`
     `hyp <table> <symbol>`                        -> `ok T|F` (pos10 / pos12 / lobatoOK∧lobatoDecOK) | `err key_error`
     `exceptions <table>`                          -> `ok <symbols>`
     `lobpoly <symbol>`                            -> `ok <N coeffs> <N' coeffs>` exact numerators of f and of -f'
     `kernel <form> <fn> <x> <p row-major>`        -> `ok <value>`   Float twins of the generated kernels
     `scaled <form> <which> <args>`                -> `ok <value>`   Float twins of scaled_parameters
   anything else -> `bad-op` -/
def table? : String → Option (List (String × List (List Rat)))
  | "lobato" => some lobatoTable
  | "kirkland" => some kirklandTable
  | "peng_high" => some pengHighTable
  | "peng_low" => some pengLowTable
  | "peng_ionic" => some pengIonicTable
  | _ => none

def hypOf : String → List (List Rat) → Bool
  | "lobato" => fun e => lobatoOK e && lobatoDecOK e
  | "kirkland" => pos12
  | _ => pos10

def showRows (e : List (List Rat)) : String := ";".intercalate (e.map fun r => ",".intercalate (r.map showRat))

def kernel : String → String → Float → List Float → Option Float
  | "lobato", "sf", x, [a0, a1, a2, a3, a4, b0, b1, b2, b3, b4] => some (ParamLobatoF.scatteringFactor x a0 a1 a2 a3 a4 b0 b1 b2 b3 b4)
  | "lobato", "pot", x, [a0, a1, a2, a3, a4, b0, b1, b2, b3, b4] => some (ParamLobatoF.potential x a0 a1 a2 a3 a4 b0 b1 b2 b3 b4)
  | "lobato", "dpot", x, [a0, a1, a2, a3, a4, b0, b1, b2, b3, b4] => some (ParamLobatoF.potentialDerivative x a0 a1 a2 a3 a4 b0 b1 b2 b3 b4)
  | "lobato", "psf", x, [a0, a1, a2, a3, a4, b0, b1, b2, b3, b4] => some (ParamLobatoF.projectedScatteringFactor x a0 a1 a2 a3 a4 b0 b1 b2 b3 b4)
  | "kirkland", "sf", x, [a0, a1, a2, b0, b1, b2, c0, c1, c2, d0, d1, d2] => some (ParamKirklandF.scatteringFactor x a0 a1 a2 b0 b1 b2 c0 c1 c2 d0 d1 d2)
  | "kirkland", "pot", x, [a0, a1, a2, b0, b1, b2, c0, c1, c2, d0, d1, d2] => some (ParamKirklandF.potential x a0 a1 a2 b0 b1 b2 c0 c1 c2 d0 d1 d2)
  | "kirkland", "dpot", x, [a0, a1, a2, b0, b1, b2, c0, c1, c2, d0, d1, d2] => some (ParamKirklandF.potentialDerivative x a0 a1 a2 b0 b1 b2 c0 c1 c2 d0 d1 d2)
  | "kirkland", "psf", x, [a0, a1, a2, b0, b1, b2, c0, c1, c2, d0, d1, d2] => some (ParamKirklandF.projectedScatteringFactor x a0 a1 a2 b0 b1 b2 c0 c1 c2 d0 d1 d2)
  | "peng", "sf", x, [a0, a1, a2, a3, a4, b0, b1, b2, b3, b4] => some (ParamPengF.scatteringFactor x a0 a1 a2 a3 a4 b0 b1 b2 b3 b4)
  | "peng", "sfk2", x, [a0, a1, a2, a3, a4, b0, b1, b2, b3, b4] => some (ParamPengF.scatteringFactorK2 x a0 a1 a2 a3 a4 b0 b1 b2 b3 b4)
  | _, _, _, _ => none

def scaled : String → String → List Float → Option Float
  | "lobato", "A", [a, b, k] => some (ParamLobatoF.scaledA a b k)
  | "lobato", "B", [b] => some (ParamLobatoF.scaledB b)
  | "kirkland", "A", [a, k] => some (ParamKirklandF.scaledA a k)
  | "kirkland", "B", [b] => some (ParamKirklandF.scaledB b)
  | "kirkland", "C", [c, d, k] => some (ParamKirklandF.scaledC c d k)
  | "kirkland", "D", [d] => some (ParamKirklandF.scaledD d)
  | "peng", "div", [] => some ParamPengF.widthDivisor
  | "peng", "potA", [a, b, k] => some (ParamPengF.potA a b k)
  | "peng", "potB", [b] => some (ParamPengF.potB b)
  | "peng", "projA", [a, b, k] => some (ParamPengF.projA a b k)
  | "peng", "projB", [b] => some (ParamPengF.projB b)
  | "peng", "psfA", [a, k] => some (ParamPengF.psfA a k)
  | "peng", "psfB", [b] => some (ParamPengF.psfB b)
  | _, _, _ => none

def handle : List String → String
  | ["entry", t, sym] =>
    match table? t with
    | some tbl => match tbl.find? (·.1 == sym) with
      | some e => s!"ok {showRows e.2}"
      | none => "err key_error"
    | none => "bad-op"
  | ["hyp", t, sym] =>
    match table? t with
    | some tbl => match tbl.find? (·.1 == sym) with
      | some e => s!"ok {showBool (hypOf t e.2)}"
      | none => "err key_error"
    | none => "bad-op"
  | ["exceptions", t] =>
    match table? t with
    | some tbl => s!"ok {showList id (exceptions tbl (hypOf t))}"
    | none => "bad-op"
  | ["lobpoly", sym] =>
    match lobatoTable.find? (·.1 == sym) with
    | some e => s!"ok {showList showRat (numDen (lobatoTerms e.2)).1} {showList showRat (numDenD (lobatoTerms e.2)).1}"
    | none => "err key_error"
  | ["kernel", form, fn, x, p] =>
    match parseFloatBits? x, parseList? parseFloatBits? p with
    | some x, some p => match kernel form fn x p with
      | some v => s!"ok {showFloatBits v}"
      | none => "bad-op"
    | _, _ => "bad-op"
  | ["scaled", form, which, args] =>
    match parseList? parseFloatBits? args with
    | some a => match scaled form which a with
      | some v => s!"ok {showFloatBits v}"
      | none => "bad-op"
    | none => "bad-op"
  | _ => "bad-op"

def main : IO Unit := serve handle
