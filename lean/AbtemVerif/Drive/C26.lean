import AbtemVerif.Model.Proto
import AbtemVerif.Model.FloatProto
import AbtemVerif.Model.Bloch
import AbtemVerif.Gen.BlochF
open AbtemVerif AbtemVerif.Proto AbtemVerif.StructFactor AbtemVerif.Bloch

/- requests:
     `ravel <n0,n1,n2> <hkls>`                                         -> `ok <ints>` | `err <kind>`
     `smatrix <n0,n1,n2> <src hkls> <values re,im;…> <sel hkls> <prefactor> <wavelength> <M list> <sg list>`
                                                                       -> `ok re,im;…` (row-major) | `err <kind>`
     `dyn <n> <C row-major: float bits re,im;…> <v bits list> <M bits list> <wavelength bits> <t bits list> <i0>`
                                                                       -> `ok re,im;…` (thickness-major, float bits)
     `mii <g_z> <wavelength>`                                         -> `ok <M>`   Float twin of calculate_M_matrix (k0 = 1/λ)
     `ens <width> <positions per member-row: a,b;c,d;…> <values per member-row>`  -> `ok <rows>`   eager ensemble assembly
   hkls: `a,b,c;a,b,c` (`~` = none); anything else -> `bad-op` -/
def triple? {α} (f : String → Option α) (s : String) : Option (α × α × α) :=
  match s.splitOn "," with
  | [a, b, c] => do let x ← f a; let y ← f b; let z ← f c; pure (x, y, z)
  | _ => none

def triples? {α} (f : String → Option α) (s : String) : Option (List (α × α × α)) :=
  if s = "~" then some [] else (s.splitOn ";").mapM (triple? f)

def pair? {α} (f : String → Option α) (s : String) : Option (α × α) :=
  match s.splitOn "," with
  | [a, b] => do let x ← f a; let y ← f b; pure (x, y)
  | _ => none

def pairs? {α} (f : String → Option α) (s : String) : Option (List (α × α)) :=
  if s = "~" then some [] else (s.splitOn ";").mapM (pair? f)

def showGQs (l : List GQ) : String :=
  if l.isEmpty then "~" else ";".intercalate (l.map fun z => s!"{showRat z.re},{showRat z.im}")

def handle : List String → String
  | ["ravel", g, hk] =>
    match triple? parseNat? g, triples? parseInt? hk with
    | some g, some hk =>
      match hk.mapM (ravelHkl g) with
      | .ok l => s!"ok {showList showInt l}"
      | .error e => s!"err {e}"
    | _, _ => "bad-op"
  | ["smatrix", g, src, vals, sel, pref, wl, m, sg] =>
    match triple? parseNat? g, triples? parseInt? src, pairs? parseRat? vals, triples? parseInt? sel,
          parseRat? pref, parseRat? wl, parseList? parseRat? m, parseList? parseRat? sg with
    | some g, some src, some vals, some sel, some pref, some wl, some m, some sg =>
      if vals.length ≠ src.length || m.length ≠ sel.length || sg.length ≠ sel.length then "bad-op" else
      match structureMatrix (vals.map fun (a, b) => ⟨a, b⟩) src sel g pref wl m sg with
      | .ok rows => s!"ok {showGQs rows.flatten}"
      | .error e => s!"err {e}"
    | _, _, _, _, _, _, _, _ => "bad-op"
  | ["dyn", n, c, v, m, wl, ts, i0] =>
    match parseNat? n, pairs? parseFloatBits? c, parseList? parseFloatBits? v, parseList? parseFloatBits? m,
          parseFloatBits? wl, parseList? parseFloatBits? ts, parseNat? i0 with
    | some n, some c, some v, some m, some wl, some ts, some i0 =>
      if c.length ≠ n * n || v.length ≠ n || m.length ≠ n || i0 ≥ n then "bad-op" else
      let C : Array (Array CF) := (Array.range n).map fun i => (Array.range n).map fun j =>
        let p := c.getD (i * n + j) (0, 0); (⟨p.1, p.2⟩ : CF)
      let out := dynScatter C v.toArray m.toArray wl ts i0
      "ok " ++ ";".intercalate (out.flatten.map fun z => s!"{showFloatBits z.re},{showFloatBits z.im}")
    | _, _, _, _, _, _, _ => "bad-op"
  | ["mii", gz, wl] =>
    match parseFloatBits? gz, parseFloatBits? wl with
    | some gz, some wl => s!"ok {showFloatBits (AbtemVerif.Gen.BlochF.mii gz (AbtemVerif.Gen.BlochF.k0Of wl))}"
    | _, _ => "bad-op"
  | ["ens", w, pos, vals] =>
    match parseNat? w, parseListList? parseNat? pos, parseListList? parseInt? vals with
    | some w, some ps, some vs =>
      if ps.length ≠ vs.length then "bad-op" else
      s!"ok {showListList showInt (assembleEnsemble (0 : Int) w (ps.zip vs))}"
    | _, _, _ => "bad-op"
  | _ => "bad-op"

def main : IO Unit := serve handle
