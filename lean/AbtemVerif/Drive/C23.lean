import AbtemVerif.Model.FloatProto
import AbtemVerif.Gen.ApertureF
import AbtemVerif.Gen.EnvelopeF
open AbtemVerif AbtemVerif.Proto AbtemVerif.Gen.ApertureF AbtemVerif.Gen.EnvelopeF

/- Float twins of the aperture / envelope expressions of abtem/transfer.py (generated) plus the hand glue that mirrors
   `Props/C23.lean` (`apertureModel`): branch selection of Aperture._evaluate_from_angular_grid and the zero-frequency
   override of soft_aperture.  Floats travel as IEEE-754 bit patterns.
   requests:
     soft <alpha> <phi> <cutoff_rad> <a0_mrad> <a1_mrad> <origin T|F>
     hard <alpha> <cutoff_rad>
     aperture <soft T|F> <grid T|F> <origin T|F> <cutoff_mrad | inf> <alpha> <phi> <a0_mrad> <a1_mrad>
     temporal <alpha> <wavelength> <focal_spread>
     spatial <alpha> <phi> <wavelength> <spread_mrad> <25 coefficients>
   replies: `ok <bits>` | `bad-op`   (dchi_dk / dchi_dphi are local variables of the method: their twins are exercised through `spatial`) -/

def softGlue (alpha phi cutoff a0 a1 : Float) (origin : Bool) : Float :=
  if origin then 1 else softAperture alpha phi cutoff (angularSamplingRad a0) (angularSamplingRad a1)

def apertureModelF (soft grid origin : Bool) (cm : Option Float) (alpha phi a0 a1 : Float) : Float :=
  match cm with
  | none => 1
  | some cm =>
    if soft && grid then softGlue alpha phi (apertureCutoffRad cm) a0 a1 origin
    else hardAperture alpha (apertureCutoffRad cm)

def coeffs? (s : String) : Option (PolarCoeffs Float) :=
  match parseList? parseFloatBits? s with
  | some l => if l.length = 25 then some (PolarCoeffs.ofList 0 l) else none
  | none => none

def handle : List String → String
  | ["soft", al, ph, cu, a0, a1, o] =>
    match parseFloatBits? al, parseFloatBits? ph, parseFloatBits? cu, parseFloatBits? a0, parseFloatBits? a1, parseBool? o with
    | some al, some ph, some cu, some a0, some a1, some o => s!"ok {showFloatBits (softGlue al ph cu a0 a1 o)}"
    | _, _, _, _, _, _ => "bad-op"
  | ["hard", al, cu] =>
    match parseFloatBits? al, parseFloatBits? cu with
    | some al, some cu => s!"ok {showFloatBits (hardAperture al cu)}"
    | _, _ => "bad-op"
  | ["aperture", so, gr, o, cm, al, ph, a0, a1] =>
    let cm? : Option (Option Float) := if cm = "inf" then some none else (parseFloatBits? cm).map some
    match parseBool? so, parseBool? gr, parseBool? o, cm?, parseFloatBits? al, parseFloatBits? ph, parseFloatBits? a0, parseFloatBits? a1 with
    | some so, some gr, some o, some cm, some al, some ph, some a0, some a1 =>
      s!"ok {showFloatBits (apertureModelF so gr o cm al ph a0 a1)}"
    | _, _, _, _, _, _, _, _ => "bad-op"
  | ["temporal", al, wl, fs] =>
    match parseFloatBits? al, parseFloatBits? wl, parseFloatBits? fs with
    | some al, some wl, some fs => s!"ok {showFloatBits (temporalEnvelope al wl fs)}"
    | _, _, _ => "bad-op"
  | ["spatial", al, ph, wl, sp, cs] =>
    match parseFloatBits? al, parseFloatBits? ph, parseFloatBits? wl, parseFloatBits? sp, coeffs? cs with
    | some al, some ph, some wl, some sp, some p => s!"ok {showFloatBits (spatialEnvelope al ph wl (spatialSpreadRad sp) p)}"
    | _, _, _, _, _ => "bad-op"
  | _ => "bad-op"

def main : IO Unit := serve handle
