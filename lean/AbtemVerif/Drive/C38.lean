import AbtemVerif.Model.Proto
import AbtemVerif.Model.FftDispatch
open AbtemVerif AbtemVerif.Proto AbtemVerif.Fft AbtemVerif.Gen.FftDispatch

/- requests (strings travel as `s:<text>`):
     `defaults`                                         -> `ok <fft> <precision>`
     `dispatch <s:cfg> <hasFftw T/F> <hasMkl T/F>`       -> `ok numpy|fftw|mkl` | `err <kind>`
     `route <s:cfg> <hasFftw T/F> <hasMkl T/F> <numpy array T/F>` -> `ok cached-fftw|numpy|fftw|mkl` | `err <kind>` (FresnelPropagator.propagate)
     `dtype <s:precision> <complex T/F>`                 -> `ok float32|float64|complex64|complex128` | `err <kind>`
     `fft <numpy|fftw|mkl> <s:name> <overwrite T/F>`     -> `ok <result aliases input T/F> <input modified T/F> <symbolic value>`
     `convolve <backend> <overwrite T/F> <inplaceOk T/F>` -> same
     `cached <assignShape T/F> <shape,dtype;shape,dtype;…>` -> `ok <cumulative plan creations>` | `err <kind>`
   anything else -> `bad-op` -/
def str? (s : String) : Option String :=
  if s.startsWith "s:" then some (s.drop 2).toString else none

def backend? (s : String) : Option Backend :=
  if s = "numpy" then some .numpy else if s = "fftw" then some .fftw else if s = "mkl" then some .mkl else none

def showBackend : Backend → String
  | .numpy => "numpy" | .fftw => "fftw" | .mkl => "mkl"

def showDType : DType → String
  | .float32 => "float32" | .float64 => "float64" | .complex64 => "complex64" | .complex128 => "complex128"

/-- symbolic arrays: the value is the expression that produced it -/
def symOps : Ops String where
  spec := fun name v => name ++ "(" ++ v ++ ")"
  mulK := fun v k => "(" ++ v ++ "*" ++ k ++ ")"

def report (r : Option (Mem String × Nat)) : String :=
  match r with
  | none => "err index_error"
  | some (m, out) =>
    s!"ok {showBool (out == 0)} {showBool (m.get 0 != some "x")} {(m.get out).getD "?"}"

def natPair? (s : String) : Option (Nat × Nat) :=
  match s.splitOn "," with
  | [a, b] => do let x ← parseNat? a; let y ← parseNat? b; pure (x, y)
  | _ => none

def handle : List String → String
  | ["defaults"] => s!"ok {defaultFft} {defaultPrecision}"
  | ["dispatch", cfg, f, k] =>
    match str? cfg, parseBool? f, parseBool? k with
    | some cfg, some f, some k =>
      match dispatch ⟨f, k⟩ cfg with
      | .ok b => s!"ok {showBackend b}"
      | .error e => s!"err {e}"
    | _, _, _ => "bad-op"
  | ["route", cfg, f, k, isnp] =>
    match str? cfg, parseBool? f, parseBool? k, parseBool? isnp with
    | some cfg, some f, some k, some isnp =>
      match propagateRoute ⟨f, k⟩ cfg isnp with
      | .ok .cachedFftw => "ok cached-fftw"
      | .ok (.dispatched b) => s!"ok {showBackend b}"
      | .error e => s!"err {e}"
    | _, _, _, _ => "bad-op"
  | ["dtype", p, c] =>
    match str? p, parseBool? c with
    | some p, some c =>
      match getDtype p c with
      | .ok d => s!"ok {showDType d}"
      | .error e => s!"err {e}"
    | _, _ => "bad-op"
  | ["fft", b, name, ow] =>
    match backend? b, str? name, parseBool? ow with
    | some b, some name, some ow => report (fftCall symOps b name ow ⟨["x"]⟩ 0)
    | _, _, _ => "bad-op"
  | ["convolve", b, ow, ip] =>
    match backend? b, parseBool? ow, parseBool? ip with
    | some b, some ow, some ip => report (convolve symOps b ow ip "k" ⟨["x"]⟩ 0)
    | _, _, _ => "bad-op"
  | ["cached", asg, hist] =>
    match parseBool? asg, (if hist = "~" then some [] else (hist.splitOn ";").mapM natPair?) with
    | some asg, some hist =>
      match cachedRun asg CacheState.init hist with
      | .ok tr => s!"ok {showList toString tr}"
      | .error e => s!"err {e}"
    | _, _ => "bad-op"
  | _ => "bad-op"

def main : IO Unit := serve handle
