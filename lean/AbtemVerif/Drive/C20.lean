import AbtemVerif.Model.Proto
import AbtemVerif.Model.Scan
open AbtemVerif AbtemVerif.Proto AbtemVerif.Scan AbtemVerif.Grid

/- wire format
   pt    := none | x,y                       val := none | s:<rat> | q:<rats|_>
   ginit <start pt> <stop pt> <gpts val> <sampling val> <endpoint T,F>   -> ok <extent> <gpts> <sampling> | err <kind>
   gpos  (same arguments)   -> ok <xs> <ys> <n flattened meshgrid points> <first point> <last point> | err <kind>
   gaxes (same arguments)   -> ok <s,o,e> <s,o,e> <coords x> <coords y> | err <kind>
   line  <start pt> <stop pt> <norm> <gpts none|int> <sampling none|rat> <endpoint T|F> <ops ~ | G=int;S=rat;A=x,y,norm;B=x,y,norm>
                            -> ok <gpts> <sampling> <positions x:y;x:y… | err:kind> <axis s,o,e | err:kind> <axis coords | err:kind>
   coords <offset> <sampling> <n>  -> ok <rats> | err <kind>
   custom <x:y,x:y,…|_>            -> ok <n> <shape> <positions> <axis values | none>
-/

def pt? (s : String) : Option (Option (Rat × Rat)) :=
  if s = "none" then some none else
  match s.splitOn "," with
  | [a, b] => do let x ← parseRat? a; let y ← parseRat? b; pure (some (x, y))
  | _ => none

def val? (s : String) : Option Val :=
  if s = "none" then some .none
  else if s.startsWith "s:" then (parseRat? (s.drop 2).toString).map .scalar
  else if s.startsWith "q:" then (parseList? parseRat? (s.drop 2).toString).map .seq
  else none

def showPt (p : Rat × Rat) : String := showRat p.1 ++ ":" ++ showRat p.2

def gargs? : List String → Option (Option (Rat × Rat) × Option (Rat × Rat) × Val × Val × List Bool)
  | [a, b, g, s, e] => do
    let a ← pt? a; let b ← pt? b; let g ← val? g; let s ← val? s; let e ← parseList? parseBool? e
    pure (a, b, g, s, e)
  | _ => none

inductive LOp where
  | G (n : Int) | S (s : Rat) | A (p : Rat × Rat) (norm : Rat) | B (p : Rat × Rat) (norm : Rat)

def lop? (t : String) : Option LOp :=
  match t.splitOn "=" with
  | ["G", v] => (parseInt? v).map .G
  | ["S", v] => (parseRat? v).map .S
  | [k, v] =>
    match v.splitOn "," with
    | [x, y, n] => do
      let x ← parseRat? x; let y ← parseRat? y; let n ← parseRat? n
      if k = "A" then some (.A (x, y) n) else if k = "B" then some (.B (x, y) n) else none
    | _ => none
  | _ => none

def applyL (l : LineScan) : LOp → LineScan
  | .G n => lineSetGpts l n
  | .S s => lineSetSampling l s
  | .A p n => lineSetStart l p n
  | .B p n => lineSetStop l p n

def showAxis (a : Rat × Rat × Bool) : String := showRat a.1 ++ "," ++ showRat a.2.1 ++ "," ++ showBool a.2.2

def handle : List String → String
  | "ginit" :: rest =>
    match gargs? rest with
    | some (a, b, g, s, e) =>
      match gridInit a b g s e with
      | .ok sc => s!"ok {showOpt (showList showRat) sc.grid.extent} {showOpt (showList showInt) sc.grid.gpts} {showOpt (showList showRat) sc.grid.sampling}"
      | .error k => "err " ++ k
    | none => "bad-op"
  | "gpos" :: rest =>
    match gargs? rest with
    | some (a, b, g, s, e) =>
      match gridInit a b g s e with
      | .ok sc =>
        match gridPositions sc with
        | .ok (xs, ys) =>
          let m := meshgridIJ xs ys
          s!"ok {showList showRat xs} {showList showRat ys} {m.length} {showOpt showPt m.head?} {showOpt showPt m.getLast?}"
        | .error k => "err " ++ k
      | .error k => "err " ++ k
    | none => "bad-op"
  | "gaxes" :: rest =>
    match gargs? rest with
    | some (a, b, g, s, e) =>
      match gridInit a b g s e with
      | .ok sc =>
        match gridAxes sc, sc.grid.gpts with
        | .ok [ax, ay], some [n0, n1] =>
          match axisCoordinates ax.2.1 ax.1 n0, axisCoordinates ay.2.1 ay.1 n1 with
          | .ok cx, .ok cy => s!"ok {showAxis ax} {showAxis ay} {showList showRat cx} {showList showRat cy}"
          | .error k, _ => "err " ++ k
          | _, .error k => "err " ++ k
        | .error k, _ => "err " ++ k
        | _, _ => "err type_error"
      | .error k => "err " ++ k
    | none => "bad-op"
  | ["line", a, b, nrm, g, s, e, ops] =>
    match pt? a, pt? b, parseRat? nrm, parseOpt? parseInt? g, parseOpt? parseRat? s, parseBool? e,
          (if ops = "~" then some [] else (ops.splitOn ";").mapM lop?) with
    | some a, some b, some nrm, some g, some s, some e, some ops =>
      let l := ops.foldl applyL (lineInit a b nrm g s e)
      let pos := match linePositions l with
        | .ok ps => showList showPt ps
        | .error k => "err:" ++ k
      let ax := match lineAxis l with
        | .ok t => showAxis t
        | .error k => "err:" ++ k
      let co := match lineAxis l, l.gpts with
        | .ok t, some n => (match axisCoordinates t.2.1 t.1 n with | .ok c => showList showRat c | .error k => "err:" ++ k)
        | _, _ => "err:none"
      s!"ok {showOpt showInt l.gpts} {showOpt showRat l.sampling} {pos} {ax} {co}"
    | _, _, _, _, _, _, _ => "bad-op"
  | ["coords", o, s, n] =>
    match parseRat? o, parseRat? s, parseInt? n with
    | some o, some s, some n =>
      match axisCoordinates o s n with
      | .ok c => "ok " ++ showList showRat c
      | .error k => "err " ++ k
    | _, _, _ => "bad-op"
  | ["custom", pts] =>
    let ps? : Option (List (Rat × Rat)) := if pts = "_" then some [] else (pts.splitOn ",").mapM fun t =>
      match t.splitOn ":" with
      | [x, y] => do let x ← parseRat? x; let y ← parseRat? y; pure (x, y)
      | _ => none
    match ps? with
    | some ps =>
      let c : CustomScan := ⟨ps⟩
      s!"ok {(customPositions c).length} {showList toString (customShape c)} {showList showPt (customPositions c)} {showOpt (showList showPt) (customAxisValues c)}"
    | none => "bad-op"
  | _ => "bad-op"

def main : IO Unit := serve handle
