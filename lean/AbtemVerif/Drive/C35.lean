import AbtemVerif.Model.Proto
import AbtemVerif.Model.Axes
open AbtemVerif AbtemVerif.Proto AbtemVerif.Axes

/- wire format
   V      := N | T | F | s:<hex of utf-8> | n:<rat> | [|V|V|…|]          (tokens separated by `|`)
   fields := k=V,k=V,…  | _            (keys are identifiers)
   item   := i:<int> | sl:<a|_>:<b|_>:<c|_> | ix:<ints|_> | mk:<bools|_>
   requests
     new <cls> <kwargs>                     -> ok <cls> <fields> | err <kind>
     roundtrip <cls> <kwargs>               -> ok <dict fields> <cls> <fields> | err <kind>       (construct, to_dict, from_dict)
     fromdict <dict fields>                 -> ok <cls> <fields> | err <kind>
     getitem <cls> <kwargs> <item>          -> ok <cls> <fields> | err <kind>
     concat <cls> <kwargs> <cls> <kwargs>   -> ok <cls> <fields> | err <kind>
     coords <cls> <kwargs> <n>              -> ok <V list as one tuple> | err <kind>
-/

def hexVal (c : Char) : Option Nat :=
  if '0' ≤ c ∧ c ≤ '9' then some (c.toNat - '0'.toNat)
  else if 'a' ≤ c ∧ c ≤ 'f' then some (c.toNat - 'a'.toNat + 10) else none

def unhex (s : String) : Option String :=
  let rec go : List Char → List UInt8 → Option (List UInt8)
    | [], acc => some acc.reverse
    | a :: b :: rest, acc => do
      let x ← hexVal a; let y ← hexVal b
      go rest ((x * 16 + y).toUInt8 :: acc)
    | _, _ => none
  (go s.toList []).bind fun bs => String.fromUTF8? ⟨bs.toArray⟩

def hexDigit (n : Nat) : Char := if n < 10 then Char.ofNat ('0'.toNat + n) else Char.ofNat ('a'.toNat + n - 10)

def tohex (s : String) : String :=
  String.ofList (s.toUTF8.toList.flatMap fun b => [hexDigit (b.toNat / 16), hexDigit (b.toNat % 16)])

partial def parseV : List String → Option (V × List String)
  | "N" :: r => some (.none, r)
  | "T" :: r => some (.bool true, r)
  | "F" :: r => some (.bool false, r)
  | "[" :: r =>
    let rec items (ts : List String) (acc : List V) : Option (V × List String) :=
      match ts with
      | "]" :: r => some (.tup acc.reverse, r)
      | [] => none
      | ts => match parseV ts with
        | some (v, r) => items r (v :: acc)
        | none => none
    items r []
  | t :: r =>
    if t.startsWith "s:" then (unhex (t.drop 2).toString).map fun s => (.str s, r)
    else if t.startsWith "n:" then (parseRat? (t.drop 2).toString).map fun q => (.num q, r)
    else none
  | [] => none

def v? (s : String) : Option V :=
  match parseV (s.splitOn "|") with
  | some (v, []) => some v
  | _ => none

partial def showV : V → String
  | .none => "N"
  | .bool b => if b then "T" else "F"
  | .str s => "s:" ++ tohex s
  | .num q => "n:" ++ showRat q
  | .tup l => "|".intercalate (["["] ++ l.map showV ++ ["]"])

def fields? (s : String) : Option Fields :=
  if s = "_" then some [] else
  (s.splitOn ",").mapM fun kv => match kv.splitOn "=" with
    | [k, v] => (v? v).map fun v => (k, v)
    | _ => none

def showFields (f : Fields) : String :=
  if f.isEmpty then "_" else ",".intercalate (f.map fun (k, v) => k ++ "=" ++ showV v)

def optInt? (s : String) : Option (Option Int) := if s = "_" then some none else (parseInt? s).map some

def item? (s : String) : Option Item :=
  match s.splitOn ":" with
  | ["i", v] => (parseInt? v).map .idx
  | ["sl", a, b, c] => do let a ← optInt? a; let b ← optInt? b; let c ← optInt? c; pure (.slice a b c)
  | ["ix", l] => (parseList? parseInt? l).map .ints
  | ["mk", l] => (parseList? parseBool? l).map .mask
  | _ => none

def showAxis : Except String Axis → String
  | .ok a => s!"ok {a.cls} {showFields a.fields}"
  | .error e => "err " ++ e

def handle : List String → String
  | ["new", c, kw] => match fields? kw with
    | some kw => showAxis (construct c kw)
    | none => "bad-op"
  | ["roundtrip", c, kw] => match fields? kw with
    | some kw => match construct c kw with
      | .ok a => match fromDict (toDict a) with
        | .ok b => s!"ok {showFields (toDict a)} {b.cls} {showFields b.fields}"
        | .error e => "err " ++ e
      | .error e => "err " ++ e
    | none => "bad-op"
  | ["fromdict", d] => match fields? d with
    | some d => showAxis (fromDict d)
    | none => "bad-op"
  | ["getitem", c, kw, it] => match fields? kw, item? it with
    | some kw, some it => match construct c kw with
      | .ok a => showAxis (getitem a it)
      | .error e => "err " ++ e
    | _, _ => "bad-op"
  | ["concat", c, kw, c2, kw2] => match fields? kw, fields? kw2 with
    | some kw, some kw2 => match construct c kw, construct c2 kw2 with
      | .ok a, .ok b => showAxis (concat a b)
      | .error e, _ => "err " ++ e
      | _, .error e => "err " ++ e
    | _, _ => "bad-op"
  | ["coords", c, kw, n] => match fields? kw, parseInt? n with
    | some kw, some n => match construct c kw with
      | .ok a => match coordinates a n with
        | .ok l => "ok " ++ showV (.tup l)
        | .error e => "err " ++ e
      | .error e => "err " ++ e
    | _, _ => "bad-op"
  | _ => "bad-op"

def main : IO Unit := serve handle
