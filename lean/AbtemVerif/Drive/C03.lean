import AbtemVerif.Model.Proto
import AbtemVerif.Model.ParamEnsemble
open AbtemVerif AbtemVerif.Proto AbtemVerif.ParamEnsemble

/- requests; args are separated by `|`, each `s<int>` (scalar) or `d<values>;<weights>` (int lists)
   shape  <args>            → ensemble shape
   axes   <args>            → values listed per ensemble axis (; separated)
   unpack <args> <baseDims> → per argument `s` or `a<axis>:<expanded axes>`
   eval   <args>            → per member, row-major: `<product of weights>:<values seen, comma separated>` separated by `;`
   block  <args> <chunks ;-separated> <block multi-index> → args of the block transform in the same encoding
   normw2 <intensity weights> → weights of an averaged distribution after _unpack_distributions (squared amplitude weights)
   compose <name:size|…> <applied name:size|…> → array shape and metadata labels of the composed ensemble, or err -/

def arg? (s : String) : Option (Arg Int Int) :=
  if s.startsWith "s" then (parseInt? (s.drop 1).toString).map Arg.scalar
  else if s.startsWith "d" then
    match (s.drop 1).toString.splitOn ";" with
    | [vs, ws] => do
      let v ← parseList? parseInt? vs
      let w ← parseList? parseInt? ws
      pure (Arg.dist v w)
    | _ => none
  else none

def args? (s : String) : Option (List (Arg Int Int)) :=
  if s = "-" then some [] else (s.splitOn "|").mapM arg?

def showUnpacked : Unpacked Int → String
  | .scalar _ => "s"
  | .onAxis a ex _ => s!"a{a}:{showList toString ex}"

def showArg : Arg Int Int → String
  | .scalar v => s!"s{v}"
  | .dist vs ws => s!"d{showList showInt vs};{showList showInt ws}"

def handle : List String → String
  | ["shape", a] =>
    match args? a with
    | some a => "ok " ++ showList toString (ensembleShape a)
    | none => "bad-op"
  | ["axes", a] =>
    match args? a with
    | some a => "ok " ++ showListList showInt (axesValues a)
    | none => "bad-op"
  | ["unpack", a, b] =>
    match args? a, parseNat? b with
    | some a, some b => "ok " ++ (if a.isEmpty then "-" else "|".intercalate ((unpack a b).map showUnpacked))
    | _, _ => "bad-op"
  | ["eval", a] =>
    match args? a with
    | some a =>
      let ms := evalEnsemble (0 : Int) (1 : Int) (fun l => l) a
      "ok " ++ ";".intercalate (ms.map fun (ws, vs) => s!"{ws.foldl (· * ·) 1}:{showList showInt vs}")
    | none => "bad-op"
  | ["block", a, ch, bi] =>
    match args? a, parseListList? parseNat? ch, parseList? parseNat? bi with
    | some a, some ch, some bi =>
      let parts := partitionArgs a ch
      let picked := List.zipWith (fun (bl : List (List Int × List Int)) b => bl.getD b ([], [])) parts bi
      "ok " ++ (if a.isEmpty then "-" else "|".intercalate ((blockArgs a picked).map showArg))
    | _, _, _ => "bad-op"
  | ["normw2", us] =>
    match parseList? parseRat? us with
    | some us => "ok " ++ showList showRat (normalizeMeanWeights us)
    | none => "bad-op"
  | ["compose", named, applied] =>
    let parse (s : String) : Option (List (String × Nat)) :=
      if s = "-" then some [] else (s.splitOn "|").mapM fun t =>
        match t.splitOn ":" with
        | [n, k] => (parseNat? k).map fun k => (n, k)
        | _ => none
    match parse named, parse applied with
    | some n, some a =>
      match composeAxes n a with
      | .ok (shape, labels) => s!"ok {showList toString shape} {showList (fun (l : String) => if l = "aberrations" then "C10" else if l = "aperture" then "semiangle" else l) labels}"
      | .error e => s!"err {e}"
    | _, _ => "bad-op"
  | _ => "bad-op"

def main : IO Unit := serve handle
