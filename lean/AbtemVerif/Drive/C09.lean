import AbtemVerif.Model.Proto
import AbtemVerif.Model.Slicing
open AbtemVerif AbtemVerif.Proto AbtemVerif.Slicing

/- requests:
   validate <s:RAT|l:LIST> <H>      -> ok <thicknesses>            (`_validate_slice_thickness(…, thickness=H)`)
   limits <ts>                      -> ok a:b,a:b,…                (`slice_limits`)
   index <ts> <zs>                  -> ok <i,j;…>                  (`SliceIndexedAtoms._slice_index`, sorted)
   members <ts> <pad> <zs> <i>      -> ok <indices>                (`SlicedAtoms.get_atoms_in_slices(i)` membership)
   prepare <H> <zs>                 -> ok <z'…>                    (`_prepare_atoms`: wrap + snap)
   replies `err <kind>` / `bad-op` -/

def reply {α} (f : α → String) : Except String α → String
  | .ok a => "ok " ++ f a
  | .error e => "err " ++ e

def st? (s : String) : Option (Rat ⊕ List Rat) :=
  if s.startsWith "s:" then (parseRat? (s.drop 2).toString).map .inl
  else if s.startsWith "l:" then (parseList? parseRat? (s.drop 2).toString).map .inr
  else none

def handle : List String → String
  | ["validate", st, H] =>
    match st? st, parseRat? H with
    | some st, some H => reply (showList showRat) (validateThickness st H)
    | _, _ => "bad-op"
  | ["limits", ts] =>
    match parseList? parseRat? ts with
    | some ts => "ok " ++ showList (fun (p : Rat × Rat) => showRat p.1 ++ ":" ++ showRat p.2) (sliceLimits ts)
    | none => "bad-op"
  | ["index", ts, zs] =>
    match parseList? parseRat? ts, parseList? parseRat? zs with
    | some ts, some zs => reply (showListList toString) (sliceIndexTop ts zs)
    | _, _ => "bad-op"
  | ["members", ts, pad, zs, i] =>
    match parseList? parseRat? ts, parseRat? pad, parseList? parseRat? zs, parseNat? i with
    | some ts, some pad, some zs, some i => reply (showList toString) (slicedMembers ts pad zs i)
    | _, _, _, _ => "bad-op"
  | ["prepare", H, zs] =>
    match parseRat? H, parseList? parseRat? zs with
    | some H, some zs => if H ≤ 0 then "bad-op" else "ok " ++ showList showRat (zs.map (prepareZ H))
    | _, _ => "bad-op"
  | _ => "bad-op"

def main : IO Unit := serve handle
