import AbtemVerif.Model.Proto
import AbtemVerif.Model.Deltas
open AbtemVerif AbtemVerif.Proto AbtemVerif.Deltas

/- requests (see harness/c08.py):
   deltas <n0> <n1> <round T|F> <px,py;…> <weights none|w,w,…>  -> ok <n0*n1 rationals, row-major>
   hits <n0> <n1> <s0> <s1> <d0,d1;…> <x,y>                     -> ok <k,m,dist2;…>
   roll <n0> <n1> <s0> <s1>                                     -> ok <rolled iota, row-major>
   tile <n0> <n1> <r0> <r1>                                     -> ok <tiled iota, row-major> -/

def pairsOf? {α} (f : String → Option α) (s : String) : Option (List (α × α)) := do
  let ll ← parseListList? f s
  ll.mapM fun l => match l with | [a, b] => some (a, b) | _ => none

def grid (n0 n1 : Nat) (f : Int → Int → Rat) : String :=
  showList showRat ((List.range n0).flatMap fun (i : Nat) => (List.range n1).map fun (j : Nat) => f i j)

def handle : List String → String
  | ["deltas", n0, n1, rnd, ps, ws] =>
    match parseNat? n0, parseNat? n1, parseBool? rnd, pairsOf? parseRat? ps, parseOpt? (parseList? parseRat?) ws with
    | some n0, some n1, some rnd, some ps, some ws =>
      if n0 = 0 ∨ n1 = 0 then "bad-op" else
      match ws with
      | some ws => if ws.length ≠ ps.length then "err value_error" else
          s!"ok {grid n0 n1 (superposeDeltas n0 n1 rnd (ps.zip ws))}"
      | none => s!"ok {grid n0 n1 (superposeDeltas n0 n1 rnd (ps.map fun p => (p, 1)))}"
    | _, _, _, _, _ => "bad-op"
  | ["hits", n0, n1, s0, s1, disk, pos] =>
    match parseNat? n0, parseNat? n1, parseRat? s0, parseRat? s1, pairsOf? parseInt? disk, pairsOf? parseRat? pos with
    | some n0, some n1, some s0, some s1, some disk, some [p] =>
      if s0 = 0 ∨ s1 = 0 then "err zero_division" else
      let hs := radialHits n0 n1 (s0, s1) disk p
      if hs.isEmpty then "ok ~" else "ok " ++ ";".intercalate (hs.map fun h => s!"{h.1},{h.2.1},{showRat h.2.2}")
    | _, _, _, _, _, _ => "bad-op"
  | ["roll", n0, n1, s0, s1] =>
    match parseNat? n0, parseNat? n1, parseInt? s0, parseInt? s1 with
    | some n0, some n1, some s0, some s1 =>
      if n0 = 0 ∨ n1 = 0 then "bad-op" else s!"ok {grid n0 n1 (roll n0 n1 s0 s1 fun i j => ((i * n1 + j : Int) : Rat))}"
    | _, _, _, _ => "bad-op"
  | ["tile", n0, n1, r0, r1] =>
    match parseNat? n0, parseNat? n1, parseNat? r0, parseNat? r1 with
    | some n0, some n1, some r0, some r1 =>
      if n0 = 0 ∨ n1 = 0 then "bad-op" else s!"ok {grid (n0 * r0) (n1 * r1) (tile n0 n1 fun i j => ((i * n1 + j : Int) : Rat))}"
    | _, _, _, _ => "bad-op"
  | _ => "bad-op"

def main : IO Unit := serve handle
