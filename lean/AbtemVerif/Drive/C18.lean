import AbtemVerif.Model.Proto
import AbtemVerif.Model.Chunks
open AbtemVerif AbtemVerif.Proto AbtemVerif.Chunks

/- requests (reply `ok …` | `err <kind>` | `bad-op`):
   validate <shape> <chunkarg> <maxEl|none|A<bytes>:<itemsize>|S<bytes>:<itemsize>> → ok <chunks ;-separated>
   auto     <shape> <specs>    <maxEl|none>      → ok <chunks>
   fill     <shape> <specs>                      → ok <chunks>
   esc      <n> <m|none> <cs|none>               → ok <list>
   gen      <n> <m|none> <cs|none> <start>       → ok <pairs a:b,…>
   ranges   <chunks>                             → ok <pairs per dim ;-separated>
   iter     <chunks>                             → ok <idx|ranges blocks separated by />
   chunkarg: i<int> | S | B | t:<spec>|<spec>…   (empty tuple `t:`)
   spec    : i<int> | a | s | b | T<ints comma separated or _> -/

def spec? (s : String) : Option Spec :=
  if s = "a" then some .auto else if s = "s" then some .str else if s = "b" then some .bad
  else if s.startsWith "i" then (parseInt? (s.drop 1).toString).map Spec.int
  else if s.startsWith "T" then (parseList? parseInt? (s.drop 1).toString).map Spec.tup
  else none

def specs? (s : String) : Option (List Spec) :=
  if s = "" then some [] else (s.splitOn "|").mapM spec?

def chunkArg? (s : String) : Option ChunkArg :=
  if s = "S" then some .str else if s = "B" then some .bad
  else if s.startsWith "t:" then (specs? (s.drop 2).toString).map ChunkArg.tuple
  else if s.startsWith "i" then (parseInt? (s.drop 1).toString).map ChunkArg.int
  else none

/-- `max_elements`: `none` ("auto" without dtype) | int | `A<bytes>:<itemsize>` ("auto" with a dtype: dask config bytes) |
`S<bytes>:<itemsize>` (a byte string, already parsed by dask's parse_bytes) -/
def maxEl? (s : String) : Option (Option Int) :=
  if s.startsWith "A" || s.startsWith "S" then
    match (s.drop 1).toString.splitOn ":" with
    | [b, i] => do
      let b ← parseRat? b
      let i ← parseRat? i
      pure (some (if s.startsWith "A" then AbtemVerif.Gen.Chunks.autoMaxFromConfig b i else AbtemVerif.Gen.Chunks.autoMaxFromString b i))
    | _ => none
  else parseOpt? parseInt? s

def showPairs (l : List (Int × Int)) : String := showList (fun (a, b) => s!"{a}:{b}") l

def reply {α} (f : α → String) : Except String α → String
  | .ok v => s!"ok {f v}"
  | .error e => s!"err {e}"

def handle : List String → String
  | ["validate", shape, ch, m] =>
    match parseList? parseInt? shape, chunkArg? ch, maxEl? m with
    | some shape, some ch, some m => reply (showListList showInt) (validateChunks shape ch m)
    | _, _, _ => "bad-op"
  | ["auto", shape, sp, m] =>
    match parseList? parseInt? shape, specs? (sp.drop 2).toString, parseOpt? parseInt? m with
    | some shape, some sp, some m => reply (showListList showInt) (autoChunks shape sp m)
    | _, _, _ => "bad-op"
  | ["fill", shape, sp] =>
    match parseList? parseInt? shape, specs? (sp.drop 2).toString with
    | some shape, some sp => reply (showListList showInt) (fillIn shape sp)
    | _, _ => "bad-op"
  | ["esc", n, m, cs] =>
    match parseInt? n, parseOpt? parseInt? m, parseOpt? parseInt? cs with
    | some n, some m, some cs => reply (showList showInt) (equalSizedChunks n m cs)
    | _, _, _ => "bad-op"
  | ["gen", n, m, cs, st] =>
    match parseInt? n, parseOpt? parseInt? m, parseOpt? parseInt? cs, parseInt? st with
    | some n, some m, some cs, some st => reply showPairs (generateChunks n m cs st)
    | _, _, _, _ => "bad-op"
  | ["ranges", ch] =>
    match parseListList? parseInt? ch with
    | some ch => "ok " ++ (if ch.isEmpty then "~" else ";".intercalate ((chunkRanges ch).map showPairs))
    | none => "bad-op"
  | ["iter", ch] =>
    match parseListList? parseInt? ch with
    | some ch =>
      let bl := iterateChunkRanges ch
      "ok " ++ (if bl.isEmpty then "~" else "/".intercalate (bl.map fun (i, r) => showList showInt i ++ "|" ++ showPairs r))
    | none => "bad-op"
  | _ => "bad-op"

def main : IO Unit := serve handle
