import AbtemVerif.Model.Proto
import AbtemVerif.Model.Distributions
open AbtemVerif AbtemVerif.Proto AbtemVerif.Distributions

/- requests
   uniform <low> <high> <n> <endpoint T|F>             -> ok <values> <weights> | err <kind>
   gaussian <sigma> <limit> <center> <n> <normalize>   -> ok <values> <weights as float64 bit patterns> | err <kind>
   neg <values> <weights>                              -> ok <values> <weights>
   divide <values> <weights> <chunks nats>             -> ok <v;v;…> <w;w;…> | err <kind>
   outer <a> <b>                                       -> ok <rows>
   outern <w;w;…>                                      -> ok <shape> <flat row-major weights>
-/
def handle : List String → String
  | ["uniform", lo, hi, n, e] =>
    match parseRat? lo, parseRat? hi, parseInt? n, parseBool? e with
    | some lo, some hi, some n, some e =>
      match uniform lo hi n e false with
      | .ok d => s!"ok {showList showRat d.values} {showList showRat d.weights}"
      | .error k => "err " ++ k
    | _, _, _, _ => "bad-op"
  | ["gaussian", s, l, c, n, norm] =>
    match parseRat? s, parseRat? l, parseRat? c, parseInt? n with
    | some s, some l, some c, some n =>
      match gaussianValues s l c n with
      | .ok vs =>
        match gaussianWeightsF vs c s norm with
        | .ok ws => s!"ok {showList showRat vs} {showList (fun (x : Float) => toString x.toBits.toNat) ws}"
        | .error k => "err " ++ k
      | .error k => "err " ++ k
    | _, _, _, _ => "bad-op"
  | ["neg", vs, ws] =>
    match parseList? parseRat? vs, parseList? parseRat? ws with
    | some vs, some ws => let d := neg ({ values := vs, weights := ws, ensembleMean := false } : Dist Rat)
      s!"ok {showList showRat d.values} {showList showRat d.weights}"
    | _, _ => "bad-op"
  | ["divide", vs, ws, cs] =>
    match parseList? parseRat? vs, parseList? parseRat? ws, parseList? parseNat? cs with
    | some vs, some ws, some cs =>
      match divide ({ values := vs, weights := ws, ensembleMean := false } : Dist Rat) cs with
      | .ok bs => s!"ok {showListList showRat (bs.map (·.values))} {showListList showRat (bs.map (·.weights))}"
      | .error k => "err " ++ k
    | _, _, _ => "bad-op"
  | ["outer", a, b] =>
    match parseList? parseRat? a, parseList? parseRat? b with
    | some a, some b => "ok " ++ showListList showRat (outer a b)
    | _, _ => "bad-op"
  | ["outern", fs] =>
    match parseListList? parseRat? fs with
    | some fs => s!"ok {showList toString (weightsShape fs)} {showList showRat (outerFlat fs)}"
    | none => "bad-op"
  | _ => "bad-op"

def main : IO Unit := serve handle
