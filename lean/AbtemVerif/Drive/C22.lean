import AbtemVerif.Model.FloatProto
import AbtemVerif.Gen.AberrConvF
open AbtemVerif AbtemVerif.Proto AbtemVerif.Gen.AberrConvF

/- Float twins of polar2cartesian / cartesian2polar (every assignment generated); glue: dict <-> record, missing key = 0.
   requests (floats as bit patterns):
     p2c <C10,C12,phi12,C21,phi21,C23,phi23,C30,C32,phi32,C34,phi34>  -> ok <C10,C12a,C12b,C21a,C21b,C23a,C23b,C30,C32a,C32b,C34a,C34b>
     c2p <the 12 Cartesian values>                                    -> ok <the 12 polar values> -/

def polarOf (l : List Float) : PolarCoeffs Float :=
  let g := fun i => l.getD i 0
  { PolarCoeffs.const (0 : Float) with
    C10 := g 0, C12 := g 1, phi12 := g 2, C21 := g 3, phi21 := g 4, C23 := g 5, phi23 := g 6, C30 := g 7, C32 := g 8,
    phi32 := g 9, C34 := g 10, phi34 := g 11 }

def cartOf (l : List Float) : CartesianCoeffs Float :=
  let g := fun i => l.getD i 0
  ⟨g 0, g 1, g 2, g 3, g 4, g 5, g 6, g 7, g 8, g 9, g 10, g 11⟩

def p2cF (p : PolarCoeffs Float) : List Float :=
  [p2c_C10 p, p2c_C12a p, p2c_C12b p, p2c_C21a p, p2c_C21b p, p2c_C23a p, p2c_C23b p, p2c_C30 p, p2c_C32a p, p2c_C32b p,
   p2c_C34a p, p2c_C34b p]

def c2pF (c : CartesianCoeffs Float) : List Float :=
  [c2p_C10 c, c2p_C12 c, c2p_phi12 c, c2p_C21 c, c2p_phi21 c, c2p_C23 c, c2p_phi23 c, c2p_C30 c, c2p_C32 c, c2p_phi32 c,
   c2p_C34 c, c2p_phi34 c]

def twelve? (s : String) : Option (List Float) :=
  match parseList? parseFloatBits? s with
  | some l => if l.length = 12 then some l else none
  | none => none

def handle : List String → String
  | ["p2c", vs] => match twelve? vs with
    | some l => s!"ok {showList showFloatBits (p2cF (polarOf l))}"
    | none => "bad-op"
  | ["c2p", vs] => match twelve? vs with
    | some l => s!"ok {showList showFloatBits (c2pF (cartOf l))}"
    | none => "bad-op"
  | _ => "bad-op"

def main : IO Unit := serve handle
