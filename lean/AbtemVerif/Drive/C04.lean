import AbtemVerif.Model.Proto
import AbtemVerif.Model.Propagator
open AbtemVerif AbtemVerif.Proto AbtemVerif.PropagatorModel

/- requests (a float64 travels as the decimal value of its IEEE-754 bit pattern, exact in both directions):
   `aperture <kx> <ky> <maxsampling>`                         -> `ok <a>`
   `aperturecfg <cfgcutoff> <cfgtaper> <kx> <ky> <maxsampling>` -> `ok <a>`
   `fresnel <order> <kx> <ky> <dz> <wavelength>`              -> `ok <re> <im>` | `err value_error`
   `propagator <order> <kx> <ky> <dz> <wavelength> <maxsampling> <tilts: tx,ty,tx,ty,… | _>` -> `ok <re> <im>` | `err …`
   `tilt <kx> <ky> <tx> <ty> <dz>`                            -> `ok <re> <im>`
   `transmission <sigma> <v>`                                 -> `ok <re> <im>` -/
def showC (c : CF) : String := s!"ok {showF c.re} {showF c.im}"

def pairs : List Float → Option (List (Float × Float))
  | [] => some []
  | a :: b :: rest => (pairs rest).map ((a, b) :: ·)
  | _ => none

def handle : List String → String
  | ["aperture", kx, ky, ms] =>
    match fbits? kx, fbits? ky, fbits? ms with
    | some kx, some ky, some ms => s!"ok {showF (apertureF kx ky ms)}"
    | _, _, _ => "bad-op"
  | ["aperturecfg", cc, ct, kx, ky, ms] =>
    match fbits? cc, fbits? ct, fbits? kx, fbits? ky, fbits? ms with
    | some cc, some ct, some kx, some ky, some ms => s!"ok {showF (apertureCfgF cc ct kx ky ms)}"
    | _, _, _, _, _ => "bad-op"
  | ["fresnel", o, kx, ky, dz, wl] =>
    match parseNat? o, fbits? kx, fbits? ky, fbits? dz, fbits? wl with
    | some o, some kx, some ky, some dz, some wl =>
      match fresnelF o kx ky dz wl with
      | .ok c => showC c
      | .error e => s!"err {e}"
    | _, _, _, _, _ => "bad-op"
  | ["propagator", o, kx, ky, dz, wl, ms, ts] =>
    match parseNat? o, fbits? kx, fbits? ky, fbits? dz, fbits? wl, fbits? ms,
          (parseList? fbits? ts).bind pairs with
    | some o, some kx, some ky, some dz, some wl, some ms, some ts =>
      match propagatorF o kx ky dz wl ms ts with
      | .ok c => showC c
      | .error e => s!"err {e}"
    | _, _, _, _, _, _, _ => "bad-op"
  | ["tilt", kx, ky, tx, ty, dz] =>
    match fbits? kx, fbits? ky, fbits? tx, fbits? ty, fbits? dz with
    | some kx, some ky, some tx, some ty, some dz => showC (tiltFactorF kx ky tx ty dz)
    | _, _, _, _, _ => "bad-op"
  | ["transmission", s, v] =>
    match fbits? s, fbits? v with
    | some s, some v => showC (transmissionF s v)
    | _, _ => "bad-op"
  | _ => "bad-op"

def main : IO Unit := serve handle
