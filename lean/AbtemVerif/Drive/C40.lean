import AbtemVerif.Model.Proto
import AbtemVerif.Model.Com
open AbtemVerif AbtemVerif.Proto AbtemVerif.Com

/- requests:
   com    <nx> <ny> <flat rats I> <rats x> <rats y>                 -> ok <cx> <cy>
   coords <n> <s> <T|F shifted>                                     -> ok <rats>
   comdp  <nx> <ny> <sx> <sy> <T|F shifted> <A|mrad|other> <flat I> -> ok <cx> <cy> | err value_error -/
def handle : List String → String
  | ["com", nx, ny, is_, xs, ys] =>
    match parseNat? nx, parseNat? ny, parseList? parseRat? is_, parseList? parseRat? xs, parseList? parseRat? ys with
    | some nx, some ny, some is_, some xs, some ys =>
      if is_.length ≠ nx * ny || xs.length ≠ nx || ys.length ≠ ny then "bad-op" else
      let I : Nat → Nat → Rat := fun i j => is_.getD (i * ny + j) 0
      s!"ok {showRat (comX nx ny I (fun i => xs.getD i 0))} {showRat (comY nx ny I (fun j => ys.getD j 0))}"
    | _, _, _, _, _ => "bad-op"
  | ["coords", n, s, sh] =>
    match parseNat? n, parseRat? s, parseBool? sh with
    | some n, some s, some sh => s!"ok {showList showRat (coords n s sh)}"
    | _, _, _ => "bad-op"
  | ["comdp", nx, ny, sx, sy, sh, u, is_] =>
    match parseNat? nx, parseNat? ny, parseRat? sx, parseRat? sy, parseBool? sh, parseList? parseRat? is_ with
    | some nx, some ny, some sx, some sy, some sh, some is_ =>
      if is_.length ≠ nx * ny then "bad-op" else
      let I : Nat → Nat → Rat := fun i j => is_.getD (i * ny + j) 0
      match centerOfMass nx ny I sx sy sh (if u = "A" then "1/Å" else u) with
      | .ok (a, b) => s!"ok {showRat a} {showRat b}"
      | .error e => s!"err {e}"
    | _, _, _, _, _, _ => "bad-op"
  | _ => "bad-op"

def main : IO Unit := serve handle
