import AbtemVerif.Model.Proto
import AbtemVerif.Model.Resample
open AbtemVerif AbtemVerif.Proto AbtemVerif.Resample

/- requests:
   interp <H> <W> <sx> <sy> <H'> <W'> <sx'> <sy'> <flat rats>  -> ok <flat rats> | err index_error
   nodes  <n> <s> <n'> <s'>                                    -> ok <nodes> <weights>
   rescale <oldSum> <rats>                                     -> ok <rats> -/
def handle : List String → String
  | ["interp", h, w, sx, sy, h', w', sx', sy', xs] =>
    match parseNat? h, parseNat? w, parseRat? sx, parseRat? sy, parseNat? h', parseNat? w', parseRat? sx', parseRat? sy',
          parseList? parseRat? xs with
    | some h, some w, some sx, some sy, some h', some w', some sx', some sy', some xs =>
      if xs.length ≠ h * w || h = 0 || w = 0 || h' = 0 || w' = 0 || sx ≤ 0 || sy ≤ 0 || sx' ≤ 0 || sy' ≤ 0 then "bad-op"
      else match interpolate h w sx sy xs h' w' sx' sy' with
        | .ok y => s!"ok {showList showRat y}"
        | .error e => s!"err {e}"
    | _, _, _, _, _, _, _, _, _ => "bad-op"
  | ["nodes", n, s, n', s'] =>
    match parseNat? n, parseRat? s, parseNat? n', parseRat? s' with
    | some n, some s, some n', some s' =>
      if n < 2 || n' = 0 || s ≤ 0 || s' ≤ 0 then "bad-op" else
      let nw := (kgrid n' s').map (nodeWeight (kgrid n s))
      s!"ok {showList toString (nw.map (·.1))} {showList showRat (nw.map (·.2))}"
    | _, _, _, _ => "bad-op"
  | ["rescale", o, xs] =>
    match parseRat? o, parseList? parseRat? xs with
    | some o, some xs => s!"ok {showList showRat (rescale xs o)}"
    | _, _ => "bad-op"
  | _ => "bad-op"

def main : IO Unit := serve handle
