import AbtemVerif.Model.Proto
import AbtemVerif.Model.Ensemble
open AbtemVerif AbtemVerif.Proto AbtemVerif.Ensemble AbtemVerif.Partition

/- requests (reply `ok …` | `err <kind>` | `bad-op`); members are identified by their index 0..n-1
   slice   <n> <chunks>                      → blocks of member indices (CustomScan)
   dist    <n> i<m> | t<chunks>              → blocks of member indices (DistributionFromValues.divide)
   rblocks <n> <chunks>                      → blocks over chunk_ranges (seeds, ordinal axis values)
   grid    <start> <sampling> <chunks>       → start:stop:gpts per block
   gridpos <start> <sampling> <chunks>       → positions of every block
   line    <start> <sampling> <dir> <chunks> → start:stop:gpts per block (one coordinate)
   splits  <dims>                            → a:b pairs
   argchunks <dims> <n>                      → blocks of chunk-axis indices
   blockgrid <chunks ;-separated>            → idx and ranges per block, separated by a slash
   lincoords <offset> <sampling> <n>         → coordinates
   linax   <offset> <sampling> <chunks>      → offset:sampling:length per block -/

def showBlock (b : AxisBlock) : String := s!"{showRat b.start}:{showRat b.stop}:{b.gpts}"
def showPairs (l : List (Nat × Nat)) : String := showList (fun (a, b) => s!"{a}:{b}") l
def showNat (n : Nat) : String := toString n

def reply {α} (f : α → String) : Except String α → String
  | .ok v => s!"ok {f v}"
  | .error e => s!"err {e}"

def handle : List String → String
  | ["slice", n, cs] =>
    match parseNat? n, parseList? parseNat? cs with
    | some n, some cs => "ok " ++ showListList showNat (sliceBlocks (List.range n) cs)
    | _, _ => "bad-op"
  | ["dist", n, ch] =>
    match parseNat? n with
    | some n =>
      if ch.startsWith "i" then
        match parseInt? (ch.drop 1).toString with
        | some m => reply (showListList showNat) (divide (List.range n) (.inl m))
        | none => "bad-op"
      else if ch.startsWith "t" then
        match parseList? parseNat? (ch.drop 1).toString with
        | some cs => reply (showListList showNat) (divide (List.range n) (.inr cs))
        | none => "bad-op"
      else "bad-op"
    | none => "bad-op"
  | ["rblocks", n, cs] =>
    match parseNat? n, parseList? parseNat? cs with
    | some n, some cs => "ok " ++ showListList showNat (rangeBlocks (List.range n) cs)
    | _, _ => "bad-op"
  | ["grid", st, sa, cs] =>
    match parseRat? st, parseRat? sa, parseList? parseNat? cs with
    | some st, some sa, some cs => "ok " ++ showList showBlock (gridAxisBlocks st sa cs)
    | _, _, _ => "bad-op"
  | ["gridpos", st, sa, cs] =>
    match parseRat? st, parseRat? sa, parseList? parseNat? cs with
    | some st, some sa, some cs => "ok " ++ showListList showRat ((gridAxisBlocks st sa cs).map AxisBlock.positions)
    | _, _, _ => "bad-op"
  | ["line", st, sa, d, cs] =>
    match parseRat? st, parseRat? sa, parseRat? d, parseList? parseNat? cs with
    | some st, some sa, some d, some cs => "ok " ++ showList showBlock (lineBlocks st sa d cs)
    | _, _, _, _ => "bad-op"
  | ["splits", dims] =>
    match parseList? parseNat? dims with
    | some dims => "ok " ++ showPairs (chunkSplits dims)
    | none => "bad-op"
  | ["argchunks", dims, n] =>
    match parseList? parseNat? dims, parseNat? n with
    | some dims, some n => "ok " ++ showListList showNat (argChunks dims (List.range n))
    | _, _ => "bad-op"
  | ["blockgrid", ch] =>
    match parseListList? parseNat? ch with
    | some ch =>
      let bl := blockGrid ch
      "ok " ++ (if bl.isEmpty then "~" else "/".intercalate (bl.map fun (i, r) => showList showNat i ++ "|" ++ showPairs r))
    | none => "bad-op"
  | ["linax", o, s, cs] =>
    match parseRat? o, parseRat? s, parseList? parseNat? cs with
    | some o, some s, some cs => "ok " ++ showList (fun (b : Rat × Rat × Nat) => s!"{showRat b.1}:{showRat b.2.1}:{b.2.2}") (linearAxisBlocks o s cs)
    | _, _, _ => "bad-op"
  | ["lincoords", o, s, n] =>
    match parseRat? o, parseRat? s, parseNat? n with
    | some o, some s, some n => "ok " ++ showList showRat (linearCoordinates o s n)
    | _, _, _ => "bad-op"
  | _ => "bad-op"

def main : IO Unit := serve handle
