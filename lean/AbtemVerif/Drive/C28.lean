import AbtemVerif.Model.Proto
import AbtemVerif.Model.Ptycho
open AbtemVerif AbtemVerif.Proto AbtemVerif.Ptycho

/- requests:
     `round <x>`                                        -> `ok <n>`
     `shift <pos> <old>`                               -> `ok <fractional shift>`
     `window <cx> <cy> <nx> <ny> <sx> <sy>`              -> `ok <row indices> <col indices>`
     `positions <none | x,y;x,y;… | ~> <s0> <s1> <roi0> <roi1> <grid none|nx,ny> <steps none|sx,sy> <rot none|c,s> <pad none|px,py>`
                                                        -> `ok <x,y;x,y;…> <padx>,<pady>` | `err <kind>`
   anything else -> `bad-op` -/
def ratPair? (s : String) : Option (Rat × Rat) :=
  match s.splitOn "," with
  | [a, b] => do let x ← parseRat? a; let y ← parseRat? b; pure (x, y)
  | _ => none

def natPair? (s : String) : Option (Nat × Nat) :=
  match s.splitOn "," with
  | [a, b] => do let x ← parseNat? a; let y ← parseNat? b; pure (x, y)
  | _ => none

def pairs? (s : String) : Option (List (Rat × Rat)) :=
  if s = "~" then some [] else (s.splitOn ";").mapM ratPair?

def showPairs (l : List (Rat × Rat)) : String :=
  if l.isEmpty then "~" else ";".intercalate (l.map fun p => s!"{showRat p.1},{showRat p.2}")

def handle : List String → String
  | ["round", x] =>
    match parseRat? x with
    | some x => s!"ok {roundHalfEven x}"
    | none => "bad-op"
  | ["shift", p, o] =>
    match parseRat? p, parseRat? o with
    | some p, some o => s!"ok {showRat (subpixelShift p o)}"
    | _, _ => "bad-op"
  | ["window", cx, cy, nx, ny, sx, sy] =>
    match parseRat? cx, parseRat? cy, parseNat? nx, parseNat? ny, parseNat? sx, parseNat? sy with
    | some cx, some cy, some nx, some ny, some sx, some sy =>
      let w := wrappedWindow cx cy nx ny sx sy
      s!"ok {showList showInt w.1} {showList showInt w.2}"
    | _, _, _, _, _, _ => "bad-op"
  | ["positions", ps, s0, s1, r0, r1, grid, steps, rot, pad] =>
    match parseOpt? pairs? ps, parseRat? s0, parseRat? s1, parseNat? r0, parseNat? r1, parseOpt? natPair? grid,
          parseOpt? ratPair? steps, parseOpt? ratPair? rot, parseOpt? ratPair? pad with
    | some ps, some s0, some s1, some r0, some r1, some grid, some steps, some rot, some pad =>
      match scanPositions ps (s0, s1) (r0, r1) ⟨grid, steps, rot, pad⟩ with
      | .ok (out, p) => s!"ok {showPairs out} {showRat p.1},{showRat p.2}"
      | .error e => s!"err {e}"
    | _, _, _, _, _, _, _, _, _ => "bad-op"
  | _ => "bad-op"

def main : IO Unit := serve handle
