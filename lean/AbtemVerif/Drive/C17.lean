import AbtemVerif.Model.Proto
import AbtemVerif.Model.Grid
open AbtemVerif AbtemVerif.Proto AbtemVerif.Grid

/- wire format
   grid  := <dims> <endpoint T,F,…|_> <extent none|rats> <gpts none|ints> <sampling none|rats> <locks e.g. TFF (extent gpts sampling)>
   val   := none | s:<rat> | q:<rats|_>
   requests
     step <grid> <E|G|S> <val>            -> <grid'> ok | <grid'> err:<kind>
     run <grid> <op=val;op=val;…|~>       -> <grid'> <outcome,outcome,…|_>
     init <dims> <endpoint list> <locks> <extent val> <gpts val> <sampling val>  -> ok <grid> | err <kind>
     recip <grid>                         -> ok <rats> | err <kind>
     check <grid> <grid>                  -> ok | err <kind>
     match <grid self> <grid other> <check_match T|F> <c1 T|F> <c3 T|F>   -> <grid self'> <grid other'> ok|err:<kind>
                                           (c1, c3: numpy's float32 comparisons of extents / samplings, inputs of the model)
-/

def val? (s : String) : Option Val :=
  if s = "none" then some .none
  else if s.startsWith "s:" then (parseRat? (s.drop 2).toString).map .scalar
  else if s.startsWith "q:" then (parseList? parseRat? (s.drop 2).toString).map .seq
  else none

def locks? (s : String) : Option (Bool × Bool × Bool) :=
  match s.toList with
  | [a, b, c] => do
    let x ← parseBool? (String.singleton a); let y ← parseBool? (String.singleton b); let z ← parseBool? (String.singleton c)
    pure (x, y, z)
  | _ => none

def grid? : List String → Option Grid
  | [d, ep, ex, gp, sa, lk] => do
    let d ← parseNat? d
    let ep ← parseList? parseBool? ep
    let ex ← parseOpt? (parseList? parseRat?) ex
    let gp ← parseOpt? (parseList? parseInt?) gp
    let sa ← parseOpt? (parseList? parseRat?) sa
    let (a, b, c) ← locks? lk
    pure { dims := d, endpoint := ep, extent := ex, gpts := gp, sampling := sa, lockExtent := a, lockGpts := b, lockSampling := c }
  | _ => none

def showGrid (g : Grid) : String :=
  " ".intercalate [toString g.dims, showList showBool g.endpoint, showOpt (showList showRat) g.extent,
    showOpt (showList showInt) g.gpts, showOpt (showList showRat) g.sampling,
    showBool g.lockExtent ++ showBool g.lockGpts ++ showBool g.lockSampling]

def op? (k v : String) : Option Op := do
  let v ← val? v
  if k = "E" then some (.setExtent v) else if k = "G" then some (.setGpts v) else if k = "S" then some (.setSampling v) else none

def ops? (s : String) : Option (List Op) :=
  if s = "~" then some [] else
  (s.splitOn ";").mapM fun t => match t.splitOn "=" with
    | [k, v] => op? k v
    | _ => none

def outcome : Option String → String
  | none => "ok"
  | some e => "err:" ++ e

def handle : List String → String
  | ["step", d, ep, ex, gp, sa, lk, k, v] =>
    match grid? [d, ep, ex, gp, sa, lk], op? k v with
    | some g, some op => let r := step g op; showGrid r.1 ++ " " ++ outcome r.2
    | _, _ => "bad-op"
  | ["run", d, ep, ex, gp, sa, lk, ops] =>
    match grid? [d, ep, ex, gp, sa, lk], ops? ops with
    | some g, some ops =>
      let (g', outs) := ops.foldl (fun (acc : Grid × List String) op => let r := step acc.1 op; (r.1, acc.2 ++ [outcome r.2])) (g, [])
      -- the state is, by definition, `run g ops`
      if g' = run g ops then showGrid g' ++ " " ++ showList id outs else "internal-mismatch"
    | _, _ => "bad-op"
  | ["init", d, ep, lk, ex, gp, sa] =>
    match parseNat? d, parseList? parseBool? ep, locks? lk, val? ex, val? gp, val? sa with
    | some d, some ep, some (a, b, c), some ex, some gp, some sa =>
      match init d ep ex gp sa a b c with
      | .ok g => "ok " ++ showGrid g
      | .error e => "err " ++ e
    | _, _, _, _, _, _ => "bad-op"
  | ["recip", d, ep, ex, gp, sa, lk] =>
    match grid? [d, ep, ex, gp, sa, lk] with
    | some g => match reciprocal g with
      | .ok l => "ok " ++ showList showRat l
      | .error e => "err " ++ e
    | none => "bad-op"
  | ["check", d, ep, ex, gp, sa, lk, d2, ep2, ex2, gp2, sa2, lk2] =>
    match grid? [d, ep, ex, gp, sa, lk], grid? [d2, ep2, ex2, gp2, sa2, lk2] with
    | some g, some o => match checkMatch g o with
      | .ok _ => "ok"
      | .error e => "err " ++ e
    | _, _ => "bad-op"
  | ["match", d, ep, ex, gp, sa, lk, d2, ep2, ex2, gp2, sa2, lk2, ck, c1, c3] =>
    match grid? [d, ep, ex, gp, sa, lk], grid? [d2, ep2, ex2, gp2, sa2, lk2], parseBool? ck, parseBool? c1, parseBool? c3 with
    | some g, some o, some ck, some c1, some c3 =>
      let r := matchGrids g o ck c1 c3
      showGrid r.1.1 ++ " " ++ showGrid r.1.2 ++ " " ++ outcome r.2
    | _, _, _, _, _ => "bad-op"
  | _ => "bad-op"

def main : IO Unit := serve handle
