import AbtemVerif.Model.Proto
import AbtemVerif.Model.Blockwise
import AbtemVerif.Gen.Blockwise
open AbtemVerif AbtemVerif.Proto AbtemVerif.ExitPlanes AbtemVerif.Multislice AbtemVerif.Blockwise

/- requests (one per line):
   `eager <batch member ids> <ensAxis T/F> <planes> <num_slices> <configs>`
   `lazy <batch chunks> <batch member ids> <ensAxis T/F> <planes> <num_slices> <configs>`
        → `ok <entry>;<entry>…` row-major over (configuration, exit index); entry = member histories joined by `|`
          (a history = incident member id followed by the slice ids applied, comma separated), `z` = none
        | `err <kind>` (the potential has no exit planes)
   `dims <numArgs> <sumArgNdims> <arrayNdim>` → `ok <packed ndims> <declared out ndims>`
   `defchunks <len(ensemble_shape)> <num exit planes>` → `ok <default ensemble chunks of MultisliceTransform>`
   anything else → `bad-op` -/

def showMembers : Option (List Hist) → String
  | none => "z"
  | some hs => "|".intercalate (hs.map fun h => showList toString h)

def table (entry : Nat → Nat → Option (List Hist)) (ncfg nplanes : Nat) : String :=
  ";".intercalate ((List.range ncfg).flatMap fun c => (List.range nplanes).map fun e => showMembers (entry c e))

def handle : List String → String
  | ["eager", ids, ens, planes, nslices, configs] =>
    match parseList? parseNat? ids, parseBool? ens, parseList? parseInt? planes, parseNat? nslices,
          parseListList? parseNat? configs with
    | some ids, some ens, some pl, some ns, some cfgs =>
      let p : Pot Nat := ⟨ens, pl, ns, cfgs⟩
      if pl.isEmpty then "err index_error"
      else s!"ok {table (eagerEntry hstep hdetect (ids.map fun i => [i]) p) cfgs.length pl.length}"
    | _, _, _, _, _ => "bad-op"
  | ["lazy", chunks, ids, ens, planes, nslices, configs] =>
    match parseList? parseNat? chunks, parseList? parseNat? ids, parseBool? ens, parseList? parseInt? planes,
          parseNat? nslices, parseListList? parseNat? configs with
    | some cA, some ids, some ens, some pl, some ns, some cfgs =>
      let p : Pot Nat := ⟨ens, pl, ns, cfgs⟩
      if pl.isEmpty then "err index_error"
      else s!"ok {table (lazyEntry hstep hdetect cA (ids.map fun i => [i]) p) cfgs.length pl.length}"
    | _, _, _, _, _, _ => "bad-op"
  | ["dims", a, b, c] =>
    match parseInt? a, parseInt? b, parseInt? c with
    | some a, some b, some c =>
      s!"ok {Gen.Blockwise.packNdims a b c} {Gen.Blockwise.outNdim b c}"
    | _, _, _ => "bad-op"
  | ["defchunks", nens, nplanes] =>
    match parseNat? nens, parseNat? nplanes with
    | some a, some b => s!"ok {showList toString (defaultChunks a b)}"
    | _, _ => "bad-op"
  | _ => "bad-op"

def main : IO Unit := serve handle
