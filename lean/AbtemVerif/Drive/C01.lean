import AbtemVerif.Model.Proto
import AbtemVerif.Model.Blockwise
import AbtemVerif.Gen.Blockwise
open AbtemVerif AbtemVerif.Proto AbtemVerif.ExitPlanes AbtemVerif.Multislice AbtemVerif.Blockwise

/- requests (one per line):
   `eager <batch member ids> <ensAxis T/F> <planes> <num_slices> <configs> <incident batch in reciprocal space T/F>`
   `lazy <batch chunks> <batch member ids> <ensAxis T/F> <planes> <num_slices> <configs> <reciprocal T/F>`
        → `ok <entry>;<entry>…` row-major over (configuration, exit index); entry = member histories joined by `|`
          (a history = incident member id followed by the slice ids applied, comma separated), `z` = none
        | `err <kind>` (the potential has no exit planes)
   `eager2 <nrows> <ncols> …` / `lazy2 <row chunks> <column chunks> <nrows> <ncols> …`: the same for a batch with two ensemble
        axes (member (r, c) has incident id 1000 + r*ncols + c); entry = rows joined by `/`, members by `|`
   `dims <numArgs> <sumArgNdims> <arrayNdim>` → `ok <packed ndims> <declared out ndims>`
   `defchunks <len(ensemble_shape)> <num exit planes>` → `ok <default ensemble chunks of MultisliceTransform>`
   anything else → `bad-op` -/

def showMembers : Option (List Hist) → String
  | none => "z"
  | some hs => "|".intercalate (hs.map fun h => showList toString h)

def table (entry : Nat → Nat → Option (List Hist)) (ncfg nplanes : Nat) : String :=
  ";".intercalate ((List.range ncfg).flatMap fun c => (List.range nplanes).map fun e => showMembers (entry c e))

/-- the batch as `multislice_and_detect` uses it: every member after `ensure_real_space` (marker `0` when the batch was
handed over in reciprocal space) -/
def batch (ids : List Nat) (recip : Bool) : List Hist := ids.map fun i => ensureReal htoReal recip [i]

/-- a two-axis batch: member `(r, c)` has incident id `1000 + r * ncols + c` -/
def batch2 (nrows ncols : Nat) (recip : Bool) : List (List Hist) :=
  (List.range nrows).map fun r => (List.range ncols).map fun c => ensureReal htoReal recip [1000 + r * ncols + c]

def showMembers2 : Option (List (List Hist)) → String
  | none => "z"
  | some rows => "/".intercalate (rows.map fun hs => "|".intercalate (hs.map fun h => showList toString h))

def table2 (entry : Nat → Nat → Option (List (List Hist))) (ncfg nplanes : Nat) : String :=
  ";".intercalate ((List.range ncfg).flatMap fun c => (List.range nplanes).map fun e => showMembers2 (entry c e))

def handle : List String → String
  | ["eager2", nrows, ncols, ens, planes, nslices, configs, recip] =>
    match parseNat? nrows, parseNat? ncols, parseBool? ens, parseList? parseInt? planes, parseNat? nslices,
          parseListList? parseNat? configs, parseBool? recip with
    | some nr, some nc, some ens, some pl, some ns, some cfgs, some rc =>
      let p : Pot Nat := ⟨ens, pl, ns, cfgs⟩
      if pl.isEmpty then "err index_error"
      else s!"ok {table2 (eagerEntry2 hstep hdetect (batch2 nr nc rc) p) cfgs.length pl.length}"
    | _, _, _, _, _, _, _ => "bad-op"
  | ["lazy2", cX, cY, nrows, ncols, ens, planes, nslices, configs, recip] =>
    match parseList? parseNat? cX, parseList? parseNat? cY, parseNat? nrows, parseNat? ncols, parseBool? ens,
          parseList? parseInt? planes, parseNat? nslices, parseListList? parseNat? configs, parseBool? recip with
    | some cX, some cY, some nr, some nc, some ens, some pl, some ns, some cfgs, some rc =>
      let p : Pot Nat := ⟨ens, pl, ns, cfgs⟩
      if pl.isEmpty then "err index_error"
      else s!"ok {table2 (lazyEntry2 hstep hdetect cX cY (batch2 nr nc rc) p) cfgs.length pl.length}"
    | _, _, _, _, _, _, _, _, _ => "bad-op"
  | ["eager", ids, ens, planes, nslices, configs, recip] =>
    match parseList? parseNat? ids, parseBool? ens, parseList? parseInt? planes, parseNat? nslices,
          parseListList? parseNat? configs, parseBool? recip with
    | some ids, some ens, some pl, some ns, some cfgs, some rc =>
      let p : Pot Nat := ⟨ens, pl, ns, cfgs⟩
      if pl.isEmpty then "err index_error"
      else s!"ok {table (eagerEntry hstep hdetect (batch ids rc) p) cfgs.length pl.length}"
    | _, _, _, _, _, _ => "bad-op"
  | ["lazy", chunks, ids, ens, planes, nslices, configs, recip] =>
    match parseList? parseNat? chunks, parseList? parseNat? ids, parseBool? ens, parseList? parseInt? planes,
          parseNat? nslices, parseListList? parseNat? configs, parseBool? recip with
    | some cA, some ids, some ens, some pl, some ns, some cfgs, some rc =>
      let p : Pot Nat := ⟨ens, pl, ns, cfgs⟩
      if pl.isEmpty then "err index_error"
      else s!"ok {table (lazyEntry hstep hdetect cA (batch ids rc) p) cfgs.length pl.length}"
    | _, _, _, _, _, _, _ => "bad-op"
  | ["dims", a, b, c] =>
    match parseInt? a, parseInt? b, parseInt? c with
    | some a, some b, some c =>
      s!"ok {Gen.Blockwise.packNdims a b c} {Gen.Blockwise.outNdim b c}"
    | _, _, _ => "bad-op"
  | ["defchunks", nens, nplanes] =>
    match parseNat? nens, parseNat? nplanes with
    | some a, some b => s!"ok {showList toString (defaultChunks a b)}"
    | _, _ => "bad-op"
  | _ => "bad-op"

def main : IO Unit := serve handle
