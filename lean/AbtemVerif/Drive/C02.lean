import AbtemVerif.Model.Proto
import AbtemVerif.Model.Multislice
import AbtemVerif.Model.Phonons
open AbtemVerif AbtemVerif.Proto AbtemVerif.ExitPlanes AbtemVerif.Multislice AbtemVerif.Phonons

/- requests (one per line):
   `part <chunks> <seeds>`      → `ok <listlist>`   seeds handed to each block by `_partition_args`
   `cfgseeds <chunks> <seeds>`  → `ok <list>`       seeds used by the configurations, in processing order
   `msd <ensAxis T/F> <planes> <num_slices> <configs: listlist of slice ids> [<incident waves in reciprocal space T/F>]`
        (history marker `0` = the representation change `ensure_real_space`)
        → `final <shape> <hist>` | `table <shape> <entry>;…` (row-major; `_` = incident wave, `z` = never written) | `err <kind>`
   anything else → `bad-op` -/

/-- all multi-indices of a shape, row-major -/
def indices : List Nat → List (List Nat)
  | [] => [[]]
  | n :: rest => (List.range n).flatMap fun i => (indices rest).map fun t => i :: t

def showEntry : Option Hist → String
  | none => "z"
  | some h => showList toString h

def showOut (o : Out Hist) : String :=
  match o with
  | .final shape m => s!"final {showList toString shape} {showList toString m}"
  | .table shape _ =>
    s!"table {showList toString shape} {";".intercalate ((indices shape).map fun i => showEntry (o.get i))}"

def handle : List String → String
  | ["part", chunks, seeds] =>
    match parseList? parseNat? chunks, parseList? parseNat? seeds with
    | some cs, some ss => s!"ok {showListList toString (partitionSeeds cs ss)}"
    | _, _ => "bad-op"
  | ["cfgseeds", chunks, seeds] =>
    match parseList? parseNat? chunks, parseList? parseNat? seeds with
    | some cs, some ss => s!"ok {showList toString (configSeeds cs ss)}"
    | _, _ => "bad-op"
  | ["msd", ens, planes, nslices, configs] =>
    match parseBool? ens, parseList? parseInt? planes, parseNat? nslices, parseListList? parseNat? configs with
    | some ens, some pl, some ns, some cfgs =>
      match multisliceAndDetect hstep hdetect [] ⟨ens, pl, ns, cfgs⟩ with
      | .ok o => showOut o
      | .error e => s!"err {e}"
    | _, _, _, _ => "bad-op"
  | ["msd", ens, planes, nslices, configs, recip] =>
    -- the same from the entry of the function: incident waves handed over in reciprocal space (`T`) or real space (`F`)
    match parseBool? ens, parseList? parseInt? planes, parseNat? nslices, parseListList? parseNat? configs, parseBool? recip with
    | some ens, some pl, some ns, some cfgs, some rc =>
      match multisliceAndDetectFrom hstep hdetect htoReal rc [] ⟨ens, pl, ns, cfgs⟩ with
      | .ok o => showOut o
      | .error e => s!"err {e}"
    | _, _, _, _, _ => "bad-op"
  | _ => "bad-op"

def main : IO Unit := serve handle
