import AbtemVerif.Model.Proto
import AbtemVerif.Model.FftCrop
import AbtemVerif.Model.Probe
open AbtemVerif AbtemVerif.Proto AbtemVerif.FftCrop AbtemVerif.PropagatorModel AbtemVerif.ProbeModel

/- requests:
   `masks <n1> <n2>`                 -> `ok <mask1 as 0/1 list> <mask2 as 0/1 list>`
   `pairs <n1> <n2>`                 -> `ok <in,out;in,out;…>` | `err value_error`
   `crop1d <n2> <ints>`              -> `ok <ints>` | `err …`
   `cropfold1d <n2> <ints>`          -> `ok <ints>` | `err …`   (`_fft_crop_fold` along one axis, real-input path)
   `crop2d <m1> <m2> <rows ; separated>` -> `ok <rows>` | `err …`
   `kernel <kx> <ky> <x> <y>`        -> `ok <re> <im>` (float bit patterns; `fft_shift_kernel`) -/
def showMask (l : List Bool) : String := showList (fun b => if b then "1" else "0") l

def handle : List String → String
  | ["masks", a, b] =>
    match parseNat? a, parseNat? b with
    | some n1, some n2 => let (m1, m2) := masks1d n1 n2; s!"ok {showMask m1} {showMask m2}"
    | _, _ => "bad-op"
  | ["pairs", a, b] =>
    match parseNat? a, parseNat? b with
    | some n1, some n2 =>
      match cropPairs n1 n2 with
      | .ok ps => "ok " ++ showListList showInt (ps.map fun p => [(p.1 : Int), (p.2 : Int)])
      | .error e => s!"err {e}"
    | _, _ => "bad-op"
  | ["crop1d", n2, xs] =>
    match parseNat? n2, parseList? parseInt? xs with
    | some n2, some xs =>
      match crop1d (0 : Int) xs n2 with
      | .ok r => "ok " ++ showList showInt r
      | .error e => s!"err {e}"
    | _, _ => "bad-op"
  | ["cropfold1d", n2, xs] =>
    match parseNat? n2, parseList? parseInt? xs with
    | some n2, some xs =>
      match cropFold1d xs n2 with
      | .ok r => "ok " ++ showList showInt r
      | .error e => s!"err {e}"
    | _, _ => "bad-op"
  | ["crop2d", m1, m2, xs] =>
    match parseNat? m1, parseNat? m2, parseListList? parseInt? xs with
    | some m1, some m2, some xs =>
      match crop2d (0 : Int) xs m1 m2 with
      | .ok r => "ok " ++ showListList showInt r
      | .error e => s!"err {e}"
    | _, _, _ => "bad-op"
  | ["kernel", kx, ky, x, y] =>
    match fbits? kx, fbits? ky, fbits? x, fbits? y with
    | some kx, some ky, some x, some y =>
      let c := scanKernelF kx ky x y
      s!"ok {showF c.re} {showF c.im}"
    | _, _, _, _ => "bad-op"
  | _ => "bad-op"

def main : IO Unit := serve handle
