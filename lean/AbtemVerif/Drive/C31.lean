import AbtemVerif.Model.Proto
import AbtemVerif.Model.Noise
open AbtemVerif AbtemVerif.Proto AbtemVerif.Noise

/- requests:
     `class <ClassName>` -> `ok <base dims> <rebuildable T/F>`
     `noiseon <eager|lazy> <ClassName> <seeds> <dose> <dose chunks> <sample chunks> <item chunks> <items>` (base dims from the class)
     `noise <eager|lazy> <seeds: none | s:<int> | d:<ints>> <dose: s:<rat> | d:<rats>> <dose chunks> <sample chunks> <item chunks> <base dims> <items: rats;rats;…>`
   reply: `ok <nd> <ns> <n> <p> <flat counts>` | `err <kind>` | `bad-op`
   The kernels are the tagging kernels `tagK`; eager uses entropy 0, lazy block `t` uses entropy `t`. -/
def seeds? (s : String) : Option Seeds :=
  if s = "none" then some (.scalar none)
  else if s.startsWith "s:" then (parseInt? (s.drop 2).toString).map fun i => .scalar (some i)
  else if s.startsWith "d:" then (parseList? parseInt? (s.drop 2).toString).map .dist
  else none

def dose? (s : String) : Option Dose :=
  if s.startsWith "s:" then (parseRat? (s.drop 2).toString).map .scalar
  else if s.startsWith "d:" then (parseList? parseRat? (s.drop 2).toString).map .dist
  else none

def showArr (a : Arr4 Int) : String :=
  let nd := a.length
  let ns := (a.head?.map List.length).getD 0
  let n := ((a.head?.bind List.head?).map List.length).getD 0
  let p := (((a.head?.bind List.head?).bind List.head?).map List.length).getD 0
  s!"ok {nd} {ns} {n} {p} {showList showInt (flat4 a)}"

def cls? (s : String) : Option MeasClass :=
  if s = "Images" then some .images else if s = "DiffractionPatterns" then some .diffractionPatterns
  else if s = "PolarMeasurements" then some .polarMeasurements else if s = "RealSpaceLineProfiles" then some .realSpaceLineProfiles
  else if s = "ReciprocalSpaceLineProfiles" then some .reciprocalSpaceLineProfiles
  else if s = "MeasurementsEnsemble" then some .measurementsEnsemble
  else if s = "IndexedDiffractionPatterns" then some .indexedDiffractionPatterns else none

def handle : List String → String
  | ["class", c] =>
    match cls? c with
    | some c => s!"ok {c.baseDims} {showBool c.rebuildable}"
    | none => "bad-op"
  | ["noiseon", mode, c, sd, ds, cd, cs, ci, items] =>
    match cls? c, seeds? sd, dose? ds, parseList? parseNat? cd, parseList? parseNat? cs, parseList? parseNat? ci,
          parseListList? parseRat? items with
    | some c, some sd, some ds, some cd, some cs, some ci, some items =>
      let r := if mode = "eager" then noiseOn tagK c sd ds 0 items else lazyNoiseOn tagK c sd ds cd cs ci id items
      match r with
      | .ok a => showArr a
      | .error e => s!"err {e}"
    | _, _, _, _, _, _, _ => "bad-op"
  | ["noise", mode, sd, ds, cd, cs, ci, bd, items] =>
    match seeds? sd, dose? ds, parseList? parseNat? cd, parseList? parseNat? cs, parseList? parseNat? ci, parseNat? bd,
          parseListList? parseRat? items with
    | some sd, some ds, some cd, some cs, some ci, some bd, some items =>
      if mode = "eager" then showArr (eager tagK sd ds 0 items)
      else if mode = "lazy" then
        match lazyEval tagK sd ds ⟨cd, cs, ci, bd⟩ id items with
        | .ok a => showArr a
        | .error e => s!"err {e}"
      else "bad-op"
    | _, _, _, _, _, _, _ => "bad-op"
  | _ => "bad-op"

def main : IO Unit := serve handle
