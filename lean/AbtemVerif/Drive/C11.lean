import AbtemVerif.Model.Proto
import AbtemVerif.Model.Cache
import AbtemVerif.Gen.IntegralsCache
open AbtemVerif AbtemVerif.Proto AbtemVerif.Cache

/- request: `run <sf|table> <reqs: sym,sym,…|_> <grid0> <op> <op> …`
     grid = `gx,gy,sx,sy` (sx, sy exact rationals), op = `b` (eager build on the object) | `c` (lazy build on a deep copy) | `l:K` (lazy, K ensemble blocks sharing one copy) | `e:K` (eager, K blocks, a copy each) | `g:<grid>` (grid after a gpts/sampling setter)
   reply  : `ok <build>;<build>;…` (`~` when no build), build = `tag:M|H,…` (`_` when the build asks for nothing),
            tag = what `compute` was called with: `Sym@gxxgy@sxxsy` (scattering factor) or `Sym@sxxsy` (integral table)
            `bad-op` for malformed requests -/

abbrev Grid := (Nat × Nat) × (Rat × Rat) × String

def grid? (s : String) : Option Grid :=
  match s.splitOn "," with
  | [gx, gy, sx, sy] => do
    let gx ← parseNat? gx; let gy ← parseNat? gy; let sx ← parseRat? sx; let sy ← parseRat? sy
    pure ((gx, gy), (sx, sy), "cpu")
  | _ => none

def op? (s : String) : Option (Op Grid) :=
  if s = "b" then some .build
  else if s = "c" then some (.buildShared 1)
  else if s.startsWith "l:" then (parseNat? (s.drop 2).toString).map .buildShared
  else if s.startsWith "e:" then (parseNat? (s.drop 2).toString).map .buildCopies
  else if s.startsWith "g:" then (grid? (s.drop 2).toString).map .setGrid
  else none

def sfTag (s : String) (g : Grid) : String :=
  s!"{s}@{g.1.1}x{g.1.2}@{showRat g.2.1.1}x{showRat g.2.1.2}"
def tableTag (s : String) (g : Grid) : String :=
  s!"{s}@{showRat g.2.1.1}x{showRat g.2.1.2}"

def showOut (o : Out Grid String Unit) : String :=
  showList (fun (p : String × Bool) => p.1 ++ (if p.2 then ":M" else ":H")) o.vals

def showRun (l : List (Out Grid String Unit)) : String :=
  "ok " ++ (if l.isEmpty then "~" else ";".intercalate (l.map showOut))

/-- cache keys as the code forms them (generated from abtem/integrals.py) -/
def sfKey (s : String) (g : Grid) := Gen.IntegralsCache.sfKey s g.1 g.2.1 g.2.2
def tableKey (s : String) (g : Grid) := Gen.IntegralsCache.tableKey s g.2.1

def handle : List String → String
  | "run" :: variant :: reqs :: g0 :: ops =>
    match parseList? some reqs, grid? g0, ops.mapM op? with
    | some reqs, some g0, some ops =>
      if variant = "sf" then showRun (run sfKey sfTag (fun _ => ()) reqs (fresh g0) ops)
      else if variant = "table" then showRun (run tableKey tableTag (fun _ => ()) reqs (fresh g0) ops)
      else "bad-op"
    | _, _, _ => "bad-op"
  | _ => "bad-op"

def main : IO Unit := serve handle
