import AbtemVerif.Model.Proto
import AbtemVerif.Model.Probe
open AbtemVerif AbtemVerif.Proto AbtemVerif.PropagatorModel AbtemVerif.ProbeModel

/- requests (float64 = decimal value of the IEEE-754 bit pattern):
   `aperture <soft T|F> <zero T|F> <cutoff|none> <alpha> <phi> <s0> <s1>` -> `ok <a>`
   `kernel <kx> <ky> <x> <y>`        -> `ok <re> <im>`
   `aberration <w> <chi>`            -> `ok <re> <im>`
   `normalize <re,im,re,im,…>`       -> `ok <re,im,…>`
   `planewave <n>`                   -> `ok <v>`
   `probe <soft> <cutoff|none> <s0> <s1> <x> <y> <w> <kx,ky,alpha,phi,chi,zero(0|1 as float), …>` -> `ok <re,im,…>` -/
def showC (c : CF) : String := s!"ok {showF c.re} {showF c.im}"

def cpairs : List Float → Option (List CF)
  | [] => some []
  | a :: b :: rest => (cpairs rest).map (⟨a, b⟩ :: ·)
  | _ => none

def pixels : List Float → Option (List Pixel)
  | [] => some []
  | kx :: ky :: al :: ph :: chi :: z :: rest => (pixels rest).map (⟨kx, ky, al, ph, chi, z != 0⟩ :: ·)
  | _ => none

def showCs (cs : List CF) : String :=
  "ok " ++ showList showF (cs.foldr (fun c acc => c.re :: c.im :: acc) [])

def handle : List String → String
  | ["aperture", soft, zero, cutoff, alpha, phi, s0, s1] =>
    match parseBool? soft, parseBool? zero, parseOpt? fbits? cutoff, fbits? alpha, fbits? phi, fbits? s0, fbits? s1 with
    | some soft, some zero, some cutoff, some alpha, some phi, some s0, some s1 =>
      s!"ok {showF (probeApertureF soft zero cutoff alpha phi s0 s1)}"
    | _, _, _, _, _, _, _ => "bad-op"
  | ["kernel", kx, ky, x, y] =>
    match fbits? kx, fbits? ky, fbits? x, fbits? y with
    | some kx, some ky, some x, some y => showC (scanKernelF kx ky x y)
    | _, _, _, _ => "bad-op"
  | ["aberration", w, chi] =>
    match fbits? w, fbits? chi with
    | some w, some chi => showC (aberrationF w chi)
    | _, _ => "bad-op"
  | ["normalize", ys] =>
    match (parseList? fbits? ys).bind cpairs with
    | some ys => showCs (normalizeF ys)
    | none => "bad-op"
  | ["planewave", n] =>
    match fbits? n with
    | some n => s!"ok {showF (AbtemVerif.Gen.ProbeF.planeWaveValue n)}"
    | none => "bad-op"
  | ["probe", soft, cutoff, s0, s1, x, y, w, px] =>
    match parseBool? soft, parseOpt? fbits? cutoff, fbits? s0, fbits? s1, fbits? x, fbits? y, fbits? w,
          (parseList? fbits? px).bind pixels with
    | some soft, some cutoff, some s0, some s1, some x, some y, some w, some px =>
      match probeSpectrumF soft cutoff s0 s1 x y w px with
      | .ok r => showCs r
      | .error e => s!"err {e}"
    | _, _, _, _, _, _, _, _ => "bad-op"
  | _ => "bad-op"

def main : IO Unit := serve handle
