import AbtemVerif.Model.Proto
import AbtemVerif.Model.Detect
import AbtemVerif.Model.Polar
open AbtemVerif AbtemVerif.Proto AbtemVerif.Detect AbtemVerif.Gen.Detect

/- requests (replies `ok …` | `err <kind>` | `bad-op`):
   amask <nx> <ny> <sx> <sy> <T|F shift> <inner> <outer>                 -> ok <bits>
   asum  <nx> <ny> <sx> <sy> <T|F shift> <inner> <outer> <flat ints>     -> ok <int>
   plabel <nx> <ny> <sx> <sy> <T|F shift> <inner> <outer> <nr> <na>      -> ok <labels>
   psum  <nx> <ny> <sx> <sy> <T|F shift> <inner> <outer> <nr> <na> <flat ints> -> ok <sums>
   flex  <inner> <outer> <step>                                           -> ok <nbins> <outer_eff>
   flexint <inner> <outer> <step> <a> <b> <bin sums>                      -> ok <r0> <r1> <sum>   (integrate_radial(a,b) of the flexible result) -/

def geom? (nx ny sx sy sh : String) : Option Geom := do
  let nx ← parseNat? nx; let ny ← parseNat? ny; let sx ← parseRat? sx; let sy ← parseRat? sy; let sh ← parseBool? sh
  if nx = 0 || ny = 0 || sx ≤ 0 || sy ≤ 0 then none else some ⟨nx, ny, sx, sy, sh⟩

def handle : List String → String
  | ["amask", nx, ny, sx, sy, sh, i, o] =>
    match geom? nx ny sx sy sh, parseRat? i, parseRat? o with
    | some g, some i, some o =>
      "ok " ++ String.ofList ((List.range g.size).map fun k => if annularMask g i o k then '1' else '0')
    | _, _, _ => "bad-op"
  | ["asum", nx, ny, sx, sy, sh, i, o, xs] =>
    match geom? nx ny sx sy sh, parseRat? i, parseRat? o, parseList? parseInt? xs with
    | some g, some i, some o, some xs =>
      if xs.length ≠ g.size then "bad-op" else
      match integrateRadial g i o (fun k => xs.getD k 0) with
      | .ok v => s!"ok {v}"
      | .error e => s!"err {e}"
    | _, _, _, _ => "bad-op"
  | ["plabel", nx, ny, sx, sy, sh, i, o, nr, na] =>
    match geom? nx ny sx sy sh, parseRat? i, parseRat? o, parseNat? nr, parseNat? na with
    | some g, some i, some o, some nr, some na =>
      match (List.range g.size).mapM (polarLabel g i o nr na) with
      | some ls => s!"ok {showList showInt ls}"
      | none => "bad-op"
    | _, _, _, _, _ => "bad-op"
  | ["psum", nx, ny, sx, sy, sh, i, o, nr, na, xs] =>
    match geom? nx ny sx sy sh, parseRat? i, parseRat? o, parseInt? nr, parseInt? na, parseList? parseInt? xs with
    | some g, some i, some o, some nr, some na, some xs =>
      if xs.length ≠ g.size || !(na == 1 || na == 2 || na == 4 || na ≤ 0) then "bad-op"
      else match polarBinning g i o nr na (fun k => xs.getD k 0) with
        | .ok s => s!"ok {showList showInt s}"
        | .error e => s!"err {e}"
    | _, _, _, _, _, _ => "bad-op"
  | ["flex", i, o, st] =>
    match parseRat? i, parseRat? o, parseRat? st with
    | some i, some o, some st =>
      if st ≤ 0 then "bad-op" else
      let l := flexLimits i o st
      s!"ok {l.1} {showRat l.2.2}"
    | _, _, _ => "bad-op"
  | ["flexint", i, o, st, a, b, sums] =>
    match parseRat? i, parseRat? o, parseRat? st, parseRat? a, parseRat? b, parseList? parseInt? sums with
    | some i, some o, some st, some a, some b, some sums =>
      if st ≤ 0 then "bad-op" else
      let nb := (flexLimits i o st).1.toNat
      if sums.length ≠ nb then "bad-op" else
      let p : Polar.Params := ⟨i, st, 0, 6⟩
      match Polar.select p nb 1 (some (a, b)) none with
      | .ok (r0, r1, _, _) => s!"ok {r0} {r1} {Polar.sumRange (fun r => sums.getD r 0) r0 r1}"
      | .error e => s!"err {e}"
    | _, _, _, _, _, _ => "bad-op"
  | _ => "bad-op"

def main : IO Unit := serve handle
