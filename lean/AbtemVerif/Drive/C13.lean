import AbtemVerif.Model.Proto
import AbtemVerif.Model.Polar
open AbtemVerif AbtemVerif.Proto AbtemVerif.Polar

/- request: `integrate <radial_offset> <radial_sampling> <az_offset> <az_sampling> <nr> <na> <bins row-major ints> <rl: none|a,b> <al: none|a,b>`
   reply  : `ok <r0> <r1> <a0> <a1> <sum>` | `err <kind>` | `bad-op` -/
def pair? (s : String) : Option (Option (Rat × Rat)) :=
  if s = "none" then some none else
  match s.splitOn "," with
  | [a, b] => do let x ← parseRat? a; let y ← parseRat? b; pure (some (x, y))
  | _ => none

def handle : List String → String
  | ["integrate", ro, rs, ao, as_, nr, na, bins, rl, al] =>
    match parseRat? ro, parseRat? rs, parseRat? ao, parseRat? as_, parseNat? nr, parseNat? na,
          parseList? parseInt? bins, pair? rl, pair? al with
    | some ro, some rs, some ao, some as_, some nr, some na, some bins, some rl, some al =>
      let p : Params := ⟨ro, rs, ao, as_⟩
      let tbl : Nat → Nat → Int := fun i j => bins.getD (i * na + j) 0
      match select p nr na rl al, integrate p nr na tbl rl al with
      | .ok (r0, r1, a0, a1), .ok s => s!"ok {r0} {r1} {a0} {a1} {s}"
      | .error e, _ => s!"err {e}"
      | _, .error e => s!"err {e}"
    | _, _, _, _, _, _, _, _, _ => "bad-op"
  | _ => "bad-op"

def main : IO Unit := serve handle
