import AbtemVerif.Model.Proto
import AbtemVerif.Model.Json
import AbtemVerif.Gen.AxesClasses
open AbtemVerif AbtemVerif.Proto AbtemVerif.Json

/- value grammar (prefix, one space between tokens; text is %-escaped: `%25` = %, `%20` = space):
     `N` | `b:T` | `b:F` | `i:<int>` | `f:<repr>` | `s:<text>` | `ni:<int>` | `nf:<repr>` | `nb:T|F` | `a` Val | `al` Val (array-like object)
     | `t:<n>` Val^n | `l:<n>` Val^n | `d:<n>` ((`ks:<text>` | `ki:<int>`) Val)^n
   requests: `enc V` `dec V` `store V` `rt V` `norm V` `good V`          -> `ok V` | `err:<kind>` | `T`/`F`
             `fields <Class>`                                     -> `ok d:<n> …` (collected dataclass fields with defaults) | `none`
             `axisrt <Class> V(dict of fields)`                   -> axis_from_dict(axis_to_dict(a)) as `ok <Class> V` | `err:<kind>`
             `fromdict V`                                         -> `ok <Class> V` | `err:<kind>`
             `pack V(dict)`                                       -> unpack(pack(md)) as `ok V`
             `pipe V(dict)`                                       -> metadata after to_zarr/from_zarr as `ok V` | `err:<kind>` -/

abbrev P (α : Type) := List String → Option (α × List String)

def unesc (s : String) : String := (s.replace "%20" " ").replace "%25" "%"
def esc (s : String) : String := (s.replace "%" "%25").replace " " "%20"

def after (t : String) (n : Nat) : String := (t.drop n).toString

partial def pVal : P PyVal
  | t :: ts =>
    if t = "N" then some (.none, ts)
    else if t = "a" then do
      let (v, ts) ← pVal ts
      pure (.ndarray v, ts)
    else if t = "al" then do
      let (v, ts) ← pVal ts
      pure (.arraylike v, ts)
    else if t.startsWith "b:" then (parseBool? (after t 2)).map fun b => (.bool b, ts)
    else if t.startsWith "i:" then (parseInt? (after t 2)).map fun n => (.int n, ts)
    else if t.startsWith "f:" then some (.float (after t 2), ts)
    else if t.startsWith "s:" then some (.str (unesc (after t 2)), ts)
    else if t.startsWith "ni:" then (parseInt? (after t 3)).map fun n => (.npint n, ts)
    else if t.startsWith "nf:" then some (.npfloat (after t 3), ts)
    else if t.startsWith "nb:" then (parseBool? (after t 3)).map fun b => (.npbool b, ts)
    else if t.startsWith "t:" || t.startsWith "l:" then do
      let n ← parseNat? (after t 2)
      let rec go (n : Nat) (acc : List PyVal) (ts : List String) : Option (List PyVal × List String) :=
        match n with
        | 0 => some (acc.reverse, ts)
        | n + 1 => do
            let (v, ts) ← pVal ts
            go n (v :: acc) ts
      let (xs, ts) ← go n [] ts
      pure (if t.startsWith "t:" then .tuple xs else .list xs, ts)
    else if t.startsWith "d:" then do
      let n ← parseNat? (after t 2)
      let rec goKV (n : Nat) (acc : List (PKey × PyVal)) (ts : List String) : Option (List (PKey × PyVal) × List String) :=
        match n with
        | 0 => some (acc.reverse, ts)
        | n + 1 =>
          match ts with
          | kt :: ts =>
            let k? : Option PKey :=
              if kt.startsWith "ks:" then some (.s (unesc (after kt 3)))
              else if kt.startsWith "ki:" then (parseInt? (after kt 3)).map PKey.i
              else none
            match k? with
            | some k => do
                let (v, ts) ← pVal ts
                goKV n ((k, v) :: acc) ts
            | none => none
          | [] => none
      let (kvs, ts) ← goKV n [] ts
      pure (.dict kvs, ts)
    else none
  | [] => none

partial def showVal : PyVal → String
  | .none => "N"
  | .bool b => s!"b:{showBool b}"
  | .int n => s!"i:{n}"
  | .float r => s!"f:{r}"
  | .str s => s!"s:{esc s}"
  | .npint n => s!"ni:{n}"
  | .npfloat r => s!"nf:{r}"
  | .npbool b => s!"nb:{showBool b}"
  | .ndarray t => s!"a {showVal t}"
  | .arraylike t => s!"al {showVal t}"
  | .tuple xs => " ".intercalate (s!"t:{xs.length}" :: xs.map showVal)
  | .list xs => " ".intercalate (s!"l:{xs.length}" :: xs.map showVal)
  | .dict kvs => " ".intercalate (s!"d:{kvs.length}" :: kvs.map fun (k, v) =>
      (match k with | .s s => s!"ks:{esc s}" | .i n => s!"ki:{n}") ++ " " ++ showVal v)

def showRes : Except Err PyVal → String
  | .ok v => s!"ok {showVal v}"
  | .error e => s!"err:{e.name}"

def showAxis : Except Err Axis → String
  | .ok a => s!"ok {a.cls} {showVal (.dict (a.fields.map fun kv => (PKey.s kv.1, kv.2)))}"
  | .error e => s!"err:{e.name}"

def tbl := AbtemVerif.Gen.AxesClasses.axisClasses

def handle : List String → String
  | op :: ts =>
    if op = "fields" then
      match ts with
      | [c] => match classFields tbl (tbl.length + 1) c with
        | some fs => s!"ok {showVal (.dict (fs.map fun kv => (PKey.s kv.1, kv.2)))}"
        | none => "none"
      | _ => "bad-op"
    else if op = "axisrt" then
      match ts with
      | c :: rest => match pVal rest with
        | some (.dict kvs, []) =>
          let fields := kvs.filterMap fun kv => match kv.1 with | .s k => some (k, kv.2) | .i _ => none
          if fields.length = kvs.length then showAxis (match axisToDict ⟨c, fields⟩ with | .ok d => axisFromDict tbl d | .error e => .error e) else "bad-op"
        | _ => "bad-op"
      | _ => "bad-op"
    else
      match pVal ts with
      | some (v, []) =>
        if op = "enc" then s!"ok {showVal (encode v)}"
        else if op = "dec" then showRes (decode v)
        else if op = "store" then showRes (store v)
        else if op = "rt" then showRes (roundtrip v)
        else if op = "norm" then s!"ok {showVal (norm v)}"
        else if op = "good" then showBool (Good v)
        else if op = "fromdict" then showAxis (axisFromDict tbl v)
        else if op = "pipe" then
          -- metadata as from_zarr returns it: pack, encode, store, decode, `.copy()`, pops
          match v with
          | .dict md =>
            match roundtrip (.dict (packMetadata md (.dict []) (.str "abTEM") (.str "Images") (.dict [(.s "sampling", .float "0.5"), (.s "metadata", .dict md)]))) with
            | .ok (.dict r) => s!"ok {showVal (.dict (unpackMetadata r))}"
            | .ok _ => "err:other_error"
            | .error e => s!"err:{e.name}"
          | _ => "bad-op"
        else if op = "pack" then
          match v with
          | .dict md => s!"ok {showVal (.dict (unpackMetadata (packMetadata md (.dict []) (.str "abTEM") (.str "Images") (.dict []))))}"
          | _ => "bad-op"
        else "bad-op"
      | _ => "bad-op"
  | [] => "bad-op"

def main : IO Unit := serve handle
