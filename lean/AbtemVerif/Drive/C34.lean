import AbtemVerif.Model.Proto
import AbtemVerif.Model.Config
open AbtemVerif AbtemVerif.Proto AbtemVerif.Config

/- request : `run <Val> <Script>`     (prefix token grammar, tokens separated by one space)
     Val    := `n:<int>` | `s:<text>` | `d:<count>` (`k:<key>` Val)^count
     Script := `snap` | `raise` | `poke k:<key> Val` | `del k:<key>` | `seq S S` | `try S`
             | `with <count> (A:<T|F kwarg?>:<key string> Val)^count S`
             | `reenter <count> (A:…)^count S S`   (`s = set(…); with s: { with s: S1 ; S2 }`)
   reply   : `<ok|err:kind> <Val final cfg> log:<n> <Val>^n`  | `bad-op`
   request : `assign <Val dict> A:<T|F>:<key string> <Val>`  -> `ok <Val dict'> <replace|insert> <path k:..,..>` | `err:<kind>`
   request : `undo <Val dict> <replace|insert> <count> (k:<key>)^count <Val old>` -> `ok <Val>` | `err:<kind>` -/

abbrev P (α : Type) := List String → Option (α × List String)

partial def pVal : P Val
  | t :: ts =>
    match t.splitOn ":" with
    | ["n", i] => (parseInt? i).map fun n => (Val.num n, ts)
    | ["s", s] => some (Val.str s, ts)
    | ["d", c] => do
        let n ← parseNat? c
        let rec go (n : Nat) (acc : List (Key × Val)) (ts : List String) : Option (Val × List String) :=
          match n with
          | 0 => some (Val.dict acc.reverse, ts)
          | n + 1 =>
            match ts with
            | kt :: ts' =>
              match kt.splitOn ":" with
              | ["k", k] => do
                  let (v, ts'') ← pVal ts'
                  go n ((k, v) :: acc) ts''
              | _ => none
            | [] => none
        go n [] ts
    | _ => none
  | [] => none

def pKey : P Key
  | t :: ts => match t.splitOn ":" with
    | ["k", k] => some (k, ts)
    | _ => none
  | [] => none

def pAssignHead : P (List Key)
  | t :: ts => match t.splitOn ":" with
    | ["A", "T", s] => some (keyPath true s, ts)
    | ["A", "F", s] => some (keyPath false s, ts)
    | _ => none
  | [] => none

partial def pScript : P Script
  | "snap" :: ts => some (.snap, ts)
  | "raise" :: ts => some (.raise, ts)
  | "poke" :: ts => do
      let (k, ts) ← pKey ts
      let (v, ts) ← pVal ts
      pure (.poke k v, ts)
  | "del" :: ts => do
      let (k, ts) ← pKey ts
      pure (.del k, ts)
  | "seq" :: ts => do
      let (a, ts) ← pScript ts
      let (b, ts) ← pScript ts
      pure (.seq a b, ts)
  | "try" :: ts => do
      let (a, ts) ← pScript ts
      pure (.tryCatch a, ts)
  | "with" :: c :: ts => do
      let n ← parseNat? c
      let rec go (n : Nat) (acc : List (List Key × Val)) (ts : List String) : Option (List (List Key × Val) × List String) :=
        match n with
        | 0 => some (acc.reverse, ts)
        | n + 1 => do
            let (ks, ts) ← pAssignHead ts
            let (v, ts) ← pVal ts
            go n ((ks, v) :: acc) ts
      let (as, ts) ← go n [] ts
      let (b, ts) ← pScript ts
      pure (.withSet as b, ts)
  | "reenter" :: c :: ts => do
      let n ← parseNat? c
      let rec go2 (n : Nat) (acc : List (List Key × Val)) (ts : List String) : Option (List (List Key × Val) × List String) :=
        match n with
        | 0 => some (acc.reverse, ts)
        | n + 1 => do
            let (ks, ts) ← pAssignHead ts
            let (v, ts) ← pVal ts
            go2 n ((ks, v) :: acc) ts
      let (as, ts) ← go2 n [] ts
      let (b, ts) ← pScript ts
      let (a, ts) ← pScript ts
      pure (.reenter as b a, ts)
  | _ => none

partial def showVal : Val → String
  | .num n => s!"n:{n}"
  | .str s => s!"s:{s}"
  | .dict kvs => " ".intercalate (s!"d:{kvs.length}" :: kvs.map fun (k, v) => s!"k:{k} {showVal v}")

def showOut : Option Err → String
  | none => "ok"
  | some e => s!"err:{e.name}"

def dictOf? : Val → Option Dict
  | .dict d => some d
  | _ => none

def handle : List String → String
  | "run" :: ts =>
    match pVal ts with
    | some (.dict cfg, ts) =>
      match pScript ts with
      | some (s, []) =>
        let (st, out) := run s ⟨cfg, []⟩
        " ".intercalate ([showOut out, showVal (.dict st.cfg), s!"log:{st.log.length}"] ++ st.log.map fun d => showVal (.dict d))
      | _ => "bad-op"
    | _ => "bad-op"
  | "assign" :: ts =>
    match pVal ts with
    | some (.dict d, ts) =>
      match pAssignHead ts with
      | some (ks, ts) =>
        match pVal ts with
        | some (v, []) =>
          match assign ks v d with
          | .ok (d', r) =>
            let op := match r.op with | .replace => "replace" | .insert => "insert"
            s!"ok {showVal (.dict d')} {op} {showList (fun k => "k:" ++ k) r.path} {showVal r.old}"
          | .error e => s!"err:{e.name}"
        | _ => "bad-op"
      | none => "bad-op"
    | _ => "bad-op"
  | "undo" :: ts =>
    match pVal ts with
    | some (.dict d, op :: c :: ts) =>
      match parseNat? c with
      | some n =>
        let ks := (ts.take n).filterMap fun t => match t.splitOn ":" with | ["k", k] => some k | _ => none
        match (if ks.length = n then pVal (ts.drop n) else none),
              (if op = "replace" then some Op.replace else if op = "insert" then some Op.insert else none) with
        | some (old, []), some o =>
          match undo ⟨o, ks, old⟩ d with
          | .ok d' => s!"ok {showVal (.dict d')}"
          | .error e => s!"err:{e.name}"
        | _, _ => "bad-op"
      | none => "bad-op"
    | _ => "bad-op"
  | _ => "bad-op"

def main : IO Unit := serve handle
