import AbtemVerif.Model.Proto
import AbtemVerif.Model.FiniteDiff
open AbtemVerif AbtemVerif.Proto AbtemVerif.FiniteDiff

/- requests (see harness/c37.py):
   coeffs <derivative> <accuracy>                         -> ok <c…> | err <kind>
   laplace <accuracy> <sx> <sy> <h> <w> <a row-major>     -> ok <out row-major> | err <kind>
   moments <accuracy>                                     -> ok <moment 0 … p+1>
   series <a,y;a,y;…> <tol> <maxTerms>                    -> converged <i> | diverged <i> | not_converged   (convergence logic on eigen-modes)
   expseries <y> <terms>                                  -> ok <re> <im> of Σ_{i≤terms} (i·y)^i / i!   (scalar instance of the loop) -/

structure Cx where
  re : Rat
  im : Rat
instance : Add Cx := ⟨fun a b => ⟨a.re + b.re, a.im + b.im⟩⟩

def handle : List String → String
  | ["coeffs", d, acc] =>
    match parseInt? d, parseInt? acc with
    | some d, some acc =>
      match coefficients d acc with
      | .ok c => s!"ok {showList showRat c}"
      | .error e => s!"err {e}"
    | _, _ => "bad-op"
  | ["laplace", acc, sx, sy, h, w, a] =>
    match parseInt? acc, parseRat? sx, parseRat? sy, parseNat? h, parseNat? w, parseList? parseRat? a with
    | some acc, some sx, some sy, some h, some w, some a =>
      if h = 0 ∨ w = 0 ∨ a.length ≠ h * w then "bad-op" else
      if sx = 0 ∨ sy = 0 then "err zero_division" else
      let arr : Int → Int → Rat := fun i j => a.getD (i.toNat * w + j.toNat) 0
      let outs := (List.range h).flatMap fun (i : Nat) => (List.range w).map fun (j : Nat) => laplaceOperator acc (sx, sy) h w arr i j
      match outs.mapM id with
      | .ok vs => s!"ok {showList showRat vs}"
      | .error e => s!"err {e}"
    | _, _, _, _, _, _ => "bad-op"
  | ["moments", acc] =>
    match parseInt? acc with
    | some acc =>
      match coefficients 2 acc with
      | .ok c => s!"ok {showList showRat ((List.range (acc.toNat + 2)).map (moment c))}"
      | .error e => s!"err {e}"
    | _ => "bad-op"
  | ["series", modes, tol, mt] =>
    match parseListList? parseRat? modes, parseRat? tol, parseNat? mt with
    | some ms, some tol, some mt =>
      match ms.mapM (fun l => match l with | [a, y] => some (a, y) | _ => none) with
      | some ms =>
        if ms.isEmpty ∨ mt = 0 ∨ (ms.map (·.1)).sum = 0 then "bad-op" else
        match seriesOutcome ms tol mt with
        | .converged i => s!"converged {i}"
        | .diverged i => s!"diverged {i}"
        | .notConverged => "not_converged"
      | none => "bad-op"
    | _, _, _ => "bad-op"
  | ["expseries", mu, terms] =>
    match parseRat? mu, parseNat? terms with
    | some mu, some terms =>
      if terms = 0 then "err value_error" else
      -- amplitude of an eigen-direction on which the series operator multiplies by the imaginary number `i·mu`
      let r := expSeries (fun x : Cx => ⟨-(mu * x.im), mu * x.re⟩) (fun x i => ⟨x.re / i, x.im / i⟩) terms ⟨1, 0⟩
      s!"ok {showRat r.re} {showRat r.im}"
    | _, _ => "bad-op"
  | _ => "bad-op"

def main : IO Unit := serve handle
