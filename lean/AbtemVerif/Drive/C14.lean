import AbtemVerif.Model.Proto
import AbtemVerif.Model.FftGeom
open AbtemVerif AbtemVerif.Proto AbtemVerif.FftGeom AbtemVerif.Np

/- requests (replies `ok …` | `err <kind>` | `bad-op`):
   masks  <n1> <n2>                                  -> ok <bits mask1> <bits mask2>      (bit strings, `_` when empty)
   crop1  <n2> <ints>                                -> ok <ints>
   crop2  <nx> <ny> <mx> <my> <flat ints>            -> ok <flat ints>
   dp     <nx> <ny> <mx> <my> <T|F shift> <flat>     -> ok <flat ints>
   cropm  <nx> <ny> <mx> <my> <T|F shifted> <flat>  -> ok <flat ints>                    (DiffractionPatterns._crop)
   unshift <nx> <ny> <flat>                          -> ok <flat ints>                    (ifftshift over both axes)
   parity <n> <T|F even> <v>                         -> ok <int>
   pgpts  <a> <b> <oa> <ob> <parity>                 -> ok <a'> <b'>
   within full|num:<angle>:<s0>:<s1>|kw:<a>:<b> <oa> <ob> <parity> -> ok <a'> <b'>
   coords <n> <s> <T|F shifted>                      -> ok <rats>
   radius <opt radius> <opt semi> <opt T|F margin> <maxs> -> ok <rat>
   block  <nx> <ny> <sx> <sy> <T|F shifted> <r> <flat ints> -> ok <flat ints> -/

def bits (n : Nat) (m : Nat → Bool) : String :=
  if n = 0 then "_" else String.ofList ((List.range n).map fun i => if m i then '1' else '0')

def sel? (s : String) : Option AngleSel :=
  match s.splitOn ":" with
  | ["full"] => some .full
  | ["num", a, s0, s1] => do
      let a ← parseRat? a; let s0 ← parseRat? s0; let s1 ← parseRat? s1
      if s0 ≤ 0 || s1 ≤ 0 then none else some (.number a s0 s1)
  | ["kw", a, b] => do let a ← parseInt? a; let b ← parseInt? b; some (.keyword (a, b))
  | _ => none

def showE (f : α → String) : Except String α → String
  | .ok a => s!"ok {f a}"
  | .error e => s!"err {e}"

def showInts (l : List Int) : String := showList showInt l

def handle : List String → String
  | ["masks", n1, n2] =>
    match parseInt? n1, parseInt? n2 with
    | some n1, some n2 =>
      if n1 < 0 || n2 < 0 then "err value_error"
      else
        let m := masks1d n1.toNat n2.toNat
        s!"ok {bits n1.toNat m.1} {bits n2.toNat m.2}"
    | _, _ => "bad-op"
  | ["crop1", n2, xs] =>
    match parseInt? n2, parseList? parseInt? xs with
    | some n2, some xs => if n2 < 0 then "err value_error" else showE showInts (crop1d xs n2.toNat)
    | _, _ => "bad-op"
  | ["crop2", nx, ny, mx, my, xs] =>
    match parseNat? nx, parseNat? ny, parseInt? mx, parseInt? my, parseList? parseInt? xs with
    | some nx, some ny, some mx, some my, some xs =>
      if xs.length ≠ nx * ny then "bad-op"
      else if mx < 0 || my < 0 then "err value_error"
      else showE showInts (crop2d nx ny xs mx.toNat my.toNat)
    | _, _, _, _, _ => "bad-op"
  | ["dp", nx, ny, mx, my, sh, xs] =>
    match parseNat? nx, parseNat? ny, parseInt? mx, parseInt? my, parseBool? sh, parseList? parseInt? xs with
    | some nx, some ny, some mx, some my, some sh, some xs =>
      if xs.length ≠ nx * ny then "bad-op"
      else if mx < 0 || my < 0 then "err value_error"
      else showE showInts (diffractionPattern nx ny xs mx.toNat my.toNat sh)
    | _, _, _, _, _, _ => "bad-op"
  | ["cropm", nx, ny, mx, my, sh, xs] =>
    match parseNat? nx, parseNat? ny, parseInt? mx, parseInt? my, parseBool? sh, parseList? parseInt? xs with
    | some nx, some ny, some mx, some my, some sh, some xs =>
      if xs.length ≠ nx * ny then "bad-op"
      else if mx < 0 || my < 0 then "err value_error"
      else showE showInts (cropMethod nx ny xs mx.toNat my.toNat sh)
    | _, _, _, _, _, _ => "bad-op"
  | ["unshift", nx, ny, xs] =>
    match parseNat? nx, parseNat? ny, parseList? parseInt? xs with
    | some nx, some ny, some xs => if xs.length ≠ nx * ny then "bad-op" else s!"ok {showInts (ifftshift2 nx ny xs)}"
    | _, _, _ => "bad-op"
  | ["parity", n, ev, v] =>
    match parseInt? n, parseBool? ev, parseInt? v with
    | some n, some ev, some v => showE showInt (ensureParity n ev v)
    | _, _, _ => "bad-op"
  | ["pgpts", a, b, oa, ob, par] =>
    match parseInt? a, parseInt? b, parseInt? oa, parseInt? ob with
    | some a, some b, some oa, some ob =>
      showE (fun (p : Int × Int) => s!"{p.1} {p.2}") (ensureParityOfGpts (a, b) (oa, ob) par)
    | _, _, _, _ => "bad-op"
  | ["within", sel, oa, ob, par] =>
    match sel? sel, parseInt? oa, parseInt? ob with
    | some sel, some oa, some ob => showE (fun (p : Int × Int) => s!"{p.1} {p.2}") (gptsWithin sel (oa, ob) par)
    | _, _, _ => "bad-op"
  | ["coords", n, s, sh] =>
    match parseNat? n, parseRat? s, parseBool? sh with
    | some n, some s, some sh => s!"ok {showList showRat (angularCoords n s sh)}"
    | _, _, _ => "bad-op"
  | ["radius", r, semi, mg, maxs] =>
    match parseOpt? parseRat? r, parseOpt? parseRat? semi, parseOpt? parseBool? mg, parseRat? maxs with
    | some r, some semi, some mg, some maxs => s!"ok {showRat (effectiveRadius r semi mg maxs)}"
    | _, _, _, _ => "bad-op"
  | ["block", nx, ny, sx, sy, sh, r, xs] =>
    match parseNat? nx, parseNat? ny, parseRat? sx, parseRat? sy, parseBool? sh, parseRat? r, parseList? parseInt? xs with
    | some nx, some ny, some sx, some sy, some sh, some r, some xs =>
      if xs.length ≠ nx * ny then "bad-op" else s!"ok {showInts (blockDirect nx ny sx sy sh r xs)}"
    | _, _, _, _, _, _, _ => "bad-op"
  | _ => "bad-op"

def main : IO Unit := serve handle
