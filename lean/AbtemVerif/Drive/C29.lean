import AbtemVerif.Model.Proto
import AbtemVerif.Model.ArrayObject
open AbtemVerif AbtemVerif.Proto AbtemVerif.ArrObj

/- object : `<baseDims> <shape a,b,c|_> <axes>` with axes `;`-separated (`~` = none): `O<label>:<v1,v2|_>` | `T<tag>` | `N<tag>:<offset>:<sampling>` (linear axis, exact rationals) | `Q<tag>:<q1,q2|_>` (ordinal axis of coordinates) | `U`;
            data = 0,1,2,… (row-major provenance), offset by `<off>` where given
   requests: `get <obj> <T|F keepdims> <items>`   items `;`-separated (`~` = none): `i<int>` | `s<a>:<b>:<c>` (empty = None) | `n` | `l<i,j|_>` | `e`
             `expand <obj> <axes ints> <newaxes|default>`
             `squeeze <obj> <none|axes ints>`
             `reduce <obj> <axes ints> <T|F keepdims>`
             `stack <obj> <k> <newaxis> <axis>`     k copies, copy j has data offset j*1000
             `concat <obj> <k> <axis>`              k copies joined along ensemble axis `axis` (data offset j*1000, ordinal values + 100*j)
   reply   : `ok <shape> <axes> <data> <md l:v,…|_>` | `err <kind>` | `bad-op` -/

def pAxis (s : String) : Option Axis :=
  if s = "U" then some .unknown
  else if s.startsWith "T" then (parseInt? (s.drop 1).toString).map Axis.other
  else if s.startsWith "N" then
    match (s.drop 1).toString.splitOn ":" with
    | [t, off, samp] => do
        let t ← parseInt? t
        let off ← parseRat? off
        let samp ← parseRat? samp
        pure (.linear t off samp)
    | _ => none
  else if s.startsWith "Q" then
    match (s.drop 1).toString.splitOn ":" with
    | [l, vs] => do
        let l ← parseInt? l
        let vs ← parseList? parseRat? vs
        pure (.ordinalQ l vs)
    | _ => none
  else if s.startsWith "O" then
    match (s.drop 1).toString.splitOn ":" with
    | [l, vs] => do
        let l ← parseInt? l
        let vs ← parseList? parseInt? vs
        pure (.ordinal l vs)
    | _ => none
  else none

def pAxes (s : String) : Option (List Axis) :=
  if s = "~" then some [] else (s.splitOn ";").mapM pAxis

def pOptInt (s : String) : Option (Option Int) :=
  if s = "" then some none else (parseInt? s).map some

def pItem (s : String) : Option Item :=
  if s = "n" then some .none
  else if s = "e" then some .ellipsis
  else if s.startsWith "i" then (parseInt? (s.drop 1).toString).map Item.int
  else if s.startsWith "l" then (parseList? parseInt? (s.drop 1).toString).map Item.list
  else if s.startsWith "s" then
    match (s.drop 1).toString.splitOn ":" with
    | [a, b, c] => do
        let a ← pOptInt a
        let b ← pOptInt b
        let c ← pOptInt c
        pure (.slice a b c)
    | _ => none
  else none

def pItems (s : String) : Option (List Item) :=
  if s = "~" then some [] else (s.splitOn ";").mapM pItem

def mkObj (bd : Nat) (shape : List Nat) (axes : List Axis) (off : Int) : Obj :=
  ⟨axes, bd, shape, (List.range (prod shape)).map fun (i : Nat) => Int.ofNat i + off, []⟩

def pObj (bd shape axes : String) : Option Obj := do
  let bd ← parseNat? bd
  let shape ← parseList? parseNat? shape
  let axes ← pAxes axes
  pure (mkObj bd shape axes 0)

def showAxis : Axis → String
  | .unknown => "U"
  | .other t => s!"T{t}"
  | .linear t off samp => s!"N{t}:{showRat off}:{showRat samp}"
  | .ordinal l vs => s!"O{l}:{showList showInt vs}"
  | .ordinalQ l vs => s!"Q{l}:{showList showRat vs}"

def showObj : Except Err Obj → String
  | .error e => s!"err {e.name}"
  | .ok o =>
    let axes := if o.ens.isEmpty then "~" else ";".intercalate (o.ens.map showAxis)
    let md := showList (fun (p : Int × Int) => s!"{p.1}:{p.2}") o.md
    s!"ok {showList toString o.shape} {axes} {showList showInt o.data} {md}"

def handle : List String → String
  | ["get", bd, shape, axes, keep, items] =>
    match pObj bd shape axes, parseBool? keep, pItems items with
    | some o, some k, some its => showObj (getItems o its k)
    | _, _, _ => "bad-op"
  | ["expand", bd, shape, axes, ax, newax] =>
    match pObj bd shape axes, parseList? parseInt? ax with
    | some o, some ax =>
      let na := if newax = "default" then some (ax.map fun _ => Axis.unknown) else pAxes newax
      match na with
      | some na => showObj (expandDims o ax na)
      | none => "bad-op"
    | _, _ => "bad-op"
  | ["squeeze", bd, shape, axes, ax] =>
    match pObj bd shape axes, (if ax = "none" then some none else (parseList? parseInt? ax).map some) with
    | some o, some ax => showObj (squeeze o ax)
    | _, _ => "bad-op"
  | ["reduce", bd, shape, axes, ax, keep] =>
    match pObj bd shape axes, parseList? parseInt? ax, parseBool? keep with
    | some o, some ax, some k => showObj (reduce o ax k)
    | _, _, _ => "bad-op"
  | ["stack", bd, shape, axes, k, newax, axis] =>
    match pObj bd shape axes, parseNat? k, pAxis newax, parseInt? axis with
    | some o, some k, some na, some axis =>
      showObj (stack ((List.range k).map fun (j : Nat) => { o with data := o.data.map (· + 1000 * Int.ofNat j) }) na axis)
    | _, _, _, _ => "bad-op"
  | ["concat", bd, shape, axes, k, axis] =>
    -- k operands: copy j has data offset j*1000 and, along `axis`, the ordinal values shifted by 100*j
    match pObj bd shape axes, parseNat? k, parseNat? axis with
    | some o, some k, some axis =>
      showObj (concat ((List.range k).map fun (j : Nat) =>
        { o with data := o.data.map (· + 1000 * Int.ofNat j),
                 ens := o.ens.zipIdx.map fun (a, i) => match a with
                   | .ordinal l vs => if i = axis then .ordinal l (vs.map (· + 100 * Int.ofNat j)) else a
                   | a => a }) axis)
    | _, _, _ => "bad-op"
  | _ => "bad-op"

def main : IO Unit := serve handle
