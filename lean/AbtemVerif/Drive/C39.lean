import AbtemVerif.Model.Proto
import AbtemVerif.Model.Probe
open AbtemVerif AbtemVerif.Proto AbtemVerif.PropagatorModel AbtemVerif.ProbeModel

/- requests (float64 = decimal value of the IEEE-754 bit pattern):
   `tilt <kx> <ky> <tx> <ty> <dz>`   -> `ok <re> <im>`   factor of `_apply_tilt_to_fresnel_propagator_array`
   `kernel <kx> <ky> <x> <y>`        -> `ok <re> <im>`   `fft_shift_kernel`
   `propagator <order> <kx> <ky> <dz> <wavelength> <maxsampling> <tx,ty,…|_>` -> `ok <re> <im>` | `err …`
   `calcarray <order> <kx> <ky> <dz> <wavelength> <maxsampling> <basex> <basey> <axes>` -> `ok <re> <im>` | `err …`
        axes = `;`-separated ensemble axes in order, each `tx,ty` (member tilt of a tilt axis) or `_` (axis without tilt); `~` = no axes -/
def showC (c : CF) : String := s!"ok {showF c.re} {showF c.im}"

def pairs : List Float → Option (List (Float × Float))
  | [] => some []
  | a :: b :: rest => (pairs rest).map ((a, b) :: ·)
  | _ => none

def handle : List String → String
  | ["tilt", kx, ky, tx, ty, dz] =>
    match fbits? kx, fbits? ky, fbits? tx, fbits? ty, fbits? dz with
    | some kx, some ky, some tx, some ty, some dz => showC (tiltFactorF kx ky tx ty dz)
    | _, _, _, _, _ => "bad-op"
  | ["kernel", kx, ky, x, y] =>
    match fbits? kx, fbits? ky, fbits? x, fbits? y with
    | some kx, some ky, some x, some y => showC (scanKernelF kx ky x y)
    | _, _, _, _ => "bad-op"
  | ["propagator", o, kx, ky, dz, wl, ms, ts] =>
    match parseNat? o, fbits? kx, fbits? ky, fbits? dz, fbits? wl, fbits? ms, (parseList? fbits? ts).bind pairs with
    | some o, some kx, some ky, some dz, some wl, some ms, some ts =>
      match propagatorF o kx ky dz wl ms ts with
      | .ok c => showC c
      | .error e => s!"err {e}"
    | _, _, _, _, _, _, _ => "bad-op"
  | ["calcarray", o, kx, ky, dz, wl, ms, bx, by_, axes] =>
    let ax? : Option (List (Option (Float × Float))) :=
      (parseListList? fbits? axes).bind fun ls => ls.mapM fun l =>
        match l with
        | [] => some none
        | [a, b] => some (some (a, b))
        | _ => none
    match parseNat? o, fbits? kx, fbits? ky, fbits? dz, fbits? wl, fbits? ms, fbits? bx, fbits? by_, ax? with
    | some o, some kx, some ky, some dz, some wl, some ms, some bx, some by_, some axes =>
      match calcArrayF o kx ky dz wl ms (bx, by_) axes with
      | .ok c => showC c
      | .error e => s!"err {e}"
    | _, _, _, _, _, _, _, _, _ => "bad-op"
  | _ => "bad-op"

def main : IO Unit := serve handle
