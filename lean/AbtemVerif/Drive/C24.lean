import AbtemVerif.Model.FloatProto
import AbtemVerif.Gen.EnergyF
import AbtemVerif.Gen.EnergyConstsF
open AbtemVerif AbtemVerif.Proto AbtemVerif.Gen.EnergyF
open AbtemVerif.Gen.EnergyConstsF in
/- Float twins of abtem/core/energy.py (generated), evaluated at the generated ase.units constants.
   requests (floats as IEEE-754 bit patterns):
     gamma <E> | mass <E> | wavelength <E> | sigma <E> | angular <E> <d1,d2,…>
   replies: `ok <bits>` / `ok <bits,bits,…>` | `err <kind>` | `bad-op` -/
def handle : List String → String
  | ["gamma", e] => match parseFloatBits? e with
    | some e => s!"ok {showFloatBits (relativisticMassCorrection e hplanck c me qe kg C s J)}"
    | none => "bad-op"
  | ["mass", e] => match parseFloatBits? e with
    | some e => s!"ok {showFloatBits (energy2mass e hplanck c me qe kg C s J)}"
    | none => "bad-op"
  | ["wavelength", e] => match parseFloatBits? e with
    | some e => showExceptF (energy2wavelength e hplanck c me qe kg C s J)
    | none => "bad-op"
  | ["sigma", e] => match parseFloatBits? e with
    | some e => showExceptF (energy2sigma e hplanck c me qe kg C s J)
    | none => "bad-op"
  | ["angular", e, ds] => match parseFloatBits? e, parseList? parseFloatBits? ds with
    | some e, some ds => showExceptFs (angularSampling ds e hplanck c me qe kg C s J)
    | _, _ => "bad-op"
  | _ => "bad-op"

def main : IO Unit := serve handle
