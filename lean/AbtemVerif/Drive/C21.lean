import AbtemVerif.Model.FloatProto
import AbtemVerif.Model.Aberrations
import AbtemVerif.Gen.ChiF
open AbtemVerif AbtemVerif.Proto AbtemVerif.Aberr AbtemVerif.Gen.ChiF AbtemVerif.Gen.ChiTables

/- Float twin of Aberrations._evaluate_from_angular_grid (generated chi terms, scaling, complex_exponential) inside the hand model of
   Model/Aberrations.lean (dict, zip(polar_symbols, values), guards), plus the alias / attribute bookkeeping.
   requests (floats as IEEE-754 bit patterns; <values> = the 25 dict values in `polar_symbols` order):
     transfer <alpha> <phi> <wavelength> <values>   -> ok <re>,<im>
     chi <alpha> <phi> <values>                     -> ok <chi>            (guarded accumulation, before scaling)
     symbols                                        -> ok <symbolKeys>
     resolve <name>                                 -> ok <symbol or the name itself> <T|F is a symbol>
     attrs <op>;<op>;…    op = s=<name>=<bits> | g=<name> | u=<name>=<bits>=<name>=<bits>… (set_aberrations)   (from a fresh object)
                                                    -> ok <result>;…|<values>   result = ok | <bits> | err:<kind> -/

def isZeroF (x : Float) : Bool := x == 0

def dictOfValues (vals : List Float) : Dict Float := symbolKeys.zip vals

def chiGuardedF (p : PolarCoeffs Float) (alpha phi : Float) : Float :=
  guardedFold [(chiTerm1 · alpha phi p), (chiTerm2 · alpha phi p), (chiTerm3 · alpha phi p), (chiTerm4 · alpha phi p),
    (chiTerm5 · alpha phi p)] (guardSymbols.map (nonzero isZeroF 0 p)) 0

def transferF (p : PolarCoeffs Float) (alpha phi wavelength : Float) : Float × Float :=
  if hasAberrations isZeroF p then
    let x := chiScaled (chiGuardedF p alpha phi) wavelength
    (aberrationRe x, aberrationIm x)
  else (1, 0)

def values? (s : String) : Option (List Float) :=
  match parseList? parseFloatBits? s with
  | some l => if l.length = 25 then some l else none
  | none => none

/-- state = (coefficient dict, ordinary attributes).  A write to a name that is neither alias nor symbol is stored by Python as an
ordinary object attribute (`super().__setattr__`) and read back by normal attribute lookup; the model's `setAttr` reports such names
as "not_an_aberration", and this glue keeps them in a second dict so that the attribute protocol is complete. -/
abbrev St := Dict Float × Dict Float

def runOp (st : St) (op : String) : Option (St × String) :=
  let (d, other) := st
  match op.splitOn "=" with
  | ["s", name, b] => (parseFloatBits? b).map fun v =>
      match setAttr c10OfDefocus d name v with
      | .ok d' => ((d', other), "ok")
      | .error _ => ((d, dictSet other name v), "ok")
  | ("u" :: rest) =>
      -- u=<name>=<bits>=<name>=<bits>… : obj.set_aberrations({name: value, …})
      let rec items : List String → Option (List (String × Float))
        | [] => some []
        | name :: b :: more => do
            let v ← parseFloatBits? b
            let tl ← items more
            pure ((name, v) :: tl)
        | _ => none
      (items rest).map fun its =>
        -- item by item, like `s`: aberration names go to the coefficient dict, any other name to the ordinary attributes
        let st' := its.foldl (fun (acc : St) kv =>
          match setAttr c10OfDefocus acc.1 kv.1 kv.2 with
          | .ok d' => (d', acc.2)
          | .error _ => (acc.1, dictSet acc.2 kv.1 kv.2)) (d, other)
        (st', "ok")
  | ["g", name] =>
      match getAttr defocusOfC10 0 d name with
      | .ok v => some (st, showFloatBits v)
      | .error e =>
        match other.lookup name with
        | some v => some (st, showFloatBits v)
        | none => some (st, s!"err:{e}")
  | _ => none

def runOps (ops : List String) : Option (St × List String) :=
  ops.foldl (fun st op => st.bind fun (d, outs) => (runOp d op).map fun (d', o) => (d', outs ++ [o])) (some ((initDict 0, []), []))

def handle : List String → String
  | ["transfer", al, ph, wl, vs] =>
    match parseFloatBits? al, parseFloatBits? ph, parseFloatBits? wl, values? vs with
    | some al, some ph, some wl, some vs =>
      let (re, im) := transferF (toCoeffs 0 (dictOfValues vs)) al ph wl
      s!"ok {showFloatBits re},{showFloatBits im}"
    | _, _, _, _ => "bad-op"
  | ["chi", al, ph, vs] =>
    match parseFloatBits? al, parseFloatBits? ph, values? vs with
    | some al, some ph, some vs => s!"ok {showFloatBits (chiGuardedF (toCoeffs 0 (dictOfValues vs)) al ph)}"
    | _, _, _ => "bad-op"
  | ["symbols"] => s!"ok {showList id symbolKeys}"
  | ["resolve", name] => s!"ok {resolve name} {showBool (symbolKeys.contains (resolve name))}"
  | ["attrs", ops] =>
    match runOps (ops.splitOn ";") with
    | some ((d, _), outs) => s!"ok {";".intercalate outs}|{showList showFloatBits (d.map (·.2))}"
    | none => "bad-op"
  | _ => "bad-op"

def main : IO Unit := serve handle
