import AbtemVerif.Model.Proto
import AbtemVerif.Model.Prism
import AbtemVerif.Model.PrismEnsemble
open AbtemVerif AbtemVerif.Proto AbtemVerif.Prism AbtemVerif.Gen.Prism

/- requests (see harness/c06.py):
   wslices <start> <stop> <n>                       -> ok <a indices> <b indices> | err <kind>
   wcrop <n0> <n1> <c0> <c1> <s0> <s1>              -> ok <nrows> <flat values of the crop of the iota array> | err <kind>
   mincrop <w0> <w1> <px,py;px,py;…>                -> ok <cc0> <cc1> <s0> <s1> <c0,c1;…>
   windows <n0> <n1> <w0> <w1> <px,py;…>            -> ok <flat window>;<flat window>… | err <kind>
   expect <n0> <n1> <w0> <w1> <px,py>               -> ok <flat window>
   bcrop <s0> <s1> <w0> <w1> <c0> <c1>              -> ok <flat window of the s0×s1 iota block> | err <kind>   (`batch_crop_2d`, one member)
   reducek <n0> <n1> <w0> <w1> <K> <px,py;…> <c,c,…;…> -> ok <flat window>;… : planes k = iota + 1000·k, integer coefficients per position
   phase <gx|gy|cu|px|py> <pi> <args…>              -> ok <rat>
   amp <interp> <npix>                              -> ok <rat>
   eager <mean T|F> <isWaves T|F> <m> <r;r;…>       -> ok <rows of the measurement allocated and filled by the eager path> -/

def iota (n1 : Nat) : Nat → Nat → Int := fun i j => (i * n1 + j : Nat)

def flat (b : List (List Int)) : String := showList showInt b.flatten

def pairs? (s : String) : Option (List (Rat × Rat)) := do
  let ll ← parseListList? parseRat? s
  ll.mapM fun l => match l with | [a, b] => some (a, b) | _ => none

def showPairs (l : List (Int × Int)) : String :=
  showListList showInt (l.map fun p => [p.1, p.2])

def handle : List String → String
  | ["wslices", start, stop, n] =>
    match parseInt? start, parseInt? stop, parseNat? n with
    | some start, some stop, some n =>
      if n = 0 then "bad-op" else
      match wrappedSlices start stop n with
      | .ok (a, b) => s!"ok {showList toString (a.indices n)} {showList toString (b.indices n)}"
      | .error e => s!"err {e}"
    | _, _, _ => "bad-op"
  | ["wcrop", n0, n1, c0, c1, s0, s1] =>
    match parseNat? n0, parseNat? n1, parseInt? c0, parseInt? c1, parseInt? s0, parseInt? s1 with
    | some n0, some n1, some c0, some c1, some s0, some s1 =>
      if n0 = 0 ∨ n1 = 0 then "bad-op" else
      match wrappedCrop2d (iota n1) n0 n1 (c0, c1) (s0, s1) with
      | .ok b => s!"ok {b.length} {flat b}"
      | .error e => s!"err {e}"
    | _, _, _, _, _, _ => "bad-op"
  | ["mincrop", w0, w1, ps] =>
    match parseNat? w0, parseNat? w1, pairs? ps with
    | some w0, some w1, some ps =>
      if ps.isEmpty then "bad-op" else
      let (cc, size, corners) := minimumCrop ps (w0, w1)
      s!"ok {cc.1} {cc.2} {size.1} {size.2} {showPairs corners}"
    | _, _, _ => "bad-op"
  | ["windows", n0, n1, w0, w1, ps] =>
    match parseNat? n0, parseNat? n1, parseNat? w0, parseNat? w1, pairs? ps with
    | some n0, some n1, some w0, some w1, some ps =>
      if n0 = 0 ∨ n1 = 0 ∨ ps.isEmpty then "bad-op" else
      match reduceWindows (iota n1) n0 n1 (w0, w1) ps with
      | .ok ws => "ok " ++ ";".intercalate (ws.map flat)
      | .error e => s!"err {e}"
    | _, _, _, _, _ => "bad-op"
  | ["reducek", n0, n1, w0, w1, K, ps, cs] =>
    match parseNat? n0, parseNat? n1, parseNat? w0, parseNat? w1, parseNat? K, pairs? ps, parseListList? parseInt? cs with
    | some n0, some n1, some w0, some w1, some K, some ps, some cs =>
      if n0 = 0 ∨ n1 = 0 ∨ ps.isEmpty ∨ cs.length ≠ ps.length ∨ cs.any (fun c => c.length ≠ K) then "bad-op" else
      let planes : List (Nat → Nat → Int) := (List.range K).map fun (k : Nat) => fun i j => iota n1 i j + 1000 * (k : Int)
      match reduceToWaves planes n0 n1 (w0, w1) ps cs with
      | .ok ws => "ok " ++ ";".intercalate (ws.map flat)
      | .error e => s!"err {e}"
    | _, _, _, _, _, _, _ => "bad-op"
  | ["bcrop", s0, s1, w0, w1, c0, c1] =>
    match parseNat? s0, parseNat? s1, parseNat? w0, parseNat? w1, parseInt? c0, parseInt? c1 with
    | some s0, some s1, some w0, some w1, some c0, some c1 =>
      let block : List (List Int) := (List.range s0).map fun (i : Nat) => (List.range s1).map fun (j : Nat) => iota s1 i j
      match batchCrop block (c0, c1) (w0, w1) with
      | .ok b => s!"ok {flat b}"
      | .error e => s!"err {e}"
    | _, _, _, _, _, _ => "bad-op"
  | ["expect", n0, n1, w0, w1, ps] =>
    match parseNat? n0, parseNat? n1, parseNat? w0, parseNat? w1, pairs? ps with
    | some n0, some n1, some w0, some w1, some [p] =>
      if n0 = 0 ∨ n1 = 0 then "bad-op" else s!"ok {flat (expectedWindow (iota n1) n0 n1 (w0, w1) p)}"
    | _, _, _, _, _ => "bad-op"
  | "phase" :: which :: args =>
    match args.mapM parseRat? with
    | some [pi, a, b] =>
      if which = "gx" then s!"ok {showRat (posPhaseGridX pi a b)}"
      else if which = "gy" then s!"ok {showRat (posPhaseGridY pi a b)}"
      else if which = "px" then s!"ok {showRat (planeWavePhaseX pi a b false)}"
      else if which = "py" then s!"ok {showRat (planeWavePhaseY pi a b false)}"
      else if which = "pxr" then s!"ok {showRat (planeWavePhaseX pi a b true)}"
      else if which = "pyr" then s!"ok {showRat (planeWavePhaseY pi a b true)}"
      else "bad-op"
    | some [pi, x, y, kx, ky] => if which = "cu" then s!"ok {showRat (posPhaseCustom pi x y kx ky)}" else "bad-op"
    | _ => "bad-op"
  | ["eager", mean, isw, m, rs] =>
    match parseBool? mean, parseBool? isw, parseNat? m, parseListList? parseRat? rs with
    | some mean, some isw, some m, some rs =>
      if rs.any (fun r => r.length ≠ m) then "bad-op" else
      s!"ok {showListList showRat (AbtemVerif.PrismEnsemble.eagerDetect mean isw m rs)}"
    | _, _, _, _ => "bad-op"
  | ["amp", interp, npix] =>
    match parseRat? interp, parseRat? npix with
    | some a, some b => if b = 0 then "err zero_division" else s!"ok {showRat (smatrixAmplitude a b)}"
    | _, _ => "bad-op"
  | _ => "bad-op"

def main : IO Unit := serve handle
