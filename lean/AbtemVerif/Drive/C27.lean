import AbtemVerif.Model.Proto
import AbtemVerif.Model.StructFactor
open AbtemVerif AbtemVerif.Proto AbtemVerif.StructFactor AbtemVerif.Gen.Reflection

/- requests (centering symbols travel as `s:<text>`; the driver applies `.toLower` like the Python code):
     `refl <s:c> <hkls>`                 -> `ok <T/F list>` | `err <kind>`      get_reflection_condition
     `select <s:c> <hkls>`               -> `ok <hkls>` | `err <kind>`          StructureFactor.__init__ filtering
     `table`                             -> `ok F=0,0,0;0,1/2,1/2|I=…`          relative_positions_for_centering
     `sf <vol> <quarter positions> <hkls> <weights: one row per atom>` -> `ok re,im;re,im;…`   calculate_structure_factors
     `detect <species|species…>`         -> `ok <centering>`                    auto_detect_centering (orthogonal cell)
     `wrap <h> <m>`                      -> `ok <index> <freq at index>`        structure_factor_1d_to_3d on the grid n = 2m+1
   hkls / positions: `a,b,c;a,b,c` (`~` = none); anything else -> `bad-op` -/
def str? (s : String) : Option String :=
  if s.startsWith "s:" then some (s.drop 2).toString else none

def triple? {α} (f : String → Option α) (s : String) : Option (α × α × α) :=
  match s.splitOn "," with
  | [a, b, c] => do let x ← f a; let y ← f b; let z ← f c; pure (x, y, z)
  | _ => none

def triples? {α} (f : String → Option α) (s : String) : Option (List (α × α × α)) :=
  if s = "~" then some [] else (s.splitOn ";").mapM (triple? f)

def showHkls (l : List HKL) : String :=
  if l.isEmpty then "~" else ";".intercalate (l.map fun (h, k, l) => s!"{h},{k},{l}")

def showTable (t : List (String × List (List Rat))) : String :=
  "|".intercalate (t.map fun (c, vs) => c ++ "=" ++ ";".intercalate (vs.map fun v => ",".intercalate (v.map showRat)))

def handle : List String → String
  | ["refl", c, hk] =>
    match str? c, triples? parseInt? hk with
    | some c, some hk =>
      match reflectionMask c.toLower hk with
      | .ok m => s!"ok {showList showBool m}"
      | .error e => s!"err {e}"
    | _, _ => "bad-op"
  | ["select", c, hk] =>
    match str? c, triples? parseInt? hk with
    | some c, some hk =>
      match selectHkl c.toLower hk with
      | .ok m => s!"ok {showHkls m}"
      | .error e => s!"err {e}"
    | _, _ => "bad-op"
  | ["table"] => s!"ok {showTable centeringTranslations}"
  | ["sf", vol, qs, hk, ws] =>
    match parseRat? vol, triples? parseInt? qs, triples? parseInt? hk, parseListList? parseRat? ws with
    | some vol, some qs, some hk, some ws =>
      if vol = 0 || ws.length ≠ qs.length || ws.any (·.length ≠ hk.length) then "bad-op" else
      let vals := (hk.zipIdx).map fun (h, g) => sfQ vol (qs.zip (ws.map fun (row : List Rat) => row.getD g 0)) h
      "ok " ++ ";".intercalate (vals.map fun z => s!"{showRat z.re},{showRat z.im}")
    | _, _, _, _ => "bad-op"
  | ["detect", sp] =>
    match (sp.splitOn "|").mapM (triples? parseRat?) with
    | some species => s!"ok {autoDetect species}"
    | none => "bad-op"
  | ["wrap", h, m] =>
    match parseInt? h, parseNat? m with
    | some h, some m =>
      let i := wrapIndex h (2 * m + 1)
      s!"ok {i} {freqOfIndex i.toNat (2 * m + 1)}"
    | _, _ => "bad-op"
  | _ => "bad-op"

def main : IO Unit := serve handle
