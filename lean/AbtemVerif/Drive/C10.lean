import AbtemVerif.Model.Proto
import AbtemVerif.Model.Build
open AbtemVerif AbtemVerif.Proto AbtemVerif.Build

/- requests (tokens separated by blanks; lists `a,b,c` / `_`; nested `x;y` / `~`):
   flags <eps> <n>                                              -> ok <bools>
   vep <none|i:INT|t:LIST> <n>                                  -> ok <ints>
   gen atoms|array <ts> <eps> <first> <last|none>               -> ok <slice;slice;…>   slice = val|thickness-list|exit-list
   gen crystal <uts> <reps> <eps> <draws> <first> <last|none>   -> ok <slices>          val = c.j
   build eager|lazy atoms <ts> <eps> <k|none> <first> <last|none>
   build eager|lazy crystal <uts> <reps> <eps> <k|none> <draws;draws;…> <first> <last|none>
                                                               -> ok <row;row;…> <thickness> <eps>   entry = val or z
   replies `err <kind>` for the modelled exceptions, `bad-op` for malformed requests. -/

def showSlice (s : Slice String Rat) : String :=
  s!"{s.val}|{showList showRat s.thickness}|{showList toString s.exits}"

def showSlices (l : List (Slice String Rat)) : String :=
  if l.isEmpty then "~" else ";".intercalate (l.map showSlice)

def showBuilt (b : Built String Rat) : String :=
  let row (r : List (Option String)) := showList (fun o => o.getD "z") r
  let rows := if b.rows.isEmpty then "~" else ";".intercalate (b.rows.map row)
  s!"{rows} {showList showRat b.thickness} {showList showInt b.exitPlanes}"

def reply {α} (f : α → String) : Except String α → String
  | .ok a => "ok " ++ f a
  | .error e => "err " ++ e

def spec? (s : String) : Option (Option (Int ⊕ List Int)) :=
  if s = "none" then some none
  else if s.startsWith "i:" then (parseInt? (s.drop 2).toString).map fun i => some (.inl i)
  else if s.startsWith "t:" then (parseList? parseInt? (s.drop 2).toString).map fun l => some (.inr l)
  else none

def blocksOf (k : Option Nat) : List Nat := match k with | none => [0] | some k => List.range k

def handle : List String → String
  | ["flags", eps, n] =>
    match parseList? parseInt? eps, parseNat? n with
    | some eps, some n => reply (showList showBool) (exitPlaneAfter eps n)
    | _, _ => "bad-op"
  | ["vep", spec, n] =>
    match spec? spec, parseNat? n with
    | some spec, some n => reply (showList showInt) (validateExitPlanes spec n)
    | _, _ => "bad-op"
  | ["gen", kind, ts, eps, first, last] =>
    match parseList? parseRat? ts, parseList? parseInt? eps, parseNat? first, parseOpt? parseInt? last with
    | some ts, some eps, some first, some last =>
      let r : Except String (List (Slice String Rat)) := do
        let flags ← exitPlaneAfter eps ts.length
        if kind = "atoms" then genAtoms ts flags (fun i => toString i) first last
        else if kind = "array" then genArray ts flags ((List.range ts.length).map toString) first last
        else throw "bad-op"
      match r with
      | .error "bad-op" => "bad-op"
      | r => reply showSlices r
    | _, _, _, _ => "bad-op"
  | ["gen", "crystal", uts, reps, eps, draws, first, last] =>
    match parseList? parseRat? uts, parseNat? reps, parseList? parseInt? eps, parseList? parseNat? draws, parseNat? first,
          parseOpt? parseInt? last with
    | some uts, some reps, some eps, some draws, some first, some last =>
      reply showSlices (do
        let flags ← exitPlaneAfter eps (uts.length * reps)
        pure (genCrystal uts flags reps (fun r => draws.getD r 0) (fun c j => s!"{c}.{j}") id first last))
    | _, _, _, _, _, _ => "bad-op"
  | [op, mode, "atoms", ts, eps, k, first, last] =>
    match parseList? parseRat? ts, parseList? parseInt? eps, parseOpt? parseNat? k, parseNat? first, parseOpt? parseInt? last with
    | some ts, some eps, some k, some first, some last =>
      let r : Except String (Built String Rat) := do
        -- `_exit_plane_after` is evaluated inside `generate_slices` of every block (its IndexError comes after the
        -- shape checks of `build`)
        let slicesOf := fun c => do
          let flags ← exitPlaneAfter eps ts.length
          genAtoms (T := Rat) ts flags (fun i => s!"{c}:{i}") first last
        match op, mode with
        | "build", "eager" => buildEager ts eps (blocksOf k) slicesOf first last
        | "build", "lazy" => buildLazy ts eps (blocksOf k) slicesOf first last
        | _, _ => throw "bad-op"
      match r with
      | .error "bad-op" => "bad-op"
      | r => reply showBuilt r
    | _, _, _, _, _ => "bad-op"
  | [op, mode, "crystal", uts, reps, eps, k, draws, first, last] =>
    match parseList? parseRat? uts, parseNat? reps, parseList? parseInt? eps, parseOpt? parseNat? k,
          parseListList? parseNat? draws, parseNat? first, parseOpt? parseInt? last with
    | some uts, some reps, some eps, some k, some draws, some first, some last =>
      let ts := crystalThickness uts reps
      let r : Except String (Built String Rat) := do
        let slicesOf := fun (c : Nat) => do
          let flags ← exitPlaneAfter eps ts.length
          (pure (genCrystal (T := Rat) uts flags reps (fun r => (draws.getD c []).getD r 0)
            (fun c j => s!"{c}.{j}") id first last) : Except String _)
        match op, mode with
        | "build", "eager" => buildEager ts eps (blocksOf k) slicesOf first last
        | "build", "lazy" => buildLazy ts eps (blocksOf k) slicesOf first last
        | _, _ => throw "bad-op"
      match r with
      | .error "bad-op" => "bad-op"
      | r => reply showBuilt r
    | _, _, _, _, _, _, _ => "bad-op"
  | _ => "bad-op"

def main : IO Unit := serve handle
