import AbtemVerif.Model.Proto
import AbtemVerif.Model.Units
open AbtemVerif AbtemVerif.Proto AbtemVerif.Units

/- Unit strings travel as `s:<text>` (so the empty string is `s:`), absent values as `none`.
   requests:
     `type <s:u>`                                   -> `ok <category|none>`
     `validate <s:u|none> <s:old|none>`             -> `ok <s:v|none>` | `err <kind>`
     `factor <pi> <s:u|none> <s:old|none> <wavelength|none>` -> `ok <p/q>` | `err <kind>`
     `axis <pi> <s:axis_units> <sampling> <offset> <s:u> <wavelength|none>` -> `ok <s:u> <sampling> <offset>` | `err <kind>`
   anything else -> `bad-op` -/
def str? (s : String) : Option String :=
  if s.startsWith "s:" then some (s.drop 2).toString else none

def optStr? (s : String) : Option (Option String) :=
  if s = "none" then some none else (str? s).map some

def showStr (s : String) : String := "s:" ++ s

def handle : List String → String
  | ["type", u] =>
    match str? u with
    | some u => s!"ok {showOpt id (unitsType u)}"
    | none => "bad-op"
  | ["validate", u, o] =>
    match optStr? u, optStr? o with
    | some u, some o =>
      match validateUnits u o with
      | .ok v => s!"ok {showOpt showStr v}"
      | .error e => s!"err {e}"
    | _, _ => "bad-op"
  | ["factor", pi, u, o, w] =>
    match parseRat? pi, optStr? u, optStr? o, parseOpt? parseRat? w with
    | some pi, some u, some o, some w =>
      match conversionFactor pi u o w with
      | .ok f => s!"ok {showRat f}"
      | .error e => s!"err {e}"
    | _, _, _, _ => "bad-op"
  | ["axis", pi, au, s, off, u, w] =>
    match parseRat? pi, str? au, parseRat? s, parseRat? off, str? u, parseOpt? parseRat? w with
    | some pi, some au, some s, some off, some u, some w =>
      match convertAxis pi au s off u w with
      | .ok (u', s', o') => s!"ok {showStr u'} {showRat s'} {showRat o'}"
      | .error e => s!"err {e}"
    | _, _, _, _, _, _ => "bad-op"
  | _ => "bad-op"

def main : IO Unit := serve handle
