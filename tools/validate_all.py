#!/usr/bin/env python3
"""Validate MANIFEST.json and every evidence/*.json against the schemas in /root/.vp (run with python3-vt)."""
import json, glob, sys, jsonschema
ms = json.load(open("/root/.vp/MANIFEST.schema.json")); es = json.load(open("/root/.vp/EVIDENCE.schema.json"))
man = json.load(open("MANIFEST.json")); jsonschema.validate(man, ms)
bad = 0
ids = [c["property_id"] for c in man["checks"]]
for i in ids:
    f = f"evidence/{i}.json"
    try:
        e = json.load(open(f)); jsonschema.validate(e, es)
        c = e["coverage"]
        if e.get("violations", 0) or c.get("broken") or c.get("discharged") != c.get("obligations") or e["tier"] != "quick" or c.get("repo") != "/repo":
            print(f, "NOT CLEAN:", "violations", e.get("violations"), "broken", c.get("broken"), "tier", e["tier"], "disch", c.get("discharged"), "/", c.get("obligations")); bad += 1
    except Exception as ex:
        print(f, "INVALID", str(ex)[:120]); bad += 1
print(f"manifest valid; {len(ids)} checks; {bad} evidence problems")
sys.exit(1 if bad else 0)
