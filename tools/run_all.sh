#!/bin/bash
# tools/run_all.sh [quick|thorough] [jobs]  — run every check registered in MANIFEST.json in parallel, summarise
cd "$(dirname "$0")/.."
tier="${1:-quick}"; jobs="${2:-6}"
ids=$(python3 -c "import json;print(' '.join(c['property_id'] for c in json.load(open('MANIFEST.json'))['checks']))")
mkdir -p /tmp/verif-runall
echo $ids | tr ' ' '\n' | xargs -P "$jobs" -I{} sh -c "./check {} --tier $tier > /tmp/verif-runall/{}.log 2>&1; echo {} rc=\$? \$(grep -c '^VIOLATION' /tmp/verif-runall/{}.log) violations \$(grep -c '^KNOWN-FINDING' /tmp/verif-runall/{}.log) known \$(tail -1 /tmp/verif-runall/{}.log | cut -c1-160)"
