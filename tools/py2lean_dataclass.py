"""py2lean emitter (C30): the `@dataclass` declarations of one module as a Lean table
`List AbtemVerif.Json.ClassDecl` (class name, base names, own annotated fields with their literal defaults).
Used through the generic `emitter` hook of tools/py2lean.py: site = {gen, name, file, emitter: "py2lean_dataclass:emit"}."""
import ast
import hashlib


class _Unsupported(Exception):
    pass


def _is_dataclass(dec):
    f = dec.func if isinstance(dec, ast.Call) else dec
    return (isinstance(f, ast.Name) and f.id == "dataclass") or (isinstance(f, ast.Attribute) and f.attr == "dataclass")


def _lean_str(s):
    return '"' + s.replace("\\", "\\\\").replace('"', '\\"') + '"'


def _default(node):
    if node is None:
        raise _Unsupported("field without default")
    if isinstance(node, ast.Constant):
        v = node.value
        if v is None:
            return ".none"
        if isinstance(v, bool):
            return f".bool {'true' if v else 'false'}"
        if isinstance(v, int):
            return f".int ({v})"
        if isinstance(v, float):
            return f".float {_lean_str(repr(v))}"
        if isinstance(v, str):
            return f".str {_lean_str(v)}"
    if isinstance(node, ast.Tuple) and not node.elts:
        return ".tuple []"
    raise _Unsupported(f"default {ast.unparse(node)}")


def emit(src, site, mode):
    from py2lean import Unsupported
    rows = []
    bodies = []
    for f in [site["file"]] + list(site.get("more_files", [])):
        bodies += src.tree(f).body
    for n in bodies:
        if not (isinstance(n, ast.ClassDef) and any(_is_dataclass(d) for d in n.decorator_list)):
            continue
        fields = []
        for st in n.body:
            if isinstance(st, ast.AnnAssign) and isinstance(st.target, ast.Name):
                try:
                    fields.append(f"({_lean_str(st.target.id)}, {_default(st.value)})")
                except _Unsupported as e:
                    raise Unsupported(f"{n.name}.{st.target.id}: {e}")
        bases = ", ".join(_lean_str(ast.unparse(b)) for b in n.bases)
        rows.append(f"  ⟨{_lean_str(n.name)}, [{bases}], [{', '.join(fields)}]⟩")
    if not rows:
        raise Unsupported("no dataclass found")
    body = "[\n" + ",\n".join(rows) + "]"
    text = (f"/-- `@dataclass` declarations of {site['file']} (name, bases, own fields with defaults) -/\n"
            f"def {site['name']} : List AbtemVerif.Json.ClassDecl :=\n{body}\n")
    return text, {"rows": len(rows), "sha": hashlib.sha256(body.encode()).hexdigest()[:16]}
