"""py2lean emitters for *row-wise numpy functions* and *function-returned literal tables*
(kept in a separate file; the shared translator only dispatches through `site["emitter"]`).

emit_rowfn
    Whole-function translation of a function whose array argument is an integer array of
    shape (N, k) with a fixed, small k (Miller indices: k = 3) and whose result is one value
    per row.  The Lean definition is the function of ONE row (its k entries are separate
    `Int` binders) and of one string parameter the Python code dispatches on with an
    `if/elif/else` chain of `<param>.lower() == "<lit>"` tests.  The number of array
    dimensions of every sub-expression is tracked statically, so a reduction along an axis
    that does not exist (`x.all(axis=1)` on a 1-D array: numpy raises AxisError, a subclass
    of ValueError and IndexError) is translated to the error it raises — the model keeps the
    bug.  Result type: `Except String <ret>`.

    Supported per-row expression forms: the array parameter, local names, int/bool literals,
    `% + - *` (on bool arrays `+` is logical or and `*` logical and, as in numpy), comparisons,
    `& | ~`, `x[:, [i, j]]`, `x[:, i]`, `.all(axis=1) .any(axis=1) .sum(axis=1)` (axis 1 or -1),
    `np.ones(len(x), dtype=bool)`, `np.zeros(len(x), dtype=bool)`.

emit_centering_table
    A function whose body is `return {<str>: np.array([[num, ...], ...]), ...}`: emitted as
    `List (String × List (List Rat))` (exact rationals of the decimal text).
"""
from __future__ import annotations

import ast
import hashlib
import sys
from fractions import Fraction


def _P():
    m = sys.modules.get("__main__")
    if m is not None and hasattr(m, "Tx") and hasattr(m, "Unsupported"):
        return m
    import importlib

    return importlib.import_module("py2lean")


def _unsupported(msg):
    return _P().Unsupported(msg)


class _StaticRaise(Exception):
    def __init__(self, kind, why):
        super().__init__(why)
        self.kind = kind
        self.why = why


EXC_KIND = {"ValueError": "value_error", "RuntimeError": "runtime_error", "IndexError": "index_error", "KeyError": "key_error",
            "TypeError": "type_error", "NotImplementedError": "not_implemented"}


class _V:
    """typed per-row value: ndim 2 -> `items` is the list of the k entries, ndim 1 -> one entry"""

    def __init__(self, ndim, ty, items):
        self.ndim, self.ty, self.items = ndim, ty, items

    @property
    def one(self):
        assert self.ndim == 1
        return self.items[0]


class RowTx:
    def __init__(self, row_param, row_names):
        self.row_param = row_param
        self.row_names = row_names
        self.locals = {}

    def bcast(self, a: _V, b: _V):
        if a.ndim == b.ndim:
            if len(a.items) != len(b.items):
                raise _StaticRaise("value_error", "operands could not be broadcast together")
            return a.items, b.items, a.ndim
        if a.ndim == 0:
            return [a.items[0]] * len(b.items), b.items, b.ndim
        if b.ndim == 0:
            return a.items, [b.items[0]] * len(a.items), a.ndim
        # (N,k) with (N,): numpy broadcasts trailing axes, i.e. needs N == k — not a per-row operation
        raise _unsupported("broadcast of a 2-D with a 1-D array")

    def axis_of(self, call):
        ax = None
        if call.args:
            ax = call.args[0]
        for kw in call.keywords:
            if kw.arg == "axis":
                ax = kw.value
            else:
                raise _unsupported(f"keyword {kw.arg}")
        if ax is None:
            raise _unsupported("reduction over all axes is not a per-row operation")
        v = ast.literal_eval(ax)
        if not isinstance(v, int):
            raise _unsupported("axis is not an int literal")
        return v

    def e(self, n) -> _V:
        if isinstance(n, ast.Name):
            if n.id in self.locals:
                return self.locals[n.id]
            if n.id == self.row_param:
                return _V(2, "Int", list(self.row_names))
            raise _unsupported(f"free name {n.id}")
        if isinstance(n, ast.Constant):
            if isinstance(n.value, bool):
                return _V(0, "Bool", ["true" if n.value else "false"])
            if isinstance(n.value, int):
                return _V(0, "Int", [f"({n.value})" if n.value < 0 else str(n.value)])
            raise _unsupported(f"literal {n.value!r}")
        if isinstance(n, ast.UnaryOp):
            a = self.e(n.operand)
            if isinstance(n.op, ast.USub) and a.ty == "Int":
                return _V(a.ndim, "Int", [f"(-{x})" for x in a.items])
            if isinstance(n.op, ast.Invert) and a.ty == "Bool":
                return _V(a.ndim, "Bool", [f"(!{x})" for x in a.items])
            raise _unsupported(f"unary {ast.unparse(n)}")
        if isinstance(n, ast.BinOp):
            a, b = self.e(n.left), self.e(n.right)
            xs, ys, nd = self.bcast(a, b)
            op = type(n.op)
            if a.ty == "Int" and b.ty == "Int":
                fmt = {ast.Add: "({} + {})", ast.Sub: "({} - {})", ast.Mult: "({} * {})", ast.Mod: "(pyMod {} {})",
                       ast.FloorDiv: "(pyFloorDiv {} {})"}.get(op)
                if fmt is None:
                    raise _unsupported(f"operator in {ast.unparse(n)}")
                return _V(nd, "Int", [fmt.format(x, y) for x, y in zip(xs, ys)])
            if a.ty == "Bool" and b.ty == "Bool":
                fmt = {ast.Add: "({} || {})", ast.BitOr: "({} || {})", ast.Mult: "({} && {})", ast.BitAnd: "({} && {})",
                       ast.BitXor: "(xor {} {})"}.get(op)
                if fmt is None:
                    raise _unsupported(f"operator in {ast.unparse(n)}")
                return _V(nd, "Bool", [fmt.format(x, y) for x, y in zip(xs, ys)])
            raise _unsupported(f"mixed int/bool arithmetic in {ast.unparse(n)}")
        if isinstance(n, ast.Compare) and len(n.ops) == 1:
            a, b = self.e(n.left), self.e(n.comparators[0])
            xs, ys, nd = self.bcast(a, b)
            if a.ty != b.ty:
                raise _unsupported(f"comparison of {a.ty} with {b.ty}")
            op = {ast.Lt: "<", ast.LtE: "≤", ast.Gt: ">", ast.GtE: "≥", ast.Eq: "=", ast.NotEq: "≠"}.get(type(n.ops[0]))
            if op is None or (a.ty == "Bool" and op not in ("=", "≠")):
                raise _unsupported(f"comparison {ast.unparse(n)}")
            return _V(nd, "Bool", [f"(decide ({x} {op} {y}))" for x, y in zip(xs, ys)])
        if isinstance(n, ast.Subscript):
            a = self.e(n.value)
            sl = n.slice
            if not (isinstance(sl, ast.Tuple) and len(sl.elts) == 2 and isinstance(sl.elts[0], ast.Slice)
                    and sl.elts[0].lower is None and sl.elts[0].upper is None and sl.elts[0].step is None):
                raise _unsupported(f"subscript {ast.unparse(n)}")
            if a.ndim != 2:
                raise _StaticRaise("index_error", "too many indices for array")
            col = ast.literal_eval(sl.elts[1])
            k = len(a.items)

            def pick(i):
                if not isinstance(i, int) or isinstance(i, bool):
                    raise _unsupported("column index is not an int literal")
                if not -k <= i < k:
                    raise _StaticRaise("index_error", f"index {i} is out of bounds for axis 1 with size {k}")
                return a.items[i]

            if isinstance(col, list):
                return _V(2, a.ty, [pick(i) for i in col])
            return _V(1, a.ty, [pick(col)])
        if isinstance(n, ast.Call):
            f = n.func
            if isinstance(f, ast.Attribute) and f.attr in ("all", "any", "sum") and not (
                    isinstance(f.value, ast.Name) and f.value.id in ("np", "xp", "numpy")):
                a = self.e(f.value)
                ax = self.axis_of(n)
                if a.ndim == 0:
                    raise _unsupported("reduction of a scalar")
                if not -a.ndim <= ax < a.ndim:
                    # numpy.exceptions.AxisError(ValueError, IndexError)
                    raise _StaticRaise("value_error", f"AxisError: axis {ax} is out of bounds for array of dimension {a.ndim}")
                if ax % a.ndim != a.ndim - 1 or a.ndim != 2:
                    raise _unsupported("reduction along the row axis (axis 0) is not a per-row operation")
                if f.attr == "sum":
                    if a.ty == "Int":
                        return _V(1, "Int", ["(" + " + ".join(a.items) + ")" if a.items else "0"])
                    raise _unsupported("sum of a boolean array")
                if a.ty != "Bool":
                    raise _unsupported(f"{f.attr} of an integer array")
                j = " && " if f.attr == "all" else " || "
                unit = "true" if f.attr == "all" else "false"
                return _V(1, "Bool", ["(" + j.join(a.items) + ")" if a.items else unit])
            if isinstance(f, ast.Attribute) and isinstance(f.value, ast.Name) and f.value.id in ("np", "xp", "numpy") \
                    and f.attr in ("ones", "zeros"):
                ok = (len(n.args) == 1 and ast.unparse(n.args[0]) == f"len({self.row_param})"
                      and len(n.keywords) == 1 and n.keywords[0].arg == "dtype" and ast.unparse(n.keywords[0].value) == "bool")
                if not ok:
                    raise _unsupported(f"call {ast.unparse(n)}")
                return _V(1, "Bool", ["true" if f.attr == "ones" else "false"])
            raise _unsupported(f"call {ast.unparse(n)[:80]}")
        raise _unsupported(f"node {type(n).__name__}: {ast.unparse(n)[:80]}")


def _test(n, str_param, lean_param):
    """`<str_param>.lower() == "<lit>"`  ->  `(<lean_param> == "<lit>")` (the Lean parameter IS the lowered string)"""
    if (isinstance(n, ast.Compare) and len(n.ops) == 1 and isinstance(n.ops[0], ast.Eq)
            and ast.unparse(n.left) == f"{str_param}.lower()" and isinstance(n.comparators[0], ast.Constant)
            and isinstance(n.comparators[0].value, str)):
        lit = n.comparators[0].value
        if '"' in lit or "\\" in lit or lit != lit.lower():
            raise _unsupported(f"string literal {lit!r}")
        return f'({lean_param} == "{lit}")'
    raise _unsupported(f"test {ast.unparse(n)[:80]}")


def _block(stmts, site, indent):
    tx = RowTx(site["row_param"], site["row_names"])
    pad = " " * indent
    lines = []
    try:
        for st in stmts:
            if isinstance(st, ast.Expr) and isinstance(st.value, ast.Constant) and isinstance(st.value.value, str):
                continue
            if isinstance(st, ast.Assign) and len(st.targets) == 1 and isinstance(st.targets[0], ast.Name):
                v = tx.e(st.value)
                name = st.targets[0].id
                if v.ndim == 2:
                    tx.locals[name] = v  # rows stay symbolic (inlined)
                else:
                    lines.append(f"{pad}let {name}_ : {v.ty} := {v.items[0]}")
                    tx.locals[name] = _V(v.ndim, v.ty, [f"{name}_"])
                continue
            if isinstance(st, ast.Return) and st.value is not None:
                v = tx.e(st.value)
                if v.ndim != 1:
                    raise _unsupported("the function does not return one value per row")
                if v.ty != site.get("ret", "Bool"):
                    raise _unsupported(f"returns {v.ty}, site declares {site.get('ret', 'Bool')}")
                lines.append(f"{pad}.ok {v.items[0]}")
                return lines, None
            if isinstance(st, ast.Raise):
                exc = st.exc
                cls = exc.func.id if isinstance(exc, ast.Call) and isinstance(exc.func, ast.Name) else getattr(exc, "id", None)
                if cls not in EXC_KIND:
                    raise _unsupported(f"raise {ast.unparse(st)[:60]}")
                lines.append(f'{pad}.error "{EXC_KIND[cls]}"')
                return lines, None
            raise _unsupported(f"statement {type(st).__name__}: {ast.unparse(st)[:60]}")
    except _StaticRaise as r:
        return [f'{pad}.error "{r.kind}" /- the Python expression raises for every input: {r.why} -/'], r.why
    raise _unsupported("branch falls through without return")


def emit_rowfn(src, site, mode):
    if mode != "rat":
        raise _unsupported("row functions are integer valued (mode rat only)")
    strip_doc = _P().strip_doc
    fn = src.func(site["file"], site["func"])
    body = [st for st in fn.body if not (isinstance(st, ast.Expr) and isinstance(st.value, ast.Constant))]
    if len(body) != 1 or not isinstance(body[0], ast.If):
        raise _unsupported("body is not a single if/elif/else chain")
    lean_param = site["str_lean"]
    out = []
    static = {}
    node = body[0]
    first = True
    while True:
        test = _test(node.test, site["str_param"], lean_param)
        out.append(("  if " if first else "  else if ") + test + " then")
        lines, why = _block(node.body, site, 4)
        if why:
            static[test] = why
        out += lines
        first = False
        if len(node.orelse) == 1 and isinstance(node.orelse[0], ast.If):
            node = node.orelse[0]
            continue
        if not node.orelse:
            raise _unsupported("chain without else (falls through returning None)")
        out.append("  else")
        lines, why = _block(node.orelse, site, 4)
        out += lines
        break
    binders = f"({lean_param} : String) " + " ".join(f"({r} : Int)" for r in site["row_names"])
    head = (f"/-- {site['file']}:{fn.lineno} whole function `{site['func']}` for ONE row of `{site['row_param']}`; "
            f"`{lean_param}` is `{site['str_param']}.lower()` -/\n")
    lean = head + f"def {site['name']} {binders} : Except String {site.get('ret', 'Bool')} :=\n" + "\n".join(out) + "\n"
    return lean, {
        "line": fn.lineno,
        "python": ast.unparse(strip_doc(fn))[:900],
        "sha": hashlib.sha256(ast.dump(strip_doc(fn)).encode()).hexdigest()[:16],
        "whole_function": True,
        "statically_raising_branches": static,
    }


def emit_centering_table(src, site, mode):
    if mode != "rat":
        raise _unsupported("mode rat only")
    fn = src.func(site["file"], site["func"])
    text = (src.repo / site["file"]).read_text()
    rets = [n for n in ast.walk(fn) if isinstance(n, ast.Return)]
    if len(rets) != 1 or not isinstance(rets[0].value, ast.Dict):
        raise _unsupported("not a single `return {...}`")
    d = rets[0].value
    rows = []
    for k, v in zip(d.keys, d.values):
        if not (isinstance(k, ast.Constant) and isinstance(k.value, str)):
            raise _unsupported("non-string key")
        if isinstance(v, ast.Call) and ast.unparse(v.func) in ("np.array", "numpy.array") and len(v.args) == 1 and not v.keywords:
            v = v.args[0]
        if not isinstance(v, (ast.List, ast.Tuple)):
            raise _unsupported("value is not a nested list literal")
        vecs = []
        for r in v.elts:
            if not isinstance(r, (ast.List, ast.Tuple)):
                raise _unsupported("row is not a list literal")
            nums = []
            for c in r.elts:
                neg = False
                if isinstance(c, ast.UnaryOp) and isinstance(c.op, ast.USub):
                    neg, c = True, c.operand
                if not (isinstance(c, ast.Constant) and isinstance(c.value, (int, float)) and not isinstance(c.value, bool)):
                    raise _unsupported(f"entry {ast.unparse(c)}")
                seg = ast.get_source_segment(text, c)
                f = Fraction(seg) if seg else Fraction(repr(c.value))
                f = -f if neg else f
                nums.append(f"({f.numerator} : Rat)" + (f" / {f.denominator}" if f.denominator != 1 else ""))
            vecs.append("[" + ", ".join(nums) + "]")
        rows.append(f'  ("{k.value}", [' + ", ".join(vecs) + "])")
    head = f"/-- {site['file']}:{fn.lineno} `{site['func']}` :: the returned dict literal -/\n"
    lean = head + f"def {site['name']} : List (String × List (List Rat)) :=\n  [\n" + ",\n".join(rows) + "]\n"
    return lean, {"line": fn.lineno, "rows": len(rows), "sha": hashlib.sha256(ast.dump(d).encode()).hexdigest()[:16]}


class _MatMulOut(ast.NodeTransformer):
    """`(c * P) @ H` -> `c * <P@H>` (bilinearity of the matrix product; `c` must not contain a matrix operand):
    the product `P @ H` itself becomes one named parameter of the generated definition"""

    def __init__(self, mapping):
        self.mapping = mapping
        self.used = set()

    def visit_BinOp(self, n):
        n = self.generic_visit(n)
        if isinstance(n.op, ast.MatMult):
            left, right = n.left, n.right
            if isinstance(left, ast.BinOp) and isinstance(left.op, ast.Mult):
                c, p = left.left, left.right
            else:
                c, p = None, left
            key = f"{ast.unparse(p)} @ {ast.unparse(right)}"
            if key not in self.mapping:
                raise _unsupported(f"matrix product {key} is not declared in site['matmul']")
            if c is not None and any(isinstance(x, ast.Name) and x.id not in ("np", "xp", "math", "numpy") for x in ast.walk(c)):
                raise _unsupported(f"non-constant factor {ast.unparse(c)} in front of a matrix product")
            self.used.add(key)
            ph = ast.Name(id=self.mapping[key], ctx=ast.Load())
            return ast.copy_location(ph if c is None else ast.BinOp(left=c, op=ast.Mult(), right=ph), n)
        return n


def emit_matmul_site(src, site, mode):
    """expression site in which matrix products `P @ H` (declared in site['matmul']: python text -> Lean parameter) are
    read as opaque per-entry values, after pulling constant scalar factors out of the product"""
    P = _P()
    fn = src.func(site["file"], site["func"])
    text = (src.repo / site["file"]).read_text()
    node = P.select(fn, tuple(site["select"]))
    orig = ast.unparse(node)
    tr = _MatMulOut(site["matmul"])
    node2 = ast.fix_missing_locations(tr.visit(ast.parse(orig, mode="eval").body))
    if tr.used != set(site["matmul"]):
        raise _unsupported(f"matrix products {sorted(set(site['matmul']) - tr.used)} not found")
    pm = dict(site["params_map"])
    for lean in site["matmul"].values():
        pm[lean] = lean
    tx = P.Tx(mode, pm, ast.unparse(node2), {})
    body = tx.e(node2)
    sc = P.SCALAR[mode]
    binders = " ".join(f"({p} : {sc})" for p in site["params"])
    nc = "noncomputable " if mode in ("real", "cplx") else ""
    head = f"/-- {site['file']}:{node.lineno} `{site['func']}` :: `{orig[:300]}` -/\n"
    return head + f"{nc}def {site['name']} {binders} : {sc} :=\n  {body}\n", {
        "line": node.lineno, "python": orig[:400], "sha": hashlib.sha256(ast.dump(node).encode()).hexdigest()[:16]}


def emit_copy_flag(src, site, mode):
    """static fact about an assignment: is the selected right-hand side an explicit `<expr>.copy()` (a fresh, writable array)?
    Emitted as a `Bool` constant that hand models use for the writability of the array they then modify in place."""
    P = _P()
    fn = src.func(site["file"], site["func"])
    node = P.select(fn, tuple(site["select"]))
    is_copy = (isinstance(node, ast.Call) and isinstance(node.func, ast.Attribute) and node.func.attr == "copy"
               and not node.args and not node.keywords)
    val = "true" if is_copy else "false"
    head = f"/-- {site['file']}:{node.lineno} `{site['func']}` :: `{ast.unparse(node)[:200]}` is{'' if is_copy else ' NOT'} an explicit copy -/\n"
    return head + f"def {site['name']} : Bool := {val}\n", {
        "line": node.lineno, "python": ast.unparse(node)[:300], "value": is_copy,
        "sha": hashlib.sha256(ast.dump(node).encode()).hexdigest()[:16]}
