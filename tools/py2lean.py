#!/usr/bin/env python3
"""py2lean — restricted Python-AST -> Lean 4 translator (DESIGN.md §2.2).

Reads the *working tree* of the repository and regenerates
`lean/AbtemVerif/Gen/<Module>.lean` (exact `Rat`/`Int`, executable, core Lean only),
`<Module>R.lean` (ℝ, noncomputable, Mathlib) and `<Module>F.lean` (`Float`, executable)
from the sites registered in `tools/sites.py`.  Property theorems are stated about these
generated definitions (directly or through a bridge lemma), so a semantic edit of a
registered expression changes the definition the proofs are checked against.

A site that leaves the supported subset makes the translator exit 3 and records the
reason in Gen/report.json; the generated file then keeps a `-- FAILED` marker and a
definition that does not type-check, so that dependants cannot silently build against a
stale model.  Fingerprints (sha256 of the normalised AST) of every hand-modelled
function listed in sites.FINGERPRINTS are written to report.json as well.

Only stdlib (`ast`) is used, so any python3 can run it.
"""
from __future__ import annotations

import argparse
import ast
import hashlib
import json
import os
import sys
from fractions import Fraction
from pathlib import Path

HERE = Path(__file__).resolve().parent
sys.path.insert(0, str(HERE))


class Unsupported(Exception):
    pass


# ------------------------------------------------------------------ source access
class Source:
    def __init__(self, repo: Path):
        self.repo = repo
        self.cache = {}

    def tree(self, rel: str) -> ast.Module:
        if rel not in self.cache:
            self.cache[rel] = ast.parse((self.repo / rel).read_text())
        return self.cache[rel]

    def func(self, rel: str, qualname: str) -> ast.FunctionDef:
        node = self.tree(rel)
        for part in qualname.split("."):
            # "name@k" picks the k-th definition of that name (property getter @0 / setter @1); default: the last one
            part, _, idx = part.partition("@")
            found = [ch for ch in node.body
                     if isinstance(ch, (ast.FunctionDef, ast.ClassDef, ast.AsyncFunctionDef)) and ch.name == part]
            if not found or (idx and int(idx) >= len(found)):
                raise Unsupported(f"{rel}:{qualname} not found")
            node = found[int(idx)] if idx else found[-1]
        return node


def strip_doc(fn):
    fn = ast.parse(ast.unparse(fn)).body[0]
    for n in ast.walk(fn):
        if isinstance(n, (ast.FunctionDef, ast.ClassDef, ast.AsyncFunctionDef)):
            if n.body and isinstance(n.body[0], ast.Expr) and isinstance(getattr(n.body[0], "value", None), ast.Constant) \
                    and isinstance(n.body[0].value.value, str):
                n.body = n.body[1:] or [ast.Pass()]
    return fn


def fingerprint(node) -> str:
    return hashlib.sha256(ast.dump(strip_doc(node), include_attributes=False).encode()).hexdigest()[:16]


def select(fn: ast.AST, sel):
    """sel = ("assign", var, k) | ("return", k) | ("augassign", var, k) | ("subscript_assign", src, k)
    | ("expr_in", python-source-of-enclosing-call, argindex) ; returns the expression node"""
    kind = sel[0]
    hits = []
    for n in ast.walk(fn):
        if kind == "assign" and isinstance(n, (ast.Assign, ast.AnnAssign)):
            targets = n.targets if isinstance(n, ast.Assign) else [n.target]
            for t in targets:
                if ast.unparse(t) == sel[1] and n.value is not None:
                    hits.append((n.lineno, n.col_offset, n.value))
        elif kind == "augassign" and isinstance(n, ast.AugAssign) and ast.unparse(n.target) == sel[1]:
            hits.append((n.lineno, n.col_offset, n.value))
        elif kind == "augassign_expr" and isinstance(n, ast.AugAssign) and ast.unparse(n.target) == sel[1]:
            # `t op= v` read as the expression `t op v` (keeps the operator in the generated definition)
            hits.append((n.lineno, n.col_offset, ast.copy_location(ast.BinOp(left=n.target, op=n.op, right=n.value), n)))
        elif kind == "return" and isinstance(n, ast.Return) and n.value is not None:
            hits.append((n.lineno, n.col_offset, n.value))
        elif kind == "kwarg" and isinstance(n, ast.keyword) and n.arg == sel[1]:
            hits.append((n.value.lineno, n.value.col_offset, n.value))
        elif kind in ("subscript_index", "subscript_value") and isinstance(n, ast.Assign) and any(
                isinstance(t, ast.Subscript) and ast.unparse(t.value) == sel[1] for t in n.targets):
            # ("subscript_index", var, k) / ("subscript_value", var, k): mask / value of the k-th `var[mask] = value`
            t = [t for t in n.targets if isinstance(t, ast.Subscript) and ast.unparse(t.value) == sel[1]][0]
            hits.append((n.lineno, n.col_offset, t.slice if kind == "subscript_index" else n.value))
        elif kind in ("slice_lower", "slice_upper") and isinstance(n, ast.Assign) and any(
                isinstance(t, ast.Subscript) and isinstance(t.slice, ast.Slice) and ast.unparse(t.value) == sel[1]
                for t in n.targets):
            # ("slice_lower"|"slice_upper", var, k): that bound of the k-th `var[lo:hi] = value` which has such a bound
            t = [t for t in n.targets if isinstance(t, ast.Subscript) and isinstance(t.slice, ast.Slice)
                 and ast.unparse(t.value) == sel[1]][0]
            b = t.slice.lower if kind == "slice_lower" else t.slice.upper
            if b is not None:
                hits.append((n.lineno, n.col_offset, b))
        elif kind == "method_base" and isinstance(n, ast.Call) and isinstance(n.func, ast.Attribute) and n.func.attr == sel[1]:
            # ("method_base", method, k): the object expression of the k-th call `<expr>.method(...)`, e.g. the summand of `.sum(axis=…)`
            hits.append((n.lineno, n.col_offset, n.func.value))
        elif kind == "iftest" and isinstance(n, (ast.If, ast.IfExp, ast.While)) and (
                len(sel) == 2 or sel[1] in ast.unparse(n.test)):
            # ("iftest", k) / ("iftest", substring, k): the test of the k-th `if`/`elif`/conditional
            # expression/`while` of the function (whose source contains `substring`)
            hits.append((n.test.lineno, n.test.col_offset, n.test))
        elif kind == "elt" and isinstance(n, (ast.GeneratorExp, ast.ListComp)) and (
                len(sel) == 2 or sel[1] in ast.unparse(n.elt)):
            # ("elt", k) / ("elt", substring, k): the element expression of the k-th comprehension
            hits.append((n.lineno, n.col_offset, n.elt))
        elif kind == "subscript_load" and isinstance(n, ast.Subscript) and isinstance(n.ctx, ast.Load) and ast.unparse(n.value) == sel[1]:
            # ("subscript_load", var, k): the k-th expression `var[...]` read in the function (use `path` for slice bounds)
            hits.append((n.lineno, n.col_offset, n))
        elif kind == "callarg" and isinstance(n, ast.Call) and len(n.args) > sel[2] and (
                (isinstance(n.func, ast.Name) and n.func.id == sel[1])
                or (isinstance(n.func, ast.Attribute) and n.func.attr == sel[1])):
            # ("callarg", funcname, argindex, k): positional argument `argindex` of the k-th call of `funcname`
            hits.append((n.lineno, n.col_offset, n.args[sel[2]]))
    hits.sort(key=lambda h: (h[0], h[1]))
    k = sel[-1]
    if k >= len(hits):
        raise Unsupported(f"selector {sel}: only {len(hits)} matches")
    return hits[k][2]


# ------------------------------------------------------------------ expression translation
FUNCS = {
    # python name -> (rat, real, float)
    "sqrt": (None, "Real.sqrt", "Float.sqrt"),
    "exp": (None, "Real.exp", "Float.exp"),
    "cos": (None, "Real.cos", "Float.cos"),
    "sin": (None, "Real.sin", "Float.sin"),
    "tan": (None, "Real.tan", "Float.tan"),
    "arctan": (None, "Real.arctan", "Float.atan"),
    "log": (None, "Real.log", "Float.log"),
    "abs": ("pyAbs", "abs", "Float.abs"),
    "floor": ("pyFloor", "pyFloorR", "Float.floor"),
    "ceil": ("pyCeil", "pyCeilR", "Float.ceil"),
    "int": ("pyInt", "pyIntR", "pyIntF"),
    "float": ("", "", ""),
    "tuple": ("", "", ""),  # tuple(x) of a tuple-valued parameter: identity
    "min": ("min", "min", "pyMinF"),
    "max": ("max", "max", "pyMaxF"),
    "minimum": ("min", "min", "pyMinF"),
    "maximum": ("max", "max", "pyMaxF"),
    "arctan2": (None, "pyArctan2", "Float.atan2"),
    "clip": ("pyClip", "pyClipR", "pyClipF"),
}
MODE_IDX = {"rat": 0, "real": 1, "float": 2}
SCALAR = {"rat": "Rat", "real": "ℝ", "float": "Float", "cplx": "ℂ"}
# mode "cplx" (Gen/<M>C.lean): everything is read over ℂ (real parameters are coerced by the site's params_map), `1.0j` -> Complex.I
CPLX_FUNCS = {"cos": "Complex.cos", "sin": "Complex.sin", "exp": "Complex.exp", "conjugate": "(starRingEnd ℂ)", "conj": "(starRingEnd ℂ)",
              # numpy angle / abs of a complex number, re-embedded in ℂ (real-valued results stay real by construction)
              "angle": "(fun z : ℂ => ((Complex.arg z : ℝ) : ℂ))", "abs": "(fun z : ℂ => ((‖z‖ : ℝ) : ℂ))"}


def lit(value, mode: str, text: str | None = None) -> str:
    if isinstance(value, bool):
        return "true" if value else "false"
    if isinstance(value, complex):
        if mode != "cplx" or value.real != 0:
            raise Unsupported(f"complex literal {value!r} in mode {mode}")
        f = Fraction(repr(value.imag))
        return f"((({f.numerator} : ℂ) / {f.denominator}) * Complex.I)"
    if mode == "cplx":
        f = Fraction(text) if (text is not None and isinstance(value, float)) else Fraction(repr(value))
        return f"(({f.numerator} : ℂ) / {f.denominator})" if f.denominator != 1 else f"({f.numerator} : ℂ)"
    if isinstance(value, int):
        if mode == "float":
            return f"({value} : Float)" if value >= 0 else f"(-{-value} : Float)"
        return f"({value})" if value < 0 else str(value)
    if isinstance(value, float):
        if mode == "float":
            r = repr(value)
            if "e" in r or "E" in r or "inf" in r or "nan" in r:
                f = Fraction(value)
                return f"(({f.numerator} : Float) / ({f.denominator} : Float))"
            return f"({r} : Float)" if value >= 0 else f"(-{repr(-value)} : Float)"
        # exact rational reading of the decimal text the programmer wrote
        f = Fraction(text) if text is not None else Fraction(repr(value))
        ty = SCALAR[mode]
        if f.denominator == 1:
            return f"({f.numerator} : {ty})"
        return f"(({f.numerator} : {ty}) / {f.denominator})"
    raise Unsupported(f"literal {value!r}")


class Tx:
    def __init__(self, mode: str, params: dict, src_text: str = "", inline: dict | None = None, int_names=()):
        self.mode = mode
        self.params = params  # python source text (normalised by ast.unparse) -> lean name
        self.src_text = src_text
        self.inline = inline or {}
        self.int_names = set(int_names)
        self.site = None  # set by emitters; sites with "ext": True route through tools/py2lean_ext.py first

    def f(self, name):
        if self.mode == "cplx":
            if name not in CPLX_FUNCS:
                raise Unsupported(f"function {name} in mode cplx")
            return CPLX_FUNCS[name]
        if name not in FUNCS or FUNCS[name][MODE_IDX[self.mode]] is None:
            raise Unsupported(f"function {name} in mode {self.mode}")
        return FUNCS[name][MODE_IDX[self.mode]]

    def e(self, n: ast.AST) -> str:
        key = ast.unparse(n)
        if key in self.params:
            return self.params[key]
        if self.site is not None and self.site.get("ext"):
            import py2lean_ext

            r = py2lean_ext.tx_hook(self, n)
            if r is not None:
                return r
        if isinstance(n, ast.Constant):
            text = ast.get_source_segment(self.src_text, n) if self.src_text else None
            if isinstance(n.value, float) and text is not None:
                try:
                    Fraction(text)
                except Exception:
                    text = None
            return lit(n.value, self.mode, text if isinstance(n.value, float) else None)
        if isinstance(n, ast.Name):
            if n.id in self.inline:
                return "(" + self.e(self.inline[n.id]) + ")"
            raise Unsupported(f"free name {n.id}")
        if isinstance(n, ast.Attribute):
            if key in ("np.pi", "math.pi", "xp.pi", "numpy.pi"):
                return {"rat": None, "real": "Real.pi", "float": "(3.141592653589793 : Float)", "cplx": "(Real.pi : ℂ)"}[self.mode] or self._bad("pi in rat mode")
            raise Unsupported(f"attribute {key}")
        if isinstance(n, ast.UnaryOp):
            if isinstance(n.op, ast.USub):
                return f"(-{self.e(n.operand)})"
            if isinstance(n.op, ast.UAdd):
                return self.e(n.operand)
            if isinstance(n.op, ast.Not):
                return f"(!{self.e(n.operand)})"
        if isinstance(n, ast.BinOp) and isinstance(n.op, ast.Mult) and isinstance(n.left, (ast.List, ast.Tuple)):
            # sequence repetition `[a, b] * n` / `(a,) * n` -> pyRepeat [a, b] n  (PyPrelude; n <= 0 gives the empty list)
            return f"(pyRepeat [{', '.join(self.e(x) for x in n.left.elts)}] {self.e(n.right)})"
        if isinstance(n, ast.BinOp):
            a, b = self.e(n.left), self.e(n.right)
            if isinstance(n.op, ast.Add):
                return f"({a} + {b})"
            if isinstance(n.op, ast.Sub):
                return f"({a} - {b})"
            if isinstance(n.op, ast.Mult):
                return f"({a} * {b})"
            if isinstance(n.op, ast.Div):
                return f"({a} / {b})"
            if isinstance(n.op, (ast.BitAnd, ast.BitOr)):  # numpy elementwise and/or on boolean masks
                return f"({a} {'&&' if isinstance(n.op, ast.BitAnd) else '||'} {b})"
            if isinstance(n.op, ast.FloorDiv):
                return f"(pyFloorDiv {a} {b})"
            if isinstance(n.op, ast.Mod):
                return f"(pyMod {a} {b})"
            if isinstance(n.op, ast.Pow):
                if isinstance(n.right, ast.Constant) and isinstance(n.right.value, int) and n.right.value >= 0:
                    if self.mode == "float":
                        return "(" + " * ".join([a] * n.right.value) + ")" if n.right.value > 0 else "(1 : Float)"
                    return f"({a} ^ {n.right.value})"
                if isinstance(n.right, ast.Constant) and n.right.value == 0.5:
                    return f"({self.f('sqrt')} {a})"
                raise Unsupported(f"power {key}")
        if isinstance(n, ast.Compare) and len(n.ops) > 1:  # chained comparison a < b <= c: conjunction of the links
            links, left = [], n.left
            for op, right in zip(n.ops, n.comparators):
                links.append(self.e(ast.Compare(left=left, ops=[op], comparators=[right])))
                left = right
            return "(" + " && ".join(links) + ")"
        if isinstance(n, ast.Compare) and len(n.ops) == 1:
            a, b = self.e(n.left), self.e(n.comparators[0])
            op = {ast.Lt: "<", ast.LtE: "≤", ast.Gt: ">", ast.GtE: "≥", ast.Eq: "=", ast.NotEq: "≠"}.get(type(n.ops[0]))
            if op is None:
                raise Unsupported(f"comparison {key}")
            return f"(decide ({a} {op} {b}))"
        if isinstance(n, ast.BoolOp):
            op = " && " if isinstance(n.op, ast.And) else " || "
            return "(" + op.join(self.e(v) for v in n.values) + ")"
        if isinstance(n, ast.IfExp):
            return f"(if {self.e(n.test)} then {self.e(n.body)} else {self.e(n.orelse)})"
        if isinstance(n, ast.Call):
            fn = n.func
            name = fn.attr if isinstance(fn, ast.Attribute) else fn.id if isinstance(fn, ast.Name) else None
            if isinstance(fn, ast.Attribute) and ast.unparse(fn.value) not in ("np", "xp", "math", "numpy"):
                raise Unsupported(f"method call {key}")
            if name is None or n.keywords:
                # allow clip(x, a_min=, a_max=)
                if name == "clip" and {k.arg for k in n.keywords} <= {"a_min", "a_max"} and len(n.args) == 1:
                    kw = {k.arg: k.value for k in n.keywords}
                    return f"({self.f('clip')} {self.e(n.args[0])} {self.e(kw['a_min'])} {self.e(kw['a_max'])})"
                raise Unsupported(f"call {key}")
            if name == "range" and len(n.args) == 1 and isinstance(fn, ast.Name):  # range(n) -> [0, …, n-1] : List Int
                return f"(pyRange {self.e(n.args[0])})"
            if name in ("tuple", "list") and len(n.args) == 1 and isinstance(fn, ast.Name):  # sequences are Lean lists
                return self.e(n.args[0])
            if name == "where" and len(n.args) == 3:  # numpy.where(cond, a, b), pointwise
                return f"(if {self.e(n.args[0])} then {self.e(n.args[1])} else {self.e(n.args[2])})"
            lf = self.f(name)
            args = " ".join(self.e(a) for a in n.args)
            if name in ("float", "tuple") and len(n.args) == 1:
                return self.e(n.args[0])
            return f"({lf} {args})"
        if isinstance(n, ast.Tuple):
            return "(" + ", ".join(self.e(x) for x in n.elts) + ")"
        if isinstance(n, ast.List):  # list display -> Lean list literal
            return "[" + ", ".join(self.e(x) for x in n.elts) + "]"
        raise Unsupported(f"node {type(n).__name__}: {key[:80]}")

    def _bad(self, msg):
        raise Unsupported(msg)


# ------------------------------------------------------------------ emission
PRELUDE_IMPORT = {
    "rat": "import AbtemVerif.Model.PyPrelude",
    "real": "import AbtemVerif.Lib.PyPreludeR",
    "float": "import AbtemVerif.Model.PyPrelude",
    "cplx": "import AbtemVerif.Lib.PyPreludeR",
}
SUFFIX = {"rat": "", "real": "R", "float": "F", "cplx": "C"}


def emit_site(src: Source, site: dict, mode: str):
    fn = src.func(site["file"], site["func"])
    text = (src.repo / site["file"]).read_text()
    if site.get("call_keywords"):
        # ("funcname", k): the keyword names of the k-th call of `funcname`, as data (`**expr` for a forwarded dict) —
        # theorems can then state which arguments a call forwards
        fname, k = site["call_keywords"]
        calls = sorted((n for n in ast.walk(fn) if isinstance(n, ast.Call) and (
            (isinstance(n.func, ast.Name) and n.func.id == fname) or (isinstance(n.func, ast.Attribute) and n.func.attr == fname))),
            key=lambda n: (n.lineno, n.col_offset))
        if k >= len(calls):
            raise Unsupported(f"call_keywords {fname}: only {len(calls)} calls")
        names = [("**" + ast.unparse(kw.value)) if kw.arg is None else kw.arg for kw in calls[k].keywords]
        head = f"/-- {site['file']}:{calls[k].lineno} `{site['func']}` :: keywords of `{fname}(…)` -/\n"
        body = "[" + ", ".join('"' + x.replace('"', "'") + '"' for x in names) + "]"
        return head + f"def {site['name']} : List String :=\n  {body}\n", {
            "line": calls[k].lineno, "python": ", ".join(names), "sha": hashlib.sha256(ast.dump(calls[k]).encode()).hexdigest()[:16]}
    node = select(fn, tuple(site["select"]))
    for step in site.get("path", ()):  # descend into the selected expression: AST field names / list indices
        try:
            node = node[step] if isinstance(step, int) else getattr(node, step)
        except (AttributeError, IndexError, TypeError) as e:
            raise Unsupported(f"path {site['path']} does not exist in `{ast.unparse(select(fn, tuple(site['select'])))[:80]}`: {e}")
    inline = {}
    for var, sel in site.get("inline", {}).items():
        inline[var] = select(fn, tuple(sel))
    tx = Tx(mode, site["params_map"], text, inline)
    tx.site = site
    body = tx.e(node)
    if getattr(tx, "hoisted", None):
        raise Unsupported("call to a raising generated function in an expression site (use a whole-function site)")
    sc = SCALAR[mode]
    ptys = site.get("param_types", {})
    binders = " ".join(f"({p} : {ptys.get(p, sc).replace('Scalar', sc)})" for p in site["params"])
    rty = site.get("ret", "Scalar").replace("Scalar", sc)
    nc = "noncomputable " if mode in ("real", "cplx") else ""
    head = f"/-- {site['file']}:{node.lineno} `{site['func']}` :: `{ast.unparse(node)[:300]}` -/\n"
    return head + f"{nc}def {site['name']} {binders} : {rty} :=\n  {body}\n", {
        "line": node.lineno,
        "python": ast.unparse(node)[:400],
        "sha": hashlib.sha256(ast.dump(node).encode()).hexdigest()[:16],
    }


def table_value(node, mode, consts):
    """evaluate a literal numeric python expression exactly (ints, decimal floats, + - * / **, np.pi symbolic in real)"""
    tx = Tx(mode, consts)
    return tx.e(node)


def yaml_scalar(text: str, dotted: str) -> str:
    """value text of `a.b.c` in a plain block-style YAML file (nested mappings by indentation; no PyYAML needed)"""
    path, want = [], dotted.split(".")
    for raw in text.splitlines():
        line = raw.split(" #")[0].rstrip()
        if not line.strip() or line.lstrip().startswith("#") or ":" not in line:
            continue
        ind = len(line) - len(line.lstrip())
        k, v = line.strip().split(":", 1)
        while path and path[-1][0] >= ind:
            path.pop()
        path.append((ind, k.strip()))
        if [p[1] for p in path] == want and v.strip():
            return v.strip().strip('"').strip("'")
    raise Unsupported(f"yaml key {dotted} not found")


def emit_table(src: Source, site: dict, mode: str):
    if site["kind"] == "yaml_string":  # string-valued default of the configuration file (e.g. `fft: fftw`)
        val = yaml_scalar((src.repo / site["file"]).read_text(), site["var"])
        esc = val.replace("\\", "\\\\").replace('"', '\\"')
        return (f"/-- {site['file']} `{site['var']}: {val}` -/\ndef {site['name']} : String :=\n  \"{esc}\"\n",
                {"value": val, "sha": hashlib.sha256(val.encode()).hexdigest()[:16]})
    if site["kind"] == "call_sequence":
        # the calls made by the top-level statements of a function, in source order (`x = f(...)`, `f(...)`, `return f(...)`),
        # as the source text of the called expression — lets a theorem depend on the ORDER of operations of a pipeline
        fn = src.func(site["file"], site["func"])
        names = []
        for st in fn.body:
            v = getattr(st, "value", None)
            if isinstance(st, (ast.Assign, ast.AnnAssign, ast.Expr, ast.Return)) and isinstance(v, ast.Call):
                names.append(ast.unparse(v.func))
        body = "[" + ", ".join(f'"{n}"' for n in names) + "]"
        return (f"/-- {site['file']} `{site['func']}`: calls of the top-level statements, in order -/\ndef {site['name']} : List String :=\n  {body}\n",
                {"rows": len(names), "sha": hashlib.sha256(body.encode()).hexdigest()[:16]})
    if site["kind"] == "yaml_scalar":  # numeric default of the configuration file, read as the exact decimal written
        val = yaml_scalar((src.repo / site["file"]).read_text(), site["var"])
        try:
            body = lit(float(val), mode, val)
        except ValueError:
            raise Unsupported(f"yaml value {val!r} is not numeric")
        nc = "noncomputable " if mode in ("real", "cplx") else ""
        return (f"/-- {site['file']} `{site['var']}: {val}` -/\n{nc}def {site['name']} : {SCALAR[mode]} :=\n  {body}\n",
                {"value": val, "sha": hashlib.sha256(val.encode()).hexdigest()[:16]})
    tree = src.tree(site["file"])
    target = None
    for n in tree.body:
        if isinstance(n, (ast.Assign, ast.AnnAssign)):
            ts = n.targets if isinstance(n, ast.Assign) else [n.target]
            if any(ast.unparse(t) == site["var"] for t in ts):
                target = n.value
    if target is None:
        raise Unsupported(f"table {site['var']} not found")
    text = (src.repo / site["file"]).read_text()
    sc = SCALAR[mode]
    kind = site["kind"]
    nc = "noncomputable " if mode == "real" else ""
    if kind == "str_num_dict":
        if not isinstance(target, ast.Dict):
            raise Unsupported("not a dict literal")
        rows = []
        # optional symbolic parameters (e.g. {"np.pi": "pi"} keeps the table exact and executable over Rat)
        tx = Tx(mode, site.get("params_map", {}), text)
        for k, v in zip(target.keys, target.values):
            if not (isinstance(k, ast.Constant) and isinstance(k.value, str)):
                raise Unsupported("non-string key")
            rows.append(f'  ("{k.value}", {tx.e(v)})')
        body = "[\n" + ",\n".join(rows) + "]"
        binders = "".join(f" ({p} : {sc})" for p in site.get("params", []))
        return f"{nc}def {site['name']}{binders} : List (String × {sc}) :=\n  {body}\n", {"rows": len(rows), "sha": hashlib.sha256(ast.dump(target).encode()).hexdigest()[:16]}
    if kind == "str_strs_dict":
        rows = []
        for k, v in zip(target.keys, target.values):
            if not isinstance(v, (ast.Tuple, ast.List)):
                raise Unsupported("value not a tuple/list")
            vals = ", ".join(f'"{e.value}"' for e in v.elts)
            rows.append(f'  ("{k.value}", [{vals}])')
        body = "[\n" + ",\n".join(rows) + "]"
        return f"def {site['name']} : List (String × List String) :=\n  {body}\n", {"rows": len(rows), "sha": hashlib.sha256(ast.dump(target).encode()).hexdigest()[:16]}
    if kind == "str_str_dict":
        rows = [f'  ("{k.value}", "{v.value}")' for k, v in zip(target.keys, target.values)]
        body = "[\n" + ",\n".join(rows) + "]"
        return f"def {site['name']} : List (String × String) :=\n  {body}\n", {"rows": len(rows), "sha": hashlib.sha256(ast.dump(target).encode()).hexdigest()[:16]}
    if kind == "str_tuple":
        vals = ", ".join(f'"{e.value}"' for e in target.elts)
        return f"def {site['name']} : List String :=\n  [{vals}]\n", {"rows": len(target.elts), "sha": hashlib.sha256(ast.dump(target).encode()).hexdigest()[:16]}
    raise Unsupported(f"table kind {kind}")


def write_if_changed(path: Path, content: str):
    if path.exists() and path.read_text() == content:
        return False
    path.write_text(content)
    return True


def main():
    ap = argparse.ArgumentParser()
    ap.add_argument("--repo", default="/repo")
    ap.add_argument("--out", required=True)
    a = ap.parse_args()
    import importlib

    sites = importlib.import_module("sites")
    src = Source(Path(a.repo))
    out = Path(a.out)
    out.mkdir(parents=True, exist_ok=True)
    report = {"sites": {}, "fingerprints": {}, "repo": str(a.repo)}
    failed = False
    modules = {}
    for site in sites.SITES:
        for mode in site.get("modes", ["rat"]):
            mod = site["gen"] + SUFFIX[mode]
            modules.setdefault((mod, mode), [])
            key = f"{mod}.{site['name']}"
            try:
                if site.get("whole") or site.get("module_consts"):
                    import py2lean_ext

                    text, info = py2lean_ext.emit_func(src, site, mode) if site.get("whole") else py2lean_ext.emit_module_consts(site, mode)
                elif site.get("emitter"):  # "module:function" in tools/ — property-specific emitters live outside this file
                    em_mod, em_fn = site["emitter"].split(":")
                    text, info = getattr(importlib.import_module(em_mod), em_fn)(src, site, mode)
                elif site.get("table"):
                    text, info = emit_table(src, site, mode)
                else:
                    text, info = emit_site(src, site, mode)
                info["status"] = "ok"
                modules[(mod, mode)].append(text)
            except (Unsupported, SyntaxError, FileNotFoundError, KeyError) as e:
                failed = True
                info = {"status": "failed", "reason": f"{type(e).__name__}: {e}"}
                modules[(mod, mode)].append(
                    f"-- FAILED {site['name']}: {type(e).__name__}: {str(e)[:200]}\n"
                    f"def {site['name']} : TranslationFailed_{site['name']} := ()\n"
                )
            info["file"] = site["file"]
            info["where"] = site.get("func", site.get("var"))
            report["sites"][key] = info
    for (mod, mode), texts in modules.items():
        extra = "\n".join(sites.EXTRA_IMPORTS.get(mod, []))
        content = (
            "-- GENERATED by tools/py2lean.py from the repository working tree. Do not edit.\n"
            + PRELUDE_IMPORT[mode] + "\n" + (extra + "\n" if extra else "")
            + ("open AbtemVerif.Py\n" if True else "")
            + f"namespace AbtemVerif.Gen.{mod}\n\n"
            + "\n".join(texts)
            + f"\nend AbtemVerif.Gen.{mod}\n"
        )
        write_if_changed(out / f"{mod}.lean", content)
    for name, (rel, qual) in getattr(sites, "FINGERPRINTS", {}).items():
        try:
            report["fingerprints"][name] = fingerprint(src.func(rel, qual))
        except Exception as e:
            report["fingerprints"][name] = f"missing: {e}"
    # remove generated files of sites that no longer exist
    keep = {f"{m}.lean" for (m, _) in modules} | {"report.json"}
    for p in out.glob("*.lean"):
        if p.name not in keep:
            p.unlink()
    write_if_changed(out / "report.json", json.dumps(report, indent=1, sort_keys=True))
    for k, v in report["sites"].items():
        if v["status"] != "ok":
            print(f"py2lean: site {k} FAILED: {v['reason']}")
    sys.exit(3 if failed else 0)


if __name__ == "__main__":
    main()
