#!/usr/bin/env python3
"""Run the repository's pinned baseline test command on a tree and compare with
/root/.vp/BASELINE.json (stable_pass must all pass).  Usage: baseline.py [repo_dir]"""
import json, os, subprocess, sys, tempfile, xml.etree.ElementTree as ET

repo = sys.argv[1] if len(sys.argv) > 1 else "/repo"
base = json.load(open("/root/.vp/BASELINE.json"))
fd, junit = tempfile.mkstemp(suffix=".xml"); os.close(fd)
env = dict(os.environ)
env.pop("ABTEM_VERIF", None)
env["PYTHONPATH"] = repo
cmd = ["/venv/bin/python", "-m", "pytest", "-q", "-p", "no:cacheprovider", "--timeout=900",
       "--continue-on-collection-errors", f"--junitxml={junit}"] + sys.argv[2:]
p = subprocess.run(cmd, cwd=repo, env=env, stdout=subprocess.PIPE, stderr=subprocess.STDOUT, text=True)
passed = set()
for tc in ET.parse(junit).getroot().iter("testcase"):
    if not any(c.tag in ("failure", "error", "skipped") for c in tc):
        passed.add(f"{tc.get('classname')}::{tc.get('name')}")
os.unlink(junit)
mods = [a[:-3].replace("/", ".") for a in sys.argv[2:] if a.endswith(".py")]
stable = [t for t in base["stable_pass"] if not mods or any(t.startswith(m + "::") or t.startswith(m + ".") for m in mods)]
missing = [t for t in stable if t not in passed]
print(p.stdout.strip().splitlines()[-1])
print(f"stable_pass={len(stable)} passed_now={len(passed)} missing={len(missing)}")
for t in missing[:40]:
    print("MISSING", t)
sys.exit(1 if missing else 0)
