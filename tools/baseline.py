#!/usr/bin/env python3
"""Run the repository's pinned baseline test command on a tree and compare with
/root/.vp/BASELINE.json (stable_pass must all pass).  Usage: baseline.py [repo_dir]"""
import json, os, subprocess, sys, tempfile, xml.etree.ElementTree as ET

repo = sys.argv[1] if len(sys.argv) > 1 else "/repo"
base = json.load(open("/root/.vp/BASELINE.json"))
# --nowarn: stronger regression net.  The pinned config turns DeprecationWarnings of ASE/NumPy into errors, which
# makes 220 tests fail at the pinned commit already and masks regressions there; with `-p no:warnings` 763 tests pass at
# the pinned commit (list in tools/base_nowarn_pass.json, produced with --record on a worktree of 03211e79).
NOWARN = "--nowarn" in sys.argv
RECORD = "--record" in sys.argv
sys.argv = [a for a in sys.argv if a not in ("--nowarn", "--record")]
if NOWARN or RECORD:
    sys.argv.append("-p")
    sys.argv.append("no:warnings")
    import pathlib
    lst = pathlib.Path(__file__).with_name("base_nowarn_pass.json")
    if NOWARN:
        base = {"stable_pass": json.load(open(lst))}
fd, junit = tempfile.mkstemp(suffix=".xml"); os.close(fd)
env = dict(os.environ)
env.pop("ABTEM_VERIF", None)
env["PYTHONPATH"] = repo
cmd = ["/venv/bin/python", "-m", "pytest", "-q", "-p", "no:cacheprovider", "--timeout=900",
       "--continue-on-collection-errors", f"--junitxml={junit}"] + sys.argv[2:]
import glob, shutil, time
_t0 = time.time()
p = subprocess.run(cmd, cwd=repo, env=env, stdout=subprocess.PIPE, stderr=subprocess.STDOUT, text=True)
# the repository's test strategies leave abtem-test-<uuid>.zarr[.zip] files in the temp dir: remove the ones this run created
for f in glob.glob(os.path.join(tempfile.gettempdir(), "abtem-test-*")):
    try:
        if os.path.getmtime(f) >= _t0 - 1:
            shutil.rmtree(f) if os.path.isdir(f) else os.unlink(f)
    except OSError:
        pass
passed = set()
for tc in ET.parse(junit).getroot().iter("testcase"):
    if not any(c.tag in ("failure", "error", "skipped") for c in tc):
        passed.add(f"{tc.get('classname')}::{tc.get('name')}")
os.unlink(junit)
if RECORD:
    json.dump(sorted(passed), open(lst, "w"), indent=0)
    print("recorded", len(passed)); sys.exit(0)
mods = [a[:-3].replace("/", ".") for a in sys.argv[2:] if a.endswith(".py")]
stable = [t for t in base["stable_pass"] if not mods or any(t.startswith(m + "::") or t.startswith(m + ".") for m in mods)]
missing = [t for t in stable if t not in passed]
print(p.stdout.strip().splitlines()[-1])
print(f"stable_pass={len(stable)} passed_now={len(passed)} missing={len(missing)}")
for t in missing[:40]:
    print("MISSING", t)
sys.exit(1 if missing else 0)
