"""py2lean extensions (kept in a separate file so that the shared translator only carries three small hooks):

* `calls` / `call_extra` — a call `g(x)` to another *generated* definition of the same Gen module becomes
  `(g x <call_extra…>)`; if that definition can raise (it was emitted as `Except String _`), the call is hoisted
  in evaluation order into a `match … with | .error e => .error e | .ok r =>` in front of the statement;
* `tuple(<elt> for v in <iter>)` / `list(...)` / `[... for ...]` with one plain generator -> `List.map (fun v => elt) iter`;
* `cast(T, x)` (typing.cast) -> `x`;
* whole-function sites (`whole: True`): straight-line bodies made of `if <test>: raise <Exc>(…)` guards, simple local
  assignments (-> `let`) and one final `return` (-> `Except String _` when something can raise);
* module constants (`module_consts: True`): numeric attributes of an *installed* module (e.g. `ase.units`) read at
  generation time and emitted as exact values (Rat / ℝ: the exact rational of the float; Float: `Float.ofBits`).

Sites opt in with `ext: True` (expression sites) or `whole: True`.
"""
from __future__ import annotations

import ast
import hashlib
import importlib
import json
import os
import struct
import subprocess
from fractions import Fraction

# extra pointwise functions (python name -> (rat, real, float)); the Lean names live in Lib/PyPreludeXR.lean / Model/PyPreludeX.lean,
# which sites using them import through EXTRA_IMPORTS
EXTRA_FUNCS = {
    "sign": ("pySignQ", "pySignR", "pySignF"),
}
_P_registered = False

RAISES = {}  # (gen, mode, leanName) -> bool   (filled while emitting, in site order)

EXC_KIND = {
    "ValueError": "value_error", "RuntimeError": "runtime_error", "IndexError": "index_error", "KeyError": "key_error",
    "TypeError": "type_error", "NotImplementedError": "not_implemented", "AssertionError": "assertion_error",
    "ZeroDivisionError": "zero_division",
}


def _P():
    """the translator module (it usually runs as __main__; importing it again would duplicate `Unsupported`)"""
    import sys

    m = sys.modules.get("__main__")
    if m is not None and hasattr(m, "Tx") and hasattr(m, "Unsupported"):
        return m
    return importlib.import_module("py2lean")


def _register():
    global _P_registered
    if not _P_registered:
        for k, v in EXTRA_FUNCS.items():
            _P().FUNCS.setdefault(k, v)
        _P_registered = True


def _unsupported(msg):
    return _P().Unsupported(msg)


def _state(tx):
    if not hasattr(tx, "hoisted"):
        tx.hoisted = []
        tx.locals = {}
        tx.no_hoist = 0
        tx.nv = 0
    return tx


def tx_hook(tx, n):
    """called at the top of Tx.e for sites that opted in; returns a Lean term or None (= not handled here)"""
    _state(tx)
    _register()
    site = tx.site
    if site.get("complex_part") and not getattr(tx, "_cp_done", False):
        # the selected expression is complex valued (`cos(x) + 1.0j * sin(x)`): emit its real or imaginary part
        tx._cp_done = True
        re, im = _cparts(tx, n)
        part = re if site["complex_part"] == "re" else im
        return part if part is not None else _P().lit(0.0, tx.mode, "0")
    if isinstance(n, ast.Name) and n.id in tx.locals:
        return tx.locals[n.id]
    if isinstance(n, (ast.IfExp, ast.BoolOp)) and not getattr(n, "_ext_seen", False):
        # operands are evaluated conditionally: a raising call inside must not be hoisted in front
        n._ext_seen = True
        tx.no_hoist += 1
        try:
            return tx.e(n)
        finally:
            tx.no_hoist -= 1
            n._ext_seen = False
    if isinstance(n, ast.Call) and isinstance(n.func, ast.Attribute):
        # pointwise reading of array plumbing: xp.asarray(x, dtype=…) / xp.array(x) -> x ; x.astype(dtype) -> x,
        # and (comparison).astype(dtype) -> 1 / 0
        attr = n.func.attr
        if attr in ("asarray", "array") and ast.unparse(n.func.value) in ("np", "xp", "numpy") and len(n.args) == 1 \
                and {k.arg for k in n.keywords} <= {"dtype"}:
            return tx.e(n.args[0])
        if attr == "astype" and len(n.args) + len(n.keywords) == 1:
            inner = n.func.value
            while isinstance(inner, ast.Call) and isinstance(inner.func, ast.Attribute) and inner.func.attr in ("asarray", "array") \
                    and len(inner.args) == 1 and {k.arg for k in inner.keywords} <= {"dtype"}:
                inner = inner.args[0]
            if isinstance(inner, (ast.Compare, ast.BoolOp)) or (isinstance(inner, ast.UnaryOp) and isinstance(inner.op, ast.Not)):
                one, zero = _P().lit(1.0, tx.mode, "1"), _P().lit(0.0, tx.mode, "0")
                return f"(if {tx.e(inner)} then {one} else {zero})"
            return tx.e(inner)
    if isinstance(n, ast.Call) and isinstance(n.func, ast.Name):
        name = n.func.id
        calls = site.get("calls", {})
        if name in calls:
            if n.keywords:
                raise _unsupported(f"keyword arguments in call to generated function {name}")
            lean = calls[name]
            args = [tx.e(a) for a in n.args] + list(site.get("call_extra", []))
            call = "(" + " ".join([lean] + args) + ")"
            key = (site["gen"], tx.mode, lean)
            if key not in RAISES:
                import sys

                reg = sys.modules.get("sites")
                plain = [s for s in getattr(reg, "SITES", []) if s.get("gen") == site["gen"] and s.get("name") == lean
                         and not s.get("whole") and tx.mode in s.get("modes", ["rat"])]
                if not plain:
                    raise _unsupported(f"call to {name}: {lean} is not generated before this site")
                RAISES[key] = False  # expression sites never raise
            if RAISES[key]:
                if tx.no_hoist:
                    raise _unsupported(f"raising call {name} inside a conditionally evaluated expression")
                tx.nv += 1
                v = f"r{tx.nv}_"
                tx.hoisted.append((v, call))
                return v
            return call
        if name == "float" and len(n.args) == 1 and not n.keywords:
            return tx.e(n.args[0])  # (the base translator evaluates the argument twice, which would hoist twice)
        if name == "cast" and len(n.args) == 2 and not n.keywords:
            return tx.e(n.args[1])
        if name in ("tuple", "list") and len(n.args) == 1 and not n.keywords and isinstance(n.args[0], (ast.GeneratorExp, ast.ListComp)):
            return _comprehension(tx, n.args[0])
    if isinstance(n, ast.ListComp):
        return _comprehension(tx, n)
    return None


def _cparts(tx, n):
    """(re, im) Lean terms of a complex-valued expression built from real sub-expressions, complex literals, + - * and unary minus;
    None stands for an exactly-zero part"""
    if isinstance(n, ast.Constant) and isinstance(n.value, complex):
        lit = _P().lit
        return (None if n.value.real == 0 else lit(float(n.value.real), tx.mode, None),
                None if n.value.imag == 0 else lit(float(n.value.imag), tx.mode, None))
    if isinstance(n, ast.UnaryOp) and isinstance(n.op, (ast.USub, ast.UAdd)):
        re, im = _cparts(tx, n.operand)
        if isinstance(n.op, ast.UAdd):
            return re, im
        return (None if re is None else f"(-{re})", None if im is None else f"(-{im})")
    if isinstance(n, ast.BinOp) and isinstance(n.op, (ast.Add, ast.Sub)):
        (a, b), (c, d) = _cparts(tx, n.left), _cparts(tx, n.right)
        sym = "+" if isinstance(n.op, ast.Add) else "-"

        def comb(x, y):
            if y is None:
                return x
            if x is None:
                return y if sym == "+" else f"(-{y})"
            return f"({x} {sym} {y})"

        return comb(a, c), comb(b, d)
    if isinstance(n, ast.BinOp) and isinstance(n.op, ast.Mult):
        (a, b), (c, d) = _cparts(tx, n.left), _cparts(tx, n.right)

        def mul(x, y):
            return None if x is None or y is None else f"({x} * {y})"

        def sub(x, y):
            return x if y is None else (f"(-{y})" if x is None else f"({x} - {y})")

        def add(x, y):
            return x if y is None else (y if x is None else f"({x} + {y})")

        return sub(mul(a, c), mul(b, d)), add(mul(a, d), mul(b, c))
    return tx.e(n), None  # a real-valued leaf (a complex literal deeper inside fails loudly in `lit`)


def emit_call_tuples(src, site, mode):
    """emitter: the literal string tuples passed to every call of `site["callee"]` inside a function, in source order,
    e.g. the symbol lists of `self._nonzero_coefficients(("C10", "C12", "phi12"))` -> `List (List String)`"""
    fn = src.func(site["file"], site["func"])
    hits = []
    for n in ast.walk(fn):
        if isinstance(n, ast.Call):
            f = n.func
            name = f.attr if isinstance(f, ast.Attribute) else f.id if isinstance(f, ast.Name) else None
            if name == site["callee"]:
                if len(n.args) != 1 or n.keywords or not isinstance(n.args[0], (ast.Tuple, ast.List)) or not all(
                        isinstance(e, ast.Constant) and isinstance(e.value, str) for e in n.args[0].elts):
                    raise _unsupported(f"call of {name} without a literal string tuple: {ast.unparse(n)[:80]}")
                hits.append((n.lineno, n.col_offset, [e.value for e in n.args[0].elts]))
    hits.sort()
    if not hits:
        raise _unsupported(f"no call of {site['callee']} in {site['func']}")
    rows = ",\n".join("  [" + ", ".join(f'"{v}"' for v in h[2]) + "]" for h in hits)
    lean = (f"/-- {site['file']}:{fn.lineno} `{site['func']}`: string tuples passed to `{site['callee']}` (source order) -/\n"
            f"def {site['name']} : List (List String) :=\n  [\n{rows}]\n")
    return lean, {"rows": len(hits), "lines": [h[0] for h in hits],
                  "sha": hashlib.sha256(json.dumps([h[2] for h in hits]).encode()).hexdigest()[:16]}


def _comprehension(tx, g):
    if len(g.generators) != 1:
        raise _unsupported("nested comprehension")
    gen = g.generators[0]
    if gen.ifs or gen.is_async or not isinstance(gen.target, ast.Name):
        raise _unsupported("comprehension with filter / tuple target")
    var = gen.target.id
    it = tx.e(gen.iter)
    had = var in tx.locals
    old = tx.locals.get(var)
    shadowed = tx.params.pop(var, None)
    tx.locals[var] = var + "_"
    nh = len(tx.hoisted)
    try:
        body = tx.e(g.elt)
    finally:
        if had:
            tx.locals[var] = old
        else:
            del tx.locals[var]
        if shadowed is not None:
            tx.params[var] = shadowed
    if len(tx.hoisted) != nh:
        raise _unsupported("raising call inside a comprehension")
    return f"(List.map (fun {var}_ => {body}) {it})"


def _binders(site, mode):
    sc = _P().SCALAR[mode]
    ptys = site.get("param_types", {})
    return " ".join(f"({p} : {ptys.get(p, sc).replace('Scalar', sc)})" for p in site["params"])


def emit_func(src, site, mode):
    """whole-function site (straight-line: guards, local assignments, final return)"""
    SCALAR, Tx = _P().SCALAR, _P().Tx
    fn = src.func(site["file"], site["func"])
    text = (src.repo / site["file"]).read_text()
    pm = dict(site.get("params_map", {}))
    for a in fn.args.args:
        if a.arg in site["params"]:
            pm.setdefault(a.arg, a.arg)
    tx = Tx(mode, pm, text, {})
    tx.site = dict(site, ext=True)
    _state(tx)
    sc = SCALAR[mode]
    frags = []
    raises = False
    final = None
    body = list(fn.body)
    for i, st in enumerate(body):
        if isinstance(st, ast.Expr) and isinstance(st.value, ast.Constant) and isinstance(st.value.value, str):
            continue  # docstring
        if final is not None:
            raise _unsupported("statement after return")
        tx.hoisted = []
        if isinstance(st, ast.If) and not st.orelse and len(st.body) == 1 and isinstance(st.body[0], ast.Raise):
            exc = st.body[0].exc
            cls = exc.func.id if isinstance(exc, ast.Call) and isinstance(exc.func, ast.Name) else exc.id if isinstance(exc, ast.Name) else None
            if cls not in EXC_KIND:
                raise _unsupported(f"raise of {ast.unparse(exc)[:60]}")
            frag = f'if {tx.e(st.test)} then .error "{EXC_KIND[cls]}" else'
            raises = True
        elif isinstance(st, (ast.Assign, ast.AnnAssign)):
            targets = st.targets if isinstance(st, ast.Assign) else [st.target]
            if len(targets) != 1 or not isinstance(targets[0], ast.Name) or st.value is None:
                raise _unsupported(f"assignment {ast.unparse(st)[:60]}")
            name = targets[0].id
            val = tx.e(st.value)
            tx.params.pop(name, None)
            tx.locals[name] = name
            frag = f"let {name} := {val}"
        elif isinstance(st, ast.Return) and st.value is not None:
            final = tx.e(st.value)
            frag = None
        else:
            raise _unsupported(f"statement {type(st).__name__}: {ast.unparse(st)[:60]}")
        for v, call in tx.hoisted:
            frags.append(f"match {call} with\n  | .error e => .error e\n  | .ok {v} =>")
            raises = True
        if frag is not None:
            frags.append(frag)
    if final is None:
        raise _unsupported("no return statement")
    rty = site.get("ret", "Scalar").replace("Scalar", sc)
    if raises:
        frags.append(f".ok ({final})")
        rty = f"Except String ({rty})"
    else:
        frags.append(final)
    RAISES[(site["gen"], mode, site["name"])] = raises
    nc = "noncomputable " if mode == "real" else ""
    src_txt = ast.unparse(fn)
    head = f"/-- {site['file']}:{fn.lineno} whole function `{site['func']}` -/\n"
    lean = head + f"{nc}def {site['name']} {_binders(site, mode)} : {rty} :=\n  " + "\n  ".join(frags) + "\n"
    strip_doc = _P().strip_doc
    return lean, {
        "line": fn.lineno,
        "python": ast.unparse(strip_doc(fn))[:600],
        "sha": hashlib.sha256(ast.dump(strip_doc(fn)).encode()).hexdigest()[:16],
        "raises": raises,
        "whole_function": True,
    }


def note_plain(site, mode):
    """expression sites never raise"""
    RAISES[(site["gen"], mode, site["name"])] = False


_CONST_CACHE = {}


def _fetch(module, names):
    key = (module, tuple(names))
    if key in _CONST_CACHE:
        return _CONST_CACHE[key]
    try:
        m = importlib.import_module(module)
        vals = {n: float(getattr(m, n)) for n in names}
        ver = str(getattr(importlib.import_module(module.split(".")[0]), "__version__", "?"))
    except ImportError:
        py = os.environ.get("VERIF_PYTHON", "/venv/bin/python")
        code = (
            "import importlib, json, sys\n"
            f"m = importlib.import_module({module!r})\n"
            f"v = {{n: float(getattr(m, n)).hex() for n in {list(names)!r}}}\n"
            f"v['__version__'] = str(getattr(importlib.import_module({module.split('.')[0]!r}), '__version__', '?'))\n"
            "print('PY2LEAN-CONSTS ' + json.dumps(v))\n"
        )
        p = subprocess.run([py, "-c", code], stdout=subprocess.PIPE, stderr=subprocess.DEVNULL, text=True, timeout=300)
        line = [l for l in p.stdout.splitlines() if l.startswith("PY2LEAN-CONSTS ")]
        if p.returncode != 0 or not line:
            raise _unsupported(f"cannot import {module} (neither in-process nor with {py})")
        raw = json.loads(line[0][len("PY2LEAN-CONSTS "):])
        ver = raw.pop("__version__")
        vals = {n: float.fromhex(h) for n, h in raw.items()}
    _CONST_CACHE[key] = (vals, ver)
    return vals, ver


def emit_module_consts(site, mode):
    """site: {module_consts: True, module: "ase.units", names: {python attr -> lean name}}"""
    SCALAR = _P().SCALAR
    vals, ver = _fetch(site["module"], list(site["names"]))
    sc = SCALAR[mode]
    nc = "noncomputable " if mode == "real" else ""
    out = []
    for attr, lean in site["names"].items():
        x = vals[attr]
        if x != x or x in (float("inf"), float("-inf")):
            raise _unsupported(f"{site['module']}.{attr} is not finite")
        doc = f"/-- `{site['module']}.{attr}` = {x!r} (read from the installed module at generation time, version {ver}) -/\n"
        if mode == "float":
            bits = struct.unpack("<Q", struct.pack("<d", x))[0]
            out.append(doc + f"def {lean} : Float := Float.ofBits {bits}\n")
        else:
            f = Fraction(x)
            num = f"({f.numerator} : {sc})" if f.numerator >= 0 else f"(-{-f.numerator} : {sc})"
            out.append(doc + f"{nc}def {lean} : {sc} := {num} / {f.denominator}\n")
        RAISES[(site["gen"], mode, lean)] = False
    return "\n".join(out), {
        "module": site["module"], "version": ver, "values": {a: repr(vals[a]) for a in site["names"]},
        "sha": hashlib.sha256(json.dumps({a: vals[a].hex() for a in site["names"]}, sort_keys=True).encode()).hexdigest()[:16],
    }
