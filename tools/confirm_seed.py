#!/usr/bin/env python3
"""tools/confirm_seed.py /tmp/mut_out/<ID> [name]
Independently confirm a seeded change produced by a sub-agent before keeping it:
 (1) patch applies to a fresh scratch worktree of /repo HEAD, (2) abtem imports, (3) the pinned
 baseline (509 stable tests) still passes there, (4) demo.py exits 0 on /repo and non-zero on the
 patched tree.  On success copies patch.diff/demo.py/meta.json (+ confirmation record) to
 /verif/seeded/<name>/.  The worktree is removed afterwards."""
import json, os, shutil, subprocess, sys, time
from pathlib import Path
V = Path(__file__).resolve().parent.parent
src = Path(sys.argv[1]).resolve()
name = sys.argv[2] if len(sys.argv) > 2 else src.name
wt = Path(f"/tmp/wt_confirm_{name}")
head = subprocess.run(["git", "-C", "/repo", "rev-parse", "--short", "HEAD"], capture_output=True, text=True).stdout.strip()
subprocess.run(["git", "-C", "/repo", "worktree", "remove", "--force", str(wt)], capture_output=True)
shutil.rmtree(wt, ignore_errors=True)
subprocess.run(["git", "-C", "/repo", "worktree", "prune"], capture_output=True)
subprocess.run(["git", "-C", "/repo", "worktree", "add", "-q", "--detach", str(wt), "HEAD"], check=True)
rec = {"repo_head": head, "date": time.strftime("%Y-%m-%d %H:%M")}
ok = False
try:
    r = subprocess.run(["git", "-C", str(wt), "apply", str(src / "patch.diff")], capture_output=True, text=True)
    rec["applies"] = r.returncode == 0
    if r.returncode != 0:
        print("patch does not apply:", r.stderr[-300:]); sys.exit(1)
    def demo(tree):
        env = dict(os.environ, PYTHONPATH=str(tree), PYTHONWARNINGS="ignore")
        p = subprocess.run(["/venv/bin/python", str(src / "demo.py")], env=env, capture_output=True, text=True, timeout=900, cwd="/tmp")
        return p.returncode, (p.stdout + p.stderr)[-600:]
    rc_clean, out_clean = demo("/repo")
    rc_mut, out_mut = demo(wt)
    rec["demo_clean_rc"], rec["demo_mutated_rc"] = rc_clean, rc_mut
    rec["demo_mutated_output_tail"] = out_mut[-300:]
    print(f"demo: clean rc={rc_clean} mutated rc={rc_mut}")
    if rc_clean != 0 or rc_mut == 0:
        print("demo does not discriminate"); print(out_clean[-300:]); print(out_mut[-300:]); sys.exit(1)
    b = subprocess.run([sys.executable, str(V / "tools" / "baseline.py"), str(wt)], capture_output=True, text=True)
    rec["baseline"] = b.stdout.strip().splitlines()[-1] if b.stdout.strip() else b.stderr[-200:]
    print("baseline:", rec["baseline"])
    if b.returncode != 0:
        print(b.stdout[-1500:]); sys.exit(1)
    ok = True
finally:
    subprocess.run(["git", "-C", "/repo", "worktree", "remove", "--force", str(wt)], capture_output=True)
if ok:
    dst = V / "seeded" / name
    dst.mkdir(parents=True, exist_ok=True)
    for f in ("patch.diff", "demo.py"):
        shutil.copy(src / f, dst / f)
    meta = json.loads((src / "meta.json").read_text()) if (src / "meta.json").exists() else {}
    meta["confirmed_by_coordinator"] = rec
    meta["what_i_ran"] = ("git worktree add <scratch> HEAD; git apply patch.diff; PYTHONPATH=/repo python demo.py -> rc 0; "
                          "PYTHONPATH=<scratch> python demo.py -> rc != 0; tools/baseline.py <scratch> -> missing=0 (509 stable tests pass)")
    (dst / "meta.json").write_text(json.dumps(meta, indent=1, ensure_ascii=False))
    print("kept as", dst)
