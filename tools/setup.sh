#!/bin/bash
# MANIFEST.setup_cmd: regenerate Gen/ from /repo and build the Lean modules of every claimed check.
# A module that fails to build does not fail the setup: the property's own check reports it.
cd "$(dirname "$0")/.."
python3 tools/py2lean.py --repo "${VERIF_REPO:-/repo}" --out lean/AbtemVerif/Gen || echo "setup: translator reported failures (checks will report them)"
targets=$(python3 - <<'PY'
import json, os
ids = [c["property_id"] for c in json.load(open("MANIFEST.json"))["checks"]]
t = []
for i in ids:
    for d in ("Props", "Drive"):
        if os.path.exists(f"lean/AbtemVerif/{d}/{i}.lean"):
            t.append(f"AbtemVerif.{d}.{i}")
print(" ".join(t))
PY
)
cd lean
echo "setup: building $targets"
flock .build.lock lake build $targets || echo "setup: some Lean targets failed (checks will report them)"
exit 0
