"""py2lean emitter (C32): write-set extraction.  For every selected function/method, list the statements that
write through a caller-owned name (the `atoms` parameter, or the receiver's observable state `self.metadata`,
`self.array`, `self._ensemble_axes_metadata`) before that name has been rebound to a copy.  Statements are scanned in order; after an `if`/loop/`try` a name counts as rebound to a copy only if that
happened on every path, aliases (`cell = atoms.cell`) are followed, only `x = x.copy()` / `copy(x)` / `deepcopy(x)` makes a name
fresh.  An over-approximation of direct writes in the function body; writes inside callees are not seen.
Two extensions (still an over-approximation of what they look at, still blind beyond them):
* one call level deep: passing an owned name to a function defined at top level of the same file whose own body writes
  through the corresponding parameter is reported as `line:callee(arg) -> <callee write>`;
* escaped fields (select "param_any:<p>"): when a method stores the caller's object in a field (`self._atoms = atoms`,
  without a copy), writes rooted at that field in ANY method of the class are reported.
site = {gen, name, file, emitter: "py2lean_writes:emit", select: "param:atoms" | "methods" | "param_any:atoms"}"""
import ast
import hashlib

ATOMS_MUTATORS = {"set_cell", "wrap", "translate", "set_positions", "set_scaled_positions", "set_pbc", "center", "rotate", "euler_rotate",
                  "rattle", "set_atomic_numbers", "set_tags", "set_array", "new_array", "append", "extend", "pop", "set_chemical_symbols",
                  "set_masses", "set_initial_magnetic_moments", "set_initial_charges", "set_constraint", "set_celldisp", "set_velocities",
                  "set_momenta", "sort", "clear", "update", "insert", "remove", "setdefault", "fill", "put", "itemset", "resize", "popitem"}
# calls whose result does not share memory with their arguments / receiver (everything else applied to an owned
# value is treated as a possible view or alias of it)
FRESH_METHODS = {"copy", "deepcopy", "tolist", "item", "sum", "mean", "std", "var", "min", "max", "prod", "dot", "round", "clip", "cumsum",
                 "nonzero", "argsort", "argmin", "argmax", "all", "any", "tobytes", "repeat", "complete", "lengths", "angles", "cellpar",
                 "reciprocal", "scaled_positions", "keys", "format", "join", "split", "startswith", "endswith", "count", "index",
                 "get_positions", "get_cell", "get_atomic_numbers", "get_scaled_positions", "get_chemical_symbols", "get_pbc",
                 "get_masses", "get_tags", "get_momenta", "get_velocities", "get_initial_charges", "get_initial_magnetic_moments",
                 "get_center_of_mass", "get_volume", "get_celldisp", "get_cell_lengths_and_angles", "get_global_number_of_atoms",
                 "get_chemical_formula", "get_distance", "get_distances", "get_all_distances", "get_reciprocal_cell"}
FRESH_FUNCS = {"len", "range", "isinstance", "int", "float", "str", "bool", "repr", "type", "id", "hash", "print", "copy", "deepcopy",
               "sum", "min", "max", "abs", "any", "all", "round", "hasattr", "format", "number_to_tuple",
               "get_array_module", "validate_device"}
# shallow copies: storing into the new container is not a write to the original, but its ELEMENTS are still the caller's
SHALLOW_FUNCS = {"dict", "list", "tuple", "set", "sorted", "frozenset"}
# numpy functions returning (possibly) a view of their first argument; every other `np.*`/`xp.*` call allocates its result
NP_VIEW_FUNCS = {"asarray", "asanyarray", "ascontiguousarray", "asfortranarray", "reshape", "ravel", "squeeze", "transpose", "swapaxes",
                 "moveaxis", "rollaxis", "atleast_1d", "atleast_2d", "atleast_3d", "broadcast_to", "expand_dims", "flip", "fliplr",
                 "flipud", "diagonal", "real", "imag", "view", "split", "array_split", "hsplit", "vsplit", "array"}
# functions that write into their first argument
NP_INPLACE_FUNCS = {"copyto", "put", "place", "putmask", "fill_diagonal", "put_along_axis", "shuffle"}
STATE_ATTRS = {"metadata", "_metadata", "array", "_array", "_ensemble_axes_metadata"}


def root_chain(node):
    """(root name, [attrs]) of an Attribute/Subscript chain, or (None, [])"""
    attrs = []
    while isinstance(node, (ast.Attribute, ast.Subscript)):
        if isinstance(node, ast.Attribute):
            attrs.append(node.attr)
        node = node.value
    if isinstance(node, ast.Name):
        return node.id, list(reversed(attrs))
    return None, []


class Scan:
    def __init__(self, roots, self_mode, callee_writes=None, fields=()):
        self.owned = set(roots)
        self.self_mode = self_mode
        self.writes = []
        self.callee_writes = callee_writes or {}   # function name -> {param name: [writes]}, + "__params__"
        self.fields = set(fields)                   # escaped fields: `self.<f>` is caller-owned
        self.escaped = []                           # fields assigned from an owned name in this function
        self.shallow = set()                        # names bound to a shallow copy of owned data

    def expr_owned(self, node):
        """does the expression evaluate to (a view of / a reference into) caller-owned data?"""
        if isinstance(node, ast.Name):
            return node.id in self.owned and not (node.id == "self" and (self.self_mode or self.fields))
        if isinstance(node, ast.NamedExpr):
            if self.expr_owned(node.value):
                self.owned.add(node.target.id)
                return True
            return False
        if isinstance(node, ast.Starred):
            return self.expr_owned(node.value)
        if isinstance(node, (ast.Attribute, ast.Subscript)):
            root, attrs = root_chain(node)
            if root == "self" and "self" in self.owned:
                if self.self_mode:
                    return bool(attrs) and attrs[0] in STATE_ATTRS
                if self.fields:
                    return bool(attrs) and attrs[0] in self.fields
            if isinstance(node.value, ast.Name) and node.value.id in self.shallow:
                return True            # an element of a shallow copy is still the caller's object
            return self.expr_owned(node.value)
        if isinstance(node, (ast.Tuple, ast.List)):
            return any(self.expr_owned(e) for e in node.elts)
        if isinstance(node, ast.IfExp):
            return self.expr_owned(node.body) or self.expr_owned(node.orelse)
        if isinstance(node, ast.Call):
            f = node.func
            if isinstance(f, ast.Attribute):
                base = ast.unparse(f.value)
                if base in ("np", "xp", "numpy", "da", "cp"):
                    if f.attr not in NP_VIEW_FUNCS:
                        return False
                    if f.attr == "array" and not any(k.arg == "copy" and isinstance(k.value, ast.Constant) and k.value.value is False
                                                     for k in node.keywords):
                        return False
                    return bool(node.args) and self.expr_owned(node.args[0])
                if f.attr in FRESH_METHODS:
                    return False
                if f.attr == "astype":
                    return any(k.arg == "copy" and isinstance(k.value, ast.Constant) and k.value.value is False for k in node.keywords) \
                        and self.expr_owned(f.value)
                if self.expr_owned(f.value):
                    return True            # a method of an owned object may hand back a view (reshape, T, view, get(...), __getitem__ …)
                return False
            if isinstance(f, ast.Name):
                if f.id in FRESH_FUNCS or f.id in SHALLOW_FUNCS or (f.id[:1].isupper()):   # constructors build new objects (they may *store* the argument: escaped fields)
                    return False
                return any(self.expr_owned(a) for a in node.args) or any(self.expr_owned(k.value) for k in node.keywords)
        return False

    def owned_target(self, node):
        """a store / delete / in-place target `base.attr`, `base[...]` whose base is caller-owned"""
        if isinstance(node, (ast.Attribute, ast.Subscript)):
            root, attrs = root_chain(node)
            if root == "self" and "self" in self.owned:
                if self.self_mode:
                    return bool(attrs) and attrs[0] in STATE_ATTRS
                if self.fields:
                    return len(attrs) >= 2 and attrs[0] in self.fields or (
                        isinstance(node, ast.Subscript) and len(attrs) == 1 and attrs[0] in self.fields)
                return False
            return self.expr_owned(node.value)
        return False

    def is_fresh(self, value):
        return not self.expr_owned(value)

    def is_alias(self, value):
        return self.expr_owned(value)

    def note(self, node, what):
        self.writes.append(f"{node.lineno}:{what}")

    def assign_target(self, t, value, node):
        if isinstance(t, (ast.Tuple, ast.List)):
            if isinstance(value, (ast.Tuple, ast.List)) and len(value.elts) == len(t.elts):
                for e, v in zip(t.elts, value.elts):
                    self.assign_target(e, v, node)
            else:   # unpacking something owned: every target may refer into it
                own = value is not None and self.expr_owned(value)
                for e in t.elts:
                    if isinstance(e, ast.Starred):
                        e = e.value
                    if isinstance(e, ast.Name):
                        (self.owned.add if own else self.owned.discard)(e.id)
                    else:
                        self.assign_target(e, None, node)
            return
        if isinstance(t, (ast.Attribute, ast.Subscript)):
            if self.owned_target(t):
                self.note(node, ast.unparse(t)[:60] + " = …")
            if isinstance(t, ast.Attribute) and isinstance(t.value, ast.Name) and t.value.id == "self" and value is not None \
                    and isinstance(value, ast.Name) and value.id in self.owned and value.id != "self":
                self.escaped.append(t.attr)
            return
        if isinstance(t, ast.Name) and value is not None:
            self.shallow.discard(t.id)
            if self.expr_owned(value):
                self.owned.add(t.id)
            else:
                self.owned.discard(t.id)   # rebound to a copy / to something that is not caller-owned
                if isinstance(value, ast.Call) and value.args and self.expr_owned(value.args[0]) and (
                        (isinstance(value.func, ast.Name) and value.func.id in SHALLOW_FUNCS) or
                        ast.unparse(value.func) in ("copy.copy", "copy")):
                    self.shallow.add(t.id)

    def arg_owned(self, a):
        return self.expr_owned(a)

    def calls(self, node):
        for n in ast.walk(node):
            if isinstance(n, ast.Call) and isinstance(n.func, ast.Name) and n.func.id in self.callee_writes:
                info = self.callee_writes[n.func.id]
                params = info["__params__"]
                bound = list(zip(params, n.args)) + [(k.arg, k.value) for k in n.keywords if k.arg]
                for pname, a in bound:
                    if self.arg_owned(a) and info.get(pname):
                        self.note(n, f"{n.func.id}({ast.unparse(a)[:30]}) -> {info[pname][0]}")
                if any(isinstance(a, ast.Starred) and self.arg_owned(a) for a in n.args) and any(k != "__params__" for k in info):
                    self.note(n, f"{n.func.id}(*…owned…) -> callee writes one of its parameters")
            if isinstance(n, ast.NamedExpr):
                self.expr_owned(n)
            if isinstance(n, (ast.ListComp, ast.SetComp, ast.GeneratorExp, ast.DictComp)):
                for g in n.generators:      # comprehension variables over something owned refer into it
                    if self.expr_owned(g.iter):
                        for nm in ast.walk(g.target):
                            if isinstance(nm, ast.Name):
                                self.owned.add(nm.id)
            if isinstance(n, ast.Call):
                f = n.func
                # dynamically named method of owned data: getattr(x, name)(…) may be any in-place operator
                if isinstance(f, ast.Call) and isinstance(f.func, ast.Name) and f.func.id == "getattr" and f.args \
                        and self.expr_owned(f.args[0]):
                    self.note(n, ast.unparse(f)[:60] + "(…) (dynamically named method of caller-owned data)")
                if isinstance(f, ast.Name) and f.id in ("setattr", "delattr") and n.args and self.expr_owned(n.args[0]):
                    self.note(n, ast.unparse(n)[:60])
                for kw in n.keywords:
                    if kw.arg == "out" and self.expr_owned(kw.value):
                        self.note(n, ast.unparse(n.func)[:40] + "(…, out=" + ast.unparse(kw.value)[:30] + ")")
                if isinstance(f, ast.Attribute) and ast.unparse(f.value) in ("np", "xp", "numpy", "cp") and f.attr in NP_INPLACE_FUNCS \
                        and n.args and self.expr_owned(n.args[0]):
                    self.note(n, ast.unparse(n.func) + "(" + ast.unparse(n.args[0])[:30] + ", …)")
            if isinstance(n, ast.Call) and isinstance(n.func, ast.Attribute) and n.func.attr in ATOMS_MUTATORS:
                if self.expr_owned(n.func.value):
                    self.note(n, ast.unparse(n.func)[:60] + "(…)")

    def block(self, stmts):
        for st in stmts:
            if isinstance(st, ast.ClassDef):
                continue
            if isinstance(st, (ast.FunctionDef, ast.AsyncFunctionDef)):
                saved = set(self.owned)
                self.block(st.body)          # a nested function closes over the owned names; assume it is called
                self.owned = saved | self.owned
                continue
            if isinstance(st, ast.Assign):
                self.calls(st.value)
                for t in st.targets:
                    self.assign_target(t, st.value, st)
            elif isinstance(st, ast.AnnAssign):
                if st.value is not None:
                    self.calls(st.value)
                    self.assign_target(st.target, st.value, st)
            elif isinstance(st, ast.AugAssign):
                self.calls(st.value)
                if isinstance(st.target, (ast.Attribute, ast.Subscript)) and self.owned_target(st.target):
                    self.note(st, ast.unparse(st.target)[:60] + " op= …")
                elif isinstance(st.target, ast.Name) and self.expr_owned(st.target):
                    self.note(st, st.target.id + " op= … (in place on an alias of caller-owned data)")
            elif isinstance(st, ast.Delete):
                for t in st.targets:
                    if isinstance(t, (ast.Attribute, ast.Subscript)) and self.owned_target(t):
                        self.note(st, "del " + ast.unparse(t)[:60])
            elif isinstance(st, ast.If):
                # a name is fresh after the statement only if it became fresh on both paths
                self.calls(st.test)
                before = set(self.owned)
                self.block(st.body)
                after_body = set(self.owned)
                self.owned = set(before)
                self.block(st.orelse)
                self.owned = after_body | self.owned
            elif isinstance(st, (ast.While, ast.For, ast.AsyncFor)):
                self.calls(st.test if isinstance(st, ast.While) else st.iter)
                if not isinstance(st, ast.While):   # loop variables over something owned refer into it
                    it = st.iter
                    while isinstance(it, ast.Call) and isinstance(it.func, ast.Name) and it.func.id in ("enumerate", "zip", "reversed", "iter", "list", "tuple", "sorted") and it.args:
                        if any(self.expr_owned(a) for a in it.args):
                            break
                        it = it.args[0]
                    own = self.expr_owned(it) or (isinstance(it, ast.Call) and any(self.expr_owned(a) for a in it.args)
                                                  and not (isinstance(it.func, ast.Name) and it.func.id in FRESH_FUNCS))
                    for nm in ast.walk(st.target):
                        if isinstance(nm, ast.Name):
                            (self.owned.add if own else self.owned.discard)(nm.id)
                before = set(self.owned)
                self.block(st.body)
                self.block(st.orelse)
                self.owned = before | self.owned      # the body may not run
            elif isinstance(st, (ast.With, ast.AsyncWith)):
                for it in st.items:
                    self.calls(it.context_expr)
                    if it.optional_vars is not None and isinstance(it.optional_vars, ast.Name) and self.expr_owned(it.context_expr):
                        self.owned.add(it.optional_vars.id)
                self.block(st.body)
            elif isinstance(st, ast.Try):
                before = set(self.owned)
                self.block(st.body)
                for h in st.handlers:
                    self.block(h.body)
                self.block(st.orelse)
                self.block(st.finalbody)
                self.owned = before | self.owned
            else:
                self.calls(st)


def _lean_str(s):
    return '"' + s.replace("\\", "\\\\").replace('"', '\\"') + '"'


def emit(src, site, mode):
    from py2lean import Unsupported
    tree = src.tree(site["file"])
    rows = []
    # direct write sets of every top-level function, per parameter (for the one-level-deep step)
    callee = {}
    for n in tree.body:
        if isinstance(n, ast.FunctionDef):
            params = [a.arg for a in n.args.args]
            info = {"__params__": params}
            for q in params + [a.arg for a in n.args.kwonlyargs]:
                sc0 = Scan({q}, False)
                sc0.block(n.body)
                if sc0.writes:
                    info[q] = sc0.writes
            callee[n.name] = info
    if site["select"].startswith("param:"):
        pname = site["select"].split(":")[1]
        for n in tree.body:
            if isinstance(n, ast.FunctionDef) and any(a.arg == pname for a in n.args.args + n.args.kwonlyargs):
                sc = Scan({pname}, False, callee)
                sc.block(n.body)
                rows.append((n.name, sc.writes))
    elif site["select"].startswith("param_any:"):
        pname = site["select"].split(":")[1]
        for n in tree.body:
            if isinstance(n, ast.FunctionDef) and any(a.arg == pname for a in n.args.args + n.args.kwonlyargs):
                sc = Scan({pname}, False, callee)
                sc.block(n.body)
                rows.append((n.name, sc.writes))
            if isinstance(n, ast.ClassDef):
                methods = [m for m in n.body if isinstance(m, ast.FunctionDef)]
                fields = []
                for m in methods:
                    if any(a.arg == pname for a in m.args.args + m.args.kwonlyargs):
                        sc = Scan({pname}, False, callee)
                        sc.block(m.body)
                        rows.append((f"{n.name}.{m.name}", sc.writes))
                        fields += sc.escaped
                if fields:
                    for m in methods:
                        sc = Scan({"self"}, False, callee, fields=fields)
                        sc.block(m.body)
                        rows.append((f"{n.name}.{m.name}[stored {','.join(sorted(set(fields)))}]", sc.writes))
    elif site["select"] == "methods":
        for c in tree.body:
            if not isinstance(c, ast.ClassDef):
                continue
            for n in c.body:
                if not isinstance(n, ast.FunctionDef) or not n.args.args or n.args.args[0].arg != "self":
                    continue
                if any(isinstance(d, ast.Attribute) and d.attr == "setter" for d in n.decorator_list):
                    continue
                if n.name == "__init__":
                    continue
                sc = Scan({"self"}, True)
                sc.block(n.body)
                rows.append((f"{c.name}.{n.name}", sc.writes))
    elif site["select"] == "operator_names":
        # dunder operators that delegate with a literal method name: (method, delegate, literal)
        for c in tree.body:
            if not isinstance(c, ast.ClassDef):
                continue
            for n in c.body:
                if isinstance(n, ast.FunctionDef) and n.name.startswith("__") and n.name.endswith("__"):
                    for r in ast.walk(n):
                        if isinstance(r, ast.Call) and isinstance(r.func, ast.Attribute) and isinstance(r.func.value, ast.Name) \
                                and r.func.value.id == "self" and r.func.attr in ("_arithmetic", "_in_place_arithmetic") \
                                and len(r.args) >= 2 and isinstance(r.args[1], ast.Constant) and isinstance(r.args[1].value, str):
                            rows.append((n.name, [r.func.attr, r.args[1].value]))
    else:
        raise Unsupported(f"select {site['select']}")
    if not rows:
        raise Unsupported("nothing selected")
    body = "[\n" + ",\n".join(f"  ({_lean_str(k)}, [{', '.join(_lean_str(w) for w in ws)}])" for k, ws in rows) + "]"
    text = (f"/-- direct writes through caller-owned names in {site['file']} ({site['select']}); see tools/py2lean_writes.py -/\n"
            f"def {site['name']} : List (String × List String) :=\n{body}\n")
    return text, {"rows": len(rows), "nonempty": [k for k, ws in rows if ws], "sha": hashlib.sha256(body.encode()).hexdigest()[:16]}
