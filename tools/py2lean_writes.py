"""py2lean emitter (C32): write-set extraction.  For every selected function/method, list the statements that
write through a caller-owned name (the `atoms` parameter, or the receiver's observable state `self.metadata`,
`self.array`, `self._ensemble_axes_metadata`) before that name has been rebound to a copy.  Statements are scanned in order; after an `if`/loop/`try` a name counts as rebound to a copy only if that
happened on every path, aliases (`cell = atoms.cell`) are followed, only `x = x.copy()` / `copy(x)` / `deepcopy(x)` makes a name
fresh.  An over-approximation of direct writes in the function body; writes inside callees are not seen.
Two extensions (still an over-approximation of what they look at, still blind beyond them):
* one call level deep: passing an owned name to a function defined at top level of the same file whose own body writes
  through the corresponding parameter is reported as `line:callee(arg) -> <callee write>`;
* escaped fields (select "param_any:<p>"): when a method stores the caller's object in a field (`self._atoms = atoms`,
  without a copy), writes rooted at that field in ANY method of the class are reported.
site = {gen, name, file, emitter: "py2lean_writes:emit", select: "param:atoms" | "methods" | "param_any:atoms"}"""
import ast
import hashlib

ATOMS_MUTATORS = {"set_cell", "wrap", "translate", "set_positions", "set_scaled_positions", "set_pbc", "center", "rotate", "euler_rotate",
                  "rattle", "set_atomic_numbers", "set_tags", "set_array", "new_array", "append", "extend", "pop", "set_chemical_symbols",
                  "set_masses", "set_initial_magnetic_moments", "set_initial_charges", "set_constraint", "set_celldisp", "set_velocities",
                  "set_momenta", "sort", "clear", "update", "insert", "remove", "setdefault", "fill", "put", "itemset", "resize", "popitem"}
STATE_ATTRS = {"metadata", "_metadata", "array", "_array", "_ensemble_axes_metadata"}


def root_chain(node):
    """(root name, [attrs]) of an Attribute/Subscript chain, or (None, [])"""
    attrs = []
    while isinstance(node, (ast.Attribute, ast.Subscript)):
        if isinstance(node, ast.Attribute):
            attrs.append(node.attr)
        node = node.value
    if isinstance(node, ast.Name):
        return node.id, list(reversed(attrs))
    return None, []


class Scan:
    def __init__(self, roots, self_mode, callee_writes=None, fields=()):
        self.owned = set(roots)
        self.self_mode = self_mode
        self.writes = []
        self.callee_writes = callee_writes or {}   # function name -> {param name: [writes]}, + "__params__"
        self.fields = set(fields)                   # escaped fields: `self.<f>` is caller-owned
        self.escaped = []                           # fields assigned from an owned name in this function

    def owned_target(self, node):
        root, attrs = root_chain(node)
        if root is None or root not in self.owned:
            return False
        if self.self_mode and root == "self":
            return bool(attrs) and attrs[0] in STATE_ATTRS
        if root == "self" and "self" in self.owned and self.fields:
            return len(attrs) >= 2 and attrs[0] in self.fields   # a write *through* the stored object, not re-binding the field
        return True

    def is_fresh(self, value):
        if isinstance(value, ast.Call):
            f = value.func
            if isinstance(f, ast.Attribute) and f.attr in ("copy", "deepcopy"):
                return True
            if isinstance(f, ast.Name) and f.id in ("copy", "deepcopy"):
                return True
        return False

    def is_alias(self, value):
        if isinstance(value, (ast.Name, ast.Attribute, ast.Subscript)):
            root, attrs = root_chain(value)
            if root in self.owned:
                if self.self_mode and root == "self":
                    return bool(attrs) and attrs[0] in STATE_ATTRS
                return True
        return False

    def note(self, node, what):
        self.writes.append(f"{node.lineno}:{what}")

    def assign_target(self, t, value, node):
        if isinstance(t, (ast.Tuple, ast.List)):
            for e in t.elts:
                self.assign_target(e, None, node)
            return
        if isinstance(t, (ast.Attribute, ast.Subscript)):
            if self.owned_target(t):
                self.note(node, ast.unparse(t)[:60] + " = …")
            if isinstance(t, ast.Attribute) and isinstance(t.value, ast.Name) and t.value.id == "self" and value is not None \
                    and isinstance(value, ast.Name) and value.id in self.owned and value.id != "self":
                self.escaped.append(t.attr)
            return
        if isinstance(t, ast.Name):
            if value is not None and self.is_fresh(value):
                self.owned.discard(t.id)
            elif value is not None and self.is_alias(value):
                self.owned.add(t.id)
            elif value is not None and t.id in self.owned and not any(
                    isinstance(n, ast.Name) and n.id in self.owned for n in ast.walk(value)):
                self.owned.discard(t.id)  # rebound to something that does not mention a caller-owned name

    def arg_owned(self, a):
        if isinstance(a, ast.Name):
            return a.id in self.owned and not (a.id == "self")
        if isinstance(a, (ast.Attribute, ast.Subscript)):
            root, attrs = root_chain(a)
            if root == "self" and self.fields:
                return bool(attrs) and attrs[0] in self.fields and len(attrs) == 1
            return root in self.owned and root != "self"
        return False

    def calls(self, node):
        for n in ast.walk(node):
            if isinstance(n, ast.Call) and isinstance(n.func, ast.Name) and n.func.id in self.callee_writes:
                info = self.callee_writes[n.func.id]
                params = info["__params__"]
                bound = list(zip(params, n.args)) + [(k.arg, k.value) for k in n.keywords if k.arg]
                for pname, a in bound:
                    if self.arg_owned(a) and info.get(pname):
                        self.note(n, f"{n.func.id}({ast.unparse(a)[:30]}) -> {info[pname][0]}")
            if isinstance(n, ast.Call) and isinstance(n.func, ast.Attribute) and n.func.attr in ATOMS_MUTATORS:
                if self.owned_target(n.func.value) or (isinstance(n.func.value, ast.Name) and n.func.value.id in self.owned
                                                       and not (self.self_mode and n.func.value.id == "self")):
                    self.note(n, ast.unparse(n.func)[:60] + "(…)")

    def block(self, stmts):
        for st in stmts:
            if isinstance(st, (ast.FunctionDef, ast.AsyncFunctionDef, ast.ClassDef)):
                continue
            if isinstance(st, ast.Assign):
                self.calls(st.value)
                for t in st.targets:
                    self.assign_target(t, st.value, st)
            elif isinstance(st, ast.AnnAssign):
                if st.value is not None:
                    self.calls(st.value)
                    self.assign_target(st.target, st.value, st)
            elif isinstance(st, ast.AugAssign):
                self.calls(st.value)
                if isinstance(st.target, (ast.Attribute, ast.Subscript)) and self.owned_target(st.target):
                    self.note(st, ast.unparse(st.target)[:60] + " op= …")
            elif isinstance(st, ast.Delete):
                for t in st.targets:
                    if isinstance(t, (ast.Attribute, ast.Subscript)) and self.owned_target(t):
                        self.note(st, "del " + ast.unparse(t)[:60])
            elif isinstance(st, ast.If):
                # a name is fresh after the statement only if it became fresh on both paths
                self.calls(st.test)
                before = set(self.owned)
                self.block(st.body)
                after_body = set(self.owned)
                self.owned = set(before)
                self.block(st.orelse)
                self.owned = after_body | self.owned
            elif isinstance(st, (ast.While, ast.For, ast.AsyncFor)):
                self.calls(st.test if isinstance(st, ast.While) else st.iter)
                before = set(self.owned)
                self.block(st.body)
                self.block(st.orelse)
                self.owned = before | self.owned      # the body may not run
            elif isinstance(st, (ast.With, ast.AsyncWith)):
                for it in st.items:
                    self.calls(it.context_expr)
                self.block(st.body)
            elif isinstance(st, ast.Try):
                before = set(self.owned)
                self.block(st.body)
                for h in st.handlers:
                    self.block(h.body)
                self.block(st.orelse)
                self.block(st.finalbody)
                self.owned = before | self.owned
            else:
                self.calls(st)


def _lean_str(s):
    return '"' + s.replace("\\", "\\\\").replace('"', '\\"') + '"'


def emit(src, site, mode):
    from py2lean import Unsupported
    tree = src.tree(site["file"])
    rows = []
    # direct write sets of every top-level function, per parameter (for the one-level-deep step)
    callee = {}
    for n in tree.body:
        if isinstance(n, ast.FunctionDef):
            params = [a.arg for a in n.args.args]
            info = {"__params__": params}
            for q in params + [a.arg for a in n.args.kwonlyargs]:
                sc0 = Scan({q}, False)
                sc0.block(n.body)
                if sc0.writes:
                    info[q] = sc0.writes
            callee[n.name] = info
    if site["select"].startswith("param:"):
        pname = site["select"].split(":")[1]
        for n in tree.body:
            if isinstance(n, ast.FunctionDef) and any(a.arg == pname for a in n.args.args + n.args.kwonlyargs):
                sc = Scan({pname}, False, callee)
                sc.block(n.body)
                rows.append((n.name, sc.writes))
    elif site["select"].startswith("param_any:"):
        pname = site["select"].split(":")[1]
        for n in tree.body:
            if isinstance(n, ast.FunctionDef) and any(a.arg == pname for a in n.args.args + n.args.kwonlyargs):
                sc = Scan({pname}, False, callee)
                sc.block(n.body)
                rows.append((n.name, sc.writes))
            if isinstance(n, ast.ClassDef):
                methods = [m for m in n.body if isinstance(m, ast.FunctionDef)]
                fields = []
                for m in methods:
                    if any(a.arg == pname for a in m.args.args + m.args.kwonlyargs):
                        sc = Scan({pname}, False, callee)
                        sc.block(m.body)
                        rows.append((f"{n.name}.{m.name}", sc.writes))
                        fields += sc.escaped
                if fields:
                    for m in methods:
                        sc = Scan({"self"}, False, callee, fields=fields)
                        sc.block(m.body)
                        rows.append((f"{n.name}.{m.name}[stored {','.join(sorted(set(fields)))}]", sc.writes))
    elif site["select"] == "methods":
        for c in tree.body:
            if not isinstance(c, ast.ClassDef):
                continue
            for n in c.body:
                if not isinstance(n, ast.FunctionDef) or not n.args.args or n.args.args[0].arg != "self":
                    continue
                if any(isinstance(d, ast.Attribute) and d.attr == "setter" for d in n.decorator_list):
                    continue
                if n.name == "__init__":
                    continue
                sc = Scan({"self"}, True)
                sc.block(n.body)
                rows.append((f"{c.name}.{n.name}", sc.writes))
    else:
        raise Unsupported(f"select {site['select']}")
    if not rows:
        raise Unsupported("nothing selected")
    body = "[\n" + ",\n".join(f"  ({_lean_str(k)}, [{', '.join(_lean_str(w) for w in ws)}])" for k, ws in rows) + "]"
    text = (f"/-- direct writes through caller-owned names in {site['file']} ({site['select']}); see tools/py2lean_writes.py -/\n"
            f"def {site['name']} : List (String × List String) :=\n{body}\n")
    return text, {"rows": len(rows), "nonempty": [k for k, ws in rows if ws], "sha": hashlib.sha256(body.encode()).hexdigest()[:16]}
