"""py2lean emitters for the atomic-potential parametrizations (C25).

emit_json_table   a JSON coefficient file {symbol: [[row], [row], ...]} -> `List (String × List (List Rat))`, every number read
                  as the exact rational of the decimal text in the file.
emit_kernel       an expression site of a parametrization kernel (`abtem/parametrizations/functions/*.py`): `p[i, j]` become the
                  scalar parameters `p<i><j>`, `x ** 2.0` (float literal with an integer value) is read as `x ** 2`, and powers with
                  a constant non-integer exponent (`x ** (3.0 / 2.0)`) become `Real.rpow` / `Float.pow`.
"""
from __future__ import annotations

import ast
import hashlib
import json
import sys
from fractions import Fraction


def _P():
    m = sys.modules.get("__main__")
    if m is not None and hasattr(m, "Tx") and hasattr(m, "Unsupported"):
        return m
    import importlib

    return importlib.import_module("py2lean")


def _unsupported(msg):
    return _P().Unsupported(msg)


def _rat(f: Fraction) -> str:
    if f.denominator == 1:
        return f"({f.numerator} : Rat)" if f.numerator >= 0 else f"(-{-f.numerator} : Rat)"
    num = f"({f.numerator} : Rat)" if f.numerator >= 0 else f"(-{-f.numerator} : Rat)"
    return f"{num} / {f.denominator}"


def emit_json_table(src, site, mode):
    if mode != "rat":
        raise _unsupported("tables are exact (mode rat)")
    path = src.repo / site["file"]
    text = path.read_text()
    data = json.loads(text, parse_float=Fraction, parse_int=Fraction)
    if not isinstance(data, dict):
        raise _unsupported("top level is not an object")
    shape = tuple(site["shape"])
    rows = []
    for sym, val in data.items():
        if '"' in sym or "\\" in sym:
            raise _unsupported(f"symbol {sym!r}")
        if not (isinstance(val, list) and len(val) == shape[0] and all(isinstance(r, list) and len(r) == shape[1] for r in val)):
            raise _unsupported(f"entry {sym} does not have shape {shape}")
        for r in val:
            for x in r:
                if not isinstance(x, Fraction):
                    raise _unsupported(f"entry {sym} holds a non-number")
        rows.append(f'  ("{sym}", [' + ", ".join("[" + ", ".join(_rat(x) for x in r) + "]" for r in val) + "])")
    head = f"/-- {site['file']} : {len(rows)} entries of shape {shape}, exact decimal values -/\n"
    lean = head + f"def {site['name']} : List (String × List (List Rat)) :=\n  [\n" + ",\n".join(rows) + "]\n"
    return lean, {"rows": len(rows), "sha": hashlib.sha256(text.encode()).hexdigest()[:16]}


class _Norm(ast.NodeTransformer):
    """`x ** 2.0` -> `x ** 2`"""

    def visit_BinOp(self, n):
        n = self.generic_visit(n)
        if isinstance(n.op, ast.Pow) and isinstance(n.right, ast.Constant) and isinstance(n.right.value, float) \
                and n.right.value == int(n.right.value) and 0 <= n.right.value <= 8:
            n.right = ast.copy_location(ast.Constant(value=int(n.right.value)), n.right)
        return n


def _const_fraction(n):
    """exact value of a constant numeric expression made of literals, + - * / (e.g. `3.0 / 2.0`, `5 / 2`)"""
    if isinstance(n, ast.Constant) and isinstance(n.value, (int, float)) and not isinstance(n.value, bool):
        return Fraction(repr(n.value)) if isinstance(n.value, float) else Fraction(n.value)
    if isinstance(n, ast.UnaryOp) and isinstance(n.op, ast.USub):
        return -_const_fraction(n.operand)
    if isinstance(n, ast.BinOp) and isinstance(n.op, (ast.Add, ast.Sub, ast.Mult, ast.Div)):
        a, b = _const_fraction(n.left), _const_fraction(n.right)
        return {ast.Add: a + b, ast.Sub: a - b, ast.Mult: a * b}[type(n.op)] if not isinstance(n.op, ast.Div) else a / b
    raise _unsupported(f"exponent {ast.unparse(n)} is not a numeric constant")


def emit_kernel(src, site, mode):
    P = _P()
    fn = src.func(site["file"], site["func"])
    node = P.select(fn, tuple(site["select"]))
    for step in site.get("path", []):  # descend: positional argument of a call / element of a tuple or list literal
        if isinstance(node, ast.Call) and step < len(node.args):
            node = node.args[step]
        elif isinstance(node, (ast.Tuple, ast.List)) and step < len(node.elts):
            node = node.elts[step]
        else:
            raise _unsupported(f"path step {step} does not exist in {ast.unparse(node)[:80]}")
    orig = ast.unparse(node)
    node2 = ast.fix_missing_locations(_Norm().visit(ast.parse(orig, mode="eval").body))
    pm = dict(site.get("params_map", {}))
    rows, cols = site.get("pshape", (0, 0))
    for i in range(rows):
        for j in range(cols):
            pm[f"p[{i}, {j}]"] = f"p{i}{j}"
    class Tx2(P.Tx):
        def e(self, n):
            if isinstance(n, ast.BinOp) and isinstance(n.op, ast.Pow) and not (
                    isinstance(n.right, ast.Constant) and (isinstance(n.right.value, int) or n.right.value == 0.5)):
                ex = _const_fraction(n.right)
                a = self.e(n.left)
                if ex.denominator == 1 and ex >= 0:
                    return f"({a} ^ {ex.numerator})" if self.mode != "float" else "(" + " * ".join([a] * int(ex)) + ")"
                if self.mode == "real":
                    return f"(Real.rpow {a} (({ex.numerator} : ℝ) / {ex.denominator}))"
                if self.mode == "float":
                    return f"(Float.pow {a} (({ex.numerator} : Float) / ({ex.denominator} : Float)))"
                raise _unsupported("non-integer power in mode " + self.mode)
            if isinstance(n, ast.Call) and ast.unparse(n.func) in ("np.array", "numpy.array") and n.args:
                return self.e(n.args[0])  # `np.array(np.pi, dtype=np.float32)`: the value (float32 rounding is IEEE, not modelled)
            return super().e(n)

    for p_ in site["params"]:
        pm.setdefault(p_, p_)
    tx = Tx2(mode, pm, ast.unparse(node2), {})
    # local re-assignments in front of the expression, in source order (`k2 = 4 * pi2 * k2` shadows the argument afterwards)
    for var, sel in site.get("inline", []):
        ex = ast.fix_missing_locations(_Norm().visit(ast.parse(ast.unparse(P.select(fn, tuple(sel))), mode="eval").body))
        tx.params[var] = "(" + tx.e(ex) + ")"
    body = tx.e(node2)
    sc = P.SCALAR[mode]
    params = list(site["params"]) + [f"p{i}{j}" for i in range(rows) for j in range(cols)]
    binders = " ".join(f"({p} : {sc})" for p in params)
    nc = "noncomputable " if mode in ("real", "cplx") else ""
    head = f"/-- {site['file']}:{node.lineno} `{site['func']}` :: `{orig[:240]}` -/\n"
    return head + f"{nc}def {site['name']} {binders} : {sc} :=\n  {body}\n", {
        "line": node.lineno, "python": orig[:600], "sha": hashlib.sha256(ast.dump(node).encode()).hexdigest()[:16]}
