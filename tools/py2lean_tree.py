"""py2lean emitter for small *total* functions whose body is a tree of `if / elif / else` with a `return` on every
path (plus simple local assignments): `def f(a, b): if b == 0.0: return 0.0 else: return a / b` becomes
`def f (a b : Rat) : Rat := (if (decide (b = 0)) then 0 else (a / b))`.

Used through the generic `emitter` hook of tools/py2lean.py:  site = {emitter: "py2lean_tree:emit_ret_tree", func: "<qualname,
may be a nested def>", params: [...], ...}.  The definition is registered as non-raising with py2lean_ext so that
expression sites of the same Gen module can call it (`ext: True, calls: {"f": "leanName"}`).
Anything else in the body (loops, raise, augmented assignment, a path without return) is Unsupported (fail loudly).
"""
from __future__ import annotations

import ast
import hashlib

import py2lean_ext
from py2lean_ext import _P, _binders, _unsupported


def _tree(tx, stmts):
    stmts = [s for s in stmts if not (isinstance(s, ast.Expr) and isinstance(s.value, ast.Constant) and isinstance(s.value.value, str))]
    if not stmts:
        raise _unsupported("path without return")
    st = stmts[0]
    if isinstance(st, ast.Return) and st.value is not None:
        return tx.e(st.value)
    if isinstance(st, ast.If):
        rest = st.orelse if st.orelse else stmts[1:]
        if st.orelse and len(stmts) > 1:
            raise _unsupported("statements after an if/else whose branches return")
        return f"(if {tx.e(st.test)} then {_tree(tx, st.body)} else {_tree(tx, rest)})"
    if isinstance(st, ast.Assign) and len(st.targets) == 1 and isinstance(st.targets[0], ast.Name):
        name = st.targets[0].id
        val = tx.e(st.value)
        tx.params.pop(name, None)
        tx.params[name] = name + "_"
        return f"(let {name}_ := {val}; {_tree(tx, stmts[1:])})"
    raise _unsupported(f"statement {type(st).__name__}: {ast.unparse(st)[:60]}")


def emit_ret_tree(src, site, mode):
    P = _P()
    fn = src.func(site["file"], site["func"])
    text = (src.repo / site["file"]).read_text()
    pm = dict(site.get("params_map", {}))
    for a in fn.args.args:
        if a.arg in site["params"]:
            pm.setdefault(a.arg, a.arg)
    tx = P.Tx(mode, pm, text, {})
    body = _tree(tx, list(fn.body))
    sc = P.SCALAR[mode]
    rty = site.get("ret", "Scalar").replace("Scalar", sc)
    nc = "noncomputable " if mode in ("real", "cplx") else ""
    py2lean_ext.RAISES[(site["gen"], mode, site["name"])] = False
    fn_nodoc = P.strip_doc(fn)
    head = f"/-- {site['file']}:{fn.lineno} whole function `{site['func']}` :: `{' '.join(ast.unparse(fn_nodoc).split())[:300]}` -/\n"
    return head + f"{nc}def {site['name']} {_binders(site, mode)} : {rty} :=\n  {body}\n", {
        "line": fn.lineno,
        "python": ast.unparse(fn_nodoc)[:600],
        "sha": hashlib.sha256(ast.dump(fn_nodoc).encode()).hexdigest()[:16],
        "whole_function": True,
    }
