#!/usr/bin/env python3
"""tools/seeded_test.py <seeded-dir-or-patch> [Cxx ...]
Apply a seeded change to a scratch worktree of /repo HEAD and run the named checks
(default: the property in meta.json "breaks") against it.  Prints one line per check:
CAUGHT (exit 1 + VIOLATION), MISSED (exit 0) or ERROR.  Worktree and private Lean copy are removed."""
import json, os, subprocess, sys, shutil, hashlib
from pathlib import Path
V = Path(__file__).resolve().parent.parent
arg = Path(sys.argv[1]).resolve()
patch = arg / "patch.diff" if arg.is_dir() else arg
ids = sys.argv[2:]
if not ids and arg.is_dir() and (arg / "meta.json").exists():
    b = json.loads((arg / "meta.json").read_text()).get("breaks")
    ids = b if isinstance(b, list) else [b]
name = hashlib.md5(str(patch).encode()).hexdigest()[:8]
wt = Path(f"/tmp/wt_seed_{name}")
subprocess.run(["git", "-C", "/repo", "worktree", "remove", "--force", str(wt)], capture_output=True)
subprocess.run(["git", "-C", "/repo", "worktree", "add", "-q", "--detach", str(wt), "HEAD"], check=True)
rc_all = 0
try:
    r = subprocess.run(["git", "-C", str(wt), "apply", "--3way", str(patch)], capture_output=True, text=True)
    if r.returncode != 0:
        r = subprocess.run(["git", "-C", str(wt), "apply", str(patch)], capture_output=True, text=True)
    if r.returncode != 0:
        print("PATCH-DOES-NOT-APPLY", r.stderr[-400:]); sys.exit(3)
    for pid in ids:
        env = dict(os.environ, VERIF_REPO=str(wt))
        p = subprocess.run([str(V / "check"), pid, "--tier", os.environ.get("SEEDED_TIER", "quick")], env=env, capture_output=True, text=True, cwd=V)
        viol = [l for l in p.stdout.splitlines() if l.startswith("VIOLATION")]
        verdict = "CAUGHT" if p.returncode == 1 and viol else ("MISSED" if p.returncode == 0 else f"ERROR rc={p.returncode}")
        print(f"{verdict} {pid} {patch} :: {viol[0] if viol else p.stdout.strip().splitlines()[-1] if p.stdout.strip() else p.stderr[-300:]}")
        if verdict != "CAUGHT":
            rc_all = 1
            print(p.stdout[-1500:])
        h = hashlib.md5(f"{wt}-{pid}".encode()).hexdigest()[:12]
        shutil.rmtree(f"/tmp/verif-lean-{h}", ignore_errors=True)
finally:
    subprocess.run(["git", "-C", "/repo", "worktree", "remove", "--force", str(wt)], capture_output=True)
sys.exit(rc_all)
