"""py2lean emitter: inventory of the mutable state of a class (C11).

`emit_mutable_state(src, site, mode)` lists, for class `site["cls"]` of `site["file"]`, every attribute `self.X` that
  * is initialised to an empty container (`{}`, `[]`, `dict()`, `list()`, `set()`) in `__init__`, or
  * is written outside `__init__`: assignment / augmented assignment to `self.X`, item assignment or deletion
    `self.X[...] = …`, `del self.X[...]`, a mutating method call `self.X.append/extend/insert/update/setdefault/pop/
    popitem/clear/add/remove/discard(...)`, or `setattr(self, "X", …)`;
and every decorator that memoises a method (`lru_cache`, `cache`, `cached_property`, `cachedmethod`) as `@name:method`.
The result is emitted as a sorted `List String`.  A cache added to the class later shows up in this list, so a theorem
that states the expected inventory stops checking.  Only stdlib `ast`."""
import ast
import hashlib

MUTATORS = {"append", "extend", "insert", "update", "setdefault", "pop", "popitem", "clear", "add", "remove", "discard"}
MEMO = {"lru_cache", "cache", "cached_property", "cachedmethod", "cached"}


def _self_attr(n):
    """`self.X` or `self.X[...]…` -> X"""
    while isinstance(n, ast.Subscript):
        n = n.value
    if isinstance(n, ast.Attribute) and isinstance(n.value, ast.Name) and n.value.id == "self":
        return n.attr
    return None


def _empty_container(v):
    if isinstance(v, (ast.Dict, ast.List, ast.Set)) and not (getattr(v, "keys", None) or getattr(v, "elts", None)):
        return True
    return isinstance(v, ast.Call) and isinstance(v.func, ast.Name) and v.func.id in ("dict", "list", "set", "OrderedDict", "defaultdict") \
        and not v.args


def inventory(cls: ast.ClassDef):
    found = set()
    for fn in cls.body:
        if not isinstance(fn, (ast.FunctionDef, ast.AsyncFunctionDef)):
            continue
        for d in fn.decorator_list:
            name = d.func if isinstance(d, ast.Call) else d
            name = name.attr if isinstance(name, ast.Attribute) else getattr(name, "id", None)
            if name in MEMO:
                found.add(f"@{name}:{fn.name}")
            if isinstance(d, ast.Attribute) and d.attr == "setter":  # a property setter makes the attribute writable from outside
                found.add(f"setter:{fn.name}")
        init = fn.name == "__init__"
        for n in ast.walk(fn):
            targets = []
            if isinstance(n, ast.Assign):
                targets = [(t, n.value) for t in n.targets]
            elif isinstance(n, ast.AnnAssign) and n.value is not None:
                targets = [(n.target, n.value)]
            elif isinstance(n, ast.AugAssign):
                targets = [(n.target, None)]
            elif isinstance(n, ast.Delete):
                targets = [(t, None) for t in n.targets]
            for t, v in targets:
                for tt in (t.elts if isinstance(t, (ast.Tuple, ast.List)) else [t]):
                    x = _self_attr(tt)
                    if x is None:
                        continue
                    if init:
                        if isinstance(tt, ast.Attribute) and v is not None and _empty_container(v):
                            found.add(x)
                    else:
                        found.add(x)
            if isinstance(n, ast.Call) and not init:
                f = n.func
                if isinstance(f, ast.Attribute) and f.attr in MUTATORS:
                    x = _self_attr(f.value)
                    if x is not None:
                        found.add(x)
                if isinstance(f, ast.Name) and f.id == "setattr" and len(n.args) >= 2 and isinstance(n.args[0], ast.Name) \
                        and n.args[0].id == "self":
                    found.add(n.args[1].value if isinstance(n.args[1], ast.Constant) else "<dynamic setattr>")
    return sorted(found)


def emit_mutable_state(src, site, mode):
    tree = src.tree(site["file"])
    cls = None
    for n in tree.body:
        if isinstance(n, ast.ClassDef) and n.name == site["cls"]:
            cls = n
    if cls is None:
        raise KeyError(f"class {site['cls']} not found in {site['file']}")
    inv = inventory(cls)
    body = "[" + ", ".join(f'"{x}"' for x in inv) + "]"
    text = (f"/-- {site['file']} `class {site['cls']}`: attributes initialised to empty containers or written outside `__init__`, "
            f"and memoising decorators -/\ndef {site['name']} : List String :=\n  {body}\n")
    return text, {"line": cls.lineno, "python": f"class {site['cls']}", "rows": len(inv),
                  "sha": hashlib.sha256(repr(inv).encode()).hexdigest()[:16]}


def emit_reads(src, site, mode):
    """data attributes `self.X` read by the methods `site["methods"]` of class `site["cls"]`, following calls to other methods
    and properties of the same class transitively (a method or property name itself is not listed, its body is followed)"""
    tree = src.tree(site["file"])
    cls = next((n for n in tree.body if isinstance(n, ast.ClassDef) and n.name == site["cls"]), None)
    if cls is None:
        raise KeyError(f"class {site['cls']} not found in {site['file']}")
    methods = {f.name: f for f in cls.body if isinstance(f, (ast.FunctionDef, ast.AsyncFunctionDef))}
    todo, seen, reads = list(site["methods"]), set(), set()
    for m in todo:
        if m not in methods:
            raise KeyError(f"method {site['cls']}.{m} not found")
    while todo:
        m = todo.pop()
        if m in seen:
            continue
        seen.add(m)
        for n in ast.walk(methods[m]):
            if isinstance(n, ast.Attribute) and isinstance(n.value, ast.Name) and n.value.id == "self":
                if n.attr in methods:
                    todo.append(n.attr)
                else:
                    reads.add(n.attr)
    inv = sorted(reads)
    body = "[" + ", ".join(f'"{x}"' for x in inv) + "]"
    text = (f"/-- {site['file']} `class {site['cls']}`: data attributes read (transitively through the class's own methods and properties) "
            f"by {', '.join(site['methods'])} -/\ndef {site['name']} : List String :=\n  {body}\n")
    return text, {"line": cls.lineno, "python": f"class {site['cls']}: reads of {site['methods']}", "rows": len(inv),
                  "sha": hashlib.sha256(repr(inv).encode()).hexdigest()[:16]}
