#!/usr/bin/env python3
"""Assemble /verif/MANIFEST.json from harness/meta/Cxx.json (one per claimed property).
Properties without a meta file (or whose meta has "not_applicable") are listed under not_applicable."""
import json, sys
from pathlib import Path
V = Path(__file__).resolve().parent.parent
props = [json.loads(l) for l in (V / "properties.jsonl").read_text().splitlines() if l.strip()]
checks, na = [], []
for p in props:
    pid = p["id"]
    mf = V / "harness" / "meta" / f"{pid}.json"
    hf = V / "harness" / f"{pid.lower()}.py"
    if not mf.exists() or not hf.exists():
        na.append({"property_id": pid, "reason": "no check built yet in this round (see DESIGN.md §6 for the planned model and theorems)"})
        continue
    m = json.loads(mf.read_text())
    if m.get("not_applicable"):
        na.append({"property_id": pid, "reason": m["not_applicable"]})
        continue
    checks.append({
        "property_id": pid,
        "quick_cmd": f"./check {pid} --tier quick",
        "thorough_cmd": f"./check {pid} --tier thorough",
        "evidence_file": f"evidence/{pid}.json",
        "replay_cmd_template": f"./check {pid} --replay {{path}}",
        "engine": "lean4+correspondence",
        "level_claimed": {"category": "proof", "text": m["level_text"], "design_ref": m.get("design_ref", f"DESIGN.md §6 {pid}")},
        "level_note": m["level_note"],
        "technique": m.get("technique", "Lean 4 machine-checked proof + differential correspondence"),
    })
man = {
    "version": 1,
    "setup_cmd": "bash tools/setup.sh",
    "hooks": {
        "guard": "ABTEM_VERIF",
        "enable": "checks export ABTEM_VERIF=1 and run the real abTEM code in-process from $VERIF_REPO (default /repo) via PYTHONPATH; no source hooks exist, tracing is done by monkeypatching inside the harness process",
        "baseline_off_cmd": "cd /repo && env -u ABTEM_VERIF /venv/bin/python -m pytest -ra -q -p no:cacheprovider --timeout=900 --continue-on-collection-errors",
        "source_commits": [],
        "add_only": True,
    },
    "engines": [{
        "name": "lean4+correspondence",
        "path": "lean/ (Lean 4 package AbtemVerif), tools/py2lean.py (translator), harness/ (correspondence + conformance), check (runner)",
        "serves_properties": [c["property_id"] for c in checks],
        "kind_free_text": "Lean 4 machine-checked proofs about executable models; models tied to /repo on every run by a Python-AST->Lean translator for formula sites and by differential correspondence (line protocol against the Lean driver) for hand models",
    }],
    "checks": checks,
    "not_applicable": na,
    "notes": "See DESIGN.md. Fix commits in /repo and recorded findings are listed in known_findings.json.",
}
findings = []
for f in sorted((V / "findings").glob("*.json")):
    findings += json.loads(f.read_text())
lines = []
for f in findings:
    if f["status"] == "fixed":
        lines.append(f"fixed: property={f['property']} {f.get('commit','?')} {f['what']}")
    else:
        lines.append(f"known: property={f['property']} key={f['key']} {f['what']}")
(V / "known_findings.json").write_text(json.dumps({
    "description": "Genuine defects of abTEM found by the checks. status=known: recorded, not repaired (the check prints KNOWN-FINDING and "
                   "exits 0 while only the listed key fails); status=fixed: repaired by the named fix: commit in /repo (suppresses nothing). "
                   "Assembled from findings/*.json by tools/mkmanifest.py; never written at check time.",
    "lines": lines, "findings": findings}, indent=1, ensure_ascii=False) + "\n")
(V / "MANIFEST.json").write_text(json.dumps(man, indent=1, ensure_ascii=False) + "\n")
print(f"MANIFEST.json: {len(checks)} checks, {len(na)} not_applicable")
