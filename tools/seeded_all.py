#!/usr/bin/env python3
"""tools/seeded_all.py [pattern]  — run every kept seeded change against the check of the property it breaks
(when that check exists) and write seeded/RESULTS.json (name -> verdict line).  Parallel (4 at a time)."""
import json, subprocess, sys, re
from concurrent.futures import ThreadPoolExecutor
from pathlib import Path
V = Path(__file__).resolve().parent.parent
pat = sys.argv[1] if len(sys.argv) > 1 else ""
res_path = V / "seeded" / "RESULTS.json"
res = json.loads(res_path.read_text()) if res_path.exists() else {}
jobs = []
for d in sorted((V / "seeded").iterdir()):
    if not d.is_dir() or not (d / "patch.diff").exists() or (pat and not re.search(pat, d.name)):
        continue
    meta = json.loads((d / "meta.json").read_text()) if (d / "meta.json").exists() else {}
    b = meta.get("breaks") or meta.get("property")
    ids = b if isinstance(b, list) else [b]
    ids = [i for i in ids if i and (V / "harness" / f"{i.lower()}.py").exists()]
    if ids:
        jobs.append((d, ids))
def run(job):
    d, ids = job
    p = subprocess.run([sys.executable, str(V / "tools" / "seeded_test.py"), str(d)] + ids, capture_output=True, text=True)
    lines = [l for l in p.stdout.splitlines() if re.match(r"(CAUGHT|MISSED|ERROR|PATCH)", l)]
    return d.name, lines
import fcntl
new = {}
with ThreadPoolExecutor(4) as ex:
    for name, lines in ex.map(run, jobs):
        new[name] = lines
        print(name, "::", "; ".join(l[:140] for l in lines))
        # merge into the shared results file under a lock (several seeded_all runs may be active)
        with open(str(res_path) + ".lock", "w") as lk:
            fcntl.flock(lk, fcntl.LOCK_EX)
            cur = json.loads(res_path.read_text()) if res_path.exists() else {}
            cur[name] = lines
            res_path.write_text(json.dumps(cur, indent=1, sort_keys=True))
