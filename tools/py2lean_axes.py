"""py2lean emitter for C35: the table of axis-metadata dataclasses of abtem/core/axes.py.

Every `@dataclass` class of the module is emitted as `(name, base class or none, [(own field, default)])` in source order;
defaults must be literals (str, None, bool, int/float, the empty tuple).  The Lean model (Model/Axes.lean) derives the
constructor signature (dataclass field order through the base chain, redefinitions keep their position) from this table,
so adding / removing / renaming a field or changing a default changes the definitions the C35 theorems are about.
"""
from __future__ import annotations

import ast
import hashlib
from fractions import Fraction

from py2lean_ext import _P, _unsupported


def _default(node, text):
    if isinstance(node, ast.Constant):
        v = node.value
        if v is None:
            return "V.none"
        if isinstance(v, bool):
            return f"V.bool {'true' if v else 'false'}"
        if isinstance(v, str):
            return 'V.str "' + v.replace("\\", "\\\\").replace('"', '\\"') + '"'
        if isinstance(v, (int, float)):
            seg = ast.get_source_segment(text, node)
            f = Fraction(seg) if isinstance(v, float) and seg else Fraction(v)
            return f"V.num (({f.numerator} : Rat) / {f.denominator})" if f.denominator != 1 else f"V.num ({f.numerator} : Rat)"
    if isinstance(node, ast.Tuple) and not node.elts:
        return "V.tup []"
    raise _unsupported(f"dataclass default {ast.unparse(node)[:60]}")


def emit_dataclass_table(src, site, mode):
    tree = src.tree(site["file"])
    text = (src.repo / site["file"]).read_text()
    rows = []
    for n in tree.body:
        if not isinstance(n, ast.ClassDef):
            continue
        if not any((isinstance(d, ast.Call) and ast.unparse(d.func) == "dataclass") or ast.unparse(d) == "dataclass" for d in n.decorator_list):
            continue
        if len(n.bases) > 1:
            raise _unsupported(f"multiple bases for {n.name}")
        base = f'some "{ast.unparse(n.bases[0])}"' if n.bases else "none"
        fields = []
        for st in n.body:
            if isinstance(st, ast.AnnAssign) and isinstance(st.target, ast.Name):
                if st.value is None:
                    raise _unsupported(f"field {n.name}.{st.target.id} without default")
                fields.append(f'("{st.target.id}", {_default(st.value, text)})')
        rows.append(f'  ("{n.name}", {base}, [{", ".join(fields)}])')
    body = "[\n" + ",\n".join(rows) + "]"
    lean = (f"/-- {site['file']}: every `@dataclass` class as (name, base, own fields with defaults), in source order -/\n"
            f"def {site['name']} : List (String × Option String × List (String × V)) :=\n  {body}\n")
    return lean, {"rows": len(rows), "sha": hashlib.sha256(body.encode()).hexdigest()[:16], "line": 1, "python": f"{len(rows)} dataclasses"}
