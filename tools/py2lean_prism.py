"""py2lean emitters used by C06 / C08 / C37 (kept outside the shared translator; hooked in with `emitter=`).

* `emit_stmt_fn` — whole small integer functions made of simple assignments, `if / elif / else`, `raise`, and a final
  `return` of a tuple: each statement list becomes a Lean term of type `Except String <ret>` in continuation style
  (the statements after an `if` are appended to *both* branches, so reassigned variables need no join points;
  Lean `let` shadows like Python rebinding).  `slice(a, b)` becomes `PySlice.mk a? b?` (`None` -> `none`).
* `emit_receiver` — the object of the k-th method call `<obj>.<method>(…)` in a function, as an expression site
  (e.g. the summand of `(xp.abs(array) ** 2).sum(axis=-1)`), with an optional per-site function table `funcs`.
* `emit_num_dict` — a module-level `{int: [floats]}` literal as `List (Nat × List Rat)` (exact decimal readings).
"""
from __future__ import annotations

import ast
import hashlib

from py2lean_ext import EXC_KIND, _P, _binders


def _unsupported(msg):
    return _P().Unsupported(msg)


def _opt(tx, n):
    if isinstance(n, ast.Constant) and n.value is None:
        return "none"
    return f"(some {tx.e(n)})"


def _expr(tx, n):
    if isinstance(n, ast.Call) and isinstance(n.func, ast.Name) and n.func.id == "slice" and len(n.args) == 2 and not n.keywords:
        return f"(PySlice.mk {_opt(tx, n.args[0])} {_opt(tx, n.args[1])})"
    if isinstance(n, ast.Tuple):
        return "(" + ", ".join(_expr(tx, e) for e in n.elts) + ")"
    return tx.e(n)


def _stmts(tx, stmts):
    stmts = [s for s in stmts if not (isinstance(s, ast.Expr) and isinstance(s.value, ast.Constant))]
    if not stmts:
        raise _unsupported("path without return")
    st, rest = stmts[0], stmts[1:]
    if isinstance(st, ast.Return) and st.value is not None:
        return f".ok {_expr(tx, st.value)}"
    if isinstance(st, ast.Raise):
        exc = st.exc.func.id if isinstance(st.exc, ast.Call) and isinstance(st.exc.func, ast.Name) else \
            st.exc.id if isinstance(st.exc, ast.Name) else None
        if exc not in EXC_KIND:
            raise _unsupported(f"raise {ast.unparse(st)[:60]}")
        return f'.error "{EXC_KIND[exc]}"'
    if isinstance(st, ast.If):
        return f"(if {tx.e(st.test)} then {_stmts(tx, list(st.body) + rest)} else {_stmts(tx, list(st.orelse) + rest)})"
    if isinstance(st, ast.Assign) and len(st.targets) == 1 and isinstance(st.targets[0], ast.Name):
        name = st.targets[0].id
        val = _expr(tx, st.value)  # evaluated with the bindings in force *before* the assignment
        tx.params[name] = name
        body = _stmts(tx, rest)
        return f"(let {name} := {val}; {body})"
    raise _unsupported(f"statement {type(st).__name__}: {ast.unparse(st)[:60]}")


def emit_stmt_fn(src, site, mode):
    P = _P()
    fn = src.func(site["file"], site["func"])
    text = (src.repo / site["file"]).read_text()
    pm = dict(site.get("params_map", {}))
    for a in fn.args.args:
        if a.arg in site["params"]:
            pm.setdefault(a.arg, a.arg)
    tx = P.Tx(mode, pm, text, {})
    tx.site = None
    body = _stmts(tx, list(fn.body))
    rty = site["ret"]
    fn_nodoc = P.strip_doc(fn)
    head = f"/-- {site['file']}:{fn.lineno} whole function `{site['func']}` :: `{' '.join(ast.unparse(fn_nodoc).split())[:400]}` -/\n"
    return head + f"def {site['name']} {_binders(site, mode)} : Except String ({rty}) :=\n  {body}\n", {
        "line": fn.lineno,
        "python": " ".join(ast.unparse(fn_nodoc).split())[:600],
        "sha": hashlib.sha256(ast.dump(fn_nodoc).encode()).hexdigest()[:16],
        "whole_function": True,
    }


def emit_receiver(src, site, mode):
    P = _P()
    fn = src.func(site["file"], site["func"])
    text = (src.repo / site["file"]).read_text()
    method, k = site["method"], site.get("k", 0)
    hits = []
    for n in ast.walk(fn):
        if isinstance(n, ast.Call) and isinstance(n.func, ast.Attribute) and n.func.attr == method \
                and not (isinstance(n.func.value, ast.Name) and n.func.value.id in ("np", "xp", "math", "numpy")):
            hits.append((n.lineno, n.col_offset, n))
    hits.sort(key=lambda h: (h[0], h[1]))
    if k >= len(hits):
        raise _unsupported(f"receiver of .{method}(): only {len(hits)} matches")
    call = hits[k][2]
    want_kw = site.get("kwargs")
    if want_kw is not None and {kw.arg: ast.unparse(kw.value) for kw in call.keywords} != want_kw:
        raise _unsupported(f".{method}() keywords changed: {ast.unparse(call)[:80]}")
    node = call.func.value
    tx = P.Tx(mode, dict(site["params_map"]), text, {})
    tx.site = None
    over = site.get("funcs", {})
    orig = tx.f
    tx.f = lambda name: over[name] if name in over else orig(name)
    body = tx.e(node)
    sc = P.SCALAR[mode]
    rty = site.get("ret", "Scalar").replace("Scalar", sc)
    nc = "noncomputable " if mode in ("real", "cplx") else ""
    head = f"/-- {site['file']}:{node.lineno} `{site['func']}` :: receiver of `.{method}(…)`: `{ast.unparse(node)[:300]}` -/\n"
    return head + f"{nc}def {site['name']} {_binders(site, mode)} : {rty} :=\n  {body}\n", {
        "line": node.lineno, "python": ast.unparse(call)[:400],
        "sha": hashlib.sha256(ast.dump(call).encode()).hexdigest()[:16],
    }


def emit_num_dict(src, site, mode):
    """module-level `{int: [number, …], …}` -> `List (Nat × List Rat)`; numbers are read as the exact decimals written"""
    P = _P()
    tree = src.tree(site["file"])
    text = (src.repo / site["file"]).read_text()
    target = None
    for n in tree.body:
        if isinstance(n, (ast.Assign, ast.AnnAssign)):
            ts = n.targets if isinstance(n, ast.Assign) else [n.target]
            if any(ast.unparse(t) == site["var"] for t in ts):
                target = n.value
    if not isinstance(target, ast.Dict):
        raise _unsupported(f"table {site['var']} is not a dict literal")
    tx = P.Tx(mode, {}, text, {})
    tx.site = None
    sc = P.SCALAR[mode]
    rows = []
    for k, v in zip(target.keys, target.values):
        if not (isinstance(k, ast.Constant) and isinstance(k.value, int) and k.value >= 0):
            raise _unsupported("key is not a natural number literal")
        if not isinstance(v, (ast.List, ast.Tuple)):
            raise _unsupported("value is not a list literal")
        vals = ", ".join(f"({tx.e(e)} : {sc})" for e in v.elts)
        rows.append(f"  ({k.value}, [{vals}])")
    body = "[\n" + ",\n".join(rows) + "]"
    return f"/-- {site['file']} `{site['var']}` -/\ndef {site['name']} : List (Nat × List {sc}) :=\n  {body}\n", {
        "rows": len(rows), "sha": hashlib.sha256(ast.dump(target).encode()).hexdigest()[:16]}


def emit_expr(src, site, mode):
    """expression site like the built-in one, with a per-site function table `funcs` (python name -> Lean function)"""
    P = _P()
    fn = src.func(site["file"], site["func"])
    text = (src.repo / site["file"]).read_text()
    node = P.select(fn, tuple(site["select"]))
    inline = {var: P.select(fn, tuple(sel)) for var, sel in site.get("inline", {}).items()}
    tx = P.Tx(mode, dict(site["params_map"]), text, inline)
    tx.site = None
    over = site.get("funcs", {})
    orig = tx.f
    tx.f = lambda name: over[name] if name in over else orig(name)
    body = tx.e(node)
    sc = P.SCALAR[mode]
    rty = site.get("ret", "Scalar").replace("Scalar", sc)
    nc = "noncomputable " if mode in ("real", "cplx") else ""
    head = f"/-- {site['file']}:{node.lineno} `{site['func']}` :: `{ast.unparse(node)[:300]}` -/\n"
    return head + f"{nc}def {site['name']} {_binders(site, mode)} : {rty} :=\n  {body}\n", {
        "line": node.lineno, "python": ast.unparse(node)[:400],
        "sha": hashlib.sha256(ast.dump(node).encode()).hexdigest()[:16],
    }


def _listy(n):
    return isinstance(n, (ast.List, ast.Tuple)) or (
        isinstance(n, ast.BinOp) and isinstance(n.op, ast.Mult) and isinstance(n.left, (ast.List, ast.Tuple)))


def emit_expr_path(src, site, mode):
    """`emit_expr` after walking `path` (attribute names / indices) from the selected node; additionally `+` between
    list displays / repeated list displays is list concatenation (`++`)."""
    P = _P()
    fn = src.func(site["file"], site["func"])
    text = (src.repo / site["file"]).read_text()
    node = P.select(fn, tuple(site["select"]))
    for step in site.get("path", []):
        try:
            node = node[step] if isinstance(step, int) else getattr(node, step)
        except (AttributeError, IndexError, TypeError):
            raise _unsupported(f"path step {step!r} does not exist any more in {ast.unparse(node)[:80] if isinstance(node, ast.AST) else node}")
    tx = P.Tx(mode, dict(site["params_map"]), text, {})
    tx.site = None
    over = site.get("funcs", {})
    orig_f, orig_e = tx.f, tx.e
    tx.f = lambda name: over[name] if name in over else orig_f(name)

    def e2(n):
        if isinstance(n, ast.BinOp) and isinstance(n.op, ast.Add) and _listy(n.left) and _listy(n.right) \
                and ast.unparse(n) not in tx.params:
            return f"({tx.e(n.left)} ++ {tx.e(n.right)})"
        return orig_e(n)

    tx.e = e2
    body = tx.e(node)
    sc = P.SCALAR[mode]
    rty = site.get("ret", "Scalar").replace("Scalar", sc)
    nc = "noncomputable " if mode in ("real", "cplx") else ""
    head = f"/-- {site['file']}:{node.lineno} `{site['func']}` :: `{ast.unparse(node)[:300]}` -/\n"
    return head + f"{nc}def {site['name']} {_binders(site, mode)} : {rty} :=\n  {body}\n", {
        "line": node.lineno, "python": ast.unparse(node)[:400],
        "sha": hashlib.sha256(ast.dump(node).encode()).hexdigest()[:16],
    }
