#!/bin/bash
# Final refresh: regenerate Gen, run every check (quick, seed 0) in /verif against /repo for fresh evidence,
# regenerate manifest/summaries, validate schemas. Usage: tools/final_refresh.sh [jobs]
cd "$(dirname "$0")/.."
jobs="${1:-4}"
export VERIF_SEED=0
bash tools/setup.sh > /tmp/final_setup.log 2>&1
bash tools/run_all.sh quick "$jobs" | tee /tmp/final_runall.log
python3 tools/mkmanifest.py; python3 tools/mkfindings_md.py; python3 tools/mksummary_md.py; python3 tools/mkseeded_md.py
python3-vt tools/validate_all.py
grep -v "rc=0" /tmp/final_runall.log | grep "rc=" || echo "ALL CHECKS EXIT 0"
