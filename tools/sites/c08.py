"""C08: delta superposition with bilinear sub-pixel weights (abtem/integrals.py: superpose_deltas) and the index/offset
expressions of the numba kernel interpolate_radial_functions, as exact definitions over ℚ/ℤ (Gen/Deltas.lean).
Arrays are read pointwise (one atom)."""
_F = "abtem/integrals.py"
_PM = {"positions[:, 0]": "p0", "positions[:, 1]": "p1", "rows": "rows", "cols": "cols", "x": "x", "y": "y", "xy": "xy",
       "shape[0]": "n0", "shape[1]": "n1"}
_T = {"p0": "Rat", "p1": "Rat", "x": "Rat", "y": "Rat", "xy": "Rat", "rows": "Int", "cols": "Int", "n0": "Int", "n1": "Int",
      "r0": "Int", "r1": "Int"}
_E = "py2lean_prism:emit_expr_path"


def _d(name, select, params, ret, path=(), pm=_PM, func="superpose_deltas", **kw):
    return dict(gen="Deltas", name=name, file=_F, func=func, emitter=_E, select=select, path=list(path), params_map=pm,
                params=params, param_types=_T, ret=ret, modes=["rat"], **kw)


_RM = {"rounded[:, 0][None]": "r0", "rounded[:, 1][None]": "r1", "shape[0]": "n0", "shape[1]": "n1"}
_RP = {"positions[i, 0]": "x", "positions[i, 1]": "y", "sampling[0]": "s0", "sampling[1]": "s1", "px": "px", "py": "py",
       "disk_indices[j, 0]": "d0", "disk_indices[j, 1]": "d1", "k": "k", "m": "m",
       "array.shape[0]": "n0", "array.shape[1]": "n1"}
_RT = {"x": "Rat", "y": "Rat", "s0": "Rat", "s1": "Rat", "px": "Int", "py": "Int", "d0": "Int", "d1": "Int", "k": "Int", "m": "Int",
       "n0": "Int", "n1": "Int"}


def _k(name, select, params, ret, path=()):
    return dict(gen="Deltas", name=name, file=_F, func="interpolate_radial_functions", emitter=_E, select=select,
                path=list(path), params_map=_RP, params=params, param_types=_RT, ret=ret, modes=["rat"],
                funcs={"round": "pyRoundHalfEven", "int": ""})


SITES = [
    # sub-pixel branch
    _d("deltaX", ("assign", "x", 0), ["p0", "rows"], "Rat"),
    _d("deltaY", ("assign", "y", 0), ["p1", "cols"], "Rat"),
    _d("deltaXY", ("assign", "xy", 0), ["x", "y"], "Rat"),
    _d("deltaRowIdx", ("assign", "i", 0), ["rows", "n0"], "List Int", path=["args", 0]),
    _d("deltaColIdx", ("assign", "j", 0), ["cols", "n1"], "List Int", path=["args", 0]),
    _d("deltaWeights", ("assign", "v", 1), ["x", "y", "xy"], "List Rat", path=["args", 0]),
    # rounded branch: `i, j = rounded[:, 0][None] % shape[0], rounded[:, 1][None] % shape[1]`
    _d("roundedIdx", ("assign", "(i, j)", 0), ["r0", "r1", "n0", "n1"], "Int × Int", pm=_RM),
    # numba kernel of the finite projection
    _k("radialPx", ("assign", "px", 0), ["x", "s0"], "Int"),
    _k("radialPy", ("assign", "py", 0), ["y", "s1"], "Int"),
    _k("radialK", ("assign", "k", 0), ["px", "d0"], "Int"),
    _k("radialM", ("assign", "m", 0), ["py", "d1"], "Int"),
    _k("radialInside", ("iftest", "array.shape[0]", 0), ["k", "m", "n0", "n1"], "Bool"),
    _k("radialDist2", ("callarg", "sqrt", 0, 0), ["k", "m", "x", "y", "s0", "s1"], "Rat"),
]
EXTRA_IMPORTS = {"Deltas": ["import AbtemVerif.Model.DeltasPrelude", "open AbtemVerif.Deltas"]}
FINGERPRINTS = {
    "superpose_deltas": (_F, "superpose_deltas"),
    "interpolate_radial_functions": (_F, "interpolate_radial_functions"),
    "ScatteringFactorProjectionIntegrals.integrate_on_grid": (_F, "ScatteringFactorProjectionIntegrals.integrate_on_grid"),
    "FieldArray.tile": ("abtem/potentials/iam.py", "PotentialArray.tile"),
}
