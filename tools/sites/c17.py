"""C17: the per-dimension arithmetic of abtem/core/grid.py::Grid (the three `_adjust_*` generator expressions, the
nested `_safe_divide`, `reciprocal_space_sampling`) and the per-dimension arithmetic of `adjusted_gpts`."""
_F = "abtem/core/grid.py"
_T = {"n": "Int", "d": "Rat", "r": "Rat", "e": "Bool"}


def _elt(name, func, params, ret, **kw):
    return dict(gen="Grid", name=name, file=_F, func=func, select=("elt", 0), params=params,
                params_map={p: p for p in params}, param_types={p: _T[p] for p in params}, ret=ret, modes=["rat"], **kw)


SITES = [
    # def _safe_divide(a, b): if b == 0.0: return 0.0 else: return a / b      (nested in Grid._adjust_sampling)
    dict(gen="Grid", name="safeDivide", file=_F, func="Grid._adjust_sampling._safe_divide", emitter="py2lean_tree:emit_ret_tree",
         params=["a", "b"], params_map={}, ret="Rat", modes=["rat"]),
    # (n - 1) * d if e else n * d
    _elt("adjustExtentElt", "Grid._adjust_extent", ["n", "d", "e"], "Rat"),
    # int(np.ceil(r / d)) + 1 if e else int(np.ceil(r / d))
    _elt("adjustGptsElt", "Grid._adjust_gpts", ["r", "d", "e"], "Int"),
    # _safe_divide(r, n - 1) if e else _safe_divide(r, n)
    _elt("adjustSamplingElt", "Grid._adjust_sampling", ["r", "n", "e"], "Rat", ext=True, calls={"_safe_divide": "safeDivide"}),
    # 1 / (n * d)
    _elt("reciprocalElt", "Grid.reciprocal_space_sampling", ["n", "d"], "Rat"),
]
FINGERPRINTS = {
    "Grid.__init__": (_F, "Grid.__init__"),
    "Grid._validate": (_F, "Grid._validate"),
    "Grid.extent(setter)": (_F, "Grid.extent"),
    "Grid.gpts(setter)": (_F, "Grid.gpts"),
    "Grid.sampling(setter)": (_F, "Grid.sampling"),
    "Grid._adjust_extent": (_F, "Grid._adjust_extent"),
    "Grid._adjust_gpts": (_F, "Grid._adjust_gpts"),
    "Grid._adjust_sampling": (_F, "Grid._adjust_sampling"),
    "Grid.match": (_F, "Grid.match"),
    "Grid.check_match": (_F, "Grid.check_match"),
}
