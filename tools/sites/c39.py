"""C39: no new expression sites — the tilt phase ramps (`Propagator.tiltPhaseX/Y`, tools/sites/c04.py) and the shift-kernel
phase (`FftShift.shiftPhase`, tools/sites/c05.py) are shared.  Hand-modelled functions are fingerprinted here."""
SITES = []
FINGERPRINTS = {
    "AxisAlignedTiltAxis.tilt": ("abtem/core/axes.py", "AxisAlignedTiltAxis.tilt"),
    "TiltAxis.tilt": ("abtem/core/axes.py", "TiltAxis.tilt"),
    "BaseBeamTilt._calculate_new_array": ("abtem/tilt.py", "BaseBeamTilt._calculate_new_array"),
    "fft_shift": ("abtem/core/fft.py", "fft_shift"),
    "FresnelPropagator.propagate": ("abtem/multislice.py", "FresnelPropagator.propagate"),
}
