"""C24: the helpers of abtem/core/energy.py translated whole (real mode for the theorems, float mode as the
executable twin), plus the ase.units constants they use (read from the installed ase at generation time).

Every definition takes the energy (and, for the angular sampling, the tuple of reciprocal samplings) followed by
the eight unit constants as explicit parameters, so the theorems hold for *every* positive value of the constants
and are then instantiated at the generated `EnergyConsts` values."""
_F = "abtem/core/energy.py"
CONSTS = ["hplanck", "c", "me", "qe", "kg", "C", "s", "J"]
_PM = {
    "units._hplanck": "hplanck", "units._c": "c", "units._me": "me", "units._e": "qe",
    "units.kg": "kg", "units.C": "C", "units.s": "s", "units.J": "J",
}
_CALLS = {
    "relativistic_mass_correction": "relativisticMassCorrection",
    "energy2mass": "energy2mass",
    "energy2wavelength": "energy2wavelength",
}


def _fn(name, func, params=("energy",), **kw):
    return dict(gen="Energy", name=name, file=_F, func=func, whole=True, params_map=_PM, params=list(params) + CONSTS,
                calls=_CALLS, call_extra=CONSTS, modes=["real", "float"], **kw)


SITES = [
    dict(gen="EnergyConsts", name="aseUnits", file="<installed ase.units>", module_consts=True, module="ase.units",
         names={"_hplanck": "hplanck", "_c": "c", "_me": "me", "_e": "qe", "kg": "kg", "C": "C", "s": "s", "J": "J",
                "_amu": "amu"},
         modes=["real", "float"]),
    _fn("relativisticMassCorrection", "relativistic_mass_correction"),
    _fn("energy2mass", "energy2mass"),
    _fn("energy2wavelength", "energy2wavelength"),
    _fn("energy2sigma", "energy2sigma"),
    _fn("angularSampling", "reciprocal_space_sampling_to_angular_sampling", params=("reciprocal_space_sampling", "energy"),
        param_types={"reciprocal_space_sampling": "List Scalar"}, ret="List Scalar"),
]
