"""C23: aperture and partial-coherence envelope expressions of abtem/transfer.py (pointwise reading; broadcasting and the
`[zeros] = 1.0` origin override are array plumbing handled by the glue in Props/C23.lean / Drive/C23.lean)."""
_F = "abtem/transfer.py"
POLAR = ["C10", "C12", "phi12", "C21", "phi21", "C23", "phi23", "C30", "C32", "phi32", "C34", "phi34", "C41", "phi41",
         "C43", "phi43", "C45", "phi45", "C50", "C52", "phi52", "C54", "phi54", "C56", "phi56"]
_PP = {f"parameters['{s}']": f"p.{s}" for s in POLAR}


def _site(gen, name, func, select, params, pm, **kw):
    return dict(gen=gen, name=name, file=_F, func=func, select=select, params=params, params_map=pm, ext=True,
                modes=["real", "float"], **kw)


_SOFT = {"alpha": "alpha", "phi": "phi", "semiangle_cutoff": "semiangle_cutoff",
         "angular_sampling[0]": "as0", "angular_sampling[1]": "as1"}
_ENV = dict({"alpha": "alpha", "phi": "phi", "self.wavelength": "wavelength", "angular_spread": "angular_spread",
             "focal_spread": "focal_spread"}, **_PP)
_PT = {"p": "PolarCoeffs Scalar"}

SITES = [
    _site("Aperture", "angularSamplingRad", "soft_aperture", ("assign", "angular_sampling", 0), ["a"], {"angular_sampling": "a"}),
    _site("Aperture", "softDenominator", "soft_aperture", ("assign", "denominator", 0), ["phi", "as0", "as1"], _SOFT),
    _site("Aperture", "softAperture", "soft_aperture", ("assign", "array", 0), ["alpha", "phi", "semiangle_cutoff", "as0", "as1"],
          dict(_SOFT, denominator="(softDenominator phi as0 as1)")),
    _site("Aperture", "hardAperture", "hard_aperture", ("return", 0), ["alpha", "semiangle_cutoff"], _SOFT),
    _site("Aperture", "apertureCutoffRad", "Aperture._evaluate_from_angular_grid", ("assign", "semiangle_cutoff", 0),
          ["semiangle_cutoff"], {"self.semiangle_cutoff": "semiangle_cutoff"}),
    _site("Envelope", "temporalEnvelope", "TemporalEnvelope._evaluate_from_angular_grid", ("assign", "array", 0),
          ["alpha", "wavelength", "focal_spread"], _ENV),
    _site("Envelope", "spatialSpreadRad", "SpatialEnvelope._evaluate_from_angular_grid", ("assign", "angular_spread", 0),
          ["angular_spread"], {"unpacked[-1]": "angular_spread"}),
    _site("Envelope", "dchiDk", "SpatialEnvelope._evaluate_from_angular_grid", ("assign", "dchi_dk", 0),
          ["alpha", "phi", "wavelength", "p"], _ENV, param_types=_PT),
    _site("Envelope", "dchiDphi", "SpatialEnvelope._evaluate_from_angular_grid", ("assign", "dchi_dphi", 0),
          ["alpha", "phi", "wavelength", "p"], _ENV, param_types=_PT),
    _site("Envelope", "spatialEnvelope", "SpatialEnvelope._evaluate_from_angular_grid", ("assign", "array", 0),
          ["alpha", "phi", "wavelength", "angular_spread", "p"],
          dict(_ENV, dchi_dk="(dchiDk alpha phi wavelength p)", dchi_dphi="(dchiDphi alpha phi wavelength p)"), param_types=_PT),
]
# the Wiener branch of CTF._evaluate_from_angular_grid (outside the property's quantifier; documented by theorems): over ℝ for a
# real-valued transfer function and over ℂ (translator mode "cplx") for the complex one the code actually applies it to
SITES += [
    dict(gen="Wiener", name="wiener", file=_F, func="CTF._evaluate_from_angular_grid", select=("return", 0), params=["a", "snr"],
         params_map={"array": "a", "self._wiener_snr": "snr"}, modes=["real", "cplx"]),
    dict(gen="Wiener", name="flipPhaseRe", file=_F, func="CTF._evaluate_from_angular_grid", select=("return", 1), params=["re", "im"],
         params_map={"array.real": "re", "array.imag": "im"}, ext=True, complex_part="re", modes=["real"]),
    dict(gen="Wiener", name="flipPhaseIm", file=_F, func="CTF._evaluate_from_angular_grid", select=("return", 1), params=["re", "im"],
         params_map={"array.real": "re", "array.imag": "im"}, ext=True, complex_part="im", modes=["real"]),
]
EXTRA_IMPORTS = {
    "EnvelopeR": ["import AbtemVerif.Lib.PyPreludeXR", "import AbtemVerif.Model.PolarCoeffs"],
    "EnvelopeF": ["import AbtemVerif.Model.PyPreludeX", "import AbtemVerif.Model.PolarCoeffs"],
}
FINGERPRINTS = {
    "soft_aperture": (_F, "soft_aperture"),
    "Aperture._evaluate_from_angular_grid": (_F, "Aperture._evaluate_from_angular_grid"),
    "CTF._evaluate_from_angular_grid": (_F, "CTF._evaluate_from_angular_grid"),
    "TemporalEnvelope._evaluate_from_angular_grid": (_F, "TemporalEnvelope._evaluate_from_angular_grid"),
    "SpatialEnvelope._evaluate_from_angular_grid": (_F, "SpatialEnvelope._evaluate_from_angular_grid"),
}
