"""C09: slicing arithmetic of abtem/slicing.py and the z-snap of abtem/potentials/iam.py.
Gen/Slicing.lean (exact, executable): number of slices and slice thickness for a scalar `slice_thickness`, the nudge of the
digitize bin edges, the snap condition of `_prepare_atoms`, the two half-open membership tests of `SlicedAtoms`."""
_S = "abtem/slicing.py"
_VT = {"thickness": "thickness", "slice_thickness": "slice_thickness"}
_N = ("assign", "n", 0)
SITES = [
    dict(gen="Slicing", name="nSlices", file=_S, func="_validate_slice_thickness", select=_N, params_map=_VT,
         params=["thickness", "slice_thickness"], ret="Int", modes=["rat"]),
    # element of `(thickness / n,) * int(n)`
    dict(gen="Slicing", name="sliceThk", file=_S, func="_validate_slice_thickness", select=("assign", "validated_slice_thickness", 0),
         path=["left", "elts", 0], inline={"n": _N}, params_map=_VT, params=["thickness", "slice_thickness"], ret="Rat", modes=["rat"]),
    # repetition count `int(n)`
    dict(gen="Slicing", name="sliceCount", file=_S, func="_validate_slice_thickness", select=("assign", "validated_slice_thickness", 0),
         path=["right"], inline={"n": _N}, params_map=_VT, params=["thickness", "slice_thickness"], ret="Int", modes=["rat"]),
    dict(gen="Slicing", name="nudgeEps", file=_S, func="SliceIndexedAtoms.__init__", select=("augassign", "bin_edges[:-1]", 0),
         params_map={}, params=[], ret="Rat", modes=["rat"]),
    dict(gen="Slicing", name="snapCond", file="abtem/potentials/iam.py", func="_FieldBuilderFromAtoms._prepare_atoms",
         select=("subscript_index", "atoms.positions", 0), path=["elts", 0],
         params_map={"atoms.positions[:, 2]": "z", "cell_z": "cell_z"}, params=["z", "cell_z"], ret="Bool", modes=["rat"]),
    dict(gen="Slicing", name="inSliceLo", file=_S, func="SlicedAtoms.get_atoms_in_slices", select=("assign", "in_slice", 0),
         path=["left"], params_map={"self.atoms.positions[:, 2]": "z", "a": "a", "b": "b", "self._z_padding": "pad"},
         params=["z", "a", "b", "pad"], ret="Bool", modes=["rat"]),
    dict(gen="Slicing", name="inSliceHi", file=_S, func="SlicedAtoms.get_atoms_in_slices", select=("assign", "in_slice", 0),
         path=["right"], params_map={"self.atoms.positions[:, 2]": "z", "a": "a", "b": "b", "self._z_padding": "pad"},
         params=["z", "a", "b", "pad"], ret="Bool", modes=["rat"]),
]
FINGERPRINTS = {
    "_validate_slice_thickness": (_S, "_validate_slice_thickness"),
    "slice_limits": (_S, "slice_limits"),
    "SliceIndexedAtoms.__init__": (_S, "SliceIndexedAtoms.__init__"),
    "SliceIndexedAtoms.get_atoms_in_slices": (_S, "SliceIndexedAtoms.get_atoms_in_slices"),
    "SlicedAtoms.get_atoms_in_slices": (_S, "SlicedAtoms.get_atoms_in_slices"),
    "label_to_index": ("abtem/core/utils.py", "label_to_index"),
    "_FieldBuilderFromAtoms._prepare_atoms": ("abtem/potentials/iam.py", "_FieldBuilderFromAtoms._prepare_atoms"),
    "ScatteringFactorProjectionIntegrals.integrate_on_grid": ("abtem/integrals.py", "ScatteringFactorProjectionIntegrals.integrate_on_grid"),
    "superpose_deltas": ("abtem/integrals.py", "superpose_deltas"),
}
