"""C37: finite-difference Laplacian and the real-space propagator series (abtem/finite_difference.py).
Gen/FiniteDiff.lean (exact): the coefficient table, the stencil geometry (`n`, `padding`), the per-axis prefactor and the
summand of the stencil kernel; Gen/FiniteDiffC.lean (ℂ): the kernel summand, the split-step operator and the
first-order propagator term, read pointwise."""
_F = "abtem/finite_difference.py"
_K = {"cx[k]": "cxk", "cy[k]": "cyk", "a[m, i + k, j]": "ax", "a[m, i, j + k]": "ay"}
_OP = {"laplace(waves)": "lap", "transmission_function": "t", "waves": "w", "wavelength": "wavelength",
       "conventional_operator(waves, laplace, transmission_function, wavelength)": "op", "thickness": "thickness"}

SITES = [
    dict(gen="FiniteDiff", name="fdCoefficients", file=_F, var="fd_coefficients", emitter="py2lean_prism:emit_num_dict",
         modes=["rat"]),
    dict(gen="FiniteDiff", name="stencilHalfWidth", file=_F, func="_laplace_operator_stencil", select=("assign", "n", 0),
         params_map={"len(c)": "len"}, params=["len"], param_types={"len": "Int"}, ret="Int", modes=["rat"]),
    dict(gen="FiniteDiff", name="stencilPadding", file=_F, func="_laplace_operator_stencil", select=("assign", "padding", 0),
         params_map={"n": "n"}, params=["n"], param_types={"n": "Int"}, ret="Int", modes=["rat"]),
    dict(gen="FiniteDiff", name="stencilRollShift", file=_F, func="_laplace_operator_stencil", select=("callarg", "roll", 1, 0),
         params_map={"len(c)": "len"}, params=["len"], param_types={"len": "Int"}, ret="Int", modes=["rat"]),
    dict(gen="FiniteDiff", name="axisPrefactor", file=_F, func="LaplaceOperator._get_new_stencil", select=("assign", "prefactor", 0),
         params_map={"np.array(sampling, dtype=float)": "s"}, params=["s"], modes=["rat", "real"]),
    dict(gen="FiniteDiff", name="kernelSummand", file=_F, func="_laplace_operator_stencil._laplace_stencil_cpu_batch",
         select=("augassign", "cumul", 0), params_map=_K, params=["cxk", "cyk", "ax", "ay"], modes=["rat", "cplx"]),
    dict(gen="FiniteDiff", name="splitStepOperator", file=_F, func="conventional_operator", select=("return", 0),
         params_map={**_OP, "K0": "(1 / wavelength)"}, params=["lap", "t", "w", "wavelength"], modes=["cplx"]),
    dict(gen="FiniteDiff", name="firstOrderTerm", file=_F, func="propagator_taylor_series", select=("return", 0),
         params_map=_OP, params=["op", "thickness"], modes=["cplx"]),
]
FINGERPRINTS = {
    "_laplace_operator_stencil": (_F, "_laplace_operator_stencil"),
    "finite_difference_coefficients": (_F, "finite_difference_coefficients"),
    "_multislice_exponential_series": (_F, "_multislice_exponential_series"),
    "propagator_taylor_series": (_F, "propagator_taylor_series"),
    "multislice_step": (_F, "multislice_step"),
}
