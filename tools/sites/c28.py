"""C28: formulas and index expressions of abtem/reconstruct.py (regularized PIE operator).

Gen/Ptycho.lean   (Int/Rat, executable): window origin and wrapped index expressions of `_wrapped_indices_2D_window`,
                  centring / rotation / raster expressions of `_calculate_scan_positions_in_pixels`.
Gen/PtychoC.lean  (ℂ): Fourier-projection symbol, sum-of-squares-error term, exit wave, object/probe update terms
                  of `RegularizedPtychographicOperator`, read pointwise (array maxima/means enter as parameters).
"""
_F = "abtem/reconstruct.py"
_R = "RegularizedPtychographicOperator."
_A = "AbstractPtychographicOperator."


def _s(name, func, select, pm, params, modes, **kw):
    return dict(gen="Ptycho", name=name, file=_F, func=func, select=select, params_map=pm, params=params, modes=modes, **kw)


_I = {"cx": "cx", "cy": "cy", "nx": "nx", "ny": "ny", "sx": "sx", "sy": "sy", "ox": "ox", "oy": "oy"}
_UPD_INLINE = {
    "exit_wave_diff": ("assign", "exit_wave_diff", 0),
    "probe_conj": ("assign", "probe_conj", 0),
    "probe_abs_squared": ("assign", "probe_abs_squared", 0),
    "obj_conj": ("assign", "obj_conj", 0),
    "obj_abs_squared": ("assign", "obj_abs_squared", 0),
}
_UPD_PM = {
    "probes": "p", "object_roi": "o", "modified_exit_waves": "psiNew", "exit_waves": "psi",
    "object_step_size": "(step : ℂ)", "probe_step_size": "(step : ℂ)", "alpha": "(reg : ℂ)", "beta": "(reg : ℂ)",
    "xp.max(probe_abs_squared)": "(amax : ℂ)", "xp.max(obj_abs_squared)": "(amax : ℂ)",
}
_UPD_T = {"step": "ℝ", "reg": "ℝ", "amax": "ℝ"}

SITES = [
    # ---- _wrapped_indices_2D_window ------------------------------------------------------------
    _s("windowOrigin", "_wrapped_indices_2D_window", ("assign", "(ox, oy)", 0), _I, ["cx", "cy", "nx", "ny"], ["rat"],
       param_types={k: "Int" for k in ("cx", "cy", "nx", "ny")}, ret="Int × Int"),
    _s("rowIndex", "_wrapped_indices_2D_window", ("callarg", "ix_", 0, 0), {**_I, "np.arange(ox, ox + nx)": "(ox + i)"},
       ["ox", "i", "sx"], ["rat"], param_types={k: "Int" for k in ("ox", "i", "sx")}, ret="Int"),
    _s("colIndex", "_wrapped_indices_2D_window", ("callarg", "ix_", 1, 0), {**_I, "np.arange(oy, oy + ny)": "(oy + i)"},
       ["oy", "i", "sy"], ["rat"], param_types={k: "Int" for k in ("oy", "i", "sy")}, ret="Int"),
    # ---- _calculate_scan_positions_in_pixels ---------------------------------------------------
    _s("rasterX", _A + "_calculate_scan_positions_in_pixels", ("assign", "x", 0), {"np.arange(nx)": "i", "sx": "step"},
       ["i", "step"], ["rat"]),
    _s("rasterY", _A + "_calculate_scan_positions_in_pixels", ("assign", "y", 0), {"np.arange(ny)": "i", "sy": "step"},
       ["i", "step"], ["rat"]),
    _s("centreX", _A + "_calculate_scan_positions_in_pixels", ("assign", "x", 2),
       {"x": "x", "np.ptp(x)": "ptp", "sampling[0]": "sampling"}, ["x", "ptp", "sampling"], ["rat"]),
    _s("centreY", _A + "_calculate_scan_positions_in_pixels", ("assign", "y", 2),
       {"y": "y", "np.ptp(y)": "ptp", "sampling[1]": "sampling"}, ["y", "ptp", "sampling"], ["rat"]),
    _s("rotate", _A + "_calculate_scan_positions_in_pixels", ("assign", "(x, y)", -1),
       {"x": "x", "y": "y", "np.cos(rotation_angle)": "c", "np.sin(rotation_angle)": "s"}, ["x", "y", "c", "s"], ["rat"],
       ret="Rat × Rat"),
    # ---- RegularizedPtychographicOperator (pointwise over ℂ) -----------------------------------
    # sub-pixel shift applied to the probe when moving from old_position to position
    _s("probeShift", _R + "_overlap_projection", ("callarg", "fft_shift", 1, 0),
       {"position": "p", "old_position": "o", "xp.round(position)": "rp", "xp.round(old_position)": "ro"}, ["p", "o", "rp", "ro"], ["rat"],
       inline={"fractional_position": ("assign", "fractional_position", 0), "old_fractional_position": ("assign", "old_fractional_position", 0)}),
    # bookkeeping of one sweep of `reconstruct`: where the stored probe is assumed to sit at the start, and the final shift back
    _s("sweepStart", _R + "reconstruct", ("assign", "old_position", 0), {"xp.round(position_px_padding)": "rpad"}, ["rpad"], ["rat"]),
    _s("shiftBack", _R + "reconstruct", ("callarg", "fft_shift", 1, 0), {"xp.round(old_position)": "ro", "old_position": "o"}, ["o", "ro"], ["rat"]),
    _s("exitWave", _R + "_overlap_projection", ("assign", "exit_wave", 0), {"object_roi": "o", "probes": "p"}, ["o", "p"], ["cplx"]),
    _s("projectionSymbol", _R + "_fourier_projection", ("callarg", "ifft2", 0, 0),
       {"diffraction_patterns": "(d : ℂ)", "exit_wave_fft": "z"}, ["d", "z"], ["cplx"], param_types={"d": "ℝ"}),
    _s("sseTerm", _R + "_fourier_projection", ("callarg", "mean", 0, 0),
       {"diffraction_patterns": "(d : ℂ)", "exit_wave_fft": "z"}, ["d", "z"], ["cplx"], param_types={"d": "ℝ"}),
    _s("sseIncrement", _R + "_fourier_projection", ("augassign", "sse", 0),
       {"xp.mean(xp.abs(xp.abs(exit_wave_fft) - diffraction_patterns) ** 2)": "meanTerm", "xp.sum(diffraction_patterns ** 2)": "sumD2"},
       ["meanTerm", "sumD2"], ["real"]),
    # the same projection formula in the other operator classes (theorems transfer through `projection_symbol_shared`)
    _s("projSimWarmup", "SimultaneousPtychographicOperator._warmup_fourier_projection", ("callarg", "ifft2", 0, 0),
       {"diffraction_forward": "(d : ℂ)", "exit_wave_forward_fft": "z"}, ["d", "z"], ["cplx"], param_types={"d": "ℝ"}),
    _s("projSimForward", "SimultaneousPtychographicOperator._fourier_projection", ("callarg", "ifft2", 0, 0),
       {"diffraction_forward": "(d : ℂ)", "exit_wave_forward_fft": "z"}, ["d", "z"], ["cplx"], param_types={"d": "ℝ"}),
    _s("projSimReverse", "SimultaneousPtychographicOperator._fourier_projection", ("callarg", "ifft2", 0, 1),
       {"diffraction_reverse": "(d : ℂ)", "exit_wave_reverse_fft": "z"}, ["d", "z"], ["cplx"], param_types={"d": "ℝ"}),
    _s("projMixedWarmup", "MixedStatePtychographicOperator._warmup_fourier_projection", ("callarg", "ifft2", 0, 0),
       {"diffraction_patterns": "(d : ℂ)", "exit_wave_fft": "z"}, ["d", "z"], ["cplx"], param_types={"d": "ℝ"}),
    _s("projMultislice", "MultislicePtychographicOperator._fourier_projection", ("callarg", "ifft2", 0, 0),
       {"diffraction_patterns": "(d : ℂ)", "exit_wave_fft": "z"}, ["d", "z"], ["cplx"], param_types={"d": "ℝ"}),
    # mixed-state projection: every mode is rescaled by D / sqrt(sum_k |F psi_k|^2)
    _s("mixedAmplitude", "MixedStatePtychographicOperator._fourier_projection", ("assign", "amplitude_modification", 0),
       {"diffraction_patterns": "(d : ℂ)", "intensity_norm": "(norm : ℂ)"}, ["d", "norm"], ["cplx"], param_types={"d": "ℝ", "norm": "ℝ"}),
    _s("mixedSymbol", "MixedStatePtychographicOperator._fourier_projection", ("callarg", "ifft2", 0, 0),
       {"amplitude_modification[None]": "amp", "exit_waves_fft": "z"}, ["amp", "z"], ["cplx"]),
    _s("objectTerm", _R + "_update_function", ("augassign", "objects[object_indices]", 0), _UPD_PM,
       ["step", "reg", "amax", "p", "psi", "psiNew"], ["cplx"], inline=_UPD_INLINE, param_types=_UPD_T),
    _s("probeTerm", _R + "_update_function", ("augassign", "probes", 0), _UPD_PM,
       ["step", "reg", "amax", "o", "psi", "psiNew"], ["cplx"], inline=_UPD_INLINE, param_types=_UPD_T),
]
FINGERPRINTS = {
    "reconstruct._wrapped_indices_2D_window": (_F, "_wrapped_indices_2D_window"),
    "reconstruct._calculate_scan_positions_in_pixels": (_F, _A + "_calculate_scan_positions_in_pixels"),
    "reconstruct.Regularized._overlap_projection": (_F, _R + "_overlap_projection"),
    "reconstruct.Regularized._fourier_projection": (_F, _R + "_fourier_projection"),
    "reconstruct.Regularized._update_function": (_F, _R + "_update_function"),
    "reconstruct.Regularized.reconstruct": (_F, _R + "reconstruct"),
}
