"""C34: abtem/core/config.py `set` is control flow over dicts (no formula sites); hand model
`lean/AbtemVerif/Model/Config.lean`, source fingerprints reported in the evidence."""
SITES = []
FINGERPRINTS = {
    "config.set.__init__": ("abtem/core/config.py", "set.__init__"),
    "config.set.__exit__": ("abtem/core/config.py", "set.__exit__"),
    "config.set._assign": ("abtem/core/config.py", "set._assign"),
}
