"""C15: index expressions of `_fft_interpolation_masks_1d` (tests and slice bounds, both branches) and the normalisation
factors of `fft_interpolate` / `fft_crop` (abtem/core/fft.py).  The shift-kernel phase is `FftShift.shiftPhase`
(tools/sites/c05.py).  Integers are exact (`Int`, Python floor division/modulo)."""
_F = "abtem/core/fft.py"
_M = "_fft_interpolation_masks_1d"
_PM = {"n1": "n1", "n2": "n2"}


def _i(name, select, params, ret="Int"):
    return dict(gen="FftCrop", name=name, file=_F, func=_M, select=select, params_map=_PM, params=params,
                param_types={"n1": "Int", "n2": "Int"}, ret=ret, modes=["rat"])


SITES = [
    _i("upTest", ("iftest", "n2 > n1", 0), ["n1", "n2"], "Bool"),
    # n2 > n1: mask1 all, mask2 selected by n1
    _i("upOne", ("iftest", "n1 == 1", 0), ["n1"], "Bool"),
    _i("upEven", ("iftest", "n1 % 2 == 0", 0), ["n1"], "Bool"),
    _i("upEvenLo", ("slice_upper", "mask2", 0), ["n1"]),
    _i("upEvenHi", ("slice_lower", "mask2", 0), ["n1"]),
    _i("upOddLo", ("slice_upper", "mask2", 1), ["n1"]),
    _i("upOddHi", ("slice_lower", "mask2", 1), ["n1"]),
    # else: mask2 all, mask1 selected by n2
    _i("downOne", ("iftest", "n2 == 1", 0), ["n2"], "Bool"),
    _i("downEven", ("iftest", "n2 % 2 == 0", 0), ["n2"], "Bool"),
    _i("downEvenLo", ("slice_upper", "mask1", 0), ["n2"]),
    _i("downEvenHi", ("slice_lower", "mask1", 0), ["n2"]),
    _i("downOddLo", ("slice_upper", "mask1", 1), ["n2"]),
    _i("downOddHi", ("slice_lower", "mask1", 1), ["n2"]),
    # normalisation factors
    dict(gen="FftCrop", name="valuesFactor", file=_F, func="fft_interpolate", select=("augassign", "array", 0),
         params_map={"np.prod(array.shape[-len(new_shape):])": "newSize", "old_size": "oldSize"}, params=["newSize", "oldSize"],
         modes=["real", "float"]),
    dict(gen="FftCrop", name="cropNormalize", file=_F, func="fft_crop", select=("assign", "new_array", 1),
         params_map={"new_array": "v", "np.prod(new_array.shape)": "newSize", "np.prod(array.shape)": "oldSize"},
         params=["v", "newSize", "oldSize"], modes=["real", "float"]),
]

SITES += [
    # antialias cutoff in reciprocal space used by `_antialias_cutoff_gpts` (default grid of Waves.downsample)
    dict(gen="FftCrop", name="cutoffK", file="abtem/waves.py", func="_antialias_cutoff_gpts", select=("assign", "kcut", 0),
         params_map={"max(sampling)": "ms"}, params=["ms"], modes=["real", "float"]),
]

FINGERPRINTS = {
    "_fft_interpolation_masks_1d": (_F, _M),
    "fft_interpolation_masks": (_F, "fft_interpolation_masks"),
    "fft_crop": (_F, "fft_crop"),
    "fft_interpolate": (_F, "fft_interpolate"),
    "Waves.downsample": ("abtem/waves.py", "Waves.downsample"),
    "_antialias_cutoff_gpts": ("abtem/waves.py", "_antialias_cutoff_gpts"),
}

# --- `_fft_crop_fold` (real input, fix of F16): when an axis is cropped to an even length the +Nyquist coefficient of the source is
# folded onto the kept -Nyquist slot
_FOLD = dict(gen="FftCrop", file=_F, func="_fft_crop_fold", params_map={"n1": "n1", "n2": "n2"},
             param_types={"n1": "Int", "n2": "Int"}, modes=["rat"])
SITES += [
    dict(_FOLD, name="foldTest", select=("iftest", "n2 < n1", 0), params=["n1", "n2"], ret="Bool"),
    dict(_FOLD, name="foldIndex", select=("subscript_value", "idx", 0), params=["n2"], ret="Int"),
]
FINGERPRINTS["_fft_crop_fold"] = (_F, "_fft_crop_fold")
