"""C29: structural operations of ArrayObject are control flow over lists/arrays (hand model Model/ArrayObject.lean); fingerprints."""
SITES = []
FINGERPRINTS = {
    "array._validate_array_items": ("abtem/array.py", "_validate_array_items"),
    "ArrayObject._check_axes_metadata": ("abtem/array.py", "ArrayObject._check_axes_metadata"),
    "ArrayObject._is_base_axis": ("abtem/array.py", "ArrayObject._is_base_axis"),
    "ArrayObject._reduction": ("abtem/array.py", "ArrayObject._reduction"),
    "ArrayObject._get_ensemble_axes_metadata_items": ("abtem/array.py", "ArrayObject._get_ensemble_axes_metadata_items"),
    "ArrayObject.get_items": ("abtem/array.py", "ArrayObject.get_items"),
    "ArrayObject.expand_dims": ("abtem/array.py", "ArrayObject.expand_dims"),
    "ArrayObject.squeeze": ("abtem/array.py", "ArrayObject.squeeze"),
    "ArrayObject._stack": ("abtem/array.py", "ArrayObject._stack"),
    "array._expand_dims": ("abtem/array.py", "_expand_dims"),
    "array.stack": ("abtem/array.py", "stack"),
    "utils.normalize_axes": ("abtem/core/utils.py", "normalize_axes"),
    "OrdinalAxis.__getitem__": ("abtem/core/axes.py", "OrdinalAxis.__getitem__"),
}
