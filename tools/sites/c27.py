"""C27: lattice-centering reflection conditions and centering translations (abtem/bloch/utils.py)."""
SITES = [
    dict(gen="Reflection", name="reflectionCondition", file="abtem/bloch/utils.py", func="get_reflection_condition",
         emitter="py2lean_rows:emit_rowfn", row_param="hkl", row_names=["h", "k", "l"],
         str_param="centering", str_lean="centeringLower", ret="Bool", modes=["rat"]),
    dict(gen="Reflection", name="centeringTranslations", file="abtem/bloch/utils.py", func="relative_positions_for_centering",
         emitter="py2lean_rows:emit_centering_table", modes=["rat"]),
]
SITES += [
    # the summand of `xp.sum(f_e * xp.exp(-2.0j * np.pi * positions @ hkl), axis=0)`; `ph` = (positions @ hkl)[j, g]
    dict(gen="StructFactorTerm", name="sfTerm", file="abtem/bloch/dynamical.py", func="calculate_structure_factors",
         emitter="py2lean_rows:emit_matmul_site", select=("callarg", "sum", 0, 0), params_map={"f_e": "fe"},
         matmul={"positions @ hkl": "ph"}, params=["fe", "ph"], modes=["cplx"]),
]
FINGERPRINTS = {
    "calculate_structure_factors": ("abtem/bloch/dynamical.py", "calculate_structure_factors"),
    "structure_factor_1d_to_3d": ("abtem/bloch/dynamical.py", "structure_factor_1d_to_3d"),
    "structure_factor_to_potential": ("abtem/bloch/dynamical.py", "structure_factor_to_potential"),
    "make_hkl_grid": ("abtem/bloch/utils.py", "make_hkl_grid"),
    "auto_detect_centering": ("abtem/bloch/utils.py", "auto_detect_centering"),
    "StructureFactor.__init__": ("abtem/bloch/dynamical.py", "StructureFactor.__init__"),
}
