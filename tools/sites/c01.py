"""C01: dimension bookkeeping of the lazy block function and default chunks of the multislice transform.

abtem/array.py     : ArrayObject._apply_transform (`ndims` of the packed block result), multi_output_blockwise (`out_ndim`)
abtem/multislice.py: MultisliceTransform._default_ensemble_chunks (tests)
"""
_ARR = "abtem/array.py"
_MS = "abtem/multislice.py"
_INT = {"numArgs": "Int", "sumArgNdims": "Int", "arrayNdim": "Int", "nens": "Int", "nplanes": "Int"}


def _s(name, file, func, select, params, pm, ret):
    return dict(gen="Blockwise", name=name, file=file, func=func, select=select, params=params, params_map=pm,
                param_types=_INT, ret=ret, modes=["rat"])


SITES = [
    _s("packNdims", _ARR, "ArrayObject._apply_transform", ("assign", "ndims", 0), ["numArgs", "sumArgNdims", "arrayNdim"],
       {"len(transform_axes)": "numArgs", "transform_ndims": "sumArgNdims", "len(array.shape)": "arrayNdim"}, "Int"),
    _s("outNdim", _ARR, "multi_output_blockwise", ("assign", "out_ndim", 0), ["sumArgNdims", "arrayNdim"],
       {"new_ndim": "sumArgNdims", "base_ndim": "arrayNdim"}, "Int"),
    _s("dHasEns", _MS, "MultisliceTransform._default_ensemble_chunks", ("iftest", "ensemble_shape", 0), ["nens"],
       {"len(self.potential.ensemble_shape)": "nens"}, "Bool"),
    _s("dHasPlanes", _MS, "MultisliceTransform._default_ensemble_chunks", ("iftest", "exit_planes", 0), ["nplanes"],
       {"len(self.potential.exit_planes)": "nplanes"}, "Bool"),
    # what MultisliceTransform._from_partitioned_args forwards to the per-block transform
    dict(gen="Blockwise", name="forwardedToBlocks", file=_MS, func="MultisliceTransform._from_partitioned_args",
         call_keywords=("partial", 0), select=("return", 0), params=[], params_map={}, modes=["rat"]),
    # the three places of MultisliceTransform that decide whether the output has an exit-plane (thickness) axis
    _s("tShapePlanes", _MS, "MultisliceTransform.ensemble_shape", ("iftest", "exit_planes", 0), ["nplanes"],
       {"len(self._potential.exit_planes)": "nplanes"}, "Bool"),
    _s("tAxesPlanes", _MS, "MultisliceTransform.ensemble_axes_metadata", ("iftest", "exit_planes", 0), ["nplanes"],
       {"len(self.potential.exit_planes)": "nplanes"}, "Bool"),
    _s("tOutAxesPlanes", _MS, "MultisliceTransform._out_ensemble_axes_metadata", ("iftest", "exit_planes", 0), ["nplanes"],
       {"len(self.potential.exit_planes)": "nplanes"}, "Bool"),
    _s("tPartitionPlanes", _MS, "MultisliceTransform._partition_args", ("iftest", "num_exit_planes", 0), ["nplanes"],
       {"self.potential.num_exit_planes": "nplanes"}, "Bool"),
    _s("tPartitionNewAxis", _MS, "MultisliceTransform._partition_args", ("iftest", "_potential.exit_planes", 0), ["nplanes"],
       {"len(self._potential.exit_planes)": "nplanes"}, "Bool"),
]
FINGERPRINTS = {
    "ArrayObject.apply_transform": (_ARR, "ArrayObject.apply_transform"),
    "ArrayObject._apply_transform": (_ARR, "ArrayObject._apply_transform"),
    "multi_output_blockwise": (_ARR, "multi_output_blockwise"),
    "MultisliceTransform._partition_args": (_MS, "MultisliceTransform._partition_args"),
    "MultisliceTransform._validate_ensemble_chunks": (_MS, "MultisliceTransform._validate_ensemble_chunks"),
    "MultisliceTransform._default_ensemble_chunks": (_MS, "MultisliceTransform._default_ensemble_chunks"),
    "MultisliceTransform._calculate_new_array": (_MS, "MultisliceTransform._calculate_new_array"),
}
