"""C13: `_limit_to_bin_index` (translated whole) and the four index expressions of
PolarMeasurements.integrate (abtem/measurements.py)."""
_F = "abtem/measurements.py"
_PM = {
    "radial_limits[0]": "lim0",
    "radial_limits[1]": "lim1",
    "azimuthal_limits[0]": "az0",
    "azimuthal_limits[1]": "az1",
    "self.radial_offset": "radial_offset",
    "self.radial_sampling": "radial_sampling",
    "self.azimuthal_offset": "azimuthal_offset",
    "self.azimuthal_sampling": "azimuthal_sampling",
}
_P = ["lim0", "lim1", "az0", "az1", "radial_offset", "radial_sampling", "azimuthal_offset", "azimuthal_sampling"]


def _site(name, var):
    return dict(gen="PolarIntegrate", name=name, file=_F, func="PolarMeasurements.integrate",
                select=("assign", var, 0), params_map=_PM, params=_P, ret="Int", modes=["rat"], ext=True,
                calls={"_limit_to_bin_index": "limitToBinIndex"})


SITES = [
    dict(gen="PolarIntegrate", name="limitToBinIndex", file=_F, func="_limit_to_bin_index", whole=True,
         params_map={}, params=["limit", "offset", "sampling"], ret="Int", modes=["rat"]),
    _site("innerIndex", "inner_index"),
    _site("outerIndex", "outer_index"),
    _site("leftIndex", "left_index"),
    _site("rightIndex", "right_index"),
]
_TM = {"inner_index": "innerIdx", "outer_index": "outerIdx", "left_index": "leftIdx", "right_index": "rightIdx",
       "self.shape[-2]": "nr", "self.shape[-1]": "na"}
_TP = ["innerIdx", "outerIdx", "leftIdx", "rightIdx", "nr", "na"]
_TT = {k: "Int" for k in _TP}
def _t(name, sel, ret):
    return dict(gen="PolarIntegrate", name=name, file=_F, func="PolarMeasurements.integrate", select=sel,
                params_map=_TM, params=_TP, param_types=_TT, ret=ret, modes=["rat"])


SITES += [
    _t("radialExceeded", ("iftest", "outer_index > self.shape[-2]", 0), "Bool"),  # the "Integration limit exceeded" test
    # the bounds handed to slice(): calls slice(None) / slice(lo, hi) in source order
    _t("radialLo", ("callarg", "slice", 0, 1), "Int"),
    _t("radialHi", ("callarg", "slice", 1, 0), "Int"),
    _t("azimuthalLo", ("callarg", "slice", 0, 3), "Int"),
    _t("azimuthalHi", ("callarg", "slice", 1, 1), "Int"),
]
FINGERPRINTS = {"PolarMeasurements.integrate": ("abtem/measurements.py", "PolarMeasurements.integrate")}
