"""C05 (and C15/C39 for the shift kernel): formulas behind probe / plane-wave normalisation.

* abtem/waves.py `_WavesNormalization._calculate_new_array`: `f = sqrt(Σ|array|²)` and `array / f`
* abtem/waves.py `PlaneWave._calculate_array`: the constant `1 / prod(gpts)`
* abtem/transfer.py `soft_aperture` / `hard_aperture`: the clip expression, the forced values at the zero-angle pixel, `alpha <= cutoff`
* abtem/transfer.py `Aberrations._evaluate_from_angular_grid`: the final `complex_exponential(-array)`
* abtem/core/fft.py `fft_shift_kernel`: phase ramp argument `-2π k x`
"""
_W = "abtem/waves.py"
_T = "abtem/transfer.py"
_F = "abtem/core/fft.py"
_RF = ["real", "float"]


def _s(gen, name, file, func, select, pm, params, modes=_RF, **kw):
    return dict(gen=gen, name=name, file=file, func=func, select=select, params_map=pm, params=params, modes=modes, **kw)


_SA = {"angular_sampling[0]": "s0", "angular_sampling[1]": "s1", "phi": "phi", "alpha": "alpha",
       "semiangle_cutoff": "cutoff", "denominator": "denominator"}

SITES = [
    # normalisation
    _s("Probe", "normFactor", _W, "_WavesNormalization._calculate_new_array", ("assign", "f", 0),
       {"abs2(array).sum((-2, -1), keepdims=True)": "total"}, ["total"]),
    _s("Probe", "normDivide", _W, "_WavesNormalization._calculate_new_array", ("assign", "array", 2),
       {"array": "a", "f": "(f : ℂ)"}, ["a", "f"], modes=["cplx"], param_types={"f": "ℝ"}),
    _s("Probe", "planeWaveValue", _W, "PlaneWave._calculate_array", ("callarg", "full", 1, 0),
       {"np.prod(waves_builder.gpts)": "n"}, ["n"]),
    # order of operations of the probe pipeline (top-level calls of Probe._calculate_array, in source order)
    dict(gen="Probe", name="probeOps", table=True, kind="call_sequence", file=_W, func="Probe._calculate_array", modes=["rat"]),
    # probe-forming aperture
    _s("Probe", "softDenominator", _T, "soft_aperture", ("assign", "denominator", 0), _SA, ["phi", "s0", "s1"]),
    _s("Probe", "softDenominatorAtZero", _T, "soft_aperture", ("subscript_value", "denominator", 0), _SA, []),
    _s("Probe", "softClip", _T, "soft_aperture", ("assign", "array", 0), _SA, ["cutoff", "alpha", "denominator"]),
    _s("Probe", "softAtZero", _T, "soft_aperture", ("subscript_value", "array", 0), _SA, []),
    _s("Probe", "hardTest", _T, "hard_aperture", ("callarg", "array", 0, 0), _SA, ["alpha", "cutoff"], ret="Bool"),
    # aberration phase factor exp(-i chi)
    _s("Probe", "aberrationPhase", _T, "Aberrations._evaluate_from_angular_grid", ("callarg", "complex_exponential", 0, 0),
       {"array": "chi"}, ["chi"]),
    # Fourier shift kernel (scan positions, fft_shift; also C15, C39)
    _s("FftShift", "shiftPhase", _F, "fft_shift_kernel", ("callarg", "complex_exponential", 0, 0),
       {"np.expand_dims(k[i], tuple(d))": "k", "expanded_positions": "pos"}, ["k", "pos"]),
]

FINGERPRINTS = {
    "Probe._calculate_array": (_W, "Probe._calculate_array"),
    "PlaneWave._calculate_array": (_W, "PlaneWave._calculate_array"),
    "_WavesNormalization._calculate_new_array": (_W, "_WavesNormalization._calculate_new_array"),
    "soft_aperture": (_T, "soft_aperture"),
    "hard_aperture": (_T, "hard_aperture"),
    "Aperture._evaluate_from_angular_grid": (_T, "Aperture._evaluate_from_angular_grid"),
    "fft_shift_kernel": (_F, "fft_shift_kernel"),
    "BaseScan._evaluate_kernel": ("abtem/scan.py", "BaseScan._evaluate_kernel"),
    "ReciprocalSpaceMultiplication._calculate_new_array": ("abtem/transform.py", "ReciprocalSpaceMultiplication._calculate_new_array"),
}
