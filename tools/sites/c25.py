"""C25: kernel formulas and coefficient tables of the Lobato, Kirkland and Peng parametrizations."""
_L = "abtem/parametrizations/functions/lobato.py"
_K = "abtem/parametrizations/functions/kirkland.py"
_G = "abtem/parametrizations/functions/peng.py"
_I = "abtem/parametrizations/__init__.py"
_D = "abtem/parametrizations/data/"
_EM = "py2lean_param:emit_kernel"
_KAPPA = {"kappa": "kappa"}


def _k(gen, name, file, func, sel, params, pshape, modes=("real", "float"), **kw):
    return dict(gen=gen, name=name, file=file, func=func, select=sel, params=params, pshape=pshape, emitter=_EM, modes=list(modes), **kw)


def _row(i, n, prefix):
    return {f"parameters[{i}]": f"{prefix}{i}"}


SITES = [
    # ---- Lobato kernels (p: 2 x 5)
    _k("ParamLobato", "scatteringFactor", _L, "scattering_factor", ("return", 0), ["k2"], (2, 5)),
    _k("ParamLobato", "potential", _L, "potential", ("return", 0), ["r"], (2, 5)),
    _k("ParamLobato", "potentialDerivative", _L, "potential_derivative", ("assign", "dvdr", 0), ["r"], (2, 5)),
    _k("ParamLobato", "projectedScatteringFactor", _L, "projected_scattering_factor", ("assign", "f", 0), ["k2in"], (2, 5),
       inline=[("pi", ("assign", "pi", 0)), ("pi2", ("assign", "pi2", 0)), ("k2", ("assign", "k2", 0))], params_map={"k2": "k2in"}),
    # scaled_parameters: a = pi^2 p0 / p1^(3/2) / kappa ; b = 2 pi / sqrt(p1)
    _k("ParamLobato", "scaledA", _I, "LobatoParametrization.scaled_parameters", ("assign", "a", 0), ["a", "b", "kappa"], (0, 0),
       params_map={"parameters[0]": "a", "parameters[1]": "b", "kappa": "kappa"}),
    _k("ParamLobato", "scaledB", _I, "LobatoParametrization.scaled_parameters", ("assign", "b", 0), ["b"], (0, 0),
       params_map={"parameters[1]": "b"}),
    # ---- Kirkland kernels (p: 4 x 3)
    _k("ParamKirkland", "scatteringFactor", _K, "scattering_factor", ("return", 0), ["k2"], (4, 3)),
    _k("ParamKirkland", "potential", _K, "potential", ("return", 0), ["r"], (4, 3)),
    _k("ParamKirkland", "potentialDerivative", _K, "potential_derivative", ("assign", "dvdr", 0), ["r"], (4, 3)),
    _k("ParamKirkland", "projectedScatteringFactor", _K, "projected_scattering_factor", ("assign", "f", 0), ["k2"], (4, 3),
       inline=[("pi", ("assign", "pi", 0))]),
    _k("ParamKirkland", "scaledA", _I, "KirklandParametrization.scaled_parameters", ("assign", "a", 0), ["a", "kappa"], (0, 0),
       params_map={"parameters[0]": "a", "kappa": "kappa"}),
    _k("ParamKirkland", "scaledB", _I, "KirklandParametrization.scaled_parameters", ("assign", "b", 0), ["b"], (0, 0),
       params_map={"parameters[1]": "b"}),
    _k("ParamKirkland", "scaledC", _I, "KirklandParametrization.scaled_parameters", ("assign", "c", 0), ["c", "d", "kappa"], (0, 0),
       params_map={"parameters[2]": "c", "parameters[3]": "d", "kappa": "kappa"}),
    _k("ParamKirkland", "scaledD", _I, "KirklandParametrization.scaled_parameters", ("assign", "d", 0), ["d"], (0, 0),
       params_map={"parameters[3]": "d"}),
    # ---- Peng kernels (p: 2 x 5)
    _k("ParamPeng", "scatteringFactor", _G, "scattering_factor", ("return", 0), ["k"], (2, 5)),
    _k("ParamPeng", "scatteringFactorK2", _G, "scattering_factor_k2", ("return", 0), ["k2"], (2, 5)),
    # ---- Peng scaled_parameters: widths /= 2**2 ; potential / projected potential / projected scattering factor rows
    _k("ParamPeng", "widthDivisor", _I, "PengParametrization.scaled_parameters", ("augassign", "scattering_factor[1]", 0), [], (0, 0)),
    _k("ParamPeng", "potA", _I, "PengParametrization.scaled_parameters", ("assign", "potential", 0), ["a", "b", "kappa"], (0, 0),
       path=[0, 0], params_map={"scattering_factor[0]": "a", "scattering_factor[1]": "b", "kappa": "kappa"}),
    _k("ParamPeng", "potB", _I, "PengParametrization.scaled_parameters", ("assign", "potential", 0), ["b"], (0, 0),
       path=[0, 1], params_map={"scattering_factor[1]": "b"}),
    _k("ParamPeng", "projA", _I, "PengParametrization.scaled_parameters", ("assign", "projected_potential", 0), ["a", "b", "kappa"], (0, 0),
       path=[0, 0], params_map={"scattering_factor[0]": "a", "scattering_factor[1]": "b", "kappa": "kappa"}),
    _k("ParamPeng", "projB", _I, "PengParametrization.scaled_parameters", ("assign", "projected_potential", 0), ["b"], (0, 0),
       path=[0, 1], params_map={"scattering_factor[1]": "b"}),
    _k("ParamPeng", "psfA", _I, "PengParametrization.scaled_parameters", ("assign", "projected_scattering_factor", 0), ["a", "kappa"], (0, 0),
       path=[0, 0], params_map={"scattering_factor[0]": "a", "kappa": "kappa"}),
    _k("ParamPeng", "psfB", _I, "PengParametrization.scaled_parameters", ("assign", "projected_scattering_factor", 0), ["b"], (0, 0),
       path=[0, 1], params_map={"scattering_factor[1]": "b"}),
    # ---- coefficient tables
    dict(gen="ParamTables", name="lobatoTable", file=_D + "lobato.json", shape=(2, 5), emitter="py2lean_param:emit_json_table", modes=["rat"]),
    dict(gen="ParamTables", name="kirklandTable", file=_D + "kirkland.json", shape=(4, 3), emitter="py2lean_param:emit_json_table", modes=["rat"]),
    dict(gen="ParamTables", name="pengHighTable", file=_D + "peng_high.json", shape=(2, 5), emitter="py2lean_param:emit_json_table", modes=["rat"]),
    dict(gen="ParamTables", name="pengLowTable", file=_D + "peng_low.json", shape=(2, 5), emitter="py2lean_param:emit_json_table", modes=["rat"]),
    dict(gen="ParamTables", name="pengIonicTable", file=_D + "peng_ionic.json", shape=(2, 5), emitter="py2lean_param:emit_json_table", modes=["rat"]),
]
FINGERPRINTS = {
    "lobato.projected_potential": (_L, "projected_potential"),
    "kirkland.projected_potential": (_K, "projected_potential"),
    "PengParametrization.scaled_parameters": (_I, "PengParametrization.scaled_parameters"),
    "Parametrization.get_function": (_I, "Parametrization.get_function"),
}
EXTRA_IMPORTS = {
    "ParamLobatoR": ["import Mathlib.Analysis.SpecialFunctions.Pow.Real"],
    "ParamKirklandR": ["import Mathlib.Analysis.SpecialFunctions.Pow.Real"],
    "ParamPengR": ["import Mathlib.Analysis.SpecialFunctions.Pow.Real"],
}
