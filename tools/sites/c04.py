"""C04 / C39: phase arguments of the Fresnel propagator and of the beam-tilt factor (abtem/multislice.py), the pieces of
`antialias_aperture` (abtem/antialias.py), the transmission-function phase (abtem/potentials/iam.py), the complex
exponential itself (abtem/core/complex.py) and the two antialias defaults of abtem/core/abtem.yaml.

Array expressions are read pointwise (one pixel): `kx`, `ky` are the spatial frequencies of the pixel, `r` its radial
frequency.  The control flow that combines the pieces (`if taper > 0`, masked assignment, `where`, `if order == 2`,
the loop over tilt axes) is hand-modelled twice — over ℝ in Lib/WaveOptics.lean and over Float in Model/Propagator.lean
— and tied by correspondence with the real array builders (harness/c04.py)."""

_MS = "abtem/multislice.py"
_AA = "abtem/antialias.py"
_RF = ["real", "float"]


def _s(name, file, func, select, pm, params, modes=_RF, **kw):
    return dict(gen="Propagator", name=name, file=file, func=func, select=select, params_map=pm, params=params,
                modes=modes, **kw)


_FP = {"kx": "kx", "ky": "ky", "thickness": "thickness", "wavelength": "wavelength"}
_TP = {"kx": "kx", "ky": "ky", "thickness": "thickness",
       "tilt[:, 0, None, None]": "tiltx", "tilt[:, 1, None, None]": "tilty"}
_AP = {"config.get('antialias.cutoff')": "cfgCutoff", "config.get('antialias.taper')": "cfgTaper",
       "max(sampling)": "maxSampling", "kx[:, None]": "kx", "ky[None]": "ky",
       "r": "r", "cutoff": "cutoff", "taper": "taper", "array": "array"}

SITES = [
    # exp(i·phase) factors of _fresnel_propagator_array: x part, y part, order-2 correction
    _s("fresnelPhaseX", _MS, "_fresnel_propagator_array", ("callarg", "complex_exponential", 0, 0), _FP,
       ["kx", "thickness", "wavelength"]),
    _s("fresnelPhaseY", _MS, "_fresnel_propagator_array", ("callarg", "complex_exponential", 0, 1), _FP,
       ["ky", "thickness", "wavelength"]),
    _s("fresnelPhase2", _MS, "_fresnel_propagator_array", ("callarg", "complex_exponential", 0, 2), _FP,
       ["kx", "ky", "thickness", "wavelength"]),
    # beam tilt phase ramps (tilt in mrad)
    _s("tiltPhaseX", _MS, "_apply_tilt_to_fresnel_propagator_array", ("callarg", "complex_exponential", 0, 0), _TP,
       ["kx", "tiltx", "thickness"]),
    _s("tiltPhaseY", _MS, "_apply_tilt_to_fresnel_propagator_array", ("callarg", "complex_exponential", 0, 1), _TP,
       ["ky", "tilty", "thickness"]),
    # antialias aperture
    _s("apertureCutoff", _AA, "antialias_aperture", ("assign", "cutoff", 0), _AP, ["cfgCutoff", "maxSampling"]),
    _s("apertureTaper", _AA, "antialias_aperture", ("assign", "taper", 0), _AP, ["cfgTaper", "maxSampling"]),
    _s("apertureRadius", _AA, "antialias_aperture", ("assign", "r", 0), _AP, ["kx", "ky"]),
    _s("apertureTaperTest", _AA, "antialias_aperture", ("iftest", "taper", 0), _AP, ["taper"], ret="Bool"),
    _s("apertureCos", _AA, "antialias_aperture", ("assign", "array", 0), _AP, ["r", "cutoff", "taper"]),
    _s("apertureZeroMask", _AA, "antialias_aperture", ("subscript_index", "array", 0), _AP, ["r", "cutoff"], ret="Bool"),
    _s("apertureZeroValue", _AA, "antialias_aperture", ("subscript_value", "array", 0), _AP, []),
    _s("apertureWhere", _AA, "antialias_aperture", ("assign", "array", 1), _AP, ["r", "cutoff", "taper", "array"]),
    _s("apertureHard", _AA, "antialias_aperture", ("callarg", "array", 0, 0), _AP, ["r", "cutoff"], ret="Bool"),
    # transmission function exp(i·sigma·V)
    _s("transmissionPhase", "abtem/potentials/iam.py", "PotentialArray._transmission_function",
       ("callarg", "complex_exponential", 0, 0), {"sigma": "sigma", "array": "v"}, ["sigma", "v"]),
    # cos x + i sin x
    _s("complexExponential", "abtem/core/complex.py", "_complex_exponential", ("return", 0), {"x": "(x : ℂ)"}, ["x"],
       modes=["cplx"], param_types={"x": "ℝ"}),
    # configuration defaults
    dict(gen="Propagator", name="antialiasCutoff", table=True, kind="yaml_scalar", file="abtem/core/abtem.yaml",
         var="antialias.cutoff", modes=_RF),
    dict(gen="Propagator", name="antialiasTaper", table=True, kind="yaml_scalar", file="abtem/core/abtem.yaml",
         var="antialias.taper", modes=_RF),
]

FINGERPRINTS = {
    "FresnelPropagator._calculate_array": (_MS, "FresnelPropagator._calculate_array"),
    "_fresnel_propagator_array": (_MS, "_fresnel_propagator_array"),
    "_apply_tilt_to_fresnel_propagator_array": (_MS, "_apply_tilt_to_fresnel_propagator_array"),
    "antialias_aperture": (_AA, "antialias_aperture"),
    "AntialiasAperture.bandlimit": (_AA, "AntialiasAperture.bandlimit"),
    "conventional_multislice_step": (_MS, "conventional_multislice_step"),
    "TransmissionFunction.transmit": ("abtem/potentials/iam.py", "TransmissionFunction.transmit"),
}
