"""C11: the dictionary keys of the two integrator caches (abtem/integrals.py) are translated; the lookup-or-compute
control flow around them is hand-modelled (Model/Cache.lean) and fingerprinted."""
SITES = [
    dict(gen="IntegralsCache", name="sfKey", file="abtem/integrals.py",
         func="ScatteringFactorProjectionIntegrals.get_scattering_factor", select=("assign", "key", 0),
         params_map={"symbol": "symbol", "gpts": "gpts", "sampling": "sampling", "device": "device"},
         params=["symbol", "gpts", "sampling", "device"],
         param_types={"symbol": "String", "gpts": "Nat × Nat", "sampling": "Rat × Rat", "device": "String"},
         ret="String × (Nat × Nat) × (Rat × Rat) × String", modes=["rat"]),
    dict(gen="IntegralsCache", name="tableKey", file="abtem/integrals.py",
         func="QuadratureProjectionIntegrals.get_integral_table", select=("assign", "key", 0),
         params_map={"symbol": "symbol", "sampling": "sampling"}, params=["symbol", "sampling"],
         param_types={"symbol": "String", "sampling": "Rat × Rat"}, ret="String × (Rat × Rat)", modes=["rat"]),
]
def _state(name, file, cls):
    return dict(gen="IntegralsCache", name=name, file=file, cls=cls, emitter="py2lean_state:emit_mutable_state", modes=["rat"])


# inventory of the mutable state of the classes whose caches the model covers (a cache added later changes these lists)
SITES += [
    _state("stateFieldIntegrator", "abtem/integrals.py", "FieldIntegrator"),
    _state("stateScatteringFactor", "abtem/integrals.py", "ScatteringFactorProjectionIntegrals"),
    _state("stateQuadrature", "abtem/integrals.py", "QuadratureProjectionIntegrals"),
    _state("stateIntegralTable", "abtem/integrals.py", "ProjectionIntegralTable"),
    _state("stateFieldBuilder", "abtem/potentials/iam.py", "_FieldBuilder"),
    _state("stateFieldBuilderFromAtoms", "abtem/potentials/iam.py", "_FieldBuilderFromAtoms"),
    _state("statePotential", "abtem/potentials/iam.py", "Potential"),
    _state("stateBaseField", "abtem/potentials/iam.py", "BaseField"),
]
# what the cached computations read besides their arguments (must be disjoint from the mutable state above)
SITES += [
    dict(gen="IntegralsCache", name="readsScatteringFactor", file="abtem/integrals.py", cls="ScatteringFactorProjectionIntegrals",
         methods=["_calculate_scattering_factor"], emitter="py2lean_state:emit_reads", modes=["rat"]),
    dict(gen="IntegralsCache", name="readsQuadrature", file="abtem/integrals.py", cls="QuadratureProjectionIntegrals",
         methods=["_calculate_integral_table"], emitter="py2lean_state:emit_reads", modes=["rat"]),
]
FINGERPRINTS = {
    "ScatteringFactorProjectionIntegrals.get_scattering_factor": ("abtem/integrals.py", "ScatteringFactorProjectionIntegrals.get_scattering_factor"),
    "ScatteringFactorProjectionIntegrals._calculate_scattering_factor": ("abtem/integrals.py", "ScatteringFactorProjectionIntegrals._calculate_scattering_factor"),
    "ScatteringFactorProjectionIntegrals.integrate_on_grid": ("abtem/integrals.py", "ScatteringFactorProjectionIntegrals.integrate_on_grid"),
    "QuadratureProjectionIntegrals.get_integral_table": ("abtem/integrals.py", "QuadratureProjectionIntegrals.get_integral_table"),
    "QuadratureProjectionIntegrals._calculate_integral_table": ("abtem/integrals.py", "QuadratureProjectionIntegrals._calculate_integral_table"),
    "QuadratureProjectionIntegrals.integrate_on_grid": ("abtem/integrals.py", "QuadratureProjectionIntegrals.integrate_on_grid"),
    "_FieldBuilderFromAtoms.get_sliced_atoms": ("abtem/potentials/iam.py", "_FieldBuilderFromAtoms.get_sliced_atoms"),
}
