"""C06: PRISM reduction (abtem/prism/s_matrix.py, abtem/prism/utils.py).

Gen/Prism.lean  (exact, executable): `wrapped_slices` translated whole; the integer expressions of `minimum_crop`,
                 of the padding fallback of `wrapped_crop_2d` and of `batch_crop_2d`; the phases with `pi` as a parameter.
Gen/PrismR.lean (ℝ/ℂ, for the theorems): coefficient normalisation of `_calculate_ctf_coefficients`, the polar
                 coordinates it evaluates the CTF at, the position-coefficient phases, the plane-wave phases and the
                 amplitude factor of `_build_s_matrix`.
Array expressions are read pointwise; broadcasting / axis plumbing is covered by correspondence (harness/c06.py)."""
_S = "abtem/prism/s_matrix.py"
_U = "abtem/prism/utils.py"
_SUM = "(xp.abs(array) ** 2).sum(axis=-1, keepdims=True)"
_PI = {"xp.pi": "pi", "np.pi": "pi"}

_POS_GRID = {"x[:, None, None]": "x", "y[None, :, None]": "y",
             "self.wave_vectors[None, None, :, 0]": "kx", "self.wave_vectors[None, None, :, 1]": "ky"}
_POS_CUSTOM = {"positions[..., 0, None]": "x", "positions[..., 1, None]": "y",
               "self.wave_vectors[:, 0][None]": "kx", "self.wave_vectors[:, 1][None]": "ky"}
_PW = {"wave_vectors[:, 0, None, None]": "kx", "wave_vectors[:, 1, None, None]": "ky", "x[:, None]": "x", "y[None, :]": "y",
       "reverse": "reverse"}
_WV = {"wave_vectors[:, 0]": "kx", "wave_vectors[:, 1]": "ky", "ctf.wavelength": "wavelength"}


def _r(name, file, func, select, pm, params, **kw):
    kw.setdefault("modes", ["real"])
    return dict(gen="Prism", name=name, file=file, func=func, select=select, params_map=pm, params=params, **kw)


def _both(name, file, func, select, pm, params, **kw):
    """phase expressions: ℝ version with Real.pi for the theorems, exact version with `pi` as a parameter for execution"""
    return [
        _r(name, file, func, select, pm, params, **kw),
        dict(gen="Prism", name=name, file=file, func=func, select=select, params_map={**pm, **_PI}, params=["pi"] + params,
             modes=["rat"], **{k: v for k, v in kw.items() if k != "modes"}),
    ]


_IP = {"corner": "Int", "size": "Int", "n": "Int", "start": "Int", "stop": "Int", "c": "Int", "l": "Int", "k": "Int", "p0": "Int"}

SITES = [
    # ---- coefficient normalisation (defect F4 lived here)
    _r("ctfNormalise", _S, "SMatrixArray._calculate_ctf_coefficients", ("assign", "array", 1),
       {"array": "array", _SUM: "s"}, ["array", "s"], param_types={"array": "ℂ"}, ret="ℂ"),
    dict(gen="Prism", name="ctfNormSummand", file=_S, func="SMatrixArray._calculate_ctf_coefficients",
         emitter="py2lean_prism:emit_receiver", method="sum", k=0, kwargs={"axis": "-1", "keepdims": "True"},
         params_map={"array": "array"}, params=["array"], param_types={"array": "ℂ"}, funcs={"abs": "norm"}, modes=["real"]),
    _r("ctfAlpha", _S, "SMatrixArray._calculate_ctf_coefficients", ("assign", "alpha", 0), _WV, ["kx", "ky", "wavelength"]),
    _r("ctfPhi", _S, "SMatrixArray._calculate_ctf_coefficients", ("assign", "phi", 0), _WV, ["kx", "ky"]),
    # ---- position coefficients
    *_both("posPhaseGridX", _S, "SMatrixArray._calculate_positions_coefficients", ("callarg", "complex_exponential", 0, 0),
           _POS_GRID, ["x", "kx"]),
    *_both("posPhaseGridY", _S, "SMatrixArray._calculate_positions_coefficients", ("callarg", "complex_exponential", 0, 1),
           _POS_GRID, ["y", "ky"]),
    *_both("posPhaseCustom", _S, "SMatrixArray._calculate_positions_coefficients", ("callarg", "complex_exponential", 0, 2),
           _POS_CUSTOM, ["x", "y", "kx", "ky"]),
    # ---- plane waves and their amplitude
    *_both("planeWavePhaseX", _U, "plane_waves", ("callarg", "complex_exponential", 0, 0), _PW, ["kx", "x", "reverse"],
           inline={"sign": ("assign", "sign", 0)}, param_types={"reverse": "Bool"}),
    *_both("planeWavePhaseY", _U, "plane_waves", ("callarg", "complex_exponential", 0, 1), _PW, ["ky", "y", "reverse"],
           inline={"sign": ("assign", "sign", 0)}, param_types={"reverse": "Bool"}),
    _r("smatrixAmplitude", _S, "SMatrix._build_s_matrix", ("augassign", "array", 0),
       {"np.prod(s_matrix.interpolation)": "interp", "np.prod(array.shape[-2:])": "npix"}, ["interp", "npix"],
       modes=["real", "rat"]),
    # ---- crop index arithmetic
    dict(gen="Prism", name="wrappedSlices", file=_U, func="wrapped_slices", emitter="py2lean_prism:emit_stmt_fn",
         params=["start", "stop", "n"], param_types=_IP, ret="PySlice × PySlice", modes=["rat"]),
    dict(gen="Prism", name="upperCorner", file=_U, func="wrapped_crop_2d", select=("assign", "upper_corner", 0),
         params_map={"corner[0]": "corner0", "size[0]": "size0", "corner[1]": "corner1", "size[1]": "size1"},
         params=["corner0", "size0", "corner1", "size1"],
         param_types={"corner0": "Int", "size0": "Int", "corner1": "Int", "size1": "Int"}, ret="Int × Int", modes=["rat"]),
    dict(gen="Prism", name="padAmounts", file=_U, func="wrapped_crop_2d", emitter="py2lean_prism:emit_expr",
         select=("elt", "abs(min(c, 0))", 0), funcs={"abs": "intAbs"},
         params_map={"c": "c", "l": "l", "k": "k"}, params=["c", "l", "k"], param_types=_IP, ret="Int × Int", modes=["rat"]),
    dict(gen="Prism", name="padSliceStart", file=_U, func="wrapped_crop_2d", select=("callarg", "slice", 0, 0),
         params_map={"c": "c", "p[0]": "p0", "l": "l"}, params=["c", "p0", "l"], param_types=_IP, ret="Int", modes=["rat"]),
    dict(gen="Prism", name="padSliceStop", file=_U, func="wrapped_crop_2d", select=("callarg", "slice", 1, 0),
         params_map={"c": "c", "p[0]": "p0", "l": "l"}, params=["c", "p0", "l"], param_types=_IP, ret="Int", modes=["rat"]),
    dict(gen="Prism", name="cropOffset", file=_U, func="minimum_crop", select=("assign", "offset", 0),
         params_map={"shape[0]": "w0", "shape[1]": "w1"}, params=["w0", "w1"], param_types={"w0": "Int", "w1": "Int"},
         ret="Int × Int", modes=["rat"]),
    dict(gen="Prism", name="cropSize", file=_U, func="minimum_crop", select=("assign", "size", 0),
         params_map={"xp.max(upper_corners[..., 0]).item()": "maxUpper0", "xp.max(upper_corners[..., 1]).item()": "maxUpper1",
                     "crop_corner[0]": "cc0", "crop_corner[1]": "cc1"}, params=["maxUpper0", "cc0", "maxUpper1", "cc1"],
         param_types={"maxUpper0": "Int", "maxUpper1": "Int", "cc0": "Int", "cc1": "Int"}, ret="Int × Int", modes=["rat"]),
    dict(gen="Prism", name="batchIndexX", file=_U, func="batch_crop_2d", select=("assign", "ix", 0),
         params_map={"xp.arange(new_shape[0])": "j", "xp.asarray(corners[:, 0, None])": "corner"}, params=["j", "corner"],
         param_types={"j": "Int", "corner": "Int"}, ret="Int", modes=["rat"]),
    dict(gen="Prism", name="batchIndexY", file=_U, func="batch_crop_2d", select=("assign", "iy", 0),
         params_map={"xp.arange(new_shape[1])": "j", "xp.asarray(corners[:, 1, None])": "corner"}, params=["j", "corner"],
         param_types={"j": "Int", "corner": "Int"}, ret="Int", modes=["rat"]),
]
EXTRA_IMPORTS = {"Prism": ["import AbtemVerif.Model.PrismPrelude", "open AbtemVerif.Prism"]}
FINGERPRINTS = {
    "wrapped_crop_2d": (_U, "wrapped_crop_2d"),
    "minimum_crop": (_U, "minimum_crop"),
    "batch_crop_2d": (_U, "batch_crop_2d"),
    "SMatrixArray._reduce_to_waves": (_S, "SMatrixArray._reduce_to_waves"),
    "SMatrixArray._calculate_positions_coefficients": (_S, "SMatrixArray._calculate_positions_coefficients"),
    "SMatrix._eager_build_s_matrix_detect": (_S, "SMatrix._eager_build_s_matrix_detect"),
    "plane_waves": (_U, "plane_waves"),
}
