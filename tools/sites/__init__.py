"""Registry of translator sites: one module per property (tools/sites/cXX.py), each
defining SITES (list of dicts), and optionally EXTRA_IMPORTS (gen module -> [import lines])
and FINGERPRINTS (name -> (file, qualname)) for hand-modelled functions."""
import importlib
import pkgutil

SITES = []
EXTRA_IMPORTS = {}
FINGERPRINTS = {}
for m in sorted(pkgutil.iter_modules(__path__), key=lambda m: m.name):
    mod = importlib.import_module(f"{__name__}.{m.name}")
    SITES += getattr(mod, "SITES", [])
    EXTRA_IMPORTS.update(getattr(mod, "EXTRA_IMPORTS", {}))
    FINGERPRINTS.update(getattr(mod, "FINGERPRINTS", {}))
