"""C07 (also used by C02/C01): scalar expressions of the exit-plane bookkeeping.

abtem/potentials/iam.py : _validate_exit_planes, BaseField._exit_plane_after, BaseField.exit_thicknesses
abtem/multislice.py     : multislice_and_detect, _validate_potential_ensemble_indices,
                          _potential_ensemble_shape_and_metadata

Only the scalar tests / arguments are generated; the list plumbing around them (range -> list, append, the pointer
loop, the measurement table) is the hand model `Model/ExitPlanes.lean` / `Model/Multislice.lean`, tied by
exhaustive / traced correspondence.
"""
_IAM = "abtem/potentials/iam.py"
_MS = "abtem/multislice.py"
_INT = {"k": "Int", "n": "Int", "last": "Int", "first": "Int", "idx": "Int", "nplanes": "Int", "i": "Int", "cur": "Int",
        "total": "Int", "hasEns": "Bool"}


def _s(name, file, func, select, params, pm, ret):
    return dict(gen="ExitPlanes", name=name, file=file, func=func, select=select, params=params, params_map=pm,
                param_types=_INT, ret=ret, modes=["rat"])


_V = {"exit_planes": "k", "num_slices": "n", "exit_planes[-1]": "last"}
SITES = [
    # _validate_exit_planes(exit_planes: int, num_slices)
    _s("vTooLarge", _IAM, "_validate_exit_planes", ("iftest", ">=", 0), ["k", "n"], _V, "Bool"),
    _s("vTooLargePlane", _IAM, "_validate_exit_planes", ("return", 0), ["k", "n"], _V, "Int"),
    _s("vRangeStart", _IAM, "_validate_exit_planes", ("callarg", "range", 0, 0), ["k", "n"], _V, "Int"),
    _s("vRangeStop", _IAM, "_validate_exit_planes", ("callarg", "range", 1, 0), ["k", "n"], _V, "Int"),
    _s("vRangeStep", _IAM, "_validate_exit_planes", ("callarg", "range", 2, 0), ["k", "n"], _V, "Int"),
    _s("vLastMissing", _IAM, "_validate_exit_planes", ("iftest", "[-1]", 0), ["last", "n"], _V, "Bool"),
    _s("vAppended", _IAM, "_validate_exit_planes", ("callarg", "append", 0, 0), ["k", "n"], _V, "Int"),
    _s("vNonePlane", _IAM, "_validate_exit_planes", ("assign", "exit_planes", 2), ["n"], _V, "Int"),
    # BaseField._exit_plane_after
    _s("aEntrance", _IAM, "BaseField._exit_plane_after", ("iftest", "[0]", 0), ["first"],
       {"exit_planes[0]": "first"}, "Bool"),
    _s("aFlag", _IAM, "BaseField._exit_plane_after", ("iftest", "exit_plane_index <", 0), ["idx", "nplanes", "i", "cur"],
       {"exit_plane_index": "idx", "len(exit_planes)": "nplanes", "i": "i", "exit_planes[exit_plane_index]": "cur"}, "Bool"),
    # BaseField.exit_thicknesses
    _s("tEntrance", _IAM, "BaseField.exit_thicknesses", ("iftest", "[0]", 0), ["first"],
       {"self.exit_planes[0]": "first"}, "Bool"),
    # multislice_and_detect
    _s("mNoTable", _MS, "multislice_and_detect", ("iftest", "extra_ensemble_axes_shape", 0), ["total", "last", "n"],
       {"sum(extra_ensemble_axes_shape)": "total", "potential.exit_planes[-1]": "last", "potential.num_slices": "n"}, "Bool"),
    _s("mReset", _MS, "multislice_and_detect", ("iftest", "i > 0", 0), ["i"], {"i": "i"}, "Bool"),
    _s("mEntrance", _MS, "multislice_and_detect", ("iftest", "exit_planes[0]", 0), ["first"],
       {"potential.exit_planes[0]": "first"}, "Bool"),
    # _validate_potential_ensemble_indices / _potential_ensemble_shape_and_metadata
    _s("iNoEns", _MS, "_validate_potential_ensemble_indices", ("iftest", "ensemble_shape", 0), ["hasEns"],
       {"potential.ensemble_shape": "hasEns"}, "Bool"),
    _s("iSinglePlane", _MS, "_validate_potential_ensemble_indices", ("iftest", "exit_planes", 0), ["nplanes"],
       {"len(potential.exit_planes)": "nplanes"}, "Bool"),
    _s("sPlaneAxis", _MS, "_potential_ensemble_shape_and_metadata", ("iftest", "exit_planes", 0), ["nplanes"],
       {"len(potential.exit_planes)": "nplanes"}, "Bool"),
]
FINGERPRINTS = {
    "_validate_exit_planes": (_IAM, "_validate_exit_planes"),
    "BaseField._exit_plane_after": (_IAM, "BaseField._exit_plane_after"),
    "BaseField.exit_thicknesses": (_IAM, "BaseField.exit_thicknesses"),
    "multislice_and_detect": (_MS, "multislice_and_detect"),
    "_update_measurements": (_MS, "_update_measurements"),
    "_validate_potential_ensemble_indices": (_MS, "_validate_potential_ensemble_indices"),
    "_potential_ensemble_shape_and_metadata": (_MS, "_potential_ensemble_shape_and_metadata"),
    "_generate_potential_configurations": (_MS, "_generate_potential_configurations"),
}
