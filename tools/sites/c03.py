"""C03: orchestration only (no translated expressions); fingerprints of the hand-modelled functions."""
SITES = []
FINGERPRINTS = {
    "_unpack_distributions": ("abtem/distributions.py", "_unpack_distributions"),
    "tuple_range_except": ("abtem/distributions.py", "tuple_range_except"),
    "EnsembleFromDistributions.ensemble_shape": ("abtem/distributions.py", "EnsembleFromDistributions.ensemble_shape"),
    "EnsembleFromDistributions._partial_transform": ("abtem/distributions.py", "EnsembleFromDistributions._partial_transform"),
    "EnsembleTransform._get_axes_metadata_from_distributions": ("abtem/transform.py", "EnsembleTransform._get_axes_metadata_from_distributions"),
    "_HasAberrations._phase_aberrations_ensemble_axes_metadata": ("abtem/transfer.py", "_HasAberrations._phase_aberrations_ensemble_axes_metadata"),
    "Aberrations._evaluate_from_angular_grid": ("abtem/transfer.py", "Aberrations._evaluate_from_angular_grid"),
    "Probe._calculate_array": ("abtem/waves.py", "Probe._calculate_array"),
    "reduce_ensemble": ("abtem/waves.py", "reduce_ensemble"),
}
