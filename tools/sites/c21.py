"""C21: the chi terms of Aberrations._evaluate_from_angular_grid, the 2π/λ scaling, complex_exponential(-x), the guard symbol
lists of `_nonzero_coefficients`, the defocus getter/setter expressions and the `polar_aliases` table (abtem/transfer.py)."""
_F = "abtem/transfer.py"
POLAR = ["C10", "C12", "phi12", "C21", "phi21", "C23", "phi23", "C30", "C32", "phi32", "C34", "phi34", "C41", "phi41",
         "C43", "phi43", "C45", "phi45", "C50", "C52", "phi52", "C54", "phi54", "C56", "phi56"]
_PM = dict({"array": "acc", "alpha": "alpha", "phi": "phi", "self.wavelength": "wavelength", "x": "x"},
           **{f"parameters['{s}']": f"p.{s}" for s in POLAR})
_PT = {"p": "PolarCoeffs Scalar"}
_AB = "Aberrations._evaluate_from_angular_grid"


def _site(name, func, select, params, file=_F, **kw):
    return dict(gen="Chi", name=name, file=file, func=func, select=select, params=params, params_map=_PM, param_types=_PT,
                ext=True, modes=["real", "float"], **kw)


SITES = (
    [_site(f"chiTerm{k}", _AB, ("assign", "array", k), ["acc", "alpha", "phi", "p"]) for k in range(1, 6)]
    + [
        _site("chiScaled", _AB, ("augassign_expr", "array", 0), ["acc", "wavelength"]),
        _site("cexpRe", "_complex_exponential", ("return", 0), ["x"], file="abtem/core/complex.py", complex_part="re"),
        _site("cexpIm", "_complex_exponential", ("return", 0), ["x"], file="abtem/core/complex.py", complex_part="im"),
        _site("aberrationRe", _AB, ("assign", "array", 6), ["acc"], calls={"complex_exponential": "cexpRe"}),
        _site("aberrationIm", _AB, ("assign", "array", 6), ["acc"], calls={"complex_exponential": "cexpIm"}),
        dict(gen="Chi", name="defocusOfC10", file=_F, func="_HasAberrations.defocus@0", select=("return", 0), params=["C10"],
             params_map={"self.C10": "C10"}, ext=True, modes=["real", "float"]),
        dict(gen="Chi", name="c10OfDefocus", file=_F, func="_HasAberrations.defocus@1", select=("assign", "self.C10", 0), params=["value"],
             params_map={"validate_distribution(value)": "value"}, ext=True, modes=["real", "float"]),
        dict(gen="Chi", name="defocusOfC10Aberrations", file=_F, func="Aberrations.defocus@0", select=("return", 0), params=["C10"],
             params_map={"self._aberration_coefficients['C10']": "C10"}, ext=True, modes=["real", "float"]),
        dict(gen="Chi", name="c10OfDefocusAberrations", file=_F, func="Aberrations.defocus@1", select=("assign", "self.C10", 0),
             params=["value"], params_map={"validate_distribution(value)": "value"}, ext=True, modes=["real", "float"]),
        dict(gen="ChiTables", name="polarAliases", file=_F, table=True, var="polar_aliases", kind="str_str_dict", modes=["rat"]),
        dict(gen="ChiTables", name="guardSymbols", file=_F, func=_AB, emitter="py2lean_ext:emit_call_tuples",
             callee="_nonzero_coefficients", modes=["rat"]),
    ]
)
EXTRA_IMPORTS = {
    "ChiR": ["import AbtemVerif.Model.PolarCoeffs"],
    "ChiF": ["import AbtemVerif.Model.PolarCoeffs"],
}
FINGERPRINTS = {
    "Aberrations._evaluate_from_angular_grid": (_F, "Aberrations._evaluate_from_angular_grid"),
    "_HasAberrations.__getattr__": (_F, "_HasAberrations.__getattr__"),
    "_HasAberrations.__setattr__": (_F, "_HasAberrations.__setattr__"),
    "_HasAberrations._nonzero_coefficients": (_F, "_HasAberrations._nonzero_coefficients"),
}
