"""C33: unit tables and the two conversion formulas of abtem/core/units.py.

`conversionFactors` is emitted twice: over Rat with `np.pi` kept as a symbolic parameter `pi`
(executable; the driver instantiates it with the float64 value of pi) and over ℝ with `Real.pi`
(`Gen/UnitsR.lean`) for the statements about degrees with the true π.
"""
_F = "abtem/core/units.py"
_PM = {
    "_conversion_factors[validated_units]": "fNew",
    "_conversion_factors[validated_old_units]": "fOld",
    "_conversion_factors[units]": "fNew",
    "_conversion_factors[old_units]": "fOld",
    "wavelength": "wavelength",
}

SITES = [
    dict(gen="Units", name="unitCategories", table=True, kind="str_strs_dict", file=_F, var="_unit_categories", modes=["rat"]),
    dict(gen="Units", name="conversionFactors", table=True, kind="str_num_dict", file=_F, var="_conversion_factors",
         params_map={"np.pi": "pi"}, params=["pi"], modes=["rat"]),
    dict(gen="Units", name="conversionFactors", table=True, kind="str_num_dict", file=_F, var="_conversion_factors",
         modes=["real"]),
    # `return _conversion_factors[validated_units] …` (last return of get_conversion_factor)
    dict(gen="Units", name="directFactor", file=_F, func="get_conversion_factor", select=("return", 2),
         params_map=_PM, params=["fNew", "fOld"], modes=["rat"]),
    dict(gen="Units", name="directFactor", file=_F, func="get_conversion_factor", select=("return", 2),
         params_map=_PM, params=["fNew", "fOld"], modes=["real"]),
    # `conversion = wavelength * 1e3 * _conversion_factors[units] …` (reciprocal space -> angle)
    dict(gen="Units", name="angularFactor", file=_F, func="get_conversion_factor", select=("assign", "conversion", 0),
         params_map=_PM, params=["wavelength", "fNew", "fOld"], modes=["rat"]),
    dict(gen="Units", name="angularFactor", file=_F, func="get_conversion_factor", select=("assign", "conversion", 0),
         params_map=_PM, params=["wavelength", "fNew", "fOld"], modes=["real"]),
]
FINGERPRINTS = {
    "units.validate_units": (_F, "validate_units"),
    "units.get_conversion_factor": (_F, "get_conversion_factor"),
    "axes.LinearAxis.convert_units": ("abtem/core/axes.py", "LinearAxis.convert_units"),
}
