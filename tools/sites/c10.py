"""C10: orchestration of potential building and slice windows (abtem/potentials/iam.py) is hand-modelled
(Pattern A, Model/Build.lean) and tied by tracing correspondence; the modelled functions are fingerprinted.
Two expressions are translated (Gen/Build.lean): the number of slices of the array allocated by the eager build and the
number of slices declared for every chunk of the lazy build."""
_W = dict(gen="Build", file="abtem/potentials/iam.py", func="_FieldBuilder.build",
          params_map={"first_slice": "first", "last_slice": "last"}, params=["first", "last"],
          param_types={"first": "Int", "last": "Int"}, ret="Int", modes=["rat"])
_C = dict(gen="Build", file="abtem/potentials/iam.py", func="CrystalPotential.generate_slices",
          params_map={"first_slice": "first", "last_slice": "last", "slice_idx": "idx"}, params=["first", "idx", "last"],
          param_types={"first": "Int", "last": "Int", "idx": "Int"}, ret="Int", modes=["rat"])
SITES = [
    # array = xp.zeros(self.ensemble_shape + (last_slice - first_slice,) + self.base_shape[1:], …)
    dict(_W, name="eagerWidth", select=("assign", "array", 1), path=["args", 0, "left", "right", "elts", 0]),
    # chunks = chunks + (last_slice - first_slice,) + self.base_shape[1:]
    dict(_W, name="lazyWidth", select=("assign", "chunks", 1), path=["left", "right", "elts", 0]),
    # _FieldBuilderFromAtoms.generate_slices: generate_chunks(last_slice - first_slice, chunks=1, start=first_slice)
    dict(_W, name="atomsCount", func="_FieldBuilderFromAtoms.generate_slices", select=("callarg", "generate_chunks", 0, 0)),
    dict(_W, name="atomsStart", func="_FieldBuilderFromAtoms.generate_slices", select=("kwarg", "start", 0)),
    # CrystalPotential.generate_slices: window test, stop test and the flag slice of the running counter
    dict(_C, name="crystalInWindow", select=("iftest", "first_slice <= slice_idx", 0), ret="Bool"),
    dict(_C, name="crystalStop", select=("iftest", "slice_idx >= last_slice", 0), ret="Bool"),
    dict(_C, name="crystalFlagLo", select=("subscript_load", "exit_plane_after", 0), path=["slice", "lower"]),
    dict(_C, name="crystalFlagHi", select=("subscript_load", "exit_plane_after", 0), path=["slice", "upper"]),
]
FINGERPRINTS = {
    "BaseField._exit_plane_after": ("abtem/potentials/iam.py", "BaseField._exit_plane_after"),
    "_validate_exit_planes": ("abtem/potentials/iam.py", "_validate_exit_planes"),
    "_FieldBuilder.build": ("abtem/potentials/iam.py", "_FieldBuilder.build"),
    "_FieldBuilder._wrap_build_potential": ("abtem/potentials/iam.py", "_FieldBuilder._wrap_build_potential"),
    "_FieldBuilderFromAtoms.generate_slices": ("abtem/potentials/iam.py", "_FieldBuilderFromAtoms.generate_slices"),
    "FieldArray.generate_slices": ("abtem/potentials/iam.py", "FieldArray.generate_slices"),
    "CrystalPotential.generate_slices": ("abtem/potentials/iam.py", "CrystalPotential.generate_slices"),
    "Ensemble.generate_blocks": ("abtem/core/ensemble.py", "Ensemble.generate_blocks"),
    "generate_chunks": ("abtem/core/chunks.py", "generate_chunks"),
}
