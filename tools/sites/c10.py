"""C10: orchestration of potential building and slice windows (abtem/potentials/iam.py) is hand-modelled
(Pattern A, Model/Build.lean) and tied by tracing correspondence; the modelled functions are fingerprinted."""
SITES = []
FINGERPRINTS = {
    "BaseField._exit_plane_after": ("abtem/potentials/iam.py", "BaseField._exit_plane_after"),
    "_validate_exit_planes": ("abtem/potentials/iam.py", "_validate_exit_planes"),
    "_FieldBuilder.build": ("abtem/potentials/iam.py", "_FieldBuilder.build"),
    "_FieldBuilder._wrap_build_potential": ("abtem/potentials/iam.py", "_FieldBuilder._wrap_build_potential"),
    "_FieldBuilderFromAtoms.generate_slices": ("abtem/potentials/iam.py", "_FieldBuilderFromAtoms.generate_slices"),
    "FieldArray.generate_slices": ("abtem/potentials/iam.py", "FieldArray.generate_slices"),
    "CrystalPotential.generate_slices": ("abtem/potentials/iam.py", "CrystalPotential.generate_slices"),
    "Ensemble.generate_blocks": ("abtem/core/ensemble.py", "Ensemble.generate_blocks"),
    "generate_chunks": ("abtem/core/chunks.py", "generate_chunks"),
}
