"""C16: the sum-preserving rescale of DiffractionPatterns._batch_interpolate_bilinear and the source-size sigma (abtem/measurements.py)."""
_MEA = "abtem/measurements.py"
_BI = "DiffractionPatterns._batch_interpolate_bilinear"

SITES = [
    dict(gen="Resample", name="newSumGuard", file=_MEA, func=_BI, select=("assign", "new_sums", 1),
         params_map={"new_sums": "newSum"}, params=["newSum"], modes=["rat"]),
    dict(gen="Resample", name="rescaleTerm", file=_MEA, func=_BI, select=("assign", "array", 3),
         params_map={"array": "a", "new_sums": "newSum", "old_sums": "oldSum"}, params=["a", "newSum", "oldSum"], modes=["rat"]),
    dict(gen="Resample", name="sourceSigmaPixels", file=_MEA, func="_gaussian_source_size", select=("augassign", "padded_sigma", 0),
         params_map={"sigma[i]": "sigma", "scan_sampling": "ss"}, params=["sigma", "ss"], modes=["rat"]),
    # interpolate(gpts=...): new sampling keeps the extent (fix 79bc3668: derived from the pattern's own sampling)
    dict(gen="Resample", name="gptsRouteSampling", file=_MEA, func="_diffraction_pattern_resampling_gpts", select=("elt", "old_n / new_n", 0),
         params_map={"d": "d", "old_n": "oldN", "new_n": "newN"}, params=["d", "oldN", "newN"], modes=["rat"]),
    # Images/measurement gaussian_filter: sigma in pixels of the image it filters
    dict(gen="Resample", name="filterSigmaPixels", file=_MEA, func="_BaseMeasurement2D.gaussian_filter", select=("elt", "s / d", 0),
         params_map={"s": "sigma", "d": "d"}, params=["sigma", "d"], modes=["rat"]),
    # Images.interpolate(sampling=...): number of grid points from the requested pixel size
    dict(gen="Resample", name="imagesGptsFromSampling", file=_MEA, func="Images.interpolate", select=("elt", "np.ceil(l / d)", 0),
         params_map={"l": "l", "d": "d"}, params=["l", "d"], ret="Int", modes=["rat"]),
]
FINGERPRINTS = {
    "_fourier_space_bilinear_nodes_and_weight": (_MEA, "_fourier_space_bilinear_nodes_and_weight"),
    "_interpolate_bilinear": (_MEA, "_interpolate_bilinear"),
    "DiffractionPatterns._batch_interpolate_bilinear": (_MEA, _BI),
    "DiffractionPatterns.interpolate": (_MEA, "DiffractionPatterns.interpolate"),
    "_gaussian_source_size": (_MEA, "_gaussian_source_size"),
    "Images.interpolate": (_MEA, "Images.interpolate"),
    "fft_interpolate": ("abtem/core/fft.py", "fft_interpolate"),
}
