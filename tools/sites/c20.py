"""C20: scan geometry (abtem/scan.py) — the arguments GridScan / LineScan hand to numpy.linspace, LineScan's gpts/sampling
arithmetic, GridScan's extent, the ScanAxis arguments; and LinearAxis.coordinates (abtem/core/axes.py)."""
_S = "abtem/scan.py"
_A = "abtem/core/axes.py"

# ---- GridScan.get_positions : np.linspace(start, end, gpts, endpoint=endpoint, dtype=…) per axis
_GP = ["start", "stop", "gpts", "endpoint"]
_GT = {"start": "Rat", "stop": "Rat", "gpts": "Int", "endpoint": "Bool"}
_GM = {"start": "start", "end": "stop", "gpts": "gpts", "endpoint": "endpoint"}  # `end` is a Lean keyword


def _grid(name, sel, ret):
    return dict(gen="Scan", name=name, file=_S, func="GridScan.get_positions", select=sel, params=_GP,
                params_map=_GM, param_types=_GT, ret=ret, modes=["rat"])


# ---- LineScan
_LP = ["sx", "sy", "ex", "ey", "extent", "gpts", "sampling", "endpoint"]
_LT = {"sx": "Rat", "sy": "Rat", "ex": "Rat", "ey": "Rat", "extent": "Rat", "gpts": "Int", "sampling": "Rat", "endpoint": "Bool"}
_LM = {"self.start[0]": "sx", "self.start[1]": "sy", "self.end[0]": "ex", "self.end[1]": "ey", "self.extent": "extent",
       "self.gpts": "gpts", "self.sampling": "sampling", "self.endpoint": "endpoint"}


def _line(name, func, sel, ret):
    return dict(gen="Scan", name=name, file=_S, func=func, select=sel, params=_LP, params_map=_LM, param_types=_LT, ret=ret,
                modes=["rat"])


# ---- GridScan.__init__ extent, GridScan.ensemble_axes_metadata
_IP = ["s0", "s1", "e0", "e1"]
_IM = {"self._start[0]": "s0", "self._start[1]": "s1", "self._end[0]": "e0", "self._end[1]": "e1"}

# ---- LinearAxis.coordinates : np.linspace(self.offset, self.offset + self.sampling * n, n, endpoint=False)
_CP = ["offset", "sampling", "n"]
_CM = {"self.offset": "offset", "self.sampling": "sampling", "n": "n"}
_CT = {"offset": "Rat", "sampling": "Rat", "n": "Int"}


def _coord(name, sel, ret):
    return dict(gen="Scan", name=name, file=_A, func="LinearAxis.coordinates", select=sel, params=_CP, params_map=_CM,
                param_types=_CT, ret=ret, modes=["rat"])


SITES = [
    _grid("gridLinStart", ("callarg", "linspace", 0, 0), "Rat"),
    _grid("gridLinStop", ("callarg", "linspace", 1, 0), "Rat"),
    _grid("gridLinNum", ("callarg", "linspace", 2, 0), "Int"),
    _grid("gridLinEndpoint", ("kwarg", "endpoint", 0), "Bool"),
    dict(gen="Scan", name="gridExtent", file=_S, func="GridScan.__init__", select=("assign", "extent", 0), params=_IP,
         params_map=_IM, ret="Rat × Rat", modes=["rat"]),
    # LineScan._adjust_gpts / _adjust_sampling
    _line("lineGpts", "LineScan._adjust_gpts", ("assign", "self._gpts", 0), "Int"),
    _line("lineUseEndpoint", "LineScan._adjust_sampling", ("iftest", "self.endpoint", 0), "Bool"),
    _line("lineSamplingEndpoint", "LineScan._adjust_sampling", ("assign", "self._sampling", 0), "Rat"),
    _line("lineSamplingOpen", "LineScan._adjust_sampling", ("assign", "self._sampling", 1), "Rat"),
    # LineScan.get_positions : x = linspace(start[0], end[0], gpts, endpoint=endpoint), y likewise
    _line("lineXStart", "LineScan.get_positions", ("callarg", "linspace", 0, 0), "Rat"),
    _line("lineXStop", "LineScan.get_positions", ("callarg", "linspace", 1, 0), "Rat"),
    _line("lineXNum", "LineScan.get_positions", ("callarg", "linspace", 2, 0), "Int"),
    _line("lineXEndpoint", "LineScan.get_positions", ("kwarg", "endpoint", 0), "Bool"),
    _line("lineYStart", "LineScan.get_positions", ("callarg", "linspace", 0, 1), "Rat"),
    _line("lineYStop", "LineScan.get_positions", ("callarg", "linspace", 1, 1), "Rat"),
    _line("lineYNum", "LineScan.get_positions", ("callarg", "linspace", 2, 1), "Int"),
    _line("lineYEndpoint", "LineScan.get_positions", ("kwarg", "endpoint", 1), "Bool"),
    # LineScan.ensemble_axes_metadata : ScanAxis(label="r", sampling=self.sampling, offset=0.0, …, endpoint=self.endpoint)
    _line("lineAxisSampling", "LineScan.ensemble_axes_metadata", ("kwarg", "sampling", 0), "Rat"),
    _line("lineAxisOffset", "LineScan.ensemble_axes_metadata", ("kwarg", "offset", 0), "Rat"),
    # GridScan.ensemble_axes_metadata : ScanAxis(label=label, sampling=sampling, offset=offset, …) over zip(("x","y"), self.sampling, self.start, self.endpoint)
    dict(gen="Scan", name="gridAxisSampling", file=_S, func="GridScan.ensemble_axes_metadata", select=("kwarg", "sampling", 0),
         params=["sampling", "offset"], params_map={"sampling": "sampling", "offset": "offset"}, ret="Rat", modes=["rat"]),
    dict(gen="Scan", name="gridAxisOffset", file=_S, func="GridScan.ensemble_axes_metadata", select=("kwarg", "offset", 0),
         params=["sampling", "offset"], params_map={"sampling": "sampling", "offset": "offset"}, ret="Rat", modes=["rat"]),
    # LinearAxis.coordinates
    _coord("coordStart", ("callarg", "linspace", 0, 0), "Rat"),
    _coord("coordStop", ("callarg", "linspace", 1, 0), "Rat"),
    _coord("coordNum", ("callarg", "linspace", 2, 0), "Int"),
    _coord("coordEndpoint", ("kwarg", "endpoint", 0), "Bool"),
]
FINGERPRINTS = {
    "GridScan.__init__": (_S, "GridScan.__init__"),
    "GridScan.get_positions": (_S, "GridScan.get_positions"),
    "GridScan.ensemble_axes_metadata": (_S, "GridScan.ensemble_axes_metadata"),
    "GridScan._adjust_extent": (_S, "GridScan._adjust_extent"),
    "LineScan.__init__": (_S, "LineScan.__init__"),
    "LineScan._adjust_gpts": (_S, "LineScan._adjust_gpts"),
    "LineScan._adjust_sampling": (_S, "LineScan._adjust_sampling"),
    "LineScan.get_positions": (_S, "LineScan.get_positions"),
    "LineScan.ensemble_axes_metadata": (_S, "LineScan.ensemble_axes_metadata"),
    "LineScan.extent": (_S, "LineScan.extent"),
    "CustomScan.__init__": (_S, "CustomScan.__init__"),
    "CustomScan.ensemble_axes_metadata": (_S, "CustomScan.ensemble_axes_metadata"),
    "BaseScan._evaluate_kernel": (_S, "BaseScan._evaluate_kernel"),
    "LinearAxis.coordinates": (_A, "LinearAxis.coordinates"),
    "fft_shift_kernel": ("abtem/core/fft.py", "fft_shift_kernel"),
}
