"""C22: polar2cartesian / cartesian2polar of abtem/transfer.py, assignment by assignment (`polar["C12"]` -> `p.C12`,
`cartesian["C12a"]` -> `c.C12a`; the `defaultdict(lambda: 0, …)` default for missing keys is glue: absent = 0)."""
_F = "abtem/transfer.py"
POLAR12 = ["C10", "C12", "phi12", "C21", "phi21", "C23", "phi23", "C30", "C32", "phi32", "C34", "phi34"]
CART = ["C10", "C12a", "C12b", "C21a", "C21b", "C23a", "C23b", "C30", "C32a", "C32b", "C34a", "C34b"]
_PMP = dict({f"polar['{s}']": f"p.{s}" for s in POLAR12}, k="p2cK")
_PMC = {f"cartesian['{s}']": f"c.{s}" for s in CART}


def _s(name, func, select, params, pm, pt):
    return dict(gen="AberrConv", name=name, file=_F, func=func, select=select, params=params, params_map=pm, param_types=pt,
                ext=True, modes=["real", "float"])


SITES = (
    [_s("p2cK", "polar2cartesian", ("assign", "k", 0), [], {}, {})]
    + [_s(f"p2c_{s}", "polar2cartesian", ("assign", f"cartesian['{s}']", 0), ["p"], _PMP, {"p": "PolarCoeffs Scalar"}) for s in CART]
    + [_s(f"c2p_{s}", "cartesian2polar", ("assign", f"polar['{s}']", 0), ["c"], _PMC, {"c": "CartesianCoeffs Scalar"}) for s in POLAR12]
)
EXTRA_IMPORTS = {
    "AberrConvR": ["import AbtemVerif.Model.PolarCoeffs"],
    "AberrConvF": ["import AbtemVerif.Model.PolarCoeffs"],
}
FINGERPRINTS = {"polar2cartesian": (_F, "polar2cartesian"), "cartesian2polar": (_F, "cartesian2polar")}
