"""C12: annular mask predicate, polar bin expressions (abtem/measurements.py), flexible detector bin count (abtem/detectors.py)."""
_MEA = "abtem/measurements.py"
_DET = "abtem/detectors.py"
_KM = {"kx[:, None]": "kx", "ky[None]": "ky", "inner": "inner", "outer": "outer"}

SITES = [
    # _annular_detector_mask: bins = (k2 >= inner**2) & (k2 < outer**2), k2 = kx² + ky²
    dict(gen="Detect", name="annularIn", file=_MEA, func="_annular_detector_mask", select=("assign", "bins", 0),
         inline={"k2": ("assign", "k2", 0)}, params_map=_KM, params=["kx", "ky", "inner", "outer"], ret="Bool", modes=["rat"]),
    # _polar_detector_bins: valid = (alpha >= inner) & (alpha < outer); the radial bin quotient; the label formula
    dict(gen="Detect", name="polarValid", file=_MEA, func="_polar_detector_bins", select=("assign", "valid", 0),
         params_map={"alpha": "alpha", "inner": "inner", "outer": "outer"}, params=["alpha", "inner", "outer"], ret="Bool",
         modes=["real"]),
    dict(gen="Detect", name="radialQuot", file=_MEA, func="_polar_detector_bins", select=("subscript_value", "radial_bins", 0),
         params_map={"alpha[valid]": "alpha", "inner": "inner", "outer": "outer", "nbins_radial": "nb"},
         params=["alpha", "inner", "outer", "nb"], modes=["real"]),
    dict(gen="Detect", name="azimuthalQuot", file=_MEA, func="_polar_detector_bins", select=("assign", "angular_bins", 0),
         params_map={"phi": "phi", "nbins_azimuthal": "na"}, params=["phi", "na"], ret="Int", modes=["real"]),
    dict(gen="Detect", name="binLabel", file=_MEA, func="_polar_detector_bins", select=("subscript_value", "bins", 0),
         params_map={"angular_bins[valid]": "a", "radial_bins[valid]": "r", "nbins_azimuthal": "na"}, params=["a", "r", "na"],
         param_types={"a": "Int", "r": "Int", "na": "Int"}, ret="Int", modes=["rat"]),
    # FlexibleAnnularDetector.nbins_radial and the limits it bins over
    dict(gen="Detect", name="flexNbins", file=_DET, func="FlexibleAnnularDetector.nbins_radial", select=("return", 0),
         params_map={"self.outer": "outer", "self.inner": "inner", "self.step_size": "step"}, params=["inner", "outer", "step"],
         ret="Int", modes=["rat"]),
    # FlexibleAnnularDetector.angular_limits (fix 6a111d1e): the binned range ends at the last whole bin
    dict(gen="Detect", name="flexLimitsRange", file=_DET, func="FlexibleAnnularDetector.angular_limits", select=("return", 0),
         inline={"nbins_radial": ("assign", "nbins_radial", 0)},
         params_map={"outer": "outer", "inner": "inner", "self.step_size": "step"}, params=["inner", "outer", "step"],
         ret="Rat × Rat", modes=["rat"]),
    # DiffractionPatterns.polar_binning: the radial sampling written to the result
    dict(gen="Detect", name="polarRadialSampling", file=_MEA, func="DiffractionPatterns.polar_binning",
         select=("assign", "radial_sampling", 0), params_map={"outer": "outer", "inner": "inner", "nbins_radial": "nb"},
         params=["inner", "outer", "nb"], modes=["rat"]),
    dict(gen="Detect", name="segmentedRadialSampling", file=_DET, func="SegmentedDetector.radial_sampling", select=("return", 0),
         params_map={"self.outer": "outer", "self.inner": "inner", "self.nbins_radial": "nb"}, params=["inner", "outer", "nb"],
         modes=["rat"]),
    # AnnularDetector._calculate_new_array passes its own offset on (fix 4901abf9)
    dict(gen="Detect", name="annularDetectOffset", file=_DET, func="AnnularDetector._calculate_new_array", select=("kwarg", "offset", 0),
         inline={"offset": ("assign", "offset", 0)},
         params_map={"(0.0, 0.0) if self.offset is None else self.offset": "offset", "self.offset": "offset"}, params=["offset"], param_types={"offset": "Rat × Rat"}, ret="Rat × Rat", modes=["rat"]),
    # _AbstractRadialDetector._calculate_new_array: pattern cropped to outer + margin for shifted detectors
    dict(gen="Detect", name="offsetCropMargin", file=_DET, func="_AbstractRadialDetector._calculate_new_array", select=("assign", "margin", 1),
         params_map={"float(np.max(np.abs(np.asarray(self._offset, dtype=float))))": "maxoff", "max(waves.angular_sampling)": "maxs"},
         params=["maxoff", "maxs"], modes=["rat"]),
    dict(gen="Detect", name="offsetCropAngle", file=_DET, func="_AbstractRadialDetector._calculate_new_array", select=("kwarg", "max_angle", 0),
         params_map={"outer": "outer", "margin": "margin"}, params=["outer", "margin"], modes=["rat"]),
]
FINGERPRINTS = {
    "_annular_detector_mask": (_MEA, "_annular_detector_mask"),
    "_polar_detector_bins": (_MEA, "_polar_detector_bins"),
    "DiffractionPatterns._radial_binning": (_MEA, "DiffractionPatterns._radial_binning"),
    "DiffractionPatterns.polar_binning": (_MEA, "DiffractionPatterns.polar_binning"),
    "DiffractionPatterns.integrate_radial": (_MEA, "DiffractionPatterns.integrate_radial"),
    "_AbstractRadialDetector._calculate_new_array": (_DET, "_AbstractRadialDetector._calculate_new_array"),
    "_AbstractRadialDetector.angular_limits": (_DET, "_AbstractRadialDetector.angular_limits"),
    "AnnularDetector._calculate_new_array": (_DET, "AnnularDetector._calculate_new_array"),
    "FlexibleAnnularDetector.detect": (_DET, "FlexibleAnnularDetector.detect"),
    "FlexibleAnnularDetector.angular_limits": (_DET, "FlexibleAnnularDetector.angular_limits"),
}
