"""C30: the axis dataclasses of abtem/core/axes.py as a generated table (theorems quantify over it); the
encode/decode closures and the packing code are hand-modelled (fingerprints)."""
SITES = [
    dict(gen="AxesClasses", name="axisClasses", file="abtem/core/axes.py", more_files=["abtem/inelastic/plasmons.py"],
         emitter="py2lean_dataclass:emit", modes=["rat"]),
]
EXTRA_IMPORTS = {"AxesClasses": ["import AbtemVerif.Model.Json"]}
FINGERPRINTS = {
    "ComputableList.to_zarr": ("abtem/array.py", "ComputableList.to_zarr"),
    "array.from_zarr": ("abtem/array.py", "from_zarr"),
    "array._from_zarr_canonical": ("abtem/array.py", "_from_zarr_canonical"),
    "ArrayObject._metadata_to_dict": ("abtem/array.py", "ArrayObject._metadata_to_dict"),
    "ArrayObject._pack_kwargs": ("abtem/array.py", "ArrayObject._pack_kwargs"),
    "ArrayObject._unpack_kwargs": ("abtem/array.py", "ArrayObject._unpack_kwargs"),
    "axes.axis_to_dict": ("abtem/core/axes.py", "axis_to_dict"),
    "axes.axis_from_dict": ("abtem/core/axes.py", "axis_from_dict"),
}
