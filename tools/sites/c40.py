"""C40: centre of mass (DiffractionPatterns._com) and gradient integration (_integrate_gradient_2d), abtem/measurements.py."""
_MEA = "abtem/measurements.py"
_COM = "DiffractionPatterns._com"
_IG = "_integrate_gradient_2d"

SITES = [
    # summands of the two first moments and the complex packing
    dict(gen="Com", name="comXTerm", file=_MEA, func=_COM, select=("method_base", "sum", 1),
         params_map={"array": "a", "x[:, None]": "x"}, params=["a", "x"], modes=["rat"]),
    dict(gen="Com", name="comYTerm", file=_MEA, func=_COM, select=("method_base", "sum", 2),
         params_map={"array": "a", "y[None]": "y"}, params=["a", "y"], modes=["rat"]),
    # normalisation by the total intensity (fix: center of mass = first moment / total, 0 for empty patterns)
    dict(gen="Com", name="comTotalGuard", file=_MEA, func=_COM, select=("assign", "total", 1),
         params_map={"total": "total"}, params=["total"], modes=["rat"]),
    dict(gen="Com", name="comXDiv", file=_MEA, func=_COM, select=("assign", "com_x", 0),
         params_map={"(array * x[:, None]).sum(axis=(-2, -1))": "m", "total": "total"}, params=["m", "total"], modes=["rat"]),
    dict(gen="Com", name="comYDiv", file=_MEA, func=_COM, select=("assign", "com_y", 0),
         params_map={"(array * y[None]).sum(axis=(-2, -1))": "m", "total": "total"}, params=["m", "total"], modes=["rat"]),
    dict(gen="Com", name="comPack", file=_MEA, func=_COM, select=("assign", "com", 0),
         params_map={"com_x": "cx", "com_y": "cy"}, params=["cx", "cy"], modes=["cplx"]),
    # gradient integration: |k|², the Fourier-space quotient
    dict(gen="Com", name="igK2", file=_MEA, func=_IG, select=("assign", "k", 0),
         params_map={"grid_ikx": "kx", "grid_iky": "ky"}, params=["kx", "ky"], modes=["cplx"]),
    dict(gen="Com", name="igThat", file=_MEA, func=_IG, select=("assign", "That", 0),
         params_map={"xp.fft.fft2(gx)": "Fgx", "xp.fft.fft2(gy)": "Fgy", "grid_ikx": "kx", "grid_iky": "ky", "k": "k"},
         params=["Fgx", "Fgy", "kx", "ky", "k"], modes=["cplx"]),
]
FINGERPRINTS = {
    "DiffractionPatterns._com": (_MEA, _COM),
    "DiffractionPatterns.center_of_mass": (_MEA, "DiffractionPatterns.center_of_mass"),
    "DiffractionPatterns.coordinates": (_MEA, "DiffractionPatterns.coordinates"),
    "_integrate_gradient_2d": (_MEA, _IG),
    "Images.integrate_gradient": (_MEA, "Images.integrate_gradient"),
}
