"""C26: Bloch-wave structure matrix, eigen-decomposition path and matrix-exponential path (abtem/bloch/dynamical.py)."""
_F = "abtem/bloch/dynamical.py"
_WL = {"energy2wavelength(energy)": "wavelength"}


def _s(name, func, select, pm, params, modes):
    return dict(gen="Bloch", name=name, file=_F, func=func, select=select, params_map=pm, params=params, modes=modes)


SITES = [
    # calculate_M_matrix: Mii = 1 / np.sqrt(1 + g[:, 2] / k0)
    _s("mii", "calculate_M_matrix", ("assign", "Mii", 0), {"g[:, 2]": "gz", "k0": "k0"}, ["gz", "k0"], ["real", "float"]),
    _s("k0Of", "calculate_M_matrix", ("assign", "k0", 0), dict(_WL), ["wavelength"], ["real", "float"]),
    # calculate_structure_matrix: A *= prefactor * Mii[None] * Mii[:, None] ; diag = 2 * 1 / wavelength * sg ; diag *= Mii
    _s("structScale", "calculate_structure_matrix", ("augassign", "A", 0),
       {"prefactor": "prefactor", "Mii[None]": "mj", "Mii[:, None]": "mi"}, ["prefactor", "mi", "mj"], ["real", "rat"]),
    _s("diagValue", "calculate_structure_matrix", ("assign", "diag", 0), dict(_WL, sg="sg"), ["wavelength", "sg"], ["real", "rat"]),
    _s("diagScale", "calculate_structure_matrix", ("augassign", "diag", 0), {"Mii": "mi"}, ["mi"], ["real", "rat"]),
    # calculate_dynamical_scattering: gamma = v * wavelength / 2.0 ; C_inv = conj(C.T) / Mii[None] ; C = Mii[:, None] * C ;
    #   exp(2.0j * pi * thickness * gamma)
    _s("gammaOf", "calculate_dynamical_scattering", ("assign", "gamma", 0), dict(_WL, v="v"), ["v", "wavelength"], ["real"]),
    _s("cinvEntry", "calculate_dynamical_scattering", ("assign", "C_inv", 0),
       {"xp.conjugate(C.T)": "cH", "Mii[None]": "mj"}, ["cH", "mj"], ["cplx"]),
    _s("cEntry", "calculate_dynamical_scattering", ("assign", "C", 0), {"Mii[:, None]": "mi", "C": "c"}, ["mi", "c"], ["cplx"]),
    _s("phaseArgScalar", "calculate_dynamical_scattering", ("callarg", "exp", 0, 0),
       {"thicknesses": "t", "gamma": "g"}, ["t", "g"], ["cplx"]),
    _s("phaseArg", "calculate_dynamical_scattering", ("callarg", "exp", 0, 1), {"thickness": "t", "gamma": "g"}, ["t", "g"], ["cplx"]),
    # calculate_scattering_matrix: S = expm(1.0j * pi * z * A * wavelength)
    _s("expmArg", "calculate_scattering_matrix", ("callarg", "expm", 0, 0), dict(_WL, z="z", A="a"), ["z", "a", "wavelength"], ["cplx"]),
    # is the matrix that is scaled in place a fresh copy? (F17)
    dict(gen="Bloch", name="structureMatrixIsCopy", file=_F, func="calculate_structure_matrix", select=("assign", "A", 1),
         emitter="py2lean_rows:emit_copy_flag", modes=["rat"]),
]
FINGERPRINTS = {
    "calculate_structure_matrix": (_F, "calculate_structure_matrix"),
    "calculate_dynamical_scattering": (_F, "calculate_dynamical_scattering"),
    "calculate_scattering_matrix": (_F, "calculate_scattering_matrix"),
    "calculate_M_matrix": (_F, "calculate_M_matrix"),
    "retrieve_structure_factor_values": ("abtem/bloch/utils.py", "retrieve_structure_factor_values"),
    "ravel_hkl": ("abtem/bloch/utils.py", "ravel_hkl"),
    "BlochWaves._calculate_array": (_F, "BlochWaves._calculate_array"),
}
