"""C32: write-set extraction (tools/py2lean_writes.py) for functions taking ASE atoms and for measurement / wave methods."""
SITES = [
    dict(gen="Writes", name="atomsWrites", file="abtem/atoms.py", emitter="py2lean_writes:emit", select="param:atoms", modes=["rat"]),
    dict(gen="Writes", name="measurementWrites", file="abtem/measurements.py", emitter="py2lean_writes:emit", select="methods", modes=["rat"]),
    dict(gen="Writes", name="potentialWrites", file="abtem/potentials/iam.py", emitter="py2lean_writes:emit", select="param_any:atoms", modes=["rat"]),
    dict(gen="Writes", name="phononWrites", file="abtem/inelastic/phonons.py", emitter="py2lean_writes:emit", select="param_any:atoms", modes=["rat"]),
    dict(gen="Writes", name="blochWrites", file="abtem/bloch/dynamical.py", emitter="py2lean_writes:emit", select="param_any:atoms", modes=["rat"]),
    dict(gen="Writes", name="operatorNames", file="abtem/array.py", emitter="py2lean_writes:emit", select="operator_names", modes=["rat"]),
    dict(gen="Writes", name="slicingWrites", file="abtem/slicing.py", emitter="py2lean_writes:emit", select="param_any:atoms", modes=["rat"]),
    dict(gen="Writes", name="chargeDensityWrites", file="abtem/potentials/charge_density.py", emitter="py2lean_writes:emit", select="param_any:atoms", modes=["rat"]),
    dict(gen="Writes", name="gpawWrites", file="abtem/potentials/gpaw.py", emitter="py2lean_writes:emit", select="param_any:atoms", modes=["rat"]),
    dict(gen="Writes", name="visualizeWrites", file="abtem/visualize/visualizations.py", emitter="py2lean_writes:emit", select="param_any:atoms", modes=["rat"]),
    dict(gen="Writes", name="magnetismWrites", file="abtem/magnetism/iam.py", emitter="py2lean_writes:emit", select="param_any:atoms", modes=["rat"]),
    dict(gen="Writes", name="arrayObjectWrites", file="abtem/array.py", emitter="py2lean_writes:emit", select="methods", modes=["rat"]),
]
FINGERPRINTS = {
    "atoms.orthogonalize_cell": ("abtem/atoms.py", "orthogonalize_cell"),
    "atoms.standardize_cell": ("abtem/atoms.py", "standardize_cell"),
    "BaseMeasurements._apply_element_wise_func": ("abtem/measurements.py", "BaseMeasurements._apply_element_wise_func"),
}
