"""C14: Fourier crop masks (abtem/core/fft.py), parity logic and max_angle -> gpts (abtem/waves.py),
frequency limits / block_direct radius / bandlimit predicate (abtem/measurements.py)."""

_FFT = "abtem/core/fft.py"
_WAV = "abtem/waves.py"
_MEA = "abtem/measurements.py"
_M1D = "_fft_interpolation_masks_1d"
_NN = {"n1": "n1", "n2": "n2"}


def _mask(name, sel, ret="Int"):
    return dict(gen="FftMasks", name=name, file=_FFT, func=_M1D, select=sel, params_map=_NN, params=["n1", "n2"],
                param_types={"n1": "Int", "n2": "Int"}, ret=ret, modes=["rat"])


_PAR = dict(gen="FftMasks", file=_WAV, func="_ensure_parity", params_map={"n": "n", "even": "even", "v": "v"},
            params=["n", "even", "v"], param_types={"n": "Int", "even": "Bool", "v": "Int"}, modes=["rat"])
_POG = dict(gen="FftMasks", file=_WAV, func="_ensure_parity_of_gpts",
            params_map={"old_gpts[0]": "old0", "old_gpts[1]": "old1"}, params=["old0", "old1"],
            param_types={"old0": "Int", "old1": "Int"}, ret="Bool", modes=["rat"])

SITES = [
    # --- _fft_interpolation_masks_1d: the five branch conditions and the eight slice bounds
    _mask("condPad", ("iftest", 0), "Bool"),
    _mask("condOne1", ("iftest", 1), "Bool"),
    _mask("condEven1", ("iftest", 2), "Bool"),
    _mask("condOne2", ("iftest", 3), "Bool"),
    _mask("condEven2", ("iftest", 4), "Bool"),
    _mask("m2EvenHead", ("slice_upper", "mask2", 0)),
    _mask("m2EvenTail", ("slice_lower", "mask2", 0)),
    _mask("m2OddHead", ("slice_upper", "mask2", 1)),
    _mask("m2OddTail", ("slice_lower", "mask2", 1)),
    _mask("m1EvenHead", ("slice_upper", "mask1", 0)),
    _mask("m1EvenTail", ("slice_lower", "mask1", 0)),
    _mask("m1OddHead", ("slice_upper", "mask1", 1)),
    _mask("m1OddTail", ("slice_lower", "mask1", 1)),
    # --- _ensure_parity: two tests, three returns
    dict(_PAR, name="parityTest0", select=("iftest", 0), ret="Bool"),
    dict(_PAR, name="parityTest1", select=("iftest", 1), ret="Bool"),
    dict(_PAR, name="parityRet0", select=("return", 0), ret="Int"),
    dict(_PAR, name="parityRet1", select=("return", 1), ret="Int"),
    dict(_PAR, name="parityRet2", select=("return", 2), ret="Int"),
    # --- _ensure_parity_of_gpts: the `even` argument of each of the six calls
    dict(_POG, name="sameEven0", select=("callarg", "_ensure_parity", 1, 0)),
    dict(_POG, name="sameEven1", select=("callarg", "_ensure_parity", 1, 1)),
    dict(_POG, name="oddEven0", select=("kwarg", "even", 0)),
    dict(_POG, name="oddEven1", select=("kwarg", "even", 1)),
    dict(_POG, name="evenEven0", select=("kwarg", "even", 2)),
    dict(_POG, name="evenEven1", select=("kwarg", "even", 3)),
    # --- BaseWaves._gpts_within_angle: the numeric branch
    dict(gen="FftMasks", name="gptsNumber", file=_WAV, func="BaseWaves._gpts_within_angle", select=("assign", "gpts", 0),
         params_map={"angle": "angle", "self.angular_sampling[0]": "s0", "self.angular_sampling[1]": "s1"},
         params=["angle", "s0", "s1"], ret="Int × Int", modes=["rat"]),
    # --- DiffractionPatterns.limits (odd / even size), block_direct radius, bandlimit predicate
    dict(gen="FftMasks", name="limitsOdd", file=_MEA, func="DiffractionPatterns.limits", select=("augassign", "limits", 0),
         params_map={"self.shape[i]": "n", "self.sampling[i]": "s"}, params=["n", "s"], param_types={"n": "Int"},
         ret="List (Rat × Rat)", modes=["rat"]),
    dict(gen="FftMasks", name="limitsEven", file=_MEA, func="DiffractionPatterns.limits", select=("augassign", "limits", 1),
         params_map={"self.shape[i]": "n", "self.sampling[i]": "s"}, params=["n", "s"], param_types={"n": "Int"},
         ret="List (Rat × Rat)", modes=["rat"]),
    dict(gen="FftMasks", name="blockDefaultRadius", file=_MEA, func="DiffractionPatterns.block_direct",
         select=("assign", "radius", 1), params_map={"max(self.angular_sampling)": "maxs"}, params=["maxs"], modes=["rat"]),
    dict(gen="FftMasks", name="blockMargin", file=_MEA, func="DiffractionPatterns.block_direct",
         select=("assign", "margin_width", 0), params_map={"max(self.angular_sampling)": "maxs"}, params=["maxs"], modes=["rat"]),
    dict(gen="Bandlimit", name="keepInner", file=_MEA, func="DiffractionPatterns._bandlimit", select=("assign", "block", 0),
         inline={"alpha": ("assign", "alpha", 0)}, params_map={"alpha_x[:, None]": "ax", "alpha_y[None]": "ay", "inner": "inner"},
         params=["ax", "ay", "inner"], ret="Bool", modes=["real"]),
    dict(gen="Bandlimit", name="keepOuter", file=_MEA, func="DiffractionPatterns._bandlimit", select=("augassign", "block", 0),
         inline={"alpha": ("assign", "alpha", 0)}, params_map={"alpha_x[:, None]": "ax", "alpha_y[None]": "ay", "outer": "outer"},
         params=["ax", "ay", "outer"], ret="Bool", modes=["real"]),
    # --- DiffractionPatterns.angular_coordinates: the un-shifted branch must undo the centring (ifftshift)
    dict(gen="FftMasks", name="unshiftedCoords", file=_MEA, func="DiffractionPatterns.angular_coordinates", select=("return", 1),
         params_map={"np.fft.ifftshift(alpha_x)": "ix", "np.fft.ifftshift(alpha_y)": "iy"}, params=["ix", "iy"],
         param_types={"ix": "List Rat", "iy": "List Rat"}, ret="List Rat × List Rat", modes=["rat"]),
    # DiffractionPatterns._crop: un-shifted patterns are cropped in storage order, shifted ones between ifftshift / fftshift
    dict(gen="FftMasks", name="cropDirectTest", file=_MEA, func="DiffractionPatterns._crop", select=("iftest", 0),
         params_map={"fftshift": "shifted"}, params=["shifted"], param_types={"shifted": "Bool"}, ret="Bool", modes=["rat"]),
    dict(gen="FftMasks", name="cropDirectReturn", file=_MEA, func="DiffractionPatterns._crop", select=("return", 0),
         params_map={"fft_crop(array, new_shape=gpts)": "direct"}, params=["direct"], param_types={"direct": "List Int"}, ret="List Int", modes=["rat"]),
]
FINGERPRINTS = {
    "_fft_interpolation_masks_1d": (_FFT, _M1D),
    "fft_interpolation_masks": (_FFT, "fft_interpolation_masks"),
    "fft_crop": (_FFT, "fft_crop"),
    "BaseWaves._diffraction_pattern": (_WAV, "BaseWaves._diffraction_pattern"),
    "BaseWaves.diffraction_patterns": (_WAV, "BaseWaves.diffraction_patterns"),
    "BaseWaves._gpts_within_angle": (_WAV, "BaseWaves._gpts_within_angle"),
    "_ensure_parity_of_gpts": (_WAV, "_ensure_parity_of_gpts"),
    "DiffractionPatterns.angular_coordinates": (_MEA, "DiffractionPatterns.angular_coordinates"),
    "DiffractionPatterns.block_direct": (_MEA, "DiffractionPatterns.block_direct"),
    "DiffractionPatterns._bandlimit": (_MEA, "DiffractionPatterns._bandlimit"),
    "DiffractionPatterns._crop": (_MEA, "DiffractionPatterns._crop"),
    "DiffractionPatterns.crop": (_MEA, "DiffractionPatterns.crop"),
}
