"""C31: Poisson noise — orchestration only (Pattern A); no formula sites, hand model fingerprints."""
SITES = []
FINGERPRINTS = {
    "noise.NoiseTransform.__init__": ("abtem/noise.py", "NoiseTransform.__init__"),
    "noise.NoiseTransform._calculate_new_array": ("abtem/noise.py", "NoiseTransform._calculate_new_array"),
    "measurements.BaseMeasurements.poisson_noise": ("abtem/measurements.py", "BaseMeasurements.poisson_noise"),
    "array.ArrayObject.apply_transform": ("abtem/array.py", "ArrayObject.apply_transform"),
    "array.ArrayObject._apply_transform": ("abtem/array.py", "ArrayObject._apply_transform"),
    "array.multi_output_blockwise": ("abtem/array.py", "multi_output_blockwise"),
    "phonons.validate_seeds": ("abtem/inelastic/phonons.py", "validate_seeds"),
}
