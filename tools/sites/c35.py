"""C35: the axis-metadata dataclasses of abtem/core/axes.py (class table: names, bases, fields, defaults)."""
_A = "abtem/core/axes.py"
SITES = [
    dict(gen="Axes", name="axisClasses", file=_A, emitter="py2lean_axes:emit_dataclass_table", modes=["rat"]),
]
EXTRA_IMPORTS = {"Axes": ["import AbtemVerif.Model.AxisValue", "open AbtemVerif.Axes"]}
FINGERPRINTS = {
    "axis_to_dict": (_A, "axis_to_dict"),
    "axis_from_dict": (_A, "axis_from_dict"),
    "AxisMetadata.to_dict": (_A, "AxisMetadata.to_dict"),
    "AxisMetadata.from_dict": (_A, "AxisMetadata.from_dict"),
    "AxisMetadata.concatenate": (_A, "AxisMetadata.concatenate"),
    "AxisMetadata.coordinates": (_A, "AxisMetadata.coordinates"),
    "OrdinalAxis.__getitem__": (_A, "OrdinalAxis.__getitem__"),
    "OrdinalAxis.concatenate": (_A, "OrdinalAxis.concatenate"),
    "OrdinalAxis.__post_init__": (_A, "OrdinalAxis.__post_init__"),
    "OrdinalAxis.coordinates": (_A, "OrdinalAxis.coordinates"),
    "safe_equality": ("abtem/core/utils.py", "safe_equality"),
}
