"""C36: abtem/distributions.py — the linspace arguments of `uniform` and `gaussian`, the Gaussian weight profile."""
_D = "abtem/distributions.py"
_UP = ["low", "high", "num_samples", "endpoint"]
_UT = {"low": "Scalar", "high": "Scalar", "num_samples": "Int", "endpoint": "Bool"}
_GP = ["sigma", "limit", "center", "num"]
_GM = {"standard_deviation[i]": "sigma", "sampling_limit[i]": "limit", "center[i]": "center", "num_samples[i]": "num"}
_GT = {"sigma": "Scalar", "limit": "Scalar", "center": "Scalar", "num": "Int"}
_WP = ["value", "center", "sigma"]
_WM = {"values": "value", "center[i]": "center", "standard_deviation[i]": "sigma"}


def _u(name, kw, ret):
    return dict(gen="Distributions", name=name, file=_D, func="uniform", select=("kwarg", kw, 0), params=_UP,
                params_map={p: p for p in _UP}, param_types=_UT, ret=ret, modes=["rat"])


def _g(name, arg, ret):
    return dict(gen="Distributions", name=name, file=_D, func="gaussian", select=("callarg", "linspace", arg, 0), params=_GP,
                params_map=_GM, param_types=_GT, ret=ret, modes=["rat"])


SITES = [
    # values = np.linspace(start=low, stop=high, num=num_samples, endpoint=endpoint)
    _u("uniformStart", "start", "Scalar"),
    _u("uniformStop", "stop", "Scalar"),
    _u("uniformNum", "num", "Int"),
    _u("uniformEndpoint", "endpoint", "Bool"),
    # values = np.linspace(-sd[i]*limit[i] + center[i], sd[i]*limit[i] + center[i], num_samples[i])
    _g("gaussLow", 0, "Scalar"),
    _g("gaussHigh", 1, "Scalar"),
    _g("gaussNum", 2, "Int"),
    # if num_samples[i] == 1: values = np.array([center[i]])       (a single sample sits at the center; fix 64524996)
    dict(gen="Distributions", name="gaussSingle", file=_D, func="gaussian", select=("iftest", "num_samples[i] == 1", 0), params=_GP,
         params_map=_GM, param_types=_GT, ret="Bool", modes=["rat"]),
    # weights = np.exp(-0.5 * (values - center[i]) ** 2 / standard_deviation[i] ** 2)      (pointwise)
    dict(gen="Distributions", name="gaussWeight", file=_D, func="gaussian", select=("assign", "weights", 0), params=_WP,
         params_map=_WM, ret="Scalar", modes=["real", "float"]),
]
FINGERPRINTS = {
    "uniform": (_D, "uniform"),
    "gaussian": (_D, "gaussian"),
    "from_values": (_D, "from_values"),
    "DistributionFromValues.__init__": (_D, "DistributionFromValues.__init__"),
    "DistributionFromValues.__neg__": (_D, "DistributionFromValues.__neg__"),
    "DistributionFromValues.divide": (_D, "DistributionFromValues.divide"),
    "MultidimensionalDistribution.values": (_D, "MultidimensionalDistribution.values"),
    "MultidimensionalDistribution.weights": (_D, "MultidimensionalDistribution.weights"),
    "MultidimensionalDistribution.__neg__": (_D, "MultidimensionalDistribution.__neg__"),
    "MultidimensionalDistribution.divide": (_D, "MultidimensionalDistribution.divide"),
    "equal_sized_chunks": ("abtem/core/chunks.py", "equal_sized_chunks"),
}
