"""C38: FFT dispatch table, dtype selection and the cached FFTW convolution test (abtem/core/fft.py, abtem/core/utils.py).

The `if` tests are translated (string literals enter through the params_map); the branch bodies — which library is called,
copies, plan creation — are hand-modelled in Model/FftDispatch.lean and tied by trace correspondence.
"""
_F = "abtem/core/fft.py"
_U = "abtem/core/utils.py"
_Y = "abtem/core/abtem.yaml"
_S = {"'mkl'": '"mkl"', "'fftw'": '"fftw"', "'numpy'": '"numpy"', "'float32'": '"float32"', "'float64'": '"float64"'}


def _t(name, file, func, sel, pm, params, ptypes):
    return dict(gen="FftDispatch", name=name, file=file, func=func, select=sel, params_map={**_S, **pm}, params=params,
                param_types=ptypes, ret="Bool", modes=["rat"])


_CFG = {"config.get('fft')": "cfg"}
_DT = {"dtype": "precision", "complex": "cplx"}
SITES = [
    _t("isMkl", _F, "_fft_dispatch", ("iftest", "config.get('fft')", 0), _CFG, ["cfg"], {"cfg": "String"}),
    _t("isFftw", _F, "_fft_dispatch", ("iftest", "config.get('fft')", 1), _CFG, ["cfg"], {"cfg": "String"}),
    _t("isNumpy", _F, "_fft_dispatch", ("iftest", "config.get('fft')", 2), _CFG, ["cfg"], {"cfg": "String"}),
    _t("dtypeTest0", _U, "get_dtype", ("iftest", 0), _DT, ["precision", "cplx"], {"precision": "String", "cplx": "Bool"}),
    _t("dtypeTest1", _U, "get_dtype", ("iftest", 1), _DT, ["precision", "cplx"], {"precision": "String", "cplx": "Bool"}),
    _t("dtypeTest2", _U, "get_dtype", ("iftest", 2), _DT, ["precision", "cplx"], {"precision": "String", "cplx": "Bool"}),
    _t("dtypeTest3", _U, "get_dtype", ("iftest", 3), _DT, ["precision", "cplx"], {"precision": "String", "cplx": "Bool"}),
    # `if array.shape != self._shape:` of CachedFFTWConvolution.__call__ (shapes are compared as opaque tokens)
    _t("cacheShapeChanged", _F, "CachedFFTWConvolution.__call__", ("iftest", "self._shape", 0),
       {"array.shape": "(some shape)", "self._shape": "cached"}, ["shape", "cached"], {"shape": "Nat", "cached": "Option Nat"}),
    # second dispatch site: FresnelPropagator.propagate routes NumPy arrays under fft=fftw to the cached FFTW convolution
    _t("propagatorUsesCachedFftw", "abtem/multislice.py", "FresnelPropagator.propagate", ("iftest", "config.get('fft')", 0),
       {**_CFG, "isinstance(waves._array, np.ndarray)": "isNumpyArray"}, ["cfg", "isNumpyArray"], {"cfg": "String", "isNumpyArray": "Bool"}),
    # `if self._fftw_objects is None:`  — translated through the params_map as an Option test
    dict(gen="FftDispatch", name="defaultFft", table=True, kind="yaml_string", file=_Y, var="fft", modes=["rat"]),
    dict(gen="FftDispatch", name="defaultPrecision", table=True, kind="yaml_string", file=_Y, var="precision", modes=["rat"]),
]
FINGERPRINTS = {
    "fft._fft_dispatch": (_F, "_fft_dispatch"),
    "fft._fftw_dispatch": (_F, "_fftw_dispatch"),
    "fft._mkl_fft_dispatch": (_F, "_mkl_fft_dispatch"),
    "fft.get_fftw_object": (_F, "get_fftw_object"),
    "fft._new_fftw_object": (_F, "_new_fftw_object"),
    "fft._fft2_convolve": (_F, "_fft2_convolve"),
    "fft.CachedFFTWConvolution.__init__": (_F, "CachedFFTWConvolution.__init__"),
    "fft.CachedFFTWConvolution.__call__": (_F, "CachedFFTWConvolution.__call__"),
    "utils.get_dtype": (_U, "get_dtype"),
    "multislice.FresnelPropagator.propagate": ("abtem/multislice.py", "FresnelPropagator.propagate"),
}
