"""C18: the arithmetic of abtem/core/chunks.py (equal_sized_chunks, fill_in_chunk_sizes, chunk_ranges, _auto_chunks)."""
_F = "abtem/core/chunks.py"
_ESC = dict(file=_F, func="equal_sized_chunks", gen="Chunks", modes=["rat"],
            params=["num_items", "num_chunks", "chunk_size"],
            params_map={"num_items": "num_items", "num_chunks": "num_chunks", "chunk_size": "chunk_size"},
            param_types={"num_items": "Int", "num_chunks": "Int", "chunk_size": "Int"})
_FILL = dict(file=_F, func="fill_in_chunk_sizes", gen="Chunks", modes=["rat"], params=["s", "c"],
             params_map={"s": "s", "c": "c"}, param_types={"s": "Int", "c": "Int"})
_AUTO = dict(file=_F, func="_auto_chunks", gen="Chunks", modes=["rat"])

SITES = [
    # equal_sized_chunks ------------------------------------------------------------------------------
    dict(_ESC, name="escNumChunks", select=("assign", "num_chunks", 0), ret="Int"),
    dict(_ESC, name="escTooMany", select=("iftest", "num_items < num_chunks", 0), ret="Bool"),
    dict(_ESC, name="escDivides", select=("iftest", "num_items % num_chunks", 0), ret="Bool"),
    dict(_ESC, name="escEven", select=("assign", "chunks", 0), ret="List Int"),
    dict(_ESC, name="escUneven", select=("assign", "chunks", 1), ret="List Int", ext=True,
         inline={"zp": ("assign", "zp", 0), "pp": ("assign", "pp", 0)}),
    # fill_in_chunk_sizes (per-dimension body, integer chunk) --------------------------------------------
    dict(_FILL, name="fillIsWhole", select=("iftest", "c == -1", 0), ret="Bool"),
    dict(_FILL, name="fillFull", select=("assign", "chunk_size", 0), ret="List Int"),
    dict(_FILL, name="fillRemTest", select=("iftest", "s % c", 0), ret="Int"),
    dict(_FILL, name="fillRem", select=("augassign", "chunk_size", 0), ret="Int"),
    # chunk_ranges: (start, stop) of one chunk from its size and the running total -------------------------
    dict(file=_F, func="chunk_ranges", gen="Chunks", modes=["rat"], name="rangeOf", select=("elt", "cumchunks", 1),
         params=["cc", "cumchunks"], params_map={"cc": "cc", "cumchunks": "cumchunks"},
         param_types={"cc": "Int", "cumchunks": "Int"}, ret="Int × Int"),
    # generate_chunks ------------------------------------------------------------------------------------
    dict(file=_F, func="generate_chunks", gen="Chunks", modes=["rat"], name="genEnd", select=("assign", "end", 0),
         params=["start", "batch"], params_map={"start": "start", "batch": "batch"},
         param_types={"start": "Int", "batch": "Int"}, ret="Int"),
    # _auto_chunks loop body -------------------------------------------------------------------------------
    dict(_AUTO, name="autoBump", select=("assign", "current_chunks[autodims[j]]", 0), params=["cur", "n"],
         params_map={"current_chunks[autodims[j]]": "cur", "shape[autodims[j]]": "n"},
         param_types={"cur": "Int", "n": "Int"}, ret="Int"),
    dict(_AUTO, name="autoExceeds", select=("iftest", "total > max_elements", 0), params=["total", "max_elements"],
         params_map={"total": "total", "max_elements": "max_elements"},
         param_types={"total": "Int", "max_elements": "Int"}, ret="Bool"),
    dict(_AUTO, name="autoIsZero", select=("iftest", "current_chunks[autodims[j]] == 0", 0), params=["cur"],
         params_map={"current_chunks[autodims[j]]": "cur"}, param_types={"cur": "Int"}, ret="Bool"),
    # assert_chunks_match_shape: the test applied to every chunk size
    dict(file=_F, func="assert_chunks_match_shape", gen="Chunks", modes=["rat"], name="chunkIsNegative", select=("elt", "cc < 0", 0),
         params=["cc"], params_map={"cc": "cc"}, param_types={"cc": "Int"}, ret="Bool"),
    # max_elements given as "auto" (dask config bytes) or as a byte string, with the dtype's itemsize
    dict(_AUTO, name="autoMaxFromConfig", select=("assign", "max_elements", 0), params=["chunk_bytes", "itemsize"],
         params_map={"chunk_bytes": "chunk_bytes", "np.dtype(dtype).itemsize": "itemsize"}, ret="Int"),
    dict(_AUTO, name="autoMaxFromString", select=("assign", "max_elements", 1), params=["nbytes", "itemsize"],
         params_map={"parse_bytes(max_elements)": "nbytes", "np.dtype(dtype).itemsize": "itemsize"}, ret="Int"),
]
FINGERPRINTS = {
    "validate_chunks": (_F, "validate_chunks"),
    "_auto_chunks": (_F, "_auto_chunks"),
    "fill_in_chunk_sizes": (_F, "fill_in_chunk_sizes"),
    "equal_sized_chunks": (_F, "equal_sized_chunks"),
    "chunk_ranges": (_F, "chunk_ranges"),
    "generate_chunks": (_F, "generate_chunks"),
    "assert_chunks_match_shape": (_F, "assert_chunks_match_shape"),
    "check_chunks_match_shape_length": (_F, "check_chunks_match_shape_length"),
}
